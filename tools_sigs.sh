#!/bin/bash
# usage: tools_sigs.sh CNN [seed]  -> prints verdict line and distinct violation signatures (known and unknown)
id=$1; seed=${2:-1}
VERIF_SEED=$seed ./check $id quick > /tmp/sigs_$id.$seed.out 2>&1
grep -E "^(HELD|VIOLATION property=.* tier|INCONCLUSIVE)" /tmp/sigs_$id.$seed.out | tail -3
cat logs/$id/*.result.json 2>/dev/null | jq -r '.violations[]?.sig' | sort | uniq -c
