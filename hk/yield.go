package verifrt

import (
	"math/rand"
	"runtime"
	"sync"
	"sync/atomic"
	"time"
)

// Modes of the yield runtime.
const (
	modeIdle int32 = iota
	modeNoise
	modeSerial
)

var (
	mode atomic.Int32

	// SiteCount is set by the generated site table (sites_gen.go) at init.
	SiteCount int
	// SiteNames maps site id -> "file:line".
	SiteNames []string

	siteHits []atomic.Int64 // per-site pass counters (allocated lazily)
	hitsOnce sync.Once
)

func ensureHits() {
	hitsOnce.Do(func() {
		n := SiteCount
		if n < 1 {
			n = 1
		}
		siteHits = make([]atomic.Int64, n+1)
	})
}

// ---------------------------------------------------------------- NOISE --

type noisePolicy struct {
	goschedPerMille int32
	hot             map[int]hotSite
	rngMu           sync.Mutex
	rng             *rand.Rand
	windowsHit      atomic.Int64
	yields          atomic.Int64
}

type hotSite struct {
	perMille int           // probability of delaying at this site
	minD     time.Duration // delay range
	maxD     time.Duration
	budget   *atomic.Int64 // remaining number of delays (bounded so runs terminate)
}

var curNoise atomic.Pointer[noisePolicy]

// NoiseConfig describes one noise policy.
type NoiseConfig struct {
	Seed            int64
	GoschedPerMille int   // base probability of runtime.Gosched at any site
	HotSites        int   // number of hot sites drawn from the candidates
	Candidates      []int // candidate site ids (nil = all sites)
	HotPerMille     int   // probability of a delay at a hot site
	MinDelay        time.Duration
	MaxDelay        time.Duration
	Budget          int64 // max delays per hot site
}

// SitesIn returns the site ids whose file name contains any of the substrings.
func SitesIn(substr ...string) []int {
	var out []int
	for id, name := range SiteNames {
		for _, s := range substr {
			if s != "" && containsStr(name, s) {
				out = append(out, id)
				break
			}
		}
	}
	return out
}

func containsStr(s, sub string) bool {
	for i := 0; i+len(sub) <= len(s); i++ {
		if s[i:i+len(sub)] == sub {
			return true
		}
	}
	return false
}

// StartNoise turns NOISE mode on with the given policy and returns the chosen
// hot sites (for evidence).
func StartNoise(c NoiseConfig) []string {
	ensureHits()
	p := &noisePolicy{goschedPerMille: int32(c.GoschedPerMille), hot: map[int]hotSite{}, rng: rand.New(rand.NewSource(c.Seed))}
	cands := c.Candidates
	if cands == nil {
		for i := 0; i < SiteCount; i++ {
			cands = append(cands, i)
		}
	}
	var names []string
	if c.MaxDelay < c.MinDelay {
		c.MaxDelay = c.MinDelay
	}
	if c.Budget <= 0 {
		c.Budget = 200
	}
	for i := 0; i < c.HotSites && len(cands) > 0; i++ {
		s := cands[p.rng.Intn(len(cands))]
		b := &atomic.Int64{}
		b.Store(c.Budget)
		p.hot[s] = hotSite{perMille: c.HotPerMille, minD: c.MinDelay, maxD: c.MaxDelay, budget: b}
		if s < len(SiteNames) {
			names = append(names, SiteNames[s])
		}
	}
	curNoise.Store(p)
	mode.Store(modeNoise)
	return names
}

// StopNoise returns to idle and reports (yields seen, delays injected).
func StopNoise() (yields, delays int64) {
	mode.Store(modeIdle)
	p := curNoise.Swap(nil)
	if p == nil {
		return 0, 0
	}
	return p.yields.Load(), p.windowsHit.Load()
}

// Yield is the injected scheduling point. Idle cost: one atomic load.
func Yield(site int) {
	switch mode.Load() {
	case modeIdle:
		return
	case modeNoise:
		noiseYield(site)
	case modeSerial:
		serialYield(site)
	}
}

// SerialOn reports whether the serial controller owns scheduling (used by the
// rewritten Lock sites).
func SerialOn() bool { return mode.Load() == modeSerial }

func noiseYield(site int) {
	p := curNoise.Load()
	if p == nil {
		return
	}
	p.yields.Add(1)
	if site >= 0 && site < len(siteHits) {
		siteHits[site].Add(1)
	}
	if h, ok := p.hot[site]; ok {
		p.rngMu.Lock()
		roll := p.rng.Intn(1000)
		var d time.Duration
		if roll < h.perMille {
			d = h.minD
			if h.maxD > h.minD {
				d += time.Duration(p.rng.Int63n(int64(h.maxD - h.minD)))
			}
		}
		p.rngMu.Unlock()
		if d > 0 && h.budget.Add(-1) >= 0 {
			p.windowsHit.Add(1)
			if d < 50*time.Microsecond {
				for i := 0; i < 20; i++ {
					runtime.Gosched()
				}
			} else {
				time.Sleep(d)
			}
			return
		}
	}
	if p.goschedPerMille > 0 {
		// cheap thread-unsafe-free pseudo random: mix the counter
		x := uint64(p.yields.Load()) * 0x9E3779B97F4A7C15
		if int32((x>>33)%1000) < p.goschedPerMille {
			runtime.Gosched()
		}
	}
}

// SiteHit returns how often a site was passed in NOISE/SERIAL mode.
func SiteHit(site int) int64 {
	if site < 0 || site >= len(siteHits) {
		return 0
	}
	return siteHits[site].Load()
}

// --------------------------------------------------------------- SERIAL --

// SerialPolicy selects how the controller picks the next thread.
type SerialPolicy int

const (
	// SerialRandom picks uniformly among runnable threads at every switch point.
	SerialRandom SerialPolicy = iota
	// SerialPCT runs the highest-priority runnable thread and lowers the
	// running thread's priority at d randomly chosen steps.
	SerialPCT
	// SerialSticky keeps running the current thread and switches with
	// probability 1/8 (long runs, few preemptions).
	SerialSticky
)

type sthread struct {
	wake chan struct{}
	done bool
	prio int
}

type serialSched struct {
	threads  []*sthread
	cur      int
	rng      *rand.Rand
	policy   SerialPolicy
	step     int
	changeAt map[int]bool
	same     int // consecutive picks of the same thread (starvation guard)
	trace    []byte
	sites    []int32
	finished chan struct{}
	maxSteps int
	aborted  bool
}

var curSerial *serialSched // only touched by the thread holding the baton

// SerialResult describes one serialized execution.
type SerialResult struct {
	Trace   []byte // thread id chosen at each switch point
	Steps   int
	Aborted bool // step budget exhausted (livelock guard) -> inconclusive
}

// RunSerial runs fns as logical threads, one at a time, switching only at
// Yield points. The calling goroutine blocks until all are done. Code outside
// fns must not pass Yield points while this runs.
func RunSerial(seed int64, policy SerialPolicy, pctDepth int, maxSteps int, fns ...func()) SerialResult {
	ensureHits()
	s := &serialSched{rng: rand.New(rand.NewSource(seed)), policy: policy, finished: make(chan struct{}), maxSteps: maxSteps, changeAt: map[int]bool{}}
	if s.maxSteps <= 0 {
		s.maxSteps = 20000
	}
	perm := s.rng.Perm(len(fns))
	for i := range fns {
		s.threads = append(s.threads, &sthread{wake: make(chan struct{}, 1), prio: perm[i] + pctDepth + 1})
	}
	if policy == SerialPCT {
		for i := 0; i < pctDepth; i++ {
			s.changeAt[s.rng.Intn(200)] = true
		}
	}
	curSerial = s
	mode.Store(modeSerial)
	for i, fn := range fns {
		i, fn := i, fn
		go func() {
			<-s.threads[i].wake
			fn()
			// thread finished: hand the baton on
			s.threads[i].done = true
			next := s.pick(true)
			if next < 0 {
				close(s.finished)
				return
			}
			s.cur = next
			s.threads[next].wake <- struct{}{}
		}()
	}
	first := s.pick(true)
	s.cur = first
	s.threads[first].wake <- struct{}{}
	<-s.finished
	mode.Store(modeIdle)
	curSerial = nil
	return SerialResult{Trace: s.trace, Steps: s.step, Aborted: s.aborted}
}

// pick chooses the next thread; mustSwitch is set when the current one is done.
func (s *serialSched) pick(mustSwitch bool) int {
	var runnable []int
	for i, t := range s.threads {
		if !t.done {
			runnable = append(runnable, i)
		}
	}
	if len(runnable) == 0 {
		return -1
	}
	s.step++
	if s.step > s.maxSteps {
		s.aborted = true
	}
	choice := -1
	switch s.policy {
	case SerialRandom:
		choice = runnable[s.rng.Intn(len(runnable))]
	case SerialSticky:
		if !mustSwitch && s.rng.Intn(8) != 0 && s.same < 64 {
			choice = s.cur
		} else {
			choice = runnable[s.rng.Intn(len(runnable))]
		}
	case SerialPCT:
		if s.changeAt[s.step] && !mustSwitch {
			// lower the running thread below everyone
			min := 1 << 30
			for _, t := range s.threads {
				if t.prio < min {
					min = t.prio
				}
			}
			s.threads[s.cur].prio = min - 1
		}
		best := -1
		for _, i := range runnable {
			if best < 0 || s.threads[i].prio > s.threads[best].prio {
				best = i
			}
		}
		choice = best
		// starvation guard: a spinning top-priority thread must let others run
		if s.same >= 64 && len(runnable) > 1 {
			for {
				c := runnable[s.rng.Intn(len(runnable))]
				if c != s.cur {
					choice = c
					break
				}
			}
		}
	}
	if s.aborted && len(runnable) > 1 {
		// after the budget: round-robin so that everything terminates
		choice = runnable[s.step%len(runnable)]
	}
	if choice == s.cur {
		s.same++
	} else {
		s.same = 0
	}
	if len(s.trace) < 4096 {
		s.trace = append(s.trace, byte(choice))
	}
	return choice
}

func serialYield(site int) {
	s := curSerial
	if s == nil {
		return
	}
	if site >= 0 && site < len(siteHits) {
		siteHits[site].Add(1)
	}
	me := s.cur
	next := s.pick(false)
	if next == me || next < 0 {
		return
	}
	s.cur = next
	s.threads[next].wake <- struct{}{}
	<-s.threads[me].wake
}
