// Package verifrt is the harness-side runtime of the /verif machinery. It is
// added to the repository at build time through `go test -overlay` (as
// internal/verifrt) and never committed there. It has no dependency on the
// repository so that instrumented sources can import it.
package verifrt

import (
	"encoding/json"
	"fmt"
	"hash/fnv"
	"math/rand"
	"os"
	"runtime"
	"sort"
	"strconv"
	"strings"
	"sync"
	"testing"
	"time"
)

// Violation is one refuting observation.
type Violation struct {
	// Sig is a stable, machine-matchable signature: "<kind>:<key facts>".
	Sig    string `json:"sig"`
	Detail any    `json:"detail"`
}

// Result is what one child process (one batch) reports to the driver.
type Result struct {
	ID          string           `json:"id"`
	Seed        int64            `json:"seed"`
	Tier        string           `json:"tier"`
	Batch       int              `json:"batch"`
	NBatch      int              `json:"nbatch"`
	Evaluations int64            `json:"evaluations"`
	Hashes      []string         `json:"hashes"`
	HashCount   int              `json:"hash_count"`
	Samples     []any            `json:"samples"`
	Violations  []Violation      `json:"violations"`
	Counters    map[string]int64 `json:"counters"`
	Notes       []string         `json:"notes"`
	Inconclusive []string        `json:"inconclusive"`
	Rule        string           `json:"rule"`
	Assumptions []string         `json:"assumptions"`
	WallS       float64          `json:"wall_s"`
	Done        bool             `json:"done"`
}

// Run is the per-test handle.
type Run struct {
	T      *testing.T
	ID     string
	Seed   int64
	Tier   string
	Batch  int
	NBatch int

	mu       sync.Mutex
	res      Result
	hashes   map[uint64]struct{}
	vsigs    map[string]int
	start    time.Time
	out      string
	maxHash  int
}

func envInt(name string, def int64) int64 {
	if v := os.Getenv(name); v != "" {
		if n, err := strconv.ParseInt(v, 10, 64); err == nil {
			return n
		}
	}
	return def
}

// Start reads the driver's environment. Without it, defaults give a small
// stand-alone run that prints its summary.
func Start(t *testing.T, id string) *Run {
	r := &Run{
		T:      t,
		ID:     id,
		Seed:   envInt("VERIF_SEED", 1),
		Tier:   os.Getenv("VERIF_TIER"),
		Batch:  int(envInt("VERIF_BATCH", 0)),
		NBatch: int(envInt("VERIF_NBATCH", 1)),
		hashes: map[uint64]struct{}{},
		vsigs:  map[string]int{},
		start:  time.Now(),
		out:    os.Getenv("VERIF_OUT"),
		maxHash: 400000,
	}
	if r.Tier == "" {
		r.Tier = "quick"
	}
	if r.NBatch < 1 {
		r.NBatch = 1
	}
	r.res = Result{ID: id, Seed: r.Seed, Tier: r.Tier, Batch: r.Batch, NBatch: r.NBatch, Counters: map[string]int64{}}
	// write a first, not-done result so that a crash leaves a trace of the batch
	r.flush(false)
	return r
}

// Quick reports whether this is the quick tier.
func (r *Run) Quick() bool { return r.Tier != "thorough" }

// BatchSeed is the derived seed of this batch.
func (r *Run) BatchSeed() int64 {
	h := fnv.New64a()
	fmt.Fprintf(h, "%s/%d/%d/%s", r.ID, r.Seed, r.Batch, r.Tier)
	return int64(h.Sum64() & 0x7fffffffffffffff)
}

// Rand returns a PRNG for this batch; sub distinguishes independent streams.
func (r *Run) Rand(sub int64) *rand.Rand {
	return rand.New(rand.NewSource(r.BatchSeed() ^ (sub * 0x9E3779B97F4A7C)))
}

// N returns this batch's share of a tier-wide case count.
func (r *Run) N(quick, thorough int) int {
	n := quick
	if !r.Quick() {
		n = thorough
	}
	share := n / r.NBatch
	if r.Batch < n%r.NBatch {
		share++
	}
	if share < 1 {
		share = 1
	}
	return share
}

// Pick returns quick or thorough value.
func (r *Run) Pick(quick, thorough int) int {
	if r.Quick() {
		return quick
	}
	return thorough
}

// Hash64 hashes a string.
func Hash64(s string) uint64 {
	h := fnv.New64a()
	h.Write([]byte(s))
	return h.Sum64()
}

// Case records one evaluated case. key identifies the case for distinctness;
// nontrivial says whether it counts by the check's stated rule.
func (r *Run) Case(key string, nontrivial bool) {
	r.CaseH(Hash64(key), nontrivial)
}

// CaseH is Case with a precomputed hash.
func (r *Run) CaseH(h uint64, nontrivial bool) {
	r.mu.Lock()
	r.res.Evaluations++
	if nontrivial && len(r.hashes) < r.maxHash {
		r.hashes[h] = struct{}{}
	}
	r.mu.Unlock()
}

// Sample keeps up to five written-out cases.
func (r *Run) Sample(v any) {
	r.mu.Lock()
	if len(r.res.Samples) < 5 {
		r.res.Samples = append(r.res.Samples, v)
	}
	r.mu.Unlock()
}

// Violation records a refuting observation. At most 20 per signature and 200
// overall are kept in detail; all are counted.
func (r *Run) Violation(sig string, detail any) {
	r.mu.Lock()
	r.vsigs[sig]++
	n := r.vsigs[sig]
	if n <= 3 && len(r.res.Violations) < 200 {
		r.res.Violations = append(r.res.Violations, Violation{Sig: sig, Detail: detail})
	}
	r.res.Counters["violations_total"]++
	r.mu.Unlock()
	if n <= 3 {
		r.flush(false)
	}
}

// Violationf is Violation with a formatted detail string.
func (r *Run) Violationf(sig string, format string, args ...any) {
	r.Violation(sig, fmt.Sprintf(format, args...))
}

// Count adds to a named counter (events seen, windows hit, ...).
func (r *Run) Count(name string, d int64) {
	r.mu.Lock()
	r.res.Counters[name] += d
	r.mu.Unlock()
}

// Max keeps the maximum of a named counter.
func (r *Run) Max(name string, v int64) {
	r.mu.Lock()
	if v > r.res.Counters[name] {
		r.res.Counters[name] = v
	}
	r.mu.Unlock()
}

// Note adds free text to the evidence.
func (r *Run) Note(format string, args ...any) {
	r.mu.Lock()
	if len(r.res.Notes) < 50 {
		r.res.Notes = append(r.res.Notes, fmt.Sprintf(format, args...))
	}
	r.mu.Unlock()
}

// Inconclusive marks the batch as not deciding (watchdog, floor not reached).
func (r *Run) Inconclusive(format string, args ...any) {
	r.mu.Lock()
	r.res.Inconclusive = append(r.res.Inconclusive, fmt.Sprintf(format, args...))
	r.mu.Unlock()
}

// Rule sets the generation / non-triviality rule text.
func (r *Run) Rule(s string) { r.mu.Lock(); r.res.Rule = s; r.mu.Unlock() }

// Assume records a trusted assumption.
func (r *Run) Assume(s string) {
	r.mu.Lock()
	r.res.Assumptions = append(r.res.Assumptions, s)
	r.mu.Unlock()
}

// Distinct returns the number of distinct non-trivial cases so far.
func (r *Run) Distinct() int { r.mu.Lock(); defer r.mu.Unlock(); return len(r.hashes) }

// Finish writes the final result.
func (r *Run) Finish() { r.flush(true) }

func (r *Run) flush(done bool) {
	r.mu.Lock()
	defer r.mu.Unlock()
	r.res.Done = done
	r.res.WallS = time.Since(r.start).Seconds()
	r.res.HashCount = len(r.hashes)
	if done {
		hs := make([]string, 0, len(r.hashes))
		for h := range r.hashes {
			hs = append(hs, strconv.FormatUint(h, 36))
		}
		sort.Strings(hs)
		r.res.Hashes = hs
	}
	if r.out == "" {
		if done {
			fmt.Printf("verifrt: %s seed=%d tier=%s evaluations=%d distinct=%d violations=%d counters=%v\n",
				r.ID, r.Seed, r.Tier, r.res.Evaluations, len(r.hashes), len(r.res.Violations), r.res.Counters)
			for _, v := range r.res.Violations {
				b, _ := json.Marshal(v)
				fmt.Printf("verifrt: VIOLATION %s\n", b)
			}
		}
		return
	}
	b, err := json.Marshal(&r.res)
	if err != nil {
		// a detail that does not marshal must not lose the verdict
		for i := range r.res.Violations {
			r.res.Violations[i].Detail = fmt.Sprintf("%+v", r.res.Violations[i].Detail)
		}
		for i := range r.res.Samples {
			r.res.Samples[i] = fmt.Sprintf("%+v", r.res.Samples[i])
		}
		b, _ = json.Marshal(&r.res)
	}
	tmp := r.out + ".tmp"
	if err := os.WriteFile(tmp, b, 0o644); err == nil {
		os.Rename(tmp, r.out)
	}
}

// GoID returns the current goroutine id (slow path; only for witnesses).
func GoID() int64 {
	var buf [64]byte
	n := runtime.Stack(buf[:], false)
	s := strings.TrimPrefix(string(buf[:n]), "goroutine ")
	if i := strings.IndexByte(s, ' '); i > 0 {
		id, _ := strconv.ParseInt(s[:i], 10, 64)
		return id
	}
	return -1
}

// Stack returns the current goroutine's stack, trimmed.
func Stack() string {
	buf := make([]byte, 8192)
	n := runtime.Stack(buf, false)
	return string(buf[:n])
}

// WaitUntil polls cond until it holds or the (generous) deadline passes. It
// returns whether cond held. It is a watchdog, never an oracle.
func WaitUntil(d time.Duration, cond func() bool) bool {
	deadline := time.Now().Add(d)
	sleep := 50 * time.Microsecond
	for {
		if cond() {
			return true
		}
		if time.Now().After(deadline) {
			return cond()
		}
		time.Sleep(sleep)
		if sleep < 5*time.Millisecond {
			sleep *= 2
		}
	}
}

// Hash64s formats an int64 compactly (for case keys).
func Hash64s(v int64) string { return strconv.FormatInt(v, 36) }
