#!/bin/bash
# Builds the /verif driver offline. `./setup.sh` also pre-builds the test binaries
# for /repo's current tree (warm cache); `./setup.sh build-only` builds just the driver.
set -eu
cd "$(dirname "$0")"
GO=/root/go/pkg/mod/golang.org/toolchain@v0.0.1-go1.26.0.linux-amd64/bin/go
[ -x "$GO" ] || GO=go
export GOFLAGS=-mod=mod GOTOOLCHAIN=local GOPROXY=off GOSUMDB=off GOWORK=off
mkdir -p bin evidence
"$GO" build -o bin/vcheck ./cmd/vcheck
if [ "${1:-}" != "build-only" ]; then
  bin/vcheck build-all x
fi
