#!/usr/bin/env python3
"""Regenerates the generated part of DESIGN.md (between the GENERATED markers):
per-check as-built summary (from checks.d), findings table (from known_findings.json),
seeded-change table (from seeded/*/meta.json) and the self-test index (selftest/*.md)."""
import json, glob, os, re

V = '/verif'
out = []
out.append('### 10.3 Checks as built (generated from checks.d/*.json)\n')
out.append('| id | level | units (package:variant x quick batches) | what the monitors decide |')
out.append('|----|-------|------------------------------------------|--------------------------|')
for f in sorted(glob.glob(V + '/checks.d/C*.json')):
    c = json.load(open(f))
    units = ', '.join('%s:%s x%d' % (u['pkg'], u['variant'], u.get('batches_quick', 1)) for u in c['units'])
    text = c.get('text', '').replace('|', '/').replace('\n', ' ')
    out.append('| %s | %s | %s | %s |' % (c['id'], c['level'], units, text))
out.append('')
out.append('### 10.4 Findings (generated from known_findings.json)\n')
out.append('`known` entries print `KNOWN-FINDING:` and do not fail the check; every other signature of the same property is still a `VIOLATION`. `fixed` entries suppress nothing.\n')
out.append('| id | property | status | signature (regex) | what |')
out.append('|----|----------|--------|-------------------|------|')
for e in json.load(open(V + '/known_findings.json')):
    st = e['status'] + (' `%s`' % e['commit'] if e.get('commit') else '')
    out.append('| %s | %s | %s | `%s` | %s |' % (e['id'], e['property'], st, e['sig_regex'].replace('|', '\\|'), e['what'].replace('|', '/')))
out.append('')
out.append('### 10.5 Independently seeded changes (generated from seeded/*/meta.json)\n')
out.append('Each change was produced by a sub-agent that saw only the property text and a scratch worktree; kept after the demonstration was confirmed. "checked_by" is what was run against it.\n')
out.append('| seeded change | property | verdict | what it does / needs | how it was checked |')
out.append('|---------------|----------|---------|----------------------|--------------------|')
for d in sorted(glob.glob(V + '/seeded/*')):
    mp = os.path.join(d, 'meta.json')
    if not os.path.exists(mp):
        continue
    try:
        m = json.load(open(mp))
    except Exception:
        continue
    def s(x):
        if isinstance(x, (list, dict)):
            x = json.dumps(x)
        return str(x or '').replace('|', '/').replace('\n', ' ')[:400]
    out.append('| %s | %s | %s | %s — needs: %s | %s |' % (os.path.basename(d), s(m.get('property')), s(m.get('check_verdict')), s(m.get('summary')), s(m.get('needs')), s(m.get('checked_by'))))
out.append('')
out.append('### 10.6 Self-tests with hand-seeded breaks\n')
out.append('Per-property notes (break, diff summary, whether `quick` caught it) are in `selftest/<ID>.md`: ' + ', '.join(sorted(os.path.basename(f)[:-3] for f in glob.glob(V + '/selftest/C*.md'))) + '.\n')
gen = '\n'.join(out)
p = V + '/DESIGN.md'
s = open(p).read()
B, E = '<!-- GENERATED:BEGIN -->', '<!-- GENERATED:END -->'
if B in s:
    s = s[:s.index(B)] + B + '\n' + gen + '\n' + E + s[s.index(E) + len(E):]
else:
    s = s.rstrip('\n') + '\n\n' + B + '\n' + gen + '\n' + E + '\n'
open(p, 'w').write(s)
print('rendered', len(gen))
