#!/usr/bin/env python3
"""Compares a `go test -json` run of /repo (hooks off) with /root/.vp/BASELINE.json:
every test in stable_pass must have passed."""
import json, sys
run = sys.argv[1] if len(sys.argv) > 1 else '/tmp/baseline_run.json'
base = json.load(open('/root/.vp/BASELINE.json'))
stable = set(base['stable_pass'])
res = {}
for line in open(run, errors='replace'):
    line = line.strip()
    if not line.startswith('{'):
        continue
    try:
        e = json.loads(line)
    except Exception:
        continue
    if e.get('Test') and e.get('Action') in ('pass', 'fail', 'skip'):
        res[e['Package'] + '::' + e['Test']] = e['Action']
missing = sorted(t for t in stable if t not in res)
failed = sorted(t for t in stable if res.get(t) == 'fail')
skipped = sorted(t for t in stable if res.get(t) == 'skip')
print('stable_pass:', len(stable), 'seen:', len(res), 'passed of stable:', sum(1 for t in stable if res.get(t) == 'pass'))
print('FAILED stable tests:', len(failed))
for t in failed[:60]:
    print('  FAIL', t)
print('MISSING stable tests (not run / package build failure / timeout):', len(missing))
for t in missing[:40]:
    print('  MISSING', t)
print('SKIPPED stable tests:', len(skipped))
