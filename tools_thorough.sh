#!/bin/bash
# usage: tools_thorough.sh <seed> <out> ID...  -> runs thorough for each id, appends verdict lines
seed=$1; out=$2; shift 2
cd /verif
for id in "$@"; do
  echo "=== $id thorough seed=$seed $(date +%H:%M:%S)" >> $out
  VERIF_SEED=$seed ./check $id thorough > /tmp/thor_$id.$seed.out 2>&1
  grep -E "^(HELD|VIOLATION property=.* tier|INCONCLUSIVE|KNOWN-FINDING)" /tmp/thor_$id.$seed.out | cut -c1-200 | tail -6 >> $out
  grep -E "^  sig=" /tmp/thor_$id.$seed.out | sort -u | head -10 >> $out
  mkdir -p /verif/evidence_thorough && cp /verif/evidence/$id.json /verif/evidence_thorough/$id.json 2>/dev/null
done
echo "=== DONE $(date +%H:%M:%S)" >> $out
