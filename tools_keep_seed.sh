#!/bin/bash
# usage: tools_keep_seed.sh <name e.g. C20> <property> <caught|missed-then-caught|missed> "<what I ran / result>"
# copies an independently produced seeded change into /verif/seeded/<name>/ and removes its scratch worktree
name=$1; prop=$2; verdict=$3; ran=$4
src=/root/mut/out/$name
dst=/verif/seeded/$name
mkdir -p $dst
cp -r $src/* $dst/ 2>/dev/null
python3 - "$dst" "$prop" "$verdict" "$ran" <<'PY'
import json,sys,os
dst,prop,verdict,ran=sys.argv[1:5]
p=os.path.join(dst,'meta.json')
try: m=json.load(open(p))
except Exception: m={}
m['property']=prop
m['check_verdict']=verdict
m['checked_by']=ran
json.dump(m,open(p,'w'),indent=1)
PY
git -C /repo worktree remove --force /tmp/mut-$name 2>/dev/null
rm -rf /tmp/verif-out/tmp_mut-$name
echo kept $dst
