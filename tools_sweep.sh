#!/bin/bash
# usage: tools_sweep.sh <seed> <out> ID...   -> runs quick for each id, appends verdict + signature histogram
seed=$1; out=$2; shift 2
cd /verif
for id in "$@"; do
  echo "=== $id seed=$seed $(date +%H:%M:%S)" >> $out
  VERIF_SEED=$seed ./check $id quick > /tmp/sweep_$id.$seed.out 2>&1
  grep -E "^(HELD|VIOLATION property=.* tier|INCONCLUSIVE)" /tmp/sweep_$id.$seed.out | tail -4 >> $out
  cat logs/$id/*.result.json 2>/dev/null | jq -r '.violations[]?.sig' | sort | uniq -c >> $out
  grep -E "^VIOLATION property=.*replay" -A1 /tmp/sweep_$id.$seed.out | grep "sig=" | sed 's/^/   UNMATCHED /' >> $out
done
echo "=== DONE $(date +%H:%M:%S)" >> $out
