//go:build verif

package crdt

import (
	"fmt"
	"math/rand"
	"sort"
	"strings"
	"testing"

	"github.com/tochemey/goakt/v4/internal/verifrt"
)

// c38Checker evaluates the join laws on pairs / triples of jointly reachable states.
type c38Checker struct {
	r    *verifrt.Run
	seen map[uint64]struct{}
}

func c38Label(kind, lwwMode int) string {
	if kind == c38KLWW {
		return c38KindNames[kind] + c38LWWDomainNames[lwwMode]
	}
	return c38KindNames[kind]
}

// c38DiffClass says where two observable values of one type differ (keeps
// signatures specific without putting states into them).
func c38DiffClass(x, y ReplicatedData) string {
	xm, ok1 := x.(*ORMap)
	ym, ok2 := y.(*ORMap)
	if !ok1 || !ok2 {
		return "value"
	}
	kx, ky := xm.Keys(), ym.Keys()
	sx := make([]string, len(kx))
	for i, k := range kx {
		sx[i] = c38ElemStr(k)
	}
	sy := make([]string, len(ky))
	for i, k := range ky {
		sy[i] = c38ElemStr(k)
	}
	sort.Strings(sx)
	sort.Strings(sy)
	if strings.Join(sx, ",") != strings.Join(sy, ",") {
		return "key-set"
	}
	for _, k := range kx {
		vx, _ := xm.Get(k)
		vy, _ := ym.Get(k)
		if c38Val(vx) != c38Val(vy) {
			return "nested-value"
		}
	}
	return "value"
}

type c38Wit struct {
	History string   `json:"history"`
	Slots   []int    `json:"slots"`
	States  []string `json:"states_raw"`
	Values  []string `json:"states_value"`
	Got     any      `json:"got"`
}

func c38MkWit(hist func() string, slots []int, sts []ReplicatedData, got any) c38Wit {
	w := c38Wit{History: hist(), Slots: slots, Got: got}
	for _, s := range sts {
		w.States = append(w.States, c38Raw(s))
		w.Values = append(w.Values, c38Val(s))
	}
	return w
}

// pair checks commutativity, idempotence, absorption (a ⊑ a⊔b), observable
// inflation, and that Merge / Clone / later ops leave their inputs untouched.
// probe is an op (with the node performing it) used to mutate derived objects.
func (c *c38Checker) pair(label string, kind int, a, b ReplicatedData, slots []int, probe c38Op, probeNode string, hist func() string) {
	ra, rb := c38Raw(a), c38Raw(b)
	if ra > rb {
		a, b, ra, rb = b, a, rb, ra
		slots = []int{slots[1], slots[0]}
	}
	key := verifrt.Hash64("P|" + label + "|" + ra + "|" + rb)
	if _, dup := c.seen[key]; dup {
		c.r.Count("pairs_skipped_duplicate", 1)
		return
	}
	c.seen[key] = struct{}{}
	r := c.r
	da, db := c38Deep(a), c38Deep(b)
	sts := []ReplicatedData{a, b}

	ab := a.Merge(b)
	ba := b.Merge(a)
	r.Count("merges", 2)
	vab, vba := c38Val(ab), c38Val(ba)
	if vab != vba {
		r.Violation("merge-not-commutative:"+label+":"+c38DiffClass(ab, ba), c38MkWit(hist, slots, sts, map[string]string{"a_merge_b": vab, "b_merge_a": vba}))
	} else if c38Raw(ab) != c38Raw(ba) {
		r.Count("metadata_divergence_commutativity", 1)
	}
	// idempotence on the inputs and on the result
	for i, x := range []ReplicatedData{a, b, ab} {
		xx := x.Merge(x)
		r.Count("merges", 1)
		if c38Val(xx) != c38Val(x) {
			r.Violation("merge-not-idempotent:"+label+":"+c38DiffClass(xx, x), c38MkWit(hist, slots, sts, map[string]any{"which": []string{"a", "b", "a_merge_b"}[i], "x": c38Val(x), "x_merge_x": c38Val(xx)}))
		} else if c38Raw(xx) != c38Raw(x) {
			r.Count("metadata_divergence_idempotence", 1)
		}
	}
	// absorption: the inputs are below the result
	for i, x := range []ReplicatedData{a, b} {
		for _, y := range []ReplicatedData{ab.Merge(x), x.Merge(ab)} {
			r.Count("merges", 1)
			if c38Val(y) != vab {
				r.Violation("merge-result-not-above-input:"+label+":"+c38DiffClass(y, ab), c38MkWit(hist, slots, sts, map[string]any{"input": []string{"a", "b"}[i], "a_merge_b": vab, "merged_again_with_input": c38Val(y)}))
			} else if c38Raw(y) != c38Raw(ab) {
				r.Count("metadata_divergence_absorption", 1)
			}
		}
	}
	// observable inflation
	if s := c38Shrinks(a, ab, b); s != "" {
		r.Violation("merge-shrinks-information:"+label, c38MkWit(hist, slots, sts, map[string]string{"lost_from": "a", "what": s, "a_merge_b": vab}))
	}
	if s := c38Shrinks(b, ab, a); s != "" {
		r.Violation("merge-shrinks-information:"+label, c38MkWit(hist, slots, sts, map[string]string{"lost_from": "b", "what": s, "a_merge_b": vab}))
	}
	if s := c38Shrinks(b, ba, a); s != "" {
		r.Violation("merge-shrinks-information:"+label, c38MkWit(hist, slots, sts, map[string]string{"lost_from": "b", "what": s, "b_merge_a": vba}))
	}
	// inputs untouched by Merge
	if c38Deep(a) != da || c38Deep(b) != db {
		r.Violation("merge-modifies-input:"+label, c38MkWit(hist, slots, sts, map[string]string{"a_before": da, "a_after": c38Deep(a), "b_before": db, "b_after": c38Deep(b)}))
		da, db = c38Deep(a), c38Deep(b)
	}
	// Clone: same value, input untouched, and independent of the original
	cl := a.Clone()
	if c38Val(cl) != c38Val(a) || c38Raw(cl) != ra {
		r.Violation("clone-differs:"+label, c38MkWit(hist, slots, sts, map[string]string{"clone_raw": c38Raw(cl), "clone_value": c38Val(cl)}))
	} else if c38Deep(cl) != da {
		r.Count("metadata_divergence_clone", 1)
	}
	if s, ok := a.(*ORSet); ok {
		cs := cl.(*ORSet)
		for e, ds := range s.entries {
			if cd := cs.entries[e]; len(ds) > 0 && len(cd) > 0 && &ds[0] == &cd[0] {
				r.Count("clone_aliased_dot_slices", 1)
			}
		}
	}
	_ = c38ApplyData(kind, cl, probeNode, probe, 0)
	cl.ResetDelta()
	_ = cl.Delta()
	if c38Deep(a) != da {
		r.Violation("clone-shares-state-with-input:"+label, c38MkWit(hist, slots, sts, map[string]string{"probe": probe.str(kind, 0), "a_before": da, "a_after": c38Deep(a)}))
		da = c38Deep(a)
	}
	// the merge result is independent of its inputs
	ab2 := c38ApplyData(kind, ab, probeNode, probe, 0)
	ab.ResetDelta()
	_ = ab2.Merge(ab)
	if cp, ok := ab2.(Compactable); ok {
		_ = cp.CompactData()
	}
	if c38Deep(a) != da || c38Deep(b) != db {
		r.Violation("merge-result-shares-state-with-input:"+label, c38MkWit(hist, slots, sts, map[string]string{"probe": probe.str(kind, 0), "a_before": da, "a_after": c38Deep(a), "b_before": db, "b_after": c38Deep(b)}))
	}
	rab := c38Raw(ab)
	r.CaseH(key, rab != ra && rab != rb)
}

// successor checks that a replica's current state absorbs its own earlier state
// e (cur was reached from e by local ops and merges only): merging the stale
// copy back must not revert anything, in particular not a remove or overwrite.
func (c *c38Checker) successor(label string, e, cur ReplicatedData, slot int, hist func() string, what string) {
	re, rc := c38Raw(e), c38Raw(cur)
	if re == rc {
		return
	}
	key := verifrt.Hash64("S|" + label + "|" + re + "|" + rc)
	if _, dup := c.seen[key]; dup {
		return
	}
	c.seen[key] = struct{}{}
	r := c.r
	vc := c38Val(cur)
	for i, m := range []ReplicatedData{e.Merge(cur), cur.Merge(e)} {
		r.Count("merges", 1)
		if vm := c38Val(m); vm != vc {
			r.Violation("merge-with-own-earlier-state-reverts:"+label+":"+c38DiffClass(m, cur), c38MkWit(hist, []int{slot, slot}, []ReplicatedData{e, cur}, map[string]string{"relation": what, "order": []string{"earlier+current", "current+earlier"}[i], "current": vc, "merged": vm}))
			break
		} else if c38Raw(m) != rc {
			r.Count("metadata_divergence_successor", 1)
		}
	}
	r.CaseH(key, c38Val(e) != vc)
}

// triple checks that every order and bracketing of merging three states gives
// the same observable value.
func (c *c38Checker) triple(label string, a, b, d ReplicatedData, slots []int, hist func() string) {
	in := []ReplicatedData{a, b, d}
	raws := []string{c38Raw(a), c38Raw(b), c38Raw(d)}
	idx := []int{0, 1, 2}
	sort.Slice(idx, func(i, j int) bool { return raws[idx[i]] < raws[idx[j]] })
	in = []ReplicatedData{in[idx[0]], in[idx[1]], in[idx[2]]}
	slots = []int{slots[idx[0]], slots[idx[1]], slots[idx[2]]}
	raws = []string{raws[idx[0]], raws[idx[1]], raws[idx[2]]}
	key := verifrt.Hash64("T|" + label + "|" + raws[0] + "|" + raws[1] + "|" + raws[2])
	if _, dup := c.seen[key]; dup {
		c.r.Count("triples_skipped_duplicate", 1)
		return
	}
	c.seen[key] = struct{}{}
	r := c.r
	deeps := []string{c38Deep(in[0]), c38Deep(in[1]), c38Deep(in[2])}
	perms := [][3]int{{0, 1, 2}, {0, 2, 1}, {1, 0, 2}, {1, 2, 0}, {2, 0, 1}, {2, 1, 0}}
	names := "abc"
	var first ReplicatedData
	var firstVal, firstRaw, firstName string
	assocBad, commBad := false, false
	metaDiv := false
	for _, p := range perms {
		x, y, z := in[p[0]], in[p[1]], in[p[2]]
		left := x.Merge(y).Merge(z)
		right := x.Merge(y.Merge(z))
		r.Count("merges", 4)
		ln := fmt.Sprintf("(%c+%c)+%c", names[p[0]], names[p[1]], names[p[2]])
		rn := fmt.Sprintf("%c+(%c+%c)", names[p[0]], names[p[1]], names[p[2]])
		lv, rv := c38Val(left), c38Val(right)
		if lv != rv && !assocBad {
			assocBad = true
			r.Violation("merge-not-associative:"+label+":"+c38DiffClass(left, right), c38MkWit(hist, slots, in, map[string]string{ln: lv, rn: rv}))
		}
		if first == nil {
			first, firstVal, firstRaw, firstName = left, lv, c38Raw(left), ln
		}
		for _, q := range []struct {
			d ReplicatedData
			v string
			n string
		}{{left, lv, ln}, {right, rv, rn}} {
			if q.v != firstVal {
				if !assocBad && !commBad {
					commBad = true
					r.Violation("merge-order-dependent:"+label+":"+c38DiffClass(first, q.d), c38MkWit(hist, slots, in, map[string]string{firstName: firstVal, q.n: q.v}))
				}
			} else if c38Raw(q.d) != firstRaw {
				metaDiv = true
			}
		}
		// the three-way join is above each input
		for i := 0; i < 3; i++ {
			if s := c38Shrinks(in[i], left, nil); s != "" {
				// with three inputs a disappearance may be covered by either of the two
				// others; only uncovered-by-both is a loss
				o1, o2 := in[(i+1)%3], in[(i+2)%3]
				if c38Shrinks(in[i], left, o1.Merge(o2)) != "" && c38Shrinks(in[i], left, o1) != "" && c38Shrinks(in[i], left, o2) != "" {
					r.Violation("merge-shrinks-information:"+label, c38MkWit(hist, slots, in, map[string]string{"lost_from": string(names[i]), "what": s, ln: lv}))
				}
			}
		}
	}
	if metaDiv {
		r.Count("metadata_divergence_associativity", 1)
	}
	for i := 0; i < 3; i++ {
		if c38Deep(in[i]) != deeps[i] {
			r.Violation("merge-modifies-input:"+label, c38MkWit(hist, slots, in, map[string]string{"which": string(names[i]), "before": deeps[i], "after": c38Deep(in[i])}))
		}
	}
	// non-trivial: the three states are pairwise concurrent
	conc := 0
	for i := 0; i < 3; i++ {
		j := (i + 1) % 3
		m := c38Raw(in[i].Merge(in[j]))
		if m != raws[i] && m != raws[j] {
			conc++
		}
	}
	r.CaseH(key, conc == 3)
}

type c38Node2 struct {
	w      *c38World
	parent *c38Node2
	step   string
	depth  int
}

func (n *c38Node2) history() string {
	var steps []string
	for x := n; x != nil && x.parent != nil; x = x.parent {
		steps = append(steps, x.step)
	}
	for i, j := 0, len(steps)-1; i < j; i, j = i+1, j-1 {
		steps[i], steps[j] = steps[j], steps[i]
	}
	return strings.Join(steps, "; ")
}

type c38Cfg struct {
	kind, nActive, nPassive, nElems, lwwMode int
	maxWorldsQuick, maxWorldsThorough        int
}

// c38Bounded explores breadth-first every execution of the configuration (ops of
// the bounded alphabet at the active slots and merges between slots), worlds
// deduplicated by replicated state, until maxWorlds distinct worlds were
// expanded; the laws are checked on the current states of every world.
func (c *c38Checker) c38Bounded(cfg c38Cfg) {
	r := c.r
	label := c38Label(cfg.kind, cfg.lwwMode)
	maxWorlds := r.Pick(cfg.maxWorldsQuick, cfg.maxWorldsThorough)
	ops := c38BoundedOps(cfg.kind, cfg.nElems)
	root := &c38Node2{w: c38NewWorld(cfg.kind, cfg.nActive, cfg.nPassive, cfg.nElems, cfg.lwwMode)}
	seen := map[string]struct{}{root.w.key(): {}}
	queue := []*c38Node2{root}
	nslots := cfg.nActive + cfg.nPassive
	idx := 0
	maxDepth := 0
	samples := 0
	for len(queue) > 0 && idx < maxWorlds {
		n := queue[0]
		queue = queue[1:]
		if n.depth > maxDepth {
			maxDepth = n.depth
		}
		{
			hist := n.history
			probe := ops[idx%len(ops)]
			for i := 0; i < nslots; i++ {
				for j := i + 1; j < nslots; j++ {
					c.pair(label, cfg.kind, n.w.st[i], n.w.st[j], []int{i, j}, probe, c38Node(i), hist)
					for k := j + 1; k < nslots; k++ {
						c.triple(label, n.w.st[i], n.w.st[j], n.w.st[k], []int{i, j, k}, hist)
					}
				}
			}
			if samples < 1 && n.depth >= 4 {
				samples++
				r.Sample(map[string]any{"type": label, "history": hist(), "states": []string{c38Raw(n.w.st[0]), c38Raw(n.w.st[1])}})
			}
		}
		idx++
		// expand
		for i := 0; i < nslots; i++ {
			if n.w.active[i] {
				for _, op := range ops {
					w2 := n.w.clone()
					if !w2.apply(i, op) {
						continue
					}
					k := w2.key()
					if _, ok := seen[k]; ok {
						// same world reached on another path: the replica's own
						// predecessor on this path is still a new (earlier, current) pair
						c.successor(label, n.w.st[i], w2.st[i], i, func() string {
							return n.history() + "; " + fmt.Sprintf("%s:%s", c38Node(i), op.str(cfg.kind, 0))
						}, "previous state of the same replica")
						continue
					}
					seen[k] = struct{}{}
					child := &c38Node2{w: w2, parent: n, step: fmt.Sprintf("%s:%s", c38Node(i), op.str(cfg.kind, 0)), depth: n.depth + 1}
					queue = append(queue, child)
					for anc := n; anc != nil; anc = anc.parent {
						c.successor(label, anc.w.st[i], w2.st[i], i, child.history, "earlier state of the same replica")
					}
				}
			}
			for j := 0; j < nslots; j++ {
				if i == j {
					continue
				}
				w2 := n.w.clone()
				w2.merge(i, j)
				k := w2.key()
				if _, ok := seen[k]; ok {
					continue
				}
				seen[k] = struct{}{}
				queue = append(queue, &c38Node2{w: w2, parent: n, step: fmt.Sprintf("%s<-merge(%s)", c38Node(i), c38Node(j)), depth: n.depth + 1})
			}
		}
	}
	r.Count("bounded_worlds_"+label, int64(idx))
	{
		r.Note("bounded %s active=%d passive=%d elems=%d: %d worlds expanded, depth reached %d, exhausted=%v", label, cfg.nActive, cfg.nPassive, cfg.nElems, idx, maxDepth, len(queue) == 0)
	}
	if len(queue) == 0 {
		r.Count("bounded_spaces_exhausted", 1)
	}
}

// c38Random runs one long random execution and checks pairs / triples of the
// slots' states along the way and at the end; every state that ever existed in
// the execution is re-inspected at the end (persistent values must not change).
func (c *c38Checker) c38Random(rng *rand.Rand, kind, lwwMode int) {
	r := c.r
	label := c38Label(kind, lwwMode)
	nActive := 2 + rng.Intn(2)
	nPassive := 1 + rng.Intn(2)
	nElems := 2 + rng.Intn(6)
	w := c38NewWorld(kind, nActive, nPassive, nElems, lwwMode)
	nslots := nActive + nPassive
	steps := 8 + rng.Intn(30*nActive)
	var hist []string
	histFn := func() string { return strings.Join(hist, "; ") }
	type kept struct {
		d    ReplicatedData
		deep string
		at   int
		slot int
	}
	var all []kept
	keep := func(d ReplicatedData, slot int) {
		if len(all) < 400 {
			all = append(all, kept{d, c38Deep(d), len(hist), slot})
		}
	}
	for s := 0; s < steps; s++ {
		if rng.Intn(100) < 62 {
			i := rng.Intn(nActive)
			op := w.randOp(rng, i)
			if w.apply(i, op) {
				hist = append(hist, fmt.Sprintf("%s:%s", c38Node(i), op.str(kind, 0)))
				keep(w.st[i], i)
			}
		} else {
			i := rng.Intn(nslots)
			j := rng.Intn(nslots)
			if i == j {
				continue
			}
			w.merge(i, j)
			hist = append(hist, fmt.Sprintf("%s<-merge(%s)", c38Node(i), c38Node(j)))
			keep(w.st[i], i)
		}
		if s%5 == 4 {
			i, j, k := rng.Intn(nslots), rng.Intn(nslots), rng.Intn(nslots)
			if i != j {
				c.pair(label, kind, w.st[i], w.st[j], []int{i, j}, w.randOp(rng, i%nActive), c38Node(i%nActive), histFn)
				if k != i && k != j {
					c.triple(label, w.st[i], w.st[j], w.st[k], []int{i, j, k}, histFn)
				}
			}
		}
	}
	for i := 0; i < nslots; i++ {
		for j := i + 1; j < nslots; j++ {
			c.pair(label, kind, w.st[i], w.st[j], []int{i, j}, w.randOp(rng, i%nActive), c38Node(i%nActive), histFn)
			for k := j + 1; k < nslots; k++ {
				c.triple(label, w.st[i], w.st[j], w.st[k], []int{i, j, k}, histFn)
			}
		}
	}
	// old versions against current ones (a stored / in-flight full state that is
	// merged later): jointly reachable with everything that came after it
	for t := 0; t < 6 && len(all) > 2; t++ {
		x := all[rng.Intn(len(all))]
		i, j := rng.Intn(nslots), rng.Intn(nslots)
		c.pair(label, kind, x.d, w.st[i], []int{-1, i}, w.randOp(rng, 0), c38Node(0), histFn)
		if i != j {
			c.triple(label, x.d, w.st[i], w.st[j], []int{-1, i, j}, histFn)
		}
	}
	for t := 0; t < 12 && len(all) > 0; t++ {
		x := all[rng.Intn(len(all))]
		c.successor(label, x.d, w.st[x.slot], x.slot, histFn, fmt.Sprintf("state of the same replica after step %d", x.at))
	}
	for _, x := range all {
		if c38Deep(x.d) != x.deep {
			r.Violation("earlier-state-modified:"+label, map[string]any{"history": histFn(), "created_after_step": x.at, "then": x.deep, "now": c38Deep(x.d)})
			break
		}
	}
	r.Count("random_executions_"+label, 1)
	r.Count("random_steps", int64(len(hist)))
}

// TestVerif_C38: join laws of Merge on jointly reachable states of the seven CRDT
// types, bounded-exhaustive plus random.
func TestVerif_C38(t *testing.T) {
	r := verifrt.Start(t, "C38")
	defer r.Finish()
	r.Rule("case = one pair or triple of jointly reachable states of one CRDT type (current states of the slots of one execution: 2-3 replicas with own node ids performing ops, plus passive slots holding merged/old copies), from (a) breadth-first enumeration of all executions over a bounded op alphabet (elements {x,y}, worlds deduplicated by replicated state) and (b) random executions (<=30 ops per replica, 2-7 mixed-type elements, OR-maps with all seven nested value types); oracle = observable-value equality of a+b/b+a, all 12 orders and bracketings of a,b,c, x+x=x, (a+b)+a=a+b, earlier-state-of-a-replica + its current state = current state (a stale copy merged back reverts nothing), observable inflation (nothing disappears without a covering remove/write), deep snapshots (incl. delta tracking) of all inputs before/after Merge, Clone and later ops on results; raw-state-only differences are counted as metadata_divergence; non-trivial = the states are pairwise concurrent (the merge equals neither input); distinct by type and raw states")
	r.Assume("each replica mutates under its own node id and node ids are not reused after state loss (dots are unique); ORMap values of one key have one CRDT type on all replicas")
	r.Assume("LWWRegister main domain: a node's own timestamps strictly increase; equal timestamps only across nodes. The other two timestamp domains are evaluated and reported under their own label")

	c := &c38Checker{r: r, seen: map[uint64]struct{}{}}
	q := func(n int) int { return n }
	cfgs := []c38Cfg{
		// ordered so that batch b (configs b, b+8, b+16) gets a balanced share
		{c38KORMap, 2, 1, 2, 0, q(600), 60000},
		{c38KORMap, 3, 0, 2, 0, q(600), 80000},
		{c38KORSet, 3, 0, 2, 0, q(1200), 120000},
		{c38KORSet, 2, 1, 2, 0, q(1200), 80000},
		{c38KMV, 3, 0, 0, 0, q(1200), 80000},
		{c38KMV, 2, 1, 0, 0, q(1200), 40000},
		{c38KLWW, 3, 0, 0, c38LWWMain, q(1200), 60000},
		{c38KLWW, 2, 1, 0, c38LWWMain, q(1200), 40000},
		{c38KFlag, 3, 1, 0, 0, q(200), 2000},
		{c38KGCounter, 2, 1, 0, 0, q(1000), 20000},
		{c38KGCounter, 3, 0, 0, 0, q(1000), 30000},
		{c38KPNCounter, 2, 1, 0, 0, q(1000), 20000},
		{c38KPNCounter, 3, 0, 0, 0, q(1000), 30000},
		{c38KLWW, 2, 1, 0, c38LWWSameTick, q(600), 20000},
		{c38KLWW, 2, 1, 0, c38LWWBackward, q(600), 20000},
		{c38KORSet, 2, 1, 1, 0, q(1000), 30000},
		{c38KORMap, 2, 1, 1, 0, q(400), 30000},
	}
	// each configuration is enumerated by exactly one batch
	for i, cfg := range cfgs {
		if i%r.NBatch == r.Batch {
			c.c38Bounded(cfg)
		}
	}

	rng := r.Rand(1)
	type kd struct{ kind, mode int }
	kinds := []kd{{c38KGCounter, 0}, {c38KPNCounter, 0}, {c38KFlag, 0}, {c38KLWW, c38LWWMain}, {c38KMV, 0}, {c38KORSet, 0}, {c38KORMap, 0},
		{c38KORSet, 0}, {c38KORMap, 0}, {c38KMV, 0}, {c38KLWW, c38LWWSameTick}, {c38KLWW, c38LWWBackward}}
	n := r.N(1000, 120000)
	for i := 0; i < n; i++ {
		k := kinds[i%len(kinds)]
		c.c38Random(rng, k.kind, k.mode)
	}
}
