//go:build verif

package crdt

// C39, library level: replicas exchange the real deltas (Delta()/ResetDelta()
// after every update, exactly as actor/replicator.go handleUpdate takes them and
// handleDelta applies them: current.Merge(delta)), in every order and with
// duplicates, optionally mixed with full-state merges. Uses the op language,
// worlds and canonical forms of c38_types_verif_test.go (run with
// VERIF_ONLY=c38,c39).

import (
	"fmt"
	"math/rand"
	"sort"
	"strings"
	"testing"

	"github.com/tochemey/goakt/v4/internal/verifrt"
)

type c39Delta struct {
	from   int
	d      ReplicatedData
	desc   string
	direct []int        // ids of the adds / writes performed in this update
	causal map[int]bool // everything the originator had possibly seen when it produced the delta
}

// c39Ledger is the op-level ground truth. Counters, flag and LWW are exact.
// For OR-set elements, OR-map keys and MV-register writes every add / write
// gets an id; a remove / overwrite at replica i must cover the adds that were
// delivered to i directly (own ops, ops of delivered deltas, and the same through
// full-state merges) and may cover everything in i's causal past (a delta that
// is a full state conveys more than its own ops). An add outside every "may"
// set must be visible at the end; an element all of whose adds are in a "must"
// set must be gone.
type c39Ledger struct {
	inc, dec uint64
	enabled  bool
	lwwSet   bool
	lwwTs    int64
	lwwNode  string
	lwwVal   string
	addElem  []string
	must     map[int]bool
	may      map[int]bool
	L, U     []map[int]bool // per replica: directly delivered / causal past
	cur      []int          // adds of the update in progress
}

type c39Sim struct {
	kind, lwwMode int
	nRep          int // replicas with own state (originators); receivers may be more
	w             *c38World
	deltas        []*c39Delta
	pending       [][]int // per replica: indexes into deltas, not yet delivered
	delivered     [][]int
	hist          []string
	led           c39Ledger
	originators   map[int]bool
	reorders      int
	dups          int
	fullMerges    int
}

func c39NewSim(kind, lwwMode, nRep, nPassive, nElems int) *c39Sim {
	s := &c39Sim{kind: kind, lwwMode: lwwMode, nRep: nRep, w: c38NewWorld(kind, nRep, nPassive, nElems, lwwMode), originators: map[int]bool{}}
	s.pending = make([][]int, nRep+nPassive)
	s.delivered = make([][]int, nRep+nPassive)
	s.led.must = map[int]bool{}
	s.led.may = map[int]bool{}
	for i := 0; i < nRep+nPassive; i++ {
		s.led.L = append(s.led.L, map[int]bool{})
		s.led.U = append(s.led.U, map[int]bool{})
	}
	return s
}

func (s *c39Sim) cover(i int, elem string, all bool) {
	for a := range s.led.L[i] {
		if all || s.led.addElem[a] == elem {
			s.led.must[a] = true
		}
	}
	for a := range s.led.U[i] {
		if all || s.led.addElem[a] == elem {
			s.led.may[a] = true
		}
	}
}

func (s *c39Sim) newAdd(i int, elem string) {
	id := len(s.led.addElem)
	s.led.addElem = append(s.led.addElem, elem)
	s.led.L[i][id] = true
	s.led.U[i][id] = true
	s.led.cur = append(s.led.cur, id)
}

// record updates the ledger for op applied at replica i.
func (s *c39Sim) record(i int, op c38Op) {
	switch s.kind {
	case c38KGCounter:
		s.led.inc += uint64(op.A)
	case c38KPNCounter:
		if op.Code == c38OpDec {
			s.led.dec += uint64(op.A)
		} else {
			s.led.inc += uint64(op.A)
		}
	case c38KFlag:
		s.led.enabled = true
	case c38KLWW:
		n := c38Node(i)
		if !s.led.lwwSet || op.B > s.led.lwwTs || (op.B == s.led.lwwTs && n > s.led.lwwNode) {
			s.led.lwwSet, s.led.lwwTs, s.led.lwwNode, s.led.lwwVal = true, op.B, n, c38ElemStr(c38RegValue(op.A))
		}
	case c38KMV:
		s.cover(i, "", true)
		s.newAdd(i, c38ElemStr(c38RegValue(op.A)))
	case c38KORSet:
		switch op.Code {
		case c38OpRemove:
			s.cover(i, c38ElemStr(c38Elem(op.A)), false)
		case c38OpAdd:
			s.newAdd(i, c38ElemStr(c38Elem(op.A)))
		}
	case c38KORMap:
		switch op.Code {
		case c38OpRemove:
			s.cover(i, c38ElemStr(c38Elem(op.A)), false)
		case c38OpBump, c38OpPutFresh:
			s.newAdd(i, c38ElemStr(c38Elem(op.A)))
		}
	}
}

// update applies ops at replica i as one update, then takes and resets the delta
// like the replicator does, and queues the delta for every other replica.
func (s *c39Sim) update(i int, ops []c38Op) {
	var names []string
	for _, op := range ops {
		if s.kind == c38KLWW && !s.w.lwwAllowed(i, op.B) {
			continue
		}
		if !s.w.apply(i, op) {
			continue
		}
		s.record(i, op)
		names = append(names, op.str(s.kind, 0))
	}
	if len(names) == 0 {
		return
	}
	s.originators[i] = true
	direct := s.led.cur
	s.led.cur = nil
	st := s.w.st[i]
	d := st.Delta()
	st.ResetDelta()
	desc := fmt.Sprintf("%s:update[%s]", c38Node(i), strings.Join(names, ","))
	if d == nil {
		s.hist = append(s.hist, desc+"->no-delta")
		return
	}
	idx := len(s.deltas)
	causal := make(map[int]bool, len(s.led.U[i]))
	for a := range s.led.U[i] {
		causal[a] = true
	}
	s.deltas = append(s.deltas, &c39Delta{from: i, d: d, desc: fmt.Sprintf("d%d(%s)", idx, desc), direct: direct, causal: causal})
	s.hist = append(s.hist, fmt.Sprintf("%s->d%d", desc, idx))
	for j := range s.pending {
		if j != i {
			s.pending[j] = append(s.pending[j], idx)
		}
	}
}

// deliver merges delta idx into replica j.
func (s *c39Sim) deliver(j, idx int) {
	s.w.st[j] = s.w.st[j].Merge(s.deltas[idx].d)
	s.w.raw[j] = c38Raw(s.w.st[j])
	for _, a := range s.deltas[idx].direct {
		s.led.L[j][a] = true
	}
	for a := range s.deltas[idx].causal {
		s.led.U[j][a] = true
	}
	s.hist = append(s.hist, fmt.Sprintf("%s<-d%d", c38Node(j), idx))
}

// deliverPending delivers the pending delta at position p of replica j.
func (s *c39Sim) deliverPending(j, p int, keep bool) {
	idx := s.pending[j][p]
	if p != 0 {
		s.reorders++
	}
	s.deliver(j, idx)
	s.delivered[j] = append(s.delivered[j], idx)
	if !keep {
		s.pending[j] = append(append([]int(nil), s.pending[j][:p]...), s.pending[j][p+1:]...)
	} else {
		s.dups++
	}
}

func (s *c39Sim) fullMerge(j, i int) {
	s.w.merge(j, i)
	for a := range s.led.L[i] {
		s.led.L[j][a] = true
	}
	for a := range s.led.U[i] {
		s.led.U[j][a] = true
	}
	s.fullMerges++
	s.hist = append(s.hist, fmt.Sprintf("%s<-full(%s)", c38Node(j), c38Node(i)))
}

// exact returns the ledger's value in c38Val form for the types where the
// ledger defines the whole value ("" otherwise).
func (s *c39Sim) exact() string {
	switch s.kind {
	case c38KGCounter:
		return fmt.Sprintf("gc=%d", s.led.inc)
	case c38KPNCounter:
		return fmt.Sprintf("pn=%d", int64(s.led.inc)-int64(s.led.dec))
	case c38KFlag:
		return fmt.Sprintf("flag=%v", s.led.enabled)
	case c38KLWW:
		if s.led.lwwSet {
			return fmt.Sprintf("lww=(%s,%d,%s)", s.led.lwwVal, s.led.lwwTs, s.led.lwwNode)
		}
	}
	return ""
}

// bounds returns, per element / key / register value, how many occurrences must
// at least and may at most be visible once everything was delivered.
func (s *c39Sim) bounds() (lo, hi map[string]int) {
	lo, hi = map[string]int{}, map[string]int{}
	for a, e := range s.led.addElem {
		if !s.led.may[a] {
			lo[e]++
		}
		if !s.led.must[a] {
			hi[e]++
		}
	}
	if s.kind != c38KMV { // sets: presence, not multiplicity
		for e := range lo {
			lo[e] = 1
		}
		for e := range hi {
			hi[e] = 1
		}
	}
	return lo, hi
}

func c39Members(d ReplicatedData) []string {
	var out []string
	switch v := d.(type) {
	case *MVRegister:
		for _, x := range v.Values() {
			out = append(out, c38ElemStr(x))
		}
	case *ORSet:
		for _, x := range v.Elements() {
			out = append(out, c38ElemStr(x))
		}
	case *ORMap:
		for _, x := range v.Keys() {
			out = append(out, c38ElemStr(x))
		}
	}
	sort.Strings(out)
	return out
}

// ledgerClass compares the members of got with the bounds; "" if within.
func (s *c39Sim) ledgerClass(got ReplicatedData, lo, hi map[string]int) string {
	if s.kind != c38KMV && s.kind != c38KORSet && s.kind != c38KORMap {
		return ""
	}
	cnt := map[string]int{}
	for _, x := range c39Members(got) {
		cnt[x]++
	}
	missing, extra := false, false
	for e, n := range lo {
		if cnt[e] < n {
			missing = true
		}
	}
	for e, n := range cnt {
		if n > hi[e] {
			extra = true
		}
	}
	what := map[int]string{c38KMV: "value", c38KORSet: "element", c38KORMap: "key"}[s.kind]
	switch {
	case missing && extra:
		return what + "-lost-and-" + what + "-resurrected"
	case missing:
		return what + "-lost"
	case extra:
		return what + "-resurrected"
	}
	return ""
}

// c39DiffClass names the difference between two values of one type.
func c39DiffClass(kind int, got, want ReplicatedData) string {
	switch kind {
	case c38KGCounter, c38KPNCounter:
		return "counter"
	case c38KFlag:
		return "flag"
	case c38KLWW:
		return "register"
	}
	cnt := map[string]int{}
	for _, x := range c39Members(want) {
		cnt[x]++
	}
	for _, x := range c39Members(got) {
		cnt[x]--
	}
	missing, extra := false, false
	for _, n := range cnt {
		if n > 0 {
			missing = true
		}
		if n < 0 {
			extra = true
		}
	}
	what := map[int]string{c38KMV: "value", c38KORSet: "element", c38KORMap: "key"}[kind]
	switch {
	case missing && extra:
		return what + "-lost-and-" + what + "-resurrected"
	case missing:
		return what + "-lost"
	case extra:
		return what + "-resurrected"
	}
	return "nested-value"
}

func c39Perms(n, limit int, rng *rand.Rand) [][]int {
	base := make([]int, n)
	for i := range base {
		base[i] = i
	}
	total := 1
	for i := 2; i <= n; i++ {
		total *= i
		if total > limit {
			break
		}
	}
	var out [][]int
	if total <= limit {
		var rec func(k int)
		rec = func(k int) {
			if k == n {
				out = append(out, append([]int(nil), base...))
				return
			}
			for i := k; i < n; i++ {
				base[k], base[i] = base[i], base[k]
				rec(k + 1)
				base[k], base[i] = base[i], base[k]
			}
		}
		rec(0)
		return out
	}
	out = append(out, append([]int(nil), base...))
	rev := make([]int, n)
	for i := range rev {
		rev[i] = n - 1 - i
	}
	out = append(out, rev)
	for len(out) < limit {
		p := rng.Perm(n)
		out = append(out, p)
	}
	return out
}

type c39Stats struct {
	permsEvaluated int
	maxPending     int
}

// settle delivers, for every replica, everything still pending (plus extra
// duplicates) in all / many orders, each order from the replica's state at the
// end of the history, and judges every outcome.
func (s *c39Sim) settle(r *verifrt.Run, rng *rand.Rand, label string, permLimit int, extraDups int, dupCap int) c39Stats {
	var stats c39Stats
	histFn := func() string { return strings.Join(s.hist, "; ") }
	nAll := len(s.w.st)

	// reference: merge of the originators' full states; two fold orders
	ref := s.w.st[0]
	for i := 1; i < s.nRep; i++ {
		ref = ref.Merge(s.w.st[i])
	}
	ref2 := s.w.st[s.nRep-1]
	for i := s.nRep - 2; i >= 0; i-- {
		ref2 = ref2.Merge(s.w.st[i])
	}
	refVal := c38Val(ref)
	refOK := refVal == c38Val(ref2)
	if !refOK {
		r.Count("reference_merge_order_dependent_"+label, 1)
	}
	full := make([]string, s.nRep)
	for i := 0; i < s.nRep; i++ {
		full[i] = s.w.raw[i]
	}
	expVal := s.exact()
	lo, hi := s.bounds()

	finals := make([]ReplicatedData, nAll)
	flagged := map[string]bool{}
	viol := func(sig string, detail map[string]any) {
		if flagged[sig] {
			r.Count("violations_repeated_in_same_history", 1)
			return
		}
		flagged[sig] = true
		detail["history"] = histFn()
		detail["originators_full_states"] = full
		detail["full_state_merge_value"] = refVal
		if expVal != "" {
			detail["ledger_expected_value"] = expVal
		} else {
			detail["ledger_must_be_visible"] = lo
			detail["ledger_may_be_visible"] = hi
		}
		r.Violation(sig, detail)
	}

	for j := 0; j < nAll; j++ {
		queue := append([]int(nil), s.pending[j]...)
		for k := 0; k < extraDups && len(s.delivered[j])+len(queue) > 0 && len(queue) < dupCap; k++ {
			pool := append(append([]int(nil), s.delivered[j]...), s.pending[j]...)
			queue = append(queue, pool[rng.Intn(len(pool))])
			s.dups++
		}
		if len(queue) > stats.maxPending {
			stats.maxPending = len(queue)
		}
		perms := c39Perms(len(queue), permLimit, rng)
		var firstVal string
		var firstOrder []int
		for pi, p := range perms {
			cur := s.w.st[j]
			order := make([]int, len(p))
			for k, x := range p {
				order[k] = queue[x]
				cur = cur.Merge(s.deltas[queue[x]].d)
			}
			stats.permsEvaluated++
			v := c38Val(cur)
			if pi == 0 {
				firstVal, firstOrder = v, order
				finals[j] = cur
			} else if v != firstVal {
				viol("delta-delivery-order-dependent:"+label+":"+c39DiffClass(s.kind, cur, finals[j]), map[string]any{"replica": c38Node(j), "replica_state_before": s.w.raw[j], "order_1": firstOrder, "value_1": firstVal, "order_2": order, "value_2": v})
			}
			if refOK && v != refVal {
				viol("delta-differs-from-full-state-merge:"+label+":"+c39DiffClass(s.kind, cur, ref), map[string]any{"replica": c38Node(j), "replica_state_before": s.w.raw[j], "delivery_order": order, "value_after_all_deltas": v})
			}
			if expVal != "" && v != expVal {
				viol("update-lost-or-resurrected:"+label+":"+c39DiffClass(s.kind, cur, nil), map[string]any{"replica": c38Node(j), "replica_state_before": s.w.raw[j], "delivery_order": order, "value_after_all_deltas": v})
			} else if cl := s.ledgerClass(cur, lo, hi); cl != "" {
				viol("update-lost-or-resurrected:"+label+":"+cl, map[string]any{"replica": c38Node(j), "replica_state_before": s.w.raw[j], "delivery_order": order, "value_after_all_deltas": v})
			}
		}
	}
	// replicas that have seen everything agree with each other
	for j := 1; j < nAll; j++ {
		if c38Val(finals[j]) != c38Val(finals[0]) {
			viol("replicas-diverge-after-all-deltas:"+label+":"+c39DiffClass(s.kind, finals[j], finals[0]), map[string]any{"replica_a": c38Node(0), "value_a": c38Val(finals[0]), "replica_b": c38Node(j), "value_b": c38Val(finals[j])})
			break
		} else if c38Raw(finals[j]) != c38Raw(finals[0]) {
			r.Count("metadata_divergence_between_replicas", 1)
		}
	}
	if refOK && c38Val(finals[0]) == refVal && c38Raw(finals[0]) != c38Raw(ref) {
		r.Count("metadata_divergence_vs_full_state_merge", 1)
	}
	// the full-state merge itself against the ledger (tells whether phase-1 delta
	// merges had already damaged an originator's full state)
	if refOK && expVal != "" && refVal != expVal {
		viol("full-state-merge-differs-from-ledger:"+label+":"+c39DiffClass(s.kind, ref, nil), map[string]any{})
	} else if cl := s.ledgerClass(ref, lo, hi); refOK && cl != "" {
		viol("full-state-merge-differs-from-ledger:"+label+":"+cl, map[string]any{})
	}
	return stats
}

func c39Label(kind, lwwMode int) string { return c38Label(kind, lwwMode) }

// c39Random: one random history.
func c39Random(r *verifrt.Run, rng *rand.Rand, kind, lwwMode int) {
	label := c39Label(kind, lwwMode)
	nRep := 2 + rng.Intn(2)
	nPassive := rng.Intn(2) // a replica that only receives deltas
	nElems := 1 + rng.Intn(4)
	s := c39NewSim(kind, lwwMode, nRep, nPassive, nElems)
	nAll := nRep + nPassive
	steps := 3 + rng.Intn(16)
	fullMergeRate := 0
	if rng.Intn(3) == 0 {
		fullMergeRate = 12
	}
	midDeliveryRate := []int{0, 25, 45}[rng.Intn(3)]
	for t := 0; t < steps; t++ {
		x := rng.Intn(100)
		switch {
		case x < midDeliveryRate:
			j := rng.Intn(nAll)
			if len(s.pending[j]) > 0 {
				s.deliverPending(j, rng.Intn(len(s.pending[j])), rng.Intn(5) == 0)
			}
		case x < midDeliveryRate+fullMergeRate:
			j, i := rng.Intn(nAll), rng.Intn(nRep)
			if i != j {
				s.fullMerge(j, i)
			}
		default:
			i := rng.Intn(nRep)
			nops := 1
			if rng.Intn(4) == 0 {
				nops = 2 + rng.Intn(2)
			}
			var ops []c38Op
			for k := 0; k < nops; k++ {
				op := s.w.randOp(rng, i)
				if (kind == c38KORSet && op.Code == c38OpCompact) || (kind == c38KORMap && op.Code == c38OpMCompact) {
					continue // compaction is the store's job (pruning), not an update
				}
				ops = append(ops, op)
			}
			s.update(i, ops)
		}
	}
	st := s.settle(r, rng, label, 120, rng.Intn(3), 1000)
	key := label + "|" + strings.Join(s.hist, ";")
	r.Case(key, len(s.originators) >= 2 && len(s.deltas) >= 2 && (st.permsEvaluated > nAll || s.reorders > 0 || s.dups > 0))
	r.Count("deltas_produced", int64(len(s.deltas)))
	r.Count("delivery_orders_evaluated", int64(st.permsEvaluated))
	r.Count("mid_history_out_of_order_deliveries", int64(s.reorders))
	r.Count("duplicate_deliveries", int64(s.dups))
	r.Count("full_state_merges", int64(s.fullMerges))
	r.Count("histories_"+label, 1)
	r.Max("max_pending_deltas_permuted", int64(st.maxPending))
}

// c39Exhaustive: every pair of op sequences (s0 at n0, s1 at n1) over the bounded
// alphabet with len(s0)+len(s1) <= maxLen, one delta per op, in two shapes:
// "concurrent" (no delivery before the end) and "causal" (n1 receives n0's deltas
// in order before it starts); then every replica, and a third replica that only
// receives, gets all outstanding deltas in all orders (plus one duplicate).
func c39Exhaustive(r *verifrt.Run, rng *rand.Rand, kind, lwwMode, nElems, maxLen int) {
	label := c39Label(kind, lwwMode)
	ops := c38BoundedOps(kind, nElems)
	var seqs [][]c38Op
	var gen func(cur []c38Op)
	gen = func(cur []c38Op) {
		seqs = append(seqs, append([]c38Op(nil), cur...))
		if len(cur) == maxLen {
			return
		}
		for _, op := range ops {
			gen(append(cur, op))
		}
	}
	gen(nil)
	idx := 0
	for _, s0 := range seqs {
		for _, s1 := range seqs {
			if len(s0)+len(s1) > maxLen || len(s0)+len(s1) < 2 {
				continue
			}
			for shape := 0; shape < 3; shape++ {
				if shape >= 1 && (len(s0) == 0 || len(s1) == 0) {
					continue
				}
				idx++
				if idx%r.NBatch != r.Batch {
					continue
				}
				s := c39NewSim(kind, lwwMode, 2, 1, nElems)
				switch shape {
				case 0: // concurrent, one delta per op
					for _, op := range s0 {
						s.update(0, []c38Op{op})
					}
					for _, op := range s1 {
						s.update(1, []c38Op{op})
					}
				case 1: // causal: n1 sees all of n0 first
					for _, op := range s0 {
						s.update(0, []c38Op{op})
					}
					for len(s.pending[1]) > 0 {
						s.deliverPending(1, 0, false)
					}
					for _, op := range s1 {
						s.update(1, []c38Op{op})
					}
				case 2: // n0's ops in one update (one delta for the group), n1 sees it first
					s.update(0, s0)
					for len(s.pending[1]) > 0 {
						s.deliverPending(1, 0, false)
					}
					for _, op := range s1 {
						s.update(1, []c38Op{op})
					}
				}
				if len(s.deltas) == 0 {
					continue
				}
				st := s.settle(r, rng, label, 720, 1, 4)
				r.Case(label+"|"+strings.Join(s.hist, ";"), len(s.originators) >= 2 && len(s.deltas) >= 2)
				r.Count("deltas_produced", int64(len(s.deltas)))
				r.Count("delivery_orders_evaluated", int64(st.permsEvaluated))
				r.Count("exhaustive_histories_"+label, 1)
				r.Max("max_pending_deltas_permuted", int64(st.maxPending))
				if idx%997 == 0 {
					r.Sample(map[string]any{"type": label, "history": strings.Join(s.hist, "; ")})
				}
			}
		}
	}
}

// TestVerif_C39 (library level).
func TestVerif_C39(t *testing.T) {
	r := verifrt.Start(t, "C39")
	defer r.Finish()
	r.Rule("case = one history over 2-3 replicas (own node ids) + optionally a replica that only receives: updates of 1-3 ops, the delta of each update taken with Delta()/ResetDelta() and queued for every other replica; deliveries in arbitrary order, duplicates, optional full-state merges; at the end every replica receives everything outstanding in all orders (<=5 pending: all permutations, else 120 sampled) plus duplicates. (a) exhaustive: all pairs of op sequences over the bounded alphabet in concurrent / causal / grouped shapes; (b) random histories. Oracle per outcome: value == merge of the originators' full states (skipped, and counted, when that merge is itself order dependent - C38), all delivery orders give one value, all replicas agree, and value == op-level ledger (sum of increments; set of adds not observed by a remove; writes not observed by an overwrite; highest (timestamp,node)); non-trivial = >=2 originators, >=2 deltas, and more than one delivery order / a reordering / a duplicate evaluated; distinct by type and history")
	r.Assume("a receiving replica applies a delta with current.Merge(delta) (actor/replicator.go handleDelta); a replica with no state for the key starts from the type's empty value")
	r.Assume("replicas mutate under their own node id; LWWRegister main domain as in C38, other timestamp domains under their own label")

	rng := r.Rand(1)
	type ex struct{ kind, mode, nElems, maxLen int }
	for _, e := range []ex{
		{c38KGCounter, 0, 0, 4}, {c38KPNCounter, 0, 0, 4}, {c38KFlag, 0, 0, 4},
		{c38KLWW, c38LWWMain, 0, 3}, {c38KMV, 0, 0, 4},
		{c38KORSet, 0, 1, 5}, {c38KORSet, 0, 2, 4},
		{c38KORMap, 0, 1, 4}, {c38KORMap, 0, 2, 3},
		{c38KLWW, c38LWWBackward, 0, 3}, {c38KLWW, c38LWWSameTick, 0, 3},
	} {
		maxLen := e.maxLen
		if !r.Quick() {
			maxLen++
		}
		c39Exhaustive(r, rng, e.kind, e.mode, e.nElems, maxLen)
	}

	type kd struct{ kind, mode int }
	kinds := []kd{{c38KGCounter, 0}, {c38KPNCounter, 0}, {c38KFlag, 0}, {c38KLWW, c38LWWMain}, {c38KMV, 0}, {c38KORSet, 0}, {c38KORMap, 0},
		{c38KORSet, 0}, {c38KORMap, 0}, {c38KMV, 0}, {c38KORSet, 0}, {c38KLWW, c38LWWBackward}, {c38KLWW, c38LWWSameTick}}
	n := r.N(1600, 300000)
	for i := 0; i < n; i++ {
		k := kinds[i%len(kinds)]
		c39Random(r, rng, k.kind, k.mode)
	}
}
