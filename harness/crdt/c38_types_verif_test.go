//go:build verif

package crdt

// Shared CRDT harness layer for C38 (merge laws) and C39 (delta convergence):
// canonical observable / raw / deep forms of the seven CRDT types, a small op
// language, and "worlds" (a few replicas, each with its own node id, evolving by
// ops and merges, so that every set of states taken from one world is jointly
// reachable in one execution).

import (
	"fmt"
	"math/rand"
	"sort"
	"strconv"
	"strings"
	"time"
)

const (
	c38KGCounter = iota
	c38KPNCounter
	c38KFlag
	c38KLWW
	c38KMV
	c38KORSet
	c38KORMap
	c38NKinds
)

var c38KindNames = [...]string{"GCounter", "PNCounter", "Flag", "LWWRegister", "MVRegister", "ORSet", "ORMap"}

// LWW timestamp domains. The main domain is the one an LWW register is designed
// for: a node never writes two different values at one timestamp and its own
// timestamps increase. The two other domains are reachable through the public
// API (the caller supplies the timestamp) and are reported under their own name.
const (
	c38LWWMain     = 0 // per-node strictly increasing timestamps; ties only across nodes
	c38LWWSameTick = 1 // a node may write twice at the same timestamp
	c38LWWBackward = 2 // a node may write with an older timestamp than its last one (never the same twice)
)

var c38LWWDomainNames = [...]string{"", "[same-node-equal-timestamp]", "[node-timestamp-goes-backward]"}

func c38Node(i int) string { return "n" + strconv.Itoa(i) }

func c38New(kind int) ReplicatedData {
	switch kind {
	case c38KGCounter:
		return NewGCounter()
	case c38KPNCounter:
		return NewPNCounter()
	case c38KFlag:
		return NewFlag()
	case c38KLWW:
		return NewLWWRegister()
	case c38KMV:
		return NewMVRegister()
	case c38KORSet:
		return NewORSet()
	case c38KORMap:
		return NewORMap()
	}
	panic("c38New: bad kind")
}

// element / key domain: deliberately mixes dynamic types that print alike.
var c38Elems = []any{"x", "y", int(1), int64(1), "", true, "z"}

func c38Elem(i int) any { return c38Elems[i%len(c38Elems)] }

func c38ElemStr(e any) string { return fmt.Sprintf("%T(%v)", e, e) }

func c38RegValue(i int) any {
	switch {
	case i == 0:
		return "p"
	case i == 1:
		return "q"
	default:
		return "v" + strconv.Itoa(i)
	}
}

// nested value kind of an ORMap key (fixed per key, so that all replicas agree on
// the value type of a key).
func c38NestedKind(keyIdx, depth int) int {
	if depth >= 1 {
		return [...]int{c38KGCounter, c38KORSet}[keyIdx%2]
	}
	return [...]int{c38KGCounter, c38KORSet, c38KLWW, c38KPNCounter, c38KMV, c38KORMap, c38KFlag}[keyIdx%7]
}

// c38Op is one mutation.
type c38Op struct {
	Code int
	A    int
	B    int64
	Sub  *c38Op
}

// op codes
const (
	c38OpInc      = 0 // GCounter/PNCounter: +A
	c38OpDec      = 1 // PNCounter: -A
	c38OpEnable   = 0 // Flag
	c38OpSet      = 0 // LWW: value A at ts B ; MV: value A
	c38OpAdd      = 0 // ORSet: add elem A
	c38OpRemove   = 1 // ORSet / ORMap: remove elem/key A
	c38OpCompact  = 2 // ORSet: Compact()
	c38OpBump     = 0 // ORMap: read-modify-write of key A with nested op Sub
	c38OpPutFresh = 3 // ORMap: Set(key A, fresh value with Sub applied)
	c38OpMCompact = 2 // ORMap: Compact()
)

func (o c38Op) str(kind, depth int) string {
	switch kind {
	case c38KGCounter:
		return "inc" + strconv.Itoa(o.A)
	case c38KPNCounter:
		if o.Code == c38OpDec {
			return "dec" + strconv.Itoa(o.A)
		}
		return "inc" + strconv.Itoa(o.A)
	case c38KFlag:
		return "enable"
	case c38KLWW:
		return fmt.Sprintf("set(%v@%d)", c38RegValue(o.A), o.B)
	case c38KMV:
		return fmt.Sprintf("set(%v)", c38RegValue(o.A))
	case c38KORSet:
		switch o.Code {
		case c38OpAdd:
			return "add(" + c38ElemStr(c38Elem(o.A)) + ")"
		case c38OpRemove:
			return "rem(" + c38ElemStr(c38Elem(o.A)) + ")"
		}
		return "compact"
	case c38KORMap:
		nk := c38NestedKind(o.A, depth)
		switch o.Code {
		case c38OpBump:
			return "bump(" + c38ElemStr(c38Elem(o.A)) + "," + o.Sub.str(nk, depth+1) + ")"
		case c38OpPutFresh:
			return "put(" + c38ElemStr(c38Elem(o.A)) + ",new." + o.Sub.str(nk, depth+1) + ")"
		case c38OpRemove:
			return "rem(" + c38ElemStr(c38Elem(o.A)) + ")"
		}
		return "compact"
	}
	return "?"
}

// c38ApplyData applies op to cur on behalf of node and returns the new state.
func c38ApplyData(kind int, cur ReplicatedData, node string, op c38Op, depth int) ReplicatedData {
	switch kind {
	case c38KGCounter:
		return cur.(*GCounter).Increment(node, uint64(op.A))
	case c38KPNCounter:
		if op.Code == c38OpDec {
			return cur.(*PNCounter).Decrement(node, uint64(op.A))
		}
		return cur.(*PNCounter).Increment(node, uint64(op.A))
	case c38KFlag:
		return cur.(*Flag).Enable()
	case c38KLWW:
		return cur.(*LWWRegister).Set(c38RegValue(op.A), time.Unix(0, op.B), node)
	case c38KMV:
		return cur.(*MVRegister).Set(node, c38RegValue(op.A))
	case c38KORSet:
		s := cur.(*ORSet)
		switch op.Code {
		case c38OpAdd:
			return s.Add(node, c38Elem(op.A))
		case c38OpRemove:
			return s.Remove(c38Elem(op.A))
		default:
			return s.Compact()
		}
	case c38KORMap:
		m := cur.(*ORMap)
		key := c38Elem(op.A)
		nk := c38NestedKind(op.A, depth)
		switch op.Code {
		case c38OpBump:
			var base ReplicatedData
			if v, ok := m.Get(key); ok && v != nil {
				base = v
			} else {
				base = c38New(nk)
			}
			return m.Set(node, key, c38ApplyData(nk, base, node, *op.Sub, depth+1))
		case c38OpPutFresh:
			return m.Set(node, key, c38ApplyData(nk, c38New(nk), node, *op.Sub, depth+1))
		case c38OpRemove:
			return m.Remove(key)
		default:
			return m.Compact()
		}
	}
	panic("c38ApplyData: bad kind")
}

// ---------------------------------------------------------------- canonical forms

func c38ClockStr(m map[string]uint64) string {
	ks := make([]string, 0, len(m))
	for k, v := range m {
		if v != 0 {
			ks = append(ks, k)
		}
	}
	sort.Strings(ks)
	var b strings.Builder
	b.WriteByte('{')
	for i, k := range ks {
		if i > 0 {
			b.WriteByte(',')
		}
		b.WriteString(k)
		b.WriteByte(':')
		b.WriteString(strconv.FormatUint(m[k], 10))
	}
	b.WriteByte('}')
	return b.String()
}

func c38DotsStr(ds []Dot) string {
	ss := make([]string, len(ds))
	for i, d := range ds {
		ss[i] = d.NodeID + "." + strconv.FormatUint(d.Counter, 10)
	}
	sort.Strings(ss)
	return "[" + strings.Join(ss, " ") + "]"
}

func c38SumMap(m map[string]uint64) uint64 {
	var t uint64
	for _, v := range m {
		t += v
	}
	return t
}

// c38Val is the observable value, through the public read API only.
func c38Val(d ReplicatedData) string {
	switch v := d.(type) {
	case nil:
		return "<nil>"
	case *GCounter:
		return "gc=" + strconv.FormatUint(v.Value(), 10)
	case *PNCounter:
		return "pn=" + strconv.FormatInt(v.Value(), 10)
	case *Flag:
		return "flag=" + strconv.FormatBool(v.Enabled())
	case *LWWRegister:
		return fmt.Sprintf("lww=(%s,%d,%s)", c38ElemStr(v.Value()), v.Timestamp(), v.NodeID())
	case *MVRegister:
		vals := v.Values()
		ss := make([]string, len(vals))
		for i, x := range vals {
			ss[i] = c38ElemStr(x)
		}
		sort.Strings(ss)
		return "mv=[" + strings.Join(ss, " ") + "]"
	case *ORSet:
		els := v.Elements()
		ss := make([]string, len(els))
		for i, x := range els {
			ss[i] = c38ElemStr(x)
			if !v.Contains(x) {
				ss[i] += "!notcontained"
			}
		}
		sort.Strings(ss)
		s := "set={" + strings.Join(ss, " ") + "}"
		if v.Len() != len(els) {
			s += "!len=" + strconv.Itoa(v.Len())
		}
		return s
	case *ORMap:
		keys := v.Keys()
		ss := make([]string, len(keys))
		for i, k := range keys {
			val, ok := v.Get(k)
			if !ok || val == nil {
				ss[i] = c38ElemStr(k) + "-><novalue>"
			} else {
				ss[i] = c38ElemStr(k) + "->" + c38Val(val)
			}
		}
		sort.Strings(ss)
		return "map={" + strings.Join(ss, "; ") + "}"
	}
	return fmt.Sprintf("?%T", d)
}

// c38Raw is the replicated (causal) state, through the exported State/RawState API.
func c38Raw(d ReplicatedData) string {
	switch v := d.(type) {
	case nil:
		return "<nil>"
	case *GCounter:
		return "GC" + c38ClockStr(v.State())
	case *PNCounter:
		p, n := v.State()
		return "PN+" + c38ClockStr(p) + "-" + c38ClockStr(n)
	case *Flag:
		return "F" + strconv.FormatBool(v.Enabled())
	case *LWWRegister:
		return fmt.Sprintf("LWW(%s,%d,%s)", c38ElemStr(v.Value()), v.Timestamp(), v.NodeID())
	case *MVRegister:
		es, clk := v.RawState()
		ss := make([]string, len(es))
		for i, e := range es {
			ss[i] = e.Dot.NodeID + "." + strconv.FormatUint(e.Dot.Counter, 10) + "=" + c38ElemStr(e.Value)
		}
		sort.Strings(ss)
		return "MV[" + strings.Join(ss, " ") + "]" + c38ClockStr(clk)
	case *ORSet:
		es, clk := v.RawState()
		return "OS" + c38EntriesStr(es) + c38ClockStr(clk)
	case *ORMap:
		st := v.RawState()
		ss := make([]string, 0, len(st.Values))
		for k, val := range st.Values {
			ss = append(ss, c38ElemStr(k)+"=>"+c38Raw(val))
		}
		sort.Strings(ss)
		return "OM" + c38EntriesStr(st.KeyEntries) + c38ClockStr(st.KeyClock) + "<" + strings.Join(ss, "; ") + ">"
	}
	return fmt.Sprintf("?%T", d)
}

func c38EntriesStr(es []Entry) string {
	ss := make([]string, len(es))
	for i, e := range es {
		ss[i] = c38ElemStr(e.Element) + c38DotsStr(e.Dots)
	}
	sort.Strings(ss)
	return "{" + strings.Join(ss, " ") + "}"
}

func c38InternalDots(m map[any][]dot) string {
	ss := make([]string, 0, len(m))
	for e, ds := range m {
		ex := make([]Dot, len(ds))
		for i, d := range ds {
			ex[i] = Dot{NodeID: d.nodeID, Counter: d.counter}
		}
		ss = append(ss, c38ElemStr(e)+c38DotsStr(ex))
	}
	sort.Strings(ss)
	return "{" + strings.Join(ss, " ") + "}"
}

// c38Deep is the full internal state including delta tracking (unexported
// fields), used to decide "this object was modified".
func c38Deep(d ReplicatedData) string {
	switch v := d.(type) {
	case nil:
		return "<nil>"
	case *GCounter:
		return "GC" + c38ClockStr(v.state) + "d" + c38ClockStr(v.delta)
	case *PNCounter:
		return "PN+" + c38Deep(v.increments) + "-" + c38Deep(v.decrements)
	case *Flag:
		return fmt.Sprintf("F%v/%v", v.enabled, v.dirty)
	case *LWWRegister:
		return fmt.Sprintf("LWW(%s,%d,%s)/%v", c38ElemStr(v.value), v.timestamp, v.nodeID, v.dirty)
	case *MVRegister:
		ss := make([]string, len(v.entries))
		for i, e := range v.entries {
			ss[i] = e.dot.nodeID + "." + strconv.FormatUint(e.dot.counter, 10) + "=" + c38ElemStr(e.value)
		}
		// entry order is not observable; sorted
		sort.Strings(ss)
		return "MV[" + strings.Join(ss, " ") + "]" + c38ClockStr(v.clock) + fmt.Sprintf("/%v", v.dirty)
	case *ORSet:
		s := "OS" + c38InternalDots(v.entries) + c38ClockStr(v.clock)
		if v.delta != nil {
			s += "+" + c38InternalDots(v.delta.added) + "-" + c38InternalDots(v.delta.removed)
		} else {
			s += "<nodelta>"
		}
		return s
	case *ORMap:
		ss := make([]string, 0, len(v.values))
		for k, val := range v.values {
			ss = append(ss, c38ElemStr(k)+"=>"+c38Deep(val))
		}
		sort.Strings(ss)
		return "OM(" + c38Deep(v.keys) + ")<" + strings.Join(ss, "; ") + ">" + fmt.Sprintf("/%v", v.dirty)
	}
	return fmt.Sprintf("?%T", d)
}

// ---------------------------------------------------------------- information order

func c38Dominated(d Dot, clk map[string]uint64) bool { return d.Counter <= clk[d.NodeID] }

func c38HasDot(ds []Dot, d Dot) bool {
	for _, x := range ds {
		if x == d {
			return true
		}
	}
	return false
}

func c38EntryDots(es []Entry, elem any) []Dot {
	for _, e := range es {
		if e.Element == elem {
			return e.Dots
		}
	}
	return nil
}

// c38KeysShrink: an element of a's OR-set is absent from m although b (the other
// merge argument, may be absent) holds no covering remove for all of its dots.
func c38KeysShrink(aEs []Entry, mEs []Entry, bEs []Entry, bClk map[string]uint64, hasB bool) string {
	for _, e := range aEs {
		if len(e.Dots) == 0 {
			continue
		}
		if len(c38EntryDots(mEs, e.Element)) > 0 {
			continue
		}
		covered := hasB
		if hasB {
			bd := c38EntryDots(bEs, e.Element)
			for _, d := range e.Dots {
				if !c38Dominated(d, bClk) || c38HasDot(bd, d) {
					covered = false
				}
			}
		}
		if !covered {
			return "element " + c38ElemStr(e.Element) + " disappeared without a covering remove"
		}
	}
	return ""
}

// c38Shrinks reports (as text) information of a that is observably missing from
// m = a ⊔ b without b covering it; "" if a ⊑ m as far as the read API can tell.
// b may be nil (then nothing may disappear).
func c38Shrinks(a, m, b ReplicatedData) string {
	switch av := a.(type) {
	case *GCounter:
		if m.(*GCounter).Value() < av.Value() {
			return fmt.Sprintf("counter value decreased %d -> %d", av.Value(), m.(*GCounter).Value())
		}
	case *PNCounter:
		ap, an := av.State()
		mp, mn := m.(*PNCounter).State()
		if c38SumMap(mp) < c38SumMap(ap) || c38SumMap(mn) < c38SumMap(an) {
			return "increment or decrement total decreased"
		}
	case *Flag:
		if av.Enabled() && !m.(*Flag).Enabled() {
			return "enabled flag became disabled"
		}
	case *LWWRegister:
		mv := m.(*LWWRegister)
		if mv.Timestamp() < av.Timestamp() || (mv.Timestamp() == av.Timestamp() && mv.NodeID() < av.NodeID()) {
			return "register went back to an older (timestamp,node)"
		}
	case *MVRegister:
		aes, _ := av.RawState()
		mes, _ := m.(*MVRegister).RawState()
		var bes []MVEntry
		var bclk map[string]uint64
		if b != nil {
			bes, bclk = b.(*MVRegister).RawState()
		}
		for _, e := range aes {
			present := false
			for _, x := range mes {
				if x.Value == e.Value {
					present = true
				}
			}
			if present {
				continue
			}
			// every a-entry carrying that value must be covered by b
			for _, e2 := range aes {
				if e2.Value != e.Value {
					continue
				}
				bHas := false
				for _, x := range bes {
					if x.Dot == e2.Dot {
						bHas = true
					}
				}
				if b == nil || !c38Dominated(e2.Dot, bclk) || bHas {
					return "register value " + c38ElemStr(e.Value) + " disappeared without a covering write"
				}
			}
		}
	case *ORSet:
		aes, _ := av.RawState()
		mes, _ := m.(*ORSet).RawState()
		var bes []Entry
		var bclk map[string]uint64
		if b != nil {
			bes, bclk = b.(*ORSet).RawState()
		}
		return c38KeysShrink(aes, mes, bes, bclk, b != nil)
	case *ORMap:
		ast := av.RawState()
		mm := m.(*ORMap)
		mst := mm.RawState()
		var bst ORMapRawState
		var bm *ORMap
		if b != nil {
			bm = b.(*ORMap)
			bst = bm.RawState()
		}
		if s := c38KeysShrink(ast.KeyEntries, mst.KeyEntries, bst.KeyEntries, bst.KeyClock, b != nil); s != "" {
			return "key: " + s
		}
		for _, k := range av.Keys() {
			avv, aok := av.Get(k)
			mvv, mok := mm.Get(k)
			if !aok || avv == nil {
				continue
			}
			// a's contribution to the value must survive only while one of a's
			// own adds of the key is still live in m (otherwise a covered remove
			// took a's key, and the key is in m because of somebody else's add)
			live := false
			md := c38EntryDots(mst.KeyEntries, k)
			for _, d := range c38EntryDots(ast.KeyEntries, k) {
				if c38HasDot(md, d) {
					live = true
				}
			}
			if !live {
				continue
			}
			if !mok || mvv == nil {
				return "value of key " + c38ElemStr(k) + " disappeared while the key stayed"
			}
			var bvv ReplicatedData
			if bm != nil {
				if x, ok := bm.RawState().Values[k]; ok {
					bvv = x
				}
			}
			if fmt.Sprintf("%T", avv) != fmt.Sprintf("%T", mvv) {
				return "value type of key " + c38ElemStr(k) + " changed"
			}
			if bvv != nil && fmt.Sprintf("%T", bvv) != fmt.Sprintf("%T", avv) {
				bvv = nil
			}
			if s := c38Shrinks(avv, mvv, bvv); s != "" {
				return "value of key " + c38ElemStr(k) + ": " + s
			}
		}
	}
	return ""
}

// ---------------------------------------------------------------- worlds

// c38World is one execution: slots hold states; active slots perform ops under
// their own node id, passive slots only hold copies / merge results (an in-flight
// or stored full state).
type c38World struct {
	kind    int
	lwwMode int
	nElems  int
	st      []ReplicatedData
	active  []bool
	lwwW    []uint64 // per slot: bitmask of the timestamps this node wrote (top-level LWW, ts < 64)
	tick    int64    // timestamp source for nested LWW values (always unique and increasing)
	opid    int
	raw     []string // cache of c38Raw(st[i])
}

func c38NewWorld(kind, nActive, nPassive, nElems, lwwMode int) *c38World {
	w := &c38World{kind: kind, lwwMode: lwwMode, nElems: nElems, tick: 1000}
	for i := 0; i < nActive+nPassive; i++ {
		w.st = append(w.st, c38New(kind))
		w.active = append(w.active, i < nActive)
		w.lwwW = append(w.lwwW, 0)
		w.raw = append(w.raw, c38Raw(w.st[i]))
	}
	return w
}

func (w *c38World) clone() *c38World {
	c := *w
	c.st = append([]ReplicatedData(nil), w.st...)
	c.active = append([]bool(nil), w.active...)
	c.lwwW = append([]uint64(nil), w.lwwW...)
	c.raw = append([]string(nil), w.raw...)
	return &c
}

// key identifies the world up to replicated state.
func (w *c38World) key() string {
	var b strings.Builder
	for i := range w.st {
		b.WriteString(w.raw[i])
		b.WriteByte('|')
		if w.kind == c38KLWW {
			b.WriteString(strconv.FormatUint(w.lwwW[i], 16))
			b.WriteByte('|')
		}
	}
	return b.String()
}

// lwwAllowed applies the timestamp-domain rule for a top-level LWW write.
func (w *c38World) lwwAllowed(i int, ts int64) bool {
	if ts <= 0 || ts >= 63 {
		return false
	}
	mask := w.lwwW[i]
	var maxTs int64
	for t := int64(62); t > 0; t-- {
		if mask&(1<<uint(t)) != 0 {
			maxTs = t
			break
		}
	}
	switch w.lwwMode {
	case c38LWWMain:
		return ts > maxTs
	case c38LWWSameTick:
		return ts >= maxTs
	default:
		return mask&(1<<uint(ts)) == 0
	}
}

// apply performs op at slot i; false if the op is outside the domain.
func (w *c38World) apply(i int, op c38Op) bool {
	if !w.active[i] {
		return false
	}
	if w.kind == c38KLWW {
		if !w.lwwAllowed(i, op.B) {
			return false
		}
		w.lwwW[i] |= 1 << uint(op.B)
	}
	w.st[i] = c38ApplyData(w.kind, w.st[i], c38Node(i), op, 0)
	w.raw[i] = c38Raw(w.st[i])
	w.opid++
	return true
}

// merge sets slot i to st[i] ⊔ st[j].
func (w *c38World) merge(i, j int) {
	w.st[i] = w.st[i].Merge(w.st[j])
	w.raw[i] = c38Raw(w.st[i])
}

// c38BoundedOps enumerates the small op alphabet of the bounded-exhaustive part.
func c38BoundedOps(kind, nElems int) []c38Op {
	var ops []c38Op
	switch kind {
	case c38KGCounter:
		ops = []c38Op{{Code: c38OpInc, A: 1}, {Code: c38OpInc, A: 2}}
	case c38KPNCounter:
		ops = []c38Op{{Code: c38OpInc, A: 1}, {Code: c38OpDec, A: 1}, {Code: c38OpDec, A: 2}}
	case c38KFlag:
		ops = []c38Op{{Code: c38OpEnable}}
	case c38KLWW:
		for ts := int64(1); ts <= 3; ts++ {
			for v := 0; v < 2; v++ {
				ops = append(ops, c38Op{Code: c38OpSet, A: v, B: ts})
			}
		}
	case c38KMV:
		ops = []c38Op{{Code: c38OpSet, A: 0}, {Code: c38OpSet, A: 1}}
	case c38KORSet:
		for e := 0; e < nElems; e++ {
			ops = append(ops, c38Op{Code: c38OpAdd, A: e}, c38Op{Code: c38OpRemove, A: e})
		}
	case c38KORMap:
		for k := 0; k < nElems; k++ {
			nk := c38NestedKind(k, 0)
			subs := c38BoundedOps(nk, 1)
			ops = append(ops, c38Op{Code: c38OpBump, A: k, Sub: &subs[0]})
			if nk == c38KORSet {
				ops = append(ops, c38Op{Code: c38OpBump, A: k, Sub: &subs[1]})
			}
			ops = append(ops, c38Op{Code: c38OpRemove, A: k}, c38Op{Code: c38OpPutFresh, A: k, Sub: &subs[0]})
		}
	}
	return ops
}

// randOp draws an op for slot i from the larger random domain.
func (w *c38World) randOp(rng *rand.Rand, i int) c38Op {
	return w.randOpKind(rng, i, w.kind, 0)
}

func (w *c38World) randOpKind(rng *rand.Rand, i, kind, depth int) c38Op {
	w.opid++
	switch kind {
	case c38KGCounter:
		return c38Op{Code: c38OpInc, A: 1 + rng.Intn(3)}
	case c38KPNCounter:
		return c38Op{Code: rng.Intn(2), A: 1 + rng.Intn(3)}
	case c38KFlag:
		return c38Op{Code: c38OpEnable}
	case c38KLWW:
		if depth > 0 {
			w.tick++
			return c38Op{Code: c38OpSet, A: 100 + w.opid, B: w.tick}
		}
		// pick a timestamp near the frontier of what anybody wrote so that
		// cross-node ties, and (in the other domains) same-node ties / older
		// timestamps, actually happen
		var front int64
		for _, m := range w.lwwW {
			for t := int64(62); t > 0; t-- {
				if m&(1<<uint(t)) != 0 {
					if t > front {
						front = t
					}
					break
				}
			}
		}
		for try := 0; try < 20; try++ {
			ts := front + int64(rng.Intn(4)) - 1
			if w.lwwMode == c38LWWBackward && rng.Intn(2) == 0 {
				ts = 1 + int64(rng.Intn(int(front)+1))
			}
			if w.lwwAllowed(i, ts) {
				return c38Op{Code: c38OpSet, A: 100 + w.opid, B: ts}
			}
		}
		return c38Op{Code: c38OpSet, A: 100 + w.opid, B: front + 1}
	case c38KMV:
		if rng.Intn(3) == 0 {
			return c38Op{Code: c38OpSet, A: rng.Intn(2)}
		}
		return c38Op{Code: c38OpSet, A: 100 + w.opid}
	case c38KORSet:
		n := w.nElems
		if depth > 0 && n > 3 {
			n = 3
		}
		x := rng.Intn(100)
		switch {
		case x < 55:
			return c38Op{Code: c38OpAdd, A: rng.Intn(n)}
		case x < 95:
			return c38Op{Code: c38OpRemove, A: rng.Intn(n)}
		default:
			return c38Op{Code: c38OpCompact}
		}
	case c38KORMap:
		n := w.nElems
		if depth > 0 && n > 2 {
			n = 2
		}
		k := rng.Intn(n)
		x := rng.Intn(100)
		switch {
		case x < 55:
			sub := w.randOpKind(rng, i, c38NestedKind(k, depth), depth+1)
			return c38Op{Code: c38OpBump, A: k, Sub: &sub}
		case x < 70:
			sub := w.randOpKind(rng, i, c38NestedKind(k, depth), depth+1)
			return c38Op{Code: c38OpPutFresh, A: k, Sub: &sub}
		case x < 96:
			return c38Op{Code: c38OpRemove, A: k}
		default:
			return c38Op{Code: c38OpMCompact}
		}
	}
	panic("randOp")
}
