//go:build verif

package net

import (
	"bytes"
	"compress/gzip"
	"fmt"
	"io"
	"math/rand"
	"net"
	"strings"
	"sync"
	"sync/atomic"
	"testing"
	"time"

	"github.com/klauspost/compress/zstd"

	"github.com/tochemey/goakt/v4/internal/verifrt"
)

// ---------------------------------------------------------------------------
// in-memory full-duplex transport with unbounded buffers, fragmenting reads
// and an observable "reader blocked on an empty buffer" state
// ---------------------------------------------------------------------------

type c24Half struct {
	mu      sync.Mutex
	cond    *sync.Cond
	buf     []byte
	off     int
	closed  bool
	waiting int
	moved   int64 // bytes handed to readers
	rng     *rand.Rand
}

func c24NewHalf(seed int64) *c24Half {
	h := &c24Half{rng: rand.New(rand.NewSource(seed))}
	h.cond = sync.NewCond(&h.mu)
	return h
}

func (h *c24Half) write(p []byte) (int, error) {
	h.mu.Lock()
	defer h.mu.Unlock()
	if h.closed {
		return 0, io.ErrClosedPipe
	}
	h.buf = append(h.buf, p...)
	h.cond.Broadcast()
	return len(p), nil
}

func (h *c24Half) read(p []byte) (int, error) {
	h.mu.Lock()
	defer h.mu.Unlock()
	for h.off >= len(h.buf) {
		if h.closed {
			return 0, io.EOF
		}
		h.waiting++
		h.cond.Wait()
		h.waiting--
	}
	if len(p) == 0 {
		return 0, nil
	}
	// the transport may deliver any non-empty piece of what is buffered
	n := len(h.buf) - h.off
	switch h.rng.Intn(8) {
	case 0:
		n = 1
	case 1, 4:
		if n > 1 {
			n = 1 + h.rng.Intn(n)
		}
	case 2:
		if m := 1 + h.rng.Intn(64); m < n {
			n = m
		}
	}
	if n > len(p) {
		n = len(p)
	}
	copy(p, h.buf[h.off:h.off+n])
	h.off += n
	h.moved += int64(n)
	if h.off == len(h.buf) {
		h.buf, h.off = h.buf[:0], 0
	}
	return n, nil
}

func (h *c24Half) close() {
	h.mu.Lock()
	h.closed = true
	h.cond.Broadcast()
	h.mu.Unlock()
}

// starved reports the stable state "nothing buffered, not closed, a reader is
// blocked": together with "the writer has finished" nothing can ever arrive.
func (h *c24Half) starved() bool {
	h.mu.Lock()
	defer h.mu.Unlock()
	return h.off >= len(h.buf) && !h.closed && h.waiting > 0
}

func (h *c24Half) delivered() int64 {
	h.mu.Lock()
	defer h.mu.Unlock()
	return h.moved
}

type c24Addr struct{}

func (c24Addr) Network() string { return "c24" }
func (c24Addr) String() string  { return "c24" }

// c24Conn is one end of the transport.
type c24Conn struct {
	in, out *c24Half
}

func (c *c24Conn) Read(p []byte) (int, error)  { return c.in.read(p) }
func (c *c24Conn) Write(p []byte) (int, error) { return c.out.write(p) }
func (c *c24Conn) Close() error {
	c.out.close()
	c.in.close()
	return nil
}
func (c *c24Conn) LocalAddr() net.Addr              { return c24Addr{} }
func (c *c24Conn) RemoteAddr() net.Addr             { return c24Addr{} }
func (c *c24Conn) SetDeadline(time.Time) error      { return nil }
func (c *c24Conn) SetReadDeadline(time.Time) error  { return nil }
func (c *c24Conn) SetWriteDeadline(time.Time) error { return nil }

func c24Pipe(seed int64) (*c24Conn, *c24Conn) {
	ab, ba := c24NewHalf(seed), c24NewHalf(seed+1)
	return &c24Conn{in: ba, out: ab}, &c24Conn{in: ab, out: ba}
}

// ---------------------------------------------------------------------------
// scripts
// ---------------------------------------------------------------------------

type c24Script struct {
	writes   [][]byte
	desc     []string
	readSeed int64
	total    int
}

var c24EdgeSizes = []int{0, 1, 2, 255, 256, 257, 4095, 4096, 4097, 32767, 32768, 32769, 65535, 65536, 65537, 131071, 131073}

func c24Payload(rng *rand.Rand, n int) ([]byte, string) {
	b := make([]byte, n)
	switch rng.Intn(5) {
	case 0:
		return b, "zeros"
	case 1:
		rng.Read(b)
		return b, "random"
	case 2:
		const text = "the quick brown fox jumps over the lazy dog; "
		for i := range b {
			b[i] = text[i%len(text)]
		}
		return b, "text"
	case 3:
		// runs of random length: mixes compressible and incompressible spans
		for i := 0; i < n; {
			run := 1 + rng.Intn(300)
			v := byte(rng.Intn(256))
			rnd := rng.Intn(3) == 0
			for j := 0; j < run && i < n; j, i = j+1, i+1 {
				if rnd {
					b[i] = byte(rng.Intn(256))
				} else {
					b[i] = v
				}
			}
		}
		return b, "runs"
	default:
		for i := range b {
			b[i] = byte(i)
		}
		return b, "ramp"
	}
}

func c24GenScript(rng *rand.Rand, big int) *c24Script {
	s := &c24Script{readSeed: rng.Int63()}
	if big > 0 {
		p, kind := c24Payload(rng, big)
		s.writes, s.desc, s.total = [][]byte{p}, []string{fmt.Sprintf("%s:%d", kind, len(p))}, len(p)
		return s
	}
	nw := 0
	switch rng.Intn(6) {
	case 0:
		nw = 0
	case 1:
		nw = 1
	case 2:
		nw = 40 + rng.Intn(200) // many tiny writes
	default:
		nw = 2 + rng.Intn(12)
	}
	tiny := nw >= 40
	for i := 0; i < nw && s.total < 200<<10; i++ {
		var n int
		switch {
		case tiny:
			n = rng.Intn(3)
		case rng.Intn(3) == 0:
			n = c24EdgeSizes[rng.Intn(len(c24EdgeSizes))]
		case rng.Intn(5) == 0:
			n = rng.Intn(140000)
		default:
			n = rng.Intn(3000)
		}
		p, kind := c24Payload(rng, n)
		s.writes = append(s.writes, p)
		s.desc = append(s.desc, fmt.Sprintf("%s:%d", kind, n))
		s.total += n
	}
	return s
}

func (s *c24Script) expected() []byte {
	out := make([]byte, 0, s.total)
	for _, w := range s.writes {
		out = append(out, w...)
	}
	return out
}

func (s *c24Script) summary() string {
	d := s.desc
	if len(d) > 24 {
		d = append(append([]string{}, d[:24]...), fmt.Sprintf("...(%d writes)", len(s.desc)))
	}
	return strings.Join(d, ",")
}

// ---------------------------------------------------------------------------
// codecs
// ---------------------------------------------------------------------------

type c24Codec struct {
	name   string
	a, b   ConnWrapper // the two endpoints' wrappers, reused by every case of the batch
	levels string
}

func c24Codecs(t *testing.T, rng *rand.Rand) []*c24Codec {
	gl := []int{gzip.DefaultCompression, gzip.BestSpeed, gzip.BestCompression, gzip.HuffmanOnly, gzip.NoCompression, 6}
	g1, g2 := gl[rng.Intn(len(gl))], gl[rng.Intn(len(gl))]
	ga, err := NewGzipConnWrapper(WithGzipLevel(g1))
	if err != nil {
		t.Fatalf("c24: gzip wrapper: %v", err)
	}
	gb, err := NewGzipConnWrapper(WithGzipLevel(g2))
	if err != nil {
		t.Fatalf("c24: gzip wrapper: %v", err)
	}
	zl := []zstd.EncoderLevel{zstd.SpeedFastest, zstd.SpeedDefault, zstd.SpeedBetterCompression}
	z1, z2 := zl[rng.Intn(len(zl))], zl[rng.Intn(len(zl))]
	za, err := NewZstdConnWrapper(WithZstdLevel(z1))
	if err != nil {
		t.Fatalf("c24: zstd wrapper: %v", err)
	}
	zb, err := NewZstdConnWrapper(WithZstdLevel(z2))
	if err != nil {
		t.Fatalf("c24: zstd wrapper: %v", err)
	}
	bl := []int{0, 1, 2, 4, 5, 6, 6, 9}
	b1, b2 := bl[rng.Intn(len(bl))], bl[rng.Intn(len(bl))]
	return []*c24Codec{
		{name: "none"},
		{name: "gzip", a: ga, b: gb, levels: fmt.Sprintf("%d/%d", g1, g2)},
		{name: "zstd", a: za, b: zb, levels: fmt.Sprintf("%v/%v", z1, z2)},
		{name: "brotli", a: NewBrotliConnWrapper(WithBrotliLevel(b1)), b: NewBrotliConnWrapper(WithBrotliLevel(b2)), levels: fmt.Sprintf("%d/%d", b1, b2)},
	}
}

// ---------------------------------------------------------------------------
// one connection
// ---------------------------------------------------------------------------

type c24Dir struct {
	name       string
	script     *c24Script
	expect     []byte
	writerDone atomic.Bool
	readerDone atomic.Bool
	writeErr   atomic.Value // string
	got        atomic.Int64
	half       *c24Half // transport half that carries this direction
}

type c24Case struct {
	r      *verifrt.Run
	codec  *c24Codec
	id     string
	ab, ba *c24Dir
	closeK int // >=0: A closes after closeK writes (A->B only carries data)
	failed atomic.Bool
	abort  atomic.Bool // the harness is tearing the connection down: nothing seen from now on counts
}

func (c *c24Case) detail(extra map[string]any) map[string]any {
	d := map[string]any{"codec": c.codec.name, "levels": c.codec.levels, "case": c.id,
		"a_to_b_writes": c.ab.script.summary(), "b_to_a_writes": c.ba.script.summary(),
		"a_to_b_total": c.ab.script.total, "b_to_a_total": c.ba.script.total, "close_after_writes": c.closeK}
	for k, v := range extra {
		d[k] = v
	}
	return d
}

func (c *c24Case) violation(kind string, extra map[string]any) {
	if c.abort.Load() {
		return
	}
	c.failed.Store(true)
	c.r.Violation("compress-stream:"+kind+":"+c.codec.name, c.detail(extra))
}

func (c *c24Case) writer(conn net.Conn, d *c24Dir, upTo int) {
	defer d.writerDone.Store(true)
	defer func() {
		if rec := recover(); rec != nil {
			c.violation("panic-in-write", map[string]any{"direction": d.name, "panic": fmt.Sprint(rec), "stack": verifrt.Stack()})
		}
	}()
	for i, w := range d.script.writes {
		if i >= upTo {
			return
		}
		n, err := conn.Write(w)
		if err != nil || n != len(w) {
			d.writeErr.Store(fmt.Sprint(err))
			c.violation("write-error", map[string]any{"direction": d.name, "write_index": i, "n": n, "len": len(w), "error": fmt.Sprint(err)})
			return
		}
	}
}

// reader reads until want bytes arrived, comparing as it goes.
func (c *c24Case) reader(conn net.Conn, d *c24Dir, want int) {
	defer d.readerDone.Store(true)
	defer func() {
		if rec := recover(); rec != nil {
			c.violation("panic-in-read", map[string]any{"direction": d.name, "panic": fmt.Sprint(rec), "stack": verifrt.Stack()})
		}
	}()
	rng := rand.New(rand.NewSource(d.script.readSeed))
	buf := make([]byte, 1<<17)
	off := 0
	for off < want {
		sz := 1
		switch rng.Intn(5) {
		case 0:
			sz = 1
		case 1:
			sz = 1 + rng.Intn(16)
		case 2:
			sz = 1 + rng.Intn(4096)
		default:
			sz = len(buf)
		}
		n, err := conn.Read(buf[:sz])
		if n > 0 {
			if off+n > len(d.expect) || !bytes.Equal(buf[:n], d.expect[off:off+n]) {
				at := off
				for k := 0; k < n && off+k < len(d.expect) && buf[k] == d.expect[off+k]; k++ {
					at++
				}
				c.violation("bytes-differ", map[string]any{"direction": d.name, "first_difference_at": at, "read_offset": off, "read_len": n, "written_total": len(d.expect)})
				return
			}
			off += n
			d.got.Store(int64(off))
		}
		if err != nil {
			if off < want {
				c.violation("read-error-before-all-bytes", map[string]any{"direction": d.name, "error": err.Error(), "got": off, "want": want})
			}
			return
		}
	}
}

// drain reads after the expected bytes: only end-of-stream may follow.
func (c *c24Case) drain(conn net.Conn, d *c24Dir, from int, mayBeShort bool) {
	defer func() {
		if rec := recover(); rec != nil {
			c.violation("panic-in-read", map[string]any{"direction": d.name, "panic": fmt.Sprint(rec), "stack": verifrt.Stack()})
		}
	}()
	buf := make([]byte, 4096)
	off := from
	for {
		n, err := conn.Read(buf)
		if n > 0 {
			if off+n > len(d.expect) {
				c.violation("extra-bytes", map[string]any{"direction": d.name, "written_total": len(d.expect), "read_total": off + n})
				return
			}
			if !bytes.Equal(buf[:n], d.expect[off:off+n]) {
				c.violation("bytes-differ", map[string]any{"direction": d.name, "read_offset": off, "read_len": n, "after_close": true})
				return
			}
			off += n
		}
		if err != nil {
			d.got.Store(int64(off))
			return
		}
	}
}

// run executes one connection; returns false on watchdog.
func (c *c24Case) run(seed int64) bool {
	rawA, rawB := c24Pipe(seed)
	c.ab.half, c.ba.half = rawA.out, rawB.out
	var a, b net.Conn = rawA, rawB
	if c.codec.a != nil {
		var err error
		if a, err = c.codec.a.Wrap(rawA); err != nil {
			c.violation("wrap-error", map[string]any{"error": err.Error()})
			return true
		}
		if b, err = c.codec.b.Wrap(rawB); err != nil {
			c.violation("wrap-error", map[string]any{"error": err.Error()})
			_ = a.Close()
			return true
		}
	}
	closeSafely := func(conn net.Conn, who string) {
		defer func() {
			if rec := recover(); rec != nil {
				c.violation("panic-in-close", map[string]any{"end": who, "panic": fmt.Sprint(rec), "stack": verifrt.Stack()})
			}
		}()
		_ = conn.Close()
	}

	if c.closeK >= 0 {
		// A writes closeK writes and closes; B must see a clean prefix
		c.writer(a, c.ab, c.closeK)
		closeSafely(a, "a")
		done := make(chan struct{})
		go func() { defer close(done); c.drain(b, c.ab, 0, true) }()
		select {
		case <-done:
		case <-time.After(300 * time.Second):
			c.abort.Store(true)
			rawB.Close()
			return false
		}
		wrote := 0
		for i := 0; i < c.closeK && i < len(c.ab.script.writes); i++ {
			wrote += len(c.ab.script.writes[i])
		}
		if got := int(c.ab.got.Load()); got < wrote && !c.failed.Load() {
			c.r.Count("midclose_short_prefix", 1)
		} else {
			c.r.Count("midclose_complete", 1)
		}
		closeSafely(b, "b")
		return true
	}

	var wg sync.WaitGroup
	wg.Add(4)
	go func() { defer wg.Done(); c.writer(a, c.ab, len(c.ab.script.writes)) }()
	go func() { defer wg.Done(); c.writer(b, c.ba, len(c.ba.script.writes)) }()
	go func() { defer wg.Done(); c.reader(b, c.ab, len(c.ab.expect)) }()
	go func() { defer wg.Done(); c.reader(a, c.ba, len(c.ba.expect)) }()
	all := make(chan struct{})
	go func() { wg.Wait(); close(all) }()

	// a direction is starved when its writer returned from every Write, the
	// transport holds nothing, and the reader is blocked with bytes missing
	starved := func(d *c24Dir) bool {
		return d.writerDone.Load() && !d.readerDone.Load() && d.half.starved()
	}
	ok := verifrt.WaitUntil(400*time.Second, func() bool {
		select {
		case <-all:
			return true
		default:
		}
		return starved(c.ab) || starved(c.ba)
	})
	finished := false
	select {
	case <-all:
		finished = true
	default:
	}
	if !finished {
		if !ok {
			c.abort.Store(true)
			rawA.Close()
			rawB.Close()
			<-all
			return false
		}
		for _, d := range []*c24Dir{c.ab, c.ba} {
			if starved(d) {
				c.violation("bytes-withheld-after-write-returned", map[string]any{"direction": d.name, "got": d.got.Load(), "want": len(d.expect), "transport_bytes_delivered": d.half.delivered()})
			}
		}
		// unblock the readers; they report nothing further
		c.abort.Store(true)
		rawA.Close()
		rawB.Close()
		<-all
		return true
	}
	if c.failed.Load() {
		rawA.Close()
		rawB.Close()
		return true
	}
	// orderly shutdown: after A closes, B may only see the end of the stream
	closeSafely(a, "a")
	done := make(chan struct{})
	go func() { defer close(done); c.drain(b, c.ab, len(c.ab.expect), false) }()
	select {
	case <-done:
	case <-time.After(300 * time.Second):
		c.abort.Store(true)
		rawB.Close()
		return false
	}
	closeSafely(b, "b")
	return true
}

// TestVerif_C24: every codec's connection wrapper between two ends of an
// in-memory transport; both directions at once; everything read is compared
// with everything written.
func TestVerif_C24(t *testing.T) {
	r := verifrt.Start(t, "C24")
	defer r.Finish()
	r.Rule("case = one connection over an in-memory full-duplex transport (unbounded buffers, transport reads fragmented at random) whose two ends are wrapped by the package's wrapper for codec in {none, gzip, zstd, brotli} (random levels per batch, wrapper objects and their pools reused by all cases of the batch, 3 connections at a time); both ends write a generated script of writes (zeros/random/text/runs payloads; 0-byte, 1-byte, 2^k+-1 and up to 140 KB writes; one 2 MiB (thorough: 8 MiB) single write per codec and run) while the other end reads with random read sizes and compares every byte; then an orderly close must show only end-of-stream; in 1 of 6 cases one end closes after k writes and the other must read a clean prefix. non-trivial = at least two writes and at least one byte in some direction; distinct by codec, levels and scripts")
	r.Assume("a direction is reported as withheld only in the stable state: its writer returned from all Writes, the transport buffer is empty and the reader is blocked")

	rng := r.Rand(24)
	codecs := c24Codecs(t, rng)
	n := r.N(240, 12000)
	type job struct {
		c    *c24Case
		seed int64
		nt   bool
		key  string
	}
	jobs := make([]job, 0, n)
	for i := 0; i < n; i++ {
		codec := codecs[(i+r.Batch)%len(codecs)]
		big := r.Batch < len(codecs) && i == r.Batch // one 8 MiB write per codec per run (batches 0..3)
		if big {
			codec = codecs[r.Batch]
		}
		c := &c24Case{r: r, codec: codec, id: fmt.Sprintf("b%d/%d", r.Batch, i), closeK: -1}
		bigSize := 0
		if big {
			bigSize = r.Pick(2<<20, 8<<20)
		}
		c.ab = &c24Dir{name: "a->b", script: c24GenScript(rng, bigSize)}
		c.ba = &c24Dir{name: "b->a", script: c24GenScript(rng, 0)}
		if !big && rng.Intn(6) == 0 && len(c.ab.script.writes) > 0 {
			c.closeK = rng.Intn(len(c.ab.script.writes) + 1)
			c.ba.script = &c24Script{}
		}
		c.ab.expect, c.ba.expect = c.ab.script.expected(), c.ba.script.expected()
		key := fmt.Sprintf("%s/%s/%s|%s/%d", codec.name, codec.levels, strings.Join(c.ab.script.desc, ","), strings.Join(c.ba.script.desc, ","), c.closeK)
		nt := (len(c.ab.script.writes) >= 2 && c.ab.script.total > 0) || (len(c.ba.script.writes) >= 2 && c.ba.script.total > 0)
		jobs = append(jobs, job{c: c, seed: rng.Int63(), nt: nt, key: key})
		if i < 3 {
			r.Sample(map[string]any{"codec": codec.name, "levels": codec.levels, "a_to_b": c.ab.script.summary(), "b_to_a": c.ba.script.summary(), "close_after": c.closeK})
		}
	}
	// three connections at a time share the wrappers
	var wg sync.WaitGroup
	ch := make(chan job)
	var watchdog atomic.Int64
	for w := 0; w < 3; w++ {
		wg.Add(1)
		go func() {
			defer wg.Done()
			for j := range ch {
				t0 := time.Now()
				if !j.c.run(j.seed) {
					watchdog.Add(1)
				}
				ms := time.Since(t0).Milliseconds()
				r.Max("max_connection_ms_"+j.c.codec.name, ms)
				r.Count("total_connection_ms_"+j.c.codec.name, ms)
				r.Count("bytes_compared", j.c.ab.got.Load()+j.c.ba.got.Load())
				r.Count("connections_"+j.c.codec.name, 1)
				r.Max("max_single_write_bytes", int64(c24MaxWrite(j.c)))
				r.Case(j.key, j.nt)
			}
		}()
	}
	for _, j := range jobs {
		ch <- j
	}
	close(ch)
	wg.Wait()
	if w := watchdog.Load(); w > 0 {
		r.Inconclusive("%d connections hit the watchdog without a structural violation", w)
	}
}

func c24MaxWrite(c *c24Case) int {
	m := 0
	for _, s := range []*c24Script{c.ab.script, c.ba.script} {
		for _, w := range s.writes {
			if len(w) > m {
				m = len(w)
			}
		}
	}
	return m
}
