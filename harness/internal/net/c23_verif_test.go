//go:build verif

package net

import (
	"bytes"
	"context"
	"encoding/binary"
	"errors"
	"fmt"
	"hash/fnv"
	"io"
	"math"
	"math/rand"
	"runtime"
	"sort"
	"strings"
	"sync"
	"sync/atomic"
	"testing"
	"time"

	"google.golang.org/protobuf/proto"
	"google.golang.org/protobuf/reflect/protoreflect"
	"google.golang.org/protobuf/reflect/protoregistry"

	_ "github.com/tochemey/goakt/v4/internal/internalpb"
	"github.com/tochemey/goakt/v4/internal/verifrt"
)

// ---------------------------------------------------------------------------
// generators
// ---------------------------------------------------------------------------

// c23MessageTypes returns every message type of the internal wire schema.
func c23MessageTypes() []protoreflect.MessageType {
	var out []protoreflect.MessageType
	protoregistry.GlobalTypes.RangeMessages(func(mt protoreflect.MessageType) bool {
		d := mt.Descriptor()
		if strings.HasPrefix(string(d.FullName()), "internalpb.") && !d.IsMapEntry() {
			out = append(out, mt)
		}
		return true
	})
	sort.Slice(out, func(i, j int) bool { return out[i].Descriptor().FullName() < out[j].Descriptor().FullName() })
	return out
}

func c23String(rng *rand.Rand) string {
	switch rng.Intn(12) {
	case 0:
		return ""
	case 1:
		return "é世界 \x00z"
	case 2:
		if rng.Intn(8) == 0 {
			return strings.Repeat("L", 1<<16) // long string
		}
		return strings.Repeat("ab", rng.Intn(600))
	}
	n := rng.Intn(24)
	b := make([]byte, n)
	for i := range b {
		b[i] = byte(32 + rng.Intn(95))
	}
	return string(b)
}

func c23Bytes(rng *rand.Rand, max int) []byte {
	n := rng.Intn(max + 1)
	if rng.Intn(6) == 0 {
		n = 0
	}
	b := make([]byte, n)
	rng.Read(b)
	return b
}

func c23Scalar(rng *rand.Rand, fd protoreflect.FieldDescriptor) protoreflect.Value {
	edge := rng.Intn(5) == 0
	switch fd.Kind() {
	case protoreflect.BoolKind:
		return protoreflect.ValueOfBool(rng.Intn(2) == 0)
	case protoreflect.EnumKind:
		vals := fd.Enum().Values()
		if vals.Len() == 0 || rng.Intn(10) == 0 {
			return protoreflect.ValueOfEnum(protoreflect.EnumNumber(rng.Intn(1000))) // open enum: unknown number
		}
		return protoreflect.ValueOfEnum(vals.Get(rng.Intn(vals.Len())).Number())
	case protoreflect.Int32Kind, protoreflect.Sint32Kind, protoreflect.Sfixed32Kind:
		if edge {
			return protoreflect.ValueOfInt32([]int32{0, 1, -1, math.MaxInt32, math.MinInt32}[rng.Intn(5)])
		}
		return protoreflect.ValueOfInt32(int32(rng.Uint32()))
	case protoreflect.Uint32Kind, protoreflect.Fixed32Kind:
		if edge {
			return protoreflect.ValueOfUint32([]uint32{0, 1, math.MaxUint32, 127, 128}[rng.Intn(5)])
		}
		return protoreflect.ValueOfUint32(rng.Uint32())
	case protoreflect.Int64Kind, protoreflect.Sint64Kind, protoreflect.Sfixed64Kind:
		if edge {
			return protoreflect.ValueOfInt64([]int64{0, 1, -1, math.MaxInt64, math.MinInt64}[rng.Intn(5)])
		}
		return protoreflect.ValueOfInt64(int64(rng.Uint64()))
	case protoreflect.Uint64Kind, protoreflect.Fixed64Kind:
		if edge {
			return protoreflect.ValueOfUint64([]uint64{0, 1, math.MaxUint64, 1 << 63}[rng.Intn(4)])
		}
		return protoreflect.ValueOfUint64(rng.Uint64())
	case protoreflect.FloatKind:
		if edge {
			return protoreflect.ValueOfFloat32([]float32{0, float32(math.Inf(1)), float32(math.NaN()), math.MaxFloat32, -1.5}[rng.Intn(5)])
		}
		return protoreflect.ValueOfFloat32(rng.Float32())
	case protoreflect.DoubleKind:
		if edge {
			return protoreflect.ValueOfFloat64([]float64{0, math.Inf(-1), math.NaN(), math.MaxFloat64, math.SmallestNonzeroFloat64}[rng.Intn(5)])
		}
		return protoreflect.ValueOfFloat64(rng.NormFloat64())
	case protoreflect.StringKind:
		return protoreflect.ValueOfString(c23String(rng))
	case protoreflect.BytesKind:
		return protoreflect.ValueOfBytes(c23Bytes(rng, 64))
	}
	panic("c23: unexpected kind " + fd.Kind().String())
}

// c23Fill populates m with seeded values over every field kind of its
// descriptor (scalars, enums, nested messages, repeated, maps, oneofs).
func c23Fill(rng *rand.Rand, m protoreflect.Message, depth int) {
	fds := m.Descriptor().Fields()
	for i := 0; i < fds.Len(); i++ {
		fd := fds.Get(i)
		if rng.Intn(10) < 3 {
			continue // leave unset
		}
		if od := fd.ContainingOneof(); od != nil && !od.IsSynthetic() {
			// at most one member of a real oneof: choose with probability 1/len
			if rng.Intn(od.Fields().Len()) != 0 {
				continue
			}
		}
		isMsg := fd.Kind() == protoreflect.MessageKind || fd.Kind() == protoreflect.GroupKind
		switch {
		case fd.IsMap():
			if depth <= 0 && fd.MapValue().Kind() == protoreflect.MessageKind {
				continue
			}
			mp := m.Mutable(fd).Map()
			for n := rng.Intn(4); n > 0; n-- {
				k := c23Scalar(rng, fd.MapKey()).MapKey()
				if fd.MapValue().Kind() == protoreflect.MessageKind {
					v := mp.NewValue()
					c23Fill(rng, v.Message(), depth-1)
					mp.Set(k, v)
				} else {
					mp.Set(k, c23Scalar(rng, fd.MapValue()))
				}
			}
		case fd.IsList():
			if depth <= 0 && isMsg {
				continue
			}
			l := m.Mutable(fd).List()
			for n := rng.Intn(4); n > 0; n-- {
				if isMsg {
					v := l.NewElement()
					c23Fill(rng, v.Message(), depth-1)
					l.Append(v)
				} else {
					l.Append(c23Scalar(rng, fd))
				}
			}
		case isMsg:
			if depth <= 0 {
				continue
			}
			c23Fill(rng, m.Mutable(fd).Message(), depth-1)
		default:
			m.Set(fd, c23Scalar(rng, fd))
		}
	}
}

type c23MD struct {
	md       *Metadata
	headers  map[string]string
	deadline time.Time // zero = none
	kind     string
}

func c23HeaderPart(rng *rand.Rand) string {
	switch rng.Intn(10) {
	case 0:
		return ""
	case 1:
		b := make([]byte, rng.Intn(20))
		rng.Read(b) // arbitrary bytes, not only text
		return string(b)
	}
	n := 1 + rng.Intn(30)
	b := make([]byte, n)
	for i := range b {
		b[i] = "abcdefghijklmnopqrstuvwxyz-0123456789"[rng.Intn(37)]
	}
	return string(b)
}

// c23GenMD builds a metadata value; class "max" is the wire-limit case.
func c23GenMD(rng *rand.Rand, class string) *c23MD {
	out := &c23MD{headers: map[string]string{}}
	md := NewMetadata()
	switch class {
	case "max-count":
		for i := 0; i < 65535; i++ {
			k := fmt.Sprintf("k%05x", i)
			out.headers[k] = "v"
		}
	case "max-len":
		out.headers[strings.Repeat("K", 65535)] = strings.Repeat("V", 65535)
		out.headers["x"] = strings.Repeat("W", 65535)
		out.headers[strings.Repeat("Y", 65535)] = ""
	default:
		n := 0
		switch rng.Intn(6) {
		case 0:
			n = 0
		case 1:
			n = 1
		case 2:
			n = 255 + rng.Intn(3) // around a one-byte count
		case 3:
			n = rng.Intn(301)
		default:
			n = rng.Intn(8)
		}
		for len(out.headers) < n {
			k := c23HeaderPart(rng)
			if len(out.headers) > 6 {
				k = fmt.Sprintf("%s#%d", k, len(out.headers))
			}
			out.headers[k] = c23HeaderPart(rng)
		}
	}
	for k, v := range out.headers {
		md.Set(k, v)
	}
	now := time.Now()
	switch rng.Intn(6) {
	case 0, 1:
		out.kind = "none"
	case 2:
		out.deadline, out.kind = now.Add(-time.Duration(1+rng.Int63n(int64(time.Hour)))), "past"
	case 3:
		out.deadline, out.kind = now.Add(100*365*24*time.Hour), "far"
	case 4:
		out.deadline, out.kind = now.Add(time.Duration(rng.Int63n(int64(time.Second)))), "near"
	default:
		out.deadline, out.kind = now.Add(time.Duration(rng.Int63n(int64(48*time.Hour)))), "future"
	}
	if !out.deadline.IsZero() {
		md.SetDeadline(out.deadline)
	}
	out.md = md
	return out
}

func c23HeadersHash(h map[string]string) uint64 {
	keys := make([]string, 0, len(h))
	for k := range h {
		keys = append(keys, k)
	}
	sort.Strings(keys)
	f := fnv.New64a()
	for _, k := range keys {
		fmt.Fprintf(f, "%d:%s=%d:%s;", len(k), k, len(h[k]), h[k])
	}
	return f.Sum64()
}

// ---------------------------------------------------------------------------
// round-trip oracle
// ---------------------------------------------------------------------------

type c23Decoded struct {
	msg  proto.Message
	md   *Metadata
	name string
	err  error
	pan  string
}

const (
	c23DecPlain = iota // ProtoSerializer.UnmarshalBinary
	c23DecMeta         // ProtoSerializer.UnmarshalBinaryWithMetadata
	c23DecAuto         // Client.unmarshalProtoResponse (format auto-detection)
)

var c23DecNames = []string{"UnmarshalBinary", "UnmarshalBinaryWithMetadata", "unmarshalProtoResponse"}

func c23Decode(which int, cl *Client, data []byte) (d c23Decoded) {
	defer func() {
		if rec := recover(); rec != nil {
			d.pan = fmt.Sprint(rec)
			d.err = errors.New("panic")
		}
	}()
	ser := cl.serializer
	switch which {
	case c23DecPlain:
		m, n, err := ser.UnmarshalBinary(data)
		d.msg, d.err = m, err
		d.name = strings.Clone(string(n))
	case c23DecMeta:
		m, md, n, err := ser.UnmarshalBinaryWithMetadata(data)
		d.msg, d.md, d.err = m, md, err
		d.name = strings.Clone(string(n))
	default:
		m, md, err := cl.unmarshalProtoResponse(data)
		d.msg, d.md, d.err = m, md, err
		if m != nil {
			d.name = string(proto.MessageName(m))
		}
	}
	return
}

func c23Short(b []byte) string {
	if len(b) > 96 {
		return fmt.Sprintf("%x...(%d bytes)", b[:96], len(b))
	}
	return fmt.Sprintf("%x", b)
}

// c23CheckDecoded compares one decode result with what was encoded.
func c23CheckDecoded(r *verifrt.Run, path string, m proto.Message, want *c23MD, d c23Decoded, elapsed time.Duration, frame []byte) bool {
	det := func(extra map[string]any) map[string]any {
		o := map[string]any{"path": path, "type": string(proto.MessageName(m)), "frame": c23Short(frame), "message": c23MsgText(m)}
		if want != nil {
			o["headers"] = len(want.headers)
			o["deadline_kind"] = want.kind
		}
		for k, v := range extra {
			o[k] = v
		}
		return o
	}
	if d.pan != "" {
		r.Violation("frame-roundtrip:panic:"+path, det(map[string]any{"panic": d.pan}))
		return false
	}
	if d.err != nil {
		r.Violation("frame-roundtrip:decode-error:"+path, det(map[string]any{"error": d.err.Error()}))
		return false
	}
	ok := true
	if d.msg == nil || !proto.Equal(m, d.msg) {
		r.Violation("frame-roundtrip:message-differs:"+path, det(map[string]any{"got": c23MsgText(d.msg)}))
		ok = false
	}
	if d.name != string(proto.MessageName(m)) {
		r.Violation("frame-roundtrip:type-name-differs:"+path, det(map[string]any{"got_name": d.name}))
		ok = false
	}
	if want == nil {
		if d.md != nil {
			r.Violation("frame-roundtrip:metadata-invented:"+path, det(map[string]any{"got_headers": len(d.md.headers)}))
			ok = false
		}
		return ok
	}
	if d.md == nil {
		r.Violation("frame-roundtrip:metadata-lost:"+path, det(nil))
		return false
	}
	if !c23SameHeaders(want.headers, d.md.headers) {
		r.Violation("frame-roundtrip:headers-differ:"+path, det(map[string]any{"got_headers": len(d.md.headers), "diff": c23HeaderDiff(want.headers, d.md.headers)}))
		ok = false
	}
	got, has := d.md.GetDeadline()
	if want.deadline.IsZero() != !has {
		r.Violation("frame-roundtrip:deadline-presence:"+path, det(map[string]any{"got_has_deadline": has}))
		ok = false
	} else if has {
		// the deadline is re-based on the decoder's clock: it may only move
		// forward by the time that passed between encode and decode
		drift := got.Sub(time.Unix(0, want.deadline.UnixNano()))
		if drift < -time.Millisecond || drift > elapsed+time.Millisecond {
			r.Violation("frame-roundtrip:deadline-drift:"+path, det(map[string]any{"drift_ns": int64(drift), "elapsed_ns": int64(elapsed)}))
			ok = false
		}
	}
	return ok
}

func c23MsgText(m proto.Message) string {
	if m == nil {
		return "<nil>"
	}
	s := fmt.Sprintf("%v", m)
	if len(s) > 400 {
		s = s[:400] + "..."
	}
	return s
}

func c23SameHeaders(a, b map[string]string) bool {
	if len(a) != len(b) {
		return false
	}
	for k, v := range a {
		if w, ok := b[k]; !ok || w != v {
			return false
		}
	}
	return true
}

func c23HeaderDiff(want, got map[string]string) string {
	var sb strings.Builder
	n := 0
	for k, v := range want {
		if w, ok := got[k]; !ok || w != v {
			if n < 3 {
				fmt.Fprintf(&sb, "want[%.40q]=%.40q got=%.40q present=%v; ", k, v, w, ok)
			}
			n++
		}
	}
	for k := range got {
		if _, ok := want[k]; !ok {
			if n < 3 {
				fmt.Fprintf(&sb, "extra[%.40q]; ", k)
			}
			n++
		}
	}
	fmt.Fprintf(&sb, "%d differing keys", n)
	return sb.String()
}

// c23Scribble overwrites a pooled frame before it goes back to the pool:
// what was decoded from it must not change.
func c23Scribble(b []byte) {
	b = b[:cap(b)]
	for i := range b {
		b[i] = 0xA5
	}
}

type c23Frame struct {
	msg   proto.Message
	md    *c23MD // nil: encoded without metadata section (legacy) or with nil metadata
	meta  bool   // metadata format (12-byte header)
	bytes []byte
}

// c23Encode produces a frame through one of the four encoders.
func c23Encode(ser *ProtoSerializer, pool *FramePool, m proto.Message, md *c23MD, meta bool) ([]byte, error) {
	if meta {
		var x *Metadata
		if md != nil {
			x = md.md
		}
		return ser.MarshalBinaryWithMetadataTo(pool, m, x)
	}
	return ser.MarshalBinaryTo(pool, m)
}

// TestVerif_C23: round trips of every internal wire message with and without
// metadata through every encoder/decoder pairing, concatenated frames through
// the frame reader and through a real server/client pair, and hostile inputs
// under recover with a buffer-bounds differential.
func TestVerif_C23(t *testing.T) {
	r := verifrt.Start(t, "C23")
	defer r.Finish()
	r.Rule("round-trip case = (message type of the internal wire schema filled by a seeded protoreflect filler, metadata in {absent, nil, 0..300 headers, 65535 headers, 65535-byte keys/values} x deadline in {none, past, near, future, far}, encoder in {plain, pooled} x {legacy, metadata format}) decoded by every applicable decoder (UnmarshalBinary, UnmarshalBinaryWithMetadata, client auto-detection) and compared (proto.Equal, type name, header map, deadline drift within measured elapsed + 1ms); non-trivial = message has at least one populated field or at least one header; distinct by type + message bytes + headers + deadline kind + encoder. stream case = k concatenated frames read back by readProtoFrame over a fragmenting reader, or echoed by a real ProtoServer to the real Client (SendProto / SendBatchProto / SendProtoManyNoReply). hostile case = one byte string (every prefix truncation of some valid frames and metadata sections, length-field / header-count perturbations, byte flips, garbage, frame followed by junk) given to every decoder and to the frame reader (limit 4 KiB) under recover, once in an exact-capacity buffer and once in a buffer with a canary tail beyond len; all hostile inputs count as non-trivial, distinct by bytes")
	r.Assume("proto.Equal is the equality of protocol messages; the monotonic clock measures the time between encode and decode")

	t0 := time.Now()
	types := c23MessageTypes()
	if len(types) < 50 {
		t.Fatalf("c23: only %d internal wire message types found", len(types))
	}
	r.Max("max_wire_message_types", int64(len(types)))
	rng := r.Rand(23)
	cl := NewClient("127.0.0.1:1")
	ser := cl.serializer
	pool := NewFramePool()

	var corpus []c23Frame // small valid frames kept for the stream and hostile parts
	typesSeen := map[string]bool{}

	n := r.N(3000, 200000)
	perm := rng.Perm(len(types))
	for i := 0; i < n; i++ {
		mt := types[perm[(i+r.Batch*17)%len(types)]] // every type is visited in turn
		m := mt.New()
		c23Fill(rng, m, 3)
		msg := m.Interface()
		typesSeen[string(mt.Descriptor().FullName())] = true

		meta := rng.Intn(3) != 0
		var md *c23MD
		class := ""
		if r.Batch < 2 && i == 1 {
			class, meta = "max-count", true // wire limit: 65535 headers (batches 0 and 1 of every run)
		} else if r.Batch < 2 && i == 2 {
			class, meta = "max-len", true // wire limit: 65535-byte keys and values
		}
		if meta && (class != "" || rng.Intn(5) != 0) {
			md = c23GenMD(rng, class)
		}
		usePool := rng.Intn(2) == 0
		var p *FramePool
		if usePool {
			p = pool
		}
		start := time.Now()
		frame, err := c23Encode(ser, p, msg, md, meta)
		if err != nil {
			r.Violation("frame-roundtrip:encode-error", map[string]any{"type": string(proto.MessageName(msg)), "error": err.Error(), "message": c23MsgText(msg)})
			continue
		}
		if tl := int(binary.BigEndian.Uint32(frame[:4])); tl != len(frame) {
			r.Violation("frame-roundtrip:total-length-field", map[string]any{"type": string(proto.MessageName(msg)), "field": tl, "len": len(frame)})
		}
		decs := []int{c23DecAuto}
		if meta {
			decs = append(decs, c23DecMeta)
		} else {
			decs = append(decs, c23DecPlain)
		}
		allOK := true
		var results []c23Decoded
		for _, dk := range decs {
			path := fmt.Sprintf("%s/meta=%v/pool=%v", c23DecNames[dk], meta, usePool)
			d := c23Decode(dk, cl, frame)
			if !c23CheckDecoded(r, path, msg, md, d, time.Since(start), frame) {
				allOK = false
			}
			results = append(results, d)
		}
		if len(frame) <= 400 && len(corpus) < 300 {
			corpus = append(corpus, c23Frame{msg: msg, md: md, meta: meta, bytes: bytes.Clone(frame)})
		}
		if usePool {
			// the server returns the frame to the pool before the handler runs:
			// decoded values must not alias it
			snapshot := bytes.Clone(frame)
			c23Scribble(frame)
			pool.Put(frame)
			if allOK {
				for j, d := range results {
					path := fmt.Sprintf("%s/meta=%v/after-buffer-reuse", c23DecNames[decs[j]], meta)
					if !proto.Equal(msg, d.msg) {
						r.Violation("frame-roundtrip:aliases-pooled-buffer:message", map[string]any{"path": path, "type": string(proto.MessageName(msg)), "frame": c23Short(snapshot)})
					}
					if md != nil && d.md != nil && !c23SameHeaders(md.headers, d.md.headers) {
						r.Violation("frame-roundtrip:aliases-pooled-buffer:headers", map[string]any{"path": path, "type": string(proto.MessageName(msg)), "frame": c23Short(snapshot)})
					}
				}
			}
		}
		nh, dk := 0, "absent"
		var hh uint64
		if md != nil {
			nh, dk, hh = len(md.headers), md.kind, c23HeadersHash(md.headers)
		}
		db, _ := proto.MarshalOptions{Deterministic: true}.Marshal(msg)
		key := fmt.Sprintf("rt/%s/%x/%d/%x/%s/%v/%v", proto.MessageName(msg), verifrt.Hash64(string(db)), nh, hh, dk, meta, usePool)
		r.Case(key, len(db) > 0 || nh > 0)
		r.Max("max_headers", int64(nh))
		r.Max("max_frame_bytes", int64(len(frame)))
		if i < 2 {
			r.Sample(map[string]any{"type": string(proto.MessageName(msg)), "message": c23MsgText(msg), "headers": nh, "deadline": dk, "metadata_format": meta, "pooled": usePool, "frame_len": len(frame)})
		}
	}
	r.Max("max_wire_message_types_exercised_in_one_batch", int64(len(typesSeen)))

	if len(corpus) < 20 {
		r.Inconclusive("only %d small frames collected for the stream/hostile parts", len(corpus))
		return
	}
	t1 := time.Now()
	c23Streams(r, rng, cl, pool, corpus)
	t2 := time.Now()
	c23EndToEnd(t, r, rng, corpus)
	t3 := time.Now()
	c23Hostile(r, rng, cl, corpus, false)
	r.Note("phase seconds: roundtrip %.1f streams %.1f end-to-end %.1f hostile %.1f", t1.Sub(t0).Seconds(), t2.Sub(t1).Seconds(), t3.Sub(t2).Seconds(), time.Since(t3).Seconds())
}

// c23FragReader hands out the stream in random small pieces.
type c23FragReader struct {
	rng  *rand.Rand
	data []byte
	pos  int
}

func (f *c23FragReader) Read(p []byte) (int, error) {
	if f.pos >= len(f.data) {
		return 0, io.EOF
	}
	n := 1 + f.rng.Intn(9)
	if f.rng.Intn(4) == 0 {
		n = len(p)
	}
	if n > len(p) {
		n = len(p)
	}
	if n > len(f.data)-f.pos {
		n = len(f.data) - f.pos
	}
	copy(p, f.data[f.pos:f.pos+n])
	f.pos += n
	return n, nil
}

// c23Streams: k concatenated frames are read back one by one, in order.
func c23Streams(r *verifrt.Run, rng *rand.Rand, cl *Client, pool *FramePool, corpus []c23Frame) {
	n := r.N(300, 20000)
	for i := 0; i < n; i++ {
		k := 1 + rng.Intn(12)
		var stream []byte
		picks := make([]c23Frame, k)
		for j := range picks {
			picks[j] = corpus[rng.Intn(len(corpus))]
			stream = append(stream, picks[j].bytes...)
		}
		var p *FramePool
		if rng.Intn(2) == 0 {
			p = pool
		}
		rd := &c23FragReader{rng: rng, data: stream}
		bad := false
		for j := 0; j < k && !bad; j++ {
			var fr []byte
			var err error
			pan := ""
			func() {
				defer func() {
					if rec := recover(); rec != nil {
						pan = fmt.Sprint(rec)
					}
				}()
				fr, err = readProtoFrame(rd, p, defaultMaxFrameSize)
			}()
			switch {
			case pan != "":
				r.Violation("frame-stream:panic", map[string]any{"index": j, "k": k, "panic": pan, "stream": c23Short(stream)})
				bad = true
			case err != nil:
				r.Violation("frame-stream:read-error", map[string]any{"index": j, "k": k, "error": err.Error(), "stream": c23Short(stream)})
				bad = true
			case !bytes.Equal(fr, picks[j].bytes):
				r.Violation("frame-stream:frame-differs", map[string]any{"index": j, "k": k, "want": c23Short(picks[j].bytes), "got": c23Short(fr)})
				bad = true
			default:
				d := c23Decode(c23DecAuto, cl, fr)
				md := picks[j].md
				// deadlines were encoded long ago: only presence is comparable here
				if d.err != nil || d.pan != "" || !proto.Equal(d.msg, picks[j].msg) || (md == nil) != (d.md == nil) || (md != nil && !c23SameHeaders(md.headers, d.md.headers)) {
					r.Violation("frame-stream:decoded-differs", map[string]any{"index": j, "k": k, "error": fmt.Sprint(d.err), "panic": d.pan, "frame": c23Short(fr)})
					bad = true
				}
			}
			if p != nil && fr != nil {
				c23Scribble(fr)
				p.Put(fr)
			}
		}
		if !bad {
			if _, err := readProtoFrame(rd, p, defaultMaxFrameSize); err != io.EOF {
				r.Violation("frame-stream:no-eof-after-last", map[string]any{"k": k, "error": fmt.Sprint(err)})
			}
		}
		r.Case(fmt.Sprintf("stream/%x/%v", verifrt.Hash64(string(stream)), p != nil), k > 1)
		r.Count("stream_frames", int64(k))
	}
}

type c23Seen struct {
	msg     proto.Message
	hasMD   bool
	headers map[string]string
	hasDL   bool
}

// c23EndToEnd drives the real Client against a real ProtoServer with an echo
// handler: the server side format detection and frame reader see pipelined
// (concatenated) request frames, the client reads concatenated responses.
func c23EndToEnd(t *testing.T, r *verifrt.Run, rng *rand.Rand, corpus []c23Frame) {
	var mu sync.Mutex
	var seen []c23Seen
	var echo atomic.Bool
	handler := func(ctx context.Context, _ Connection, req proto.Message) (proto.Message, error) {
		// read the mode before publishing the observation: the driver changes it
		// only after it has seen all observations of the current exchange
		doEcho := echo.Load()
		s := c23Seen{msg: proto.Clone(req)}
		if md, ok := FromContext(ctx); ok && md != nil {
			s.hasMD = true
			s.headers = map[string]string{}
			md.IterateHeaders(func(k, v string) { s.headers[k] = v })
			_, s.hasDL = md.GetDeadline()
		}
		mu.Lock()
		seen = append(seen, s)
		mu.Unlock()
		if !doEcho {
			return nil, nil // fire-and-forget exchange: no response frame
		}
		return req, nil
	}
	ps, err := NewProtoServer("127.0.0.1:0", WithFallbackProtoHandler(handler))
	if err != nil {
		t.Fatalf("c23: server: %v", err)
	}
	if err := ps.Listen(); err != nil {
		t.Fatalf("c23: listen: %v", err)
	}
	done := make(chan error, 1)
	go func() { done <- ps.Serve() }()
	defer func() {
		_ = ps.Shutdown(2 * time.Second)
		select {
		case <-done:
		case <-time.After(30 * time.Second):
		}
	}()
	client := NewClient(ps.ListenAddr().String())
	defer client.Close()

	n := r.N(160, 8000)
	for i := 0; i < n; i++ {
		k := 1 + rng.Intn(10)
		reqs := make([]proto.Message, k)
		size := 0
		for j := range reqs {
			f := corpus[rng.Intn(len(corpus))]
			reqs[j] = f.msg
			size += len(f.bytes)
		}
		var md *c23MD
		ctx, cancel := context.WithTimeout(context.Background(), 120*time.Second)
		sendCtx := ctx
		if rng.Intn(3) != 0 {
			md = c23GenMD(rng, "")
			for k > 1 && len(md.headers) > 40 {
				md = c23GenMD(rng, "") // keep pipelined batches well below the socket buffers
			}
			sendCtx = ContextWithMetadata(ctx, md.md)
		}
		mu.Lock()
		seen = seen[:0]
		mu.Unlock()
		mode := rng.Intn(3)
		if k == 1 {
			mode = 0
		}
		var resps []proto.Message
		var serr error
		echo.Store(mode != 2)
		switch mode {
		case 0:
			resps = make([]proto.Message, 0, k)
			for _, q := range reqs {
				var resp proto.Message
				resp, serr = client.SendProto(sendCtx, q)
				if serr != nil {
					break
				}
				resps = append(resps, resp)
			}
		case 1:
			resps, serr = client.SendBatchProto(sendCtx, reqs)
		default:
			serr = client.SendProtoManyNoReply(sendCtx, reqs)
			if serr == nil {
				// a following request/response on the same client is answered
				// only after the server consumed the pipelined frames of that
				// connection or of another one; wait on the observation count
				ok := verifrt.WaitUntil(60*time.Second, func() bool { mu.Lock(); defer mu.Unlock(); return len(seen) >= k })
				if !ok {
					r.Inconclusive("end-to-end: server saw fewer than %d fire-and-forget frames within the watchdog", k)
					cancel()
					return
				}
			}
		}
		cancel()
		modeName := []string{"SendProto", "SendBatchProto", "SendProtoManyNoReply"}[mode]
		if serr != nil {
			r.Violation("frame-e2e:send-error:"+modeName, map[string]any{"k": k, "error": serr.Error(), "with_metadata": md != nil, "first_type": string(proto.MessageName(reqs[0]))})
			r.Case(fmt.Sprintf("e2e/%d/%d", i, k), false)
			continue
		}
		mu.Lock()
		got := append([]c23Seen(nil), seen...)
		mu.Unlock()
		if len(got) != k {
			r.Violation("frame-e2e:server-frame-count:"+modeName, map[string]any{"k": k, "seen": len(got)})
		} else {
			for j := range reqs {
				if !proto.Equal(reqs[j], got[j].msg) {
					r.Violation("frame-e2e:server-message-differs:"+modeName, map[string]any{"index": j, "k": k, "want": c23MsgText(reqs[j]), "got": c23MsgText(got[j].msg)})
					break
				}
				if (md != nil) != got[j].hasMD {
					r.Violation("frame-e2e:server-metadata-presence:"+modeName, map[string]any{"index": j, "k": k, "sent_metadata": md != nil, "seen_metadata": got[j].hasMD})
					break
				}
				if md != nil && (!c23SameHeaders(md.headers, got[j].headers) || md.deadline.IsZero() == got[j].hasDL) {
					r.Violation("frame-e2e:server-headers-differ:"+modeName, map[string]any{"index": j, "k": k, "diff": c23HeaderDiff(md.headers, got[j].headers), "deadline_kind": md.kind, "seen_deadline": got[j].hasDL})
					break
				}
			}
		}
		if mode != 2 {
			if len(resps) != k {
				r.Violation("frame-e2e:response-count:"+modeName, map[string]any{"k": k, "got": len(resps)})
			} else {
				for j := range reqs {
					if !proto.Equal(reqs[j], resps[j]) {
						r.Violation("frame-e2e:response-differs:"+modeName, map[string]any{"index": j, "k": k, "want": c23MsgText(reqs[j]), "got": c23MsgText(resps[j])})
						break
					}
				}
			}
		}
		r.Count("e2e_frames", int64(k))
		r.Case(fmt.Sprintf("e2e/%s/%d/%d/%v", modeName, i, k, md != nil), true)
	}
}

// ---------------------------------------------------------------------------
// hostile inputs
// ---------------------------------------------------------------------------

const c23ReaderMaxAnnounce = 2 << 20

var c23LenValues = []uint32{0, 1, 7, 8, 11, 12, 255, 256, 65535, 65536, 1 << 20, 1<<31 - 1, 1 << 31, 1<<32 - 1}

// c23Mutate derives one hostile input from a valid frame.
func c23Mutate(rng *rand.Rand, f c23Frame, allocSafe bool) (out []byte, class string) {
	b := bytes.Clone(f.bytes)
	put := func(off int, v uint32) {
		if off+4 <= len(b) {
			binary.BigEndian.PutUint32(b[off:], v)
		}
	}
	get := func(off int) uint32 {
		if off+4 <= len(b) {
			return binary.BigEndian.Uint32(b[off:])
		}
		return 0
	}
	pick := func(cur uint32) uint32 {
		switch rng.Intn(4) {
		case 0:
			return cur + 1
		case 1:
			return cur - 1
		case 2:
			return cur + uint32(rng.Intn(64))
		}
		v := c23LenValues[rng.Intn(len(c23LenValues))]
		if allocSafe && v > 1<<30 {
			v = 1 << 30
		}
		return v
	}
	switch rng.Intn(9) {
	case 0:
		return b[:rng.Intn(len(b))], "truncate"
	case 1:
		put(0, pick(get(0)))
		return b, "total-len"
	case 2:
		put(4, pick(get(4)))
		return b, "name-len"
	case 3:
		put(8, pick(get(8)))
		return b, "meta-len-or-name"
	case 4:
		// metadata section: header count / first key length
		if f.meta {
			nameLen := int(get(4))
			off := 12 + nameLen
			if off+4 <= len(b) && get(8) > 0 {
				v := uint16([]int{0, 1, 255, 256, 65535, rng.Intn(65536)}[rng.Intn(6)])
				if rng.Intn(2) == 0 {
					binary.BigEndian.PutUint16(b[off:], v)
					return b, "meta-count"
				}
				binary.BigEndian.PutUint16(b[off+2:], v)
				return b, "meta-keylen"
			}
		}
		put(0, pick(get(0)))
		return b, "total-len"
	case 5:
		for k := 1 + rng.Intn(4); k > 0; k-- {
			b[rng.Intn(len(b))] ^= byte(1 << uint(rng.Intn(8)))
		}
		return b, "bitflip"
	case 6:
		// consistent lengths, garbage payload
		nameLen := int(get(4))
		for i := 8 + nameLen; i < len(b); i++ {
			if rng.Intn(3) == 0 {
				b[i] = byte(rng.Intn(256))
			}
		}
		return b, "payload-garbage"
	case 7:
		g := make([]byte, rng.Intn(48))
		rng.Read(g)
		if len(g) >= 8 && rng.Intn(2) == 0 {
			binary.BigEndian.PutUint32(g[0:], uint32(len(g)))
			binary.BigEndian.PutUint32(g[4:], uint32(rng.Intn(len(g))))
		}
		return g, "garbage"
	default:
		// extend: valid frame followed by junk, with total length bumped over it
		junk := make([]byte, 1+rng.Intn(16))
		rng.Read(junk)
		b = append(b, junk...)
		if rng.Intn(2) == 0 {
			put(0, uint32(len(b)))
		}
		return b, "extended"
	}
}

type c23Outcome struct {
	ok      bool
	pan     string
	msg     proto.Message
	headers map[string]string
}

func c23Run(which int, cl *Client, data []byte) c23Outcome {
	d := c23Decode(which, cl, data)
	o := c23Outcome{ok: d.err == nil, pan: d.pan, msg: d.msg}
	if d.md != nil {
		o.headers = map[string]string{}
		for k, v := range d.md.headers {
			o.headers[strings.Clone(k)] = strings.Clone(v)
		}
	}
	return o
}

// c23MustFail says whether the decoder has to reject data by the frame
// layout alone (truncated / inconsistent length fields).
func c23MustFail(which int, data []byte) bool {
	hdr := 8
	if which == c23DecMeta {
		hdr = 12
	}
	if len(data) < hdr {
		return true
	}
	total := int(binary.BigEndian.Uint32(data[:4]))
	nameLen := int(binary.BigEndian.Uint32(data[4:8]))
	if total > len(data) || total < hdr {
		return true
	}
	switch which {
	case c23DecPlain:
		return 8+nameLen > total
	case c23DecMeta:
		metaLen := int(binary.BigEndian.Uint32(data[8:12]))
		return 12+nameLen+metaLen > total
	}
	return false
}

// c23MetaSection returns the metadata section of a valid metadata-format
// frame (nil when there is none).
func c23MetaSection(f c23Frame) []byte {
	if !f.meta || len(f.bytes) < 12 {
		return nil
	}
	nameLen := int(binary.BigEndian.Uint32(f.bytes[4:8]))
	metaLen := int(binary.BigEndian.Uint32(f.bytes[8:12]))
	if metaLen == 0 || 12+nameLen+metaLen > len(f.bytes) {
		return nil
	}
	return f.bytes[12+nameLen : 12+nameLen+metaLen]
}

// c23MutateSection derives a hostile metadata section from a valid one.
func c23MutateSection(rng *rand.Rand, sec []byte) ([]byte, string) {
	b := bytes.Clone(sec)
	u16 := []int{0, 1, 2, 255, 256, 4096, 65535, rng.Intn(65536)}
	switch rng.Intn(6) {
	case 0:
		return b[:rng.Intn(len(b))], "sec-truncate"
	case 1:
		binary.BigEndian.PutUint16(b, uint16(u16[rng.Intn(len(u16))]))
		return b, "sec-count"
	case 2:
		if len(b) >= 4 {
			binary.BigEndian.PutUint16(b[2:], uint16(u16[rng.Intn(len(u16))]))
		}
		return b, "sec-keylen"
	case 3:
		for k := 1 + rng.Intn(3); k > 0; k-- {
			b[rng.Intn(len(b))] ^= byte(1 << uint(rng.Intn(8)))
		}
		return b, "sec-bitflip"
	case 4:
		g := make([]byte, rng.Intn(40))
		rng.Read(g)
		if len(g) >= 2 && rng.Intn(2) == 0 {
			binary.BigEndian.PutUint16(g, uint16(rng.Intn(6)))
		}
		return g, "sec-garbage"
	default:
		// count one too many / one too few
		c := binary.BigEndian.Uint16(b)
		if rng.Intn(2) == 0 {
			c++
		} else {
			c--
		}
		binary.BigEndian.PutUint16(b, c)
		return b, "sec-count-off-by-one"
	}
}

type c23ReaderResult struct {
	frame []byte
	err   error
	pan   string
	left  int
}

func c23ReadFrame(in []byte, p *FramePool, limit uint32) (res c23ReaderResult) {
	rd := bytes.NewReader(in)
	defer func() {
		if rec := recover(); rec != nil {
			res.pan = fmt.Sprint(rec)
		}
		res.left = rd.Len()
	}()
	res.frame, res.err = readProtoFrame(rd, p, limit)
	return
}

func c23ParseSection(sec []byte) (err error, pan string) {
	defer func() {
		if rec := recover(); rec != nil {
			pan = fmt.Sprint(rec)
		}
	}()
	err = (&Metadata{}).UnmarshalBinary(sec)
	return
}

// c23Hostile feeds hostile inputs to every decoder and to the frame reader.
// With alloc=true (plain build, single goroutine) it additionally measures
// what the calls allocate and skips the buffer-bounds differential.
func c23Hostile(r *verifrt.Run, rng *rand.Rand, cl *Client, corpus []c23Frame, alloc bool) {
	n := r.N(60000, 5000000)
	if alloc {
		n = r.N(20000, 1000000)
	}
	const limit = 4096 // configured frame limit of the robustness part
	const allocBound = 1 << 20
	pool := NewFramePool()
	classes := map[string]int64{}
	var rejected, accepted int64
	allocViolations := 0

	type hostileIn struct {
		frame []byte // nil: section-only input
		sec   []byte
		class string
	}
	var inputs []hostileIn
	// every prefix of a few valid frames and of a few metadata sections
	for j := 0; j < 6; j++ {
		f := corpus[rng.Intn(len(corpus))]
		for cut := 0; cut < len(f.bytes); cut++ {
			inputs = append(inputs, hostileIn{frame: bytes.Clone(f.bytes[:cut]), class: "truncate"})
		}
	}
	nsec := 0
	for j := 0; j < 200 && nsec < 3; j++ {
		if sec := c23MetaSection(corpus[rng.Intn(len(corpus))]); len(sec) > 10 {
			nsec++
			for cut := 0; cut < len(sec); cut++ {
				inputs = append(inputs, hostileIn{sec: bytes.Clone(sec[:cut]), class: "sec-truncate"})
			}
		}
	}
	for len(inputs) < n {
		f := corpus[rng.Intn(len(corpus))]
		if sec := c23MetaSection(f); sec != nil && rng.Intn(6) == 0 {
			ms, class := c23MutateSection(rng, sec)
			inputs = append(inputs, hostileIn{sec: ms, class: class})
			continue
		}
		in, class := c23Mutate(rng, f, alloc)
		inputs = append(inputs, hostileIn{frame: in, class: class})
	}

	for inIdx, hin := range inputs {
		class := hin.class
		classes[class]++
		if hin.frame == nil {
			sec := bytes.Clone(hin.sec) // cap == len
			if alloc {
				d := c23AllocDelta(func() { c23ParseSection(sec) })
				r.Max("max_alloc_metadata_bytes", int64(d))
				if d > allocBound {
					kind := "other"
					if len(sec) >= 2 && binary.BigEndian.Uint16(sec) > 4096 {
						kind = "metadata-count-presize"
					}
					r.Violation("frame-hostile:alloc-beyond-limit:Metadata.UnmarshalBinary:"+kind, map[string]any{"input": fmt.Sprintf("%x", sec), "class": class, "input_len": len(sec), "allocated_bytes": d, "bound": allocBound})
				}
			}
			err, pan := c23ParseSection(sec)
			if pan != "" {
				r.Violation("frame-hostile:panic:Metadata.UnmarshalBinary", map[string]any{"input": fmt.Sprintf("%x", sec), "class": class, "panic": pan})
			}
			if err == nil && pan == "" {
				accepted++
				if class == "sec-truncate" {
					r.Violation("frame-hostile:accepted-malformed:Metadata.UnmarshalBinary", map[string]any{"input": fmt.Sprintf("%x", sec), "class": class})
				}
			} else {
				rejected++
			}
			r.Case("hs/"+string(sec), true)
			continue
		}

		in := hin.frame
		// what the frame reader gets: the same bytes, but an announced length
		// above 2 MiB is clamped to about 2 MiB (any value above the 4 KiB limit is
		// the same case for the reader; a reader that allocates what is
		// announced must not cost gigabytes per input here)
		rin := in
		if len(in) >= 4 && binary.BigEndian.Uint32(in[:4]) > c23ReaderMaxAnnounce {
			rin = bytes.Clone(in)
			binary.BigEndian.PutUint32(rin[:4], c23ReaderMaxAnnounce-uint32(inIdx%4096))
		}
		if alloc && allocViolations > 60 {
			r.Count("alloc_measurements_skipped_after_60_reader_violations", 1)
		}
		if alloc && allocViolations <= 60 {
			// one measurement around everything that is done with this input;
			// the calls are measured one by one only when the group is above
			// the bound
			exact := bytes.Clone(in)
			group := func() {
				for w := c23DecPlain; w <= c23DecAuto; w++ {
					c23Decode(w, cl, exact)
				}
				for _, p := range []*FramePool{nil, pool} {
					if res := c23ReadFrame(rin, p, limit); res.err == nil && p != nil && res.pan == "" {
						p.Put(res.frame)
					}
				}
			}
			d := c23AllocDelta(group)
			r.Max("max_alloc_per_input_bytes", int64(d))
			if d > allocBound && len(in) <= limit {
				attributed := false
				for w := c23DecPlain; w <= c23DecAuto; w++ {
					if dw := c23AllocDelta(func() { c23Decode(w, cl, exact) }); dw > allocBound {
						kind := "other"
						if c23HugeMetaCount(in) {
							kind = "metadata-count-presize"
						}
						attributed = true
						r.Violation("frame-hostile:alloc-beyond-limit:"+c23DecNames[w]+":"+kind, map[string]any{"input": fmt.Sprintf("%x", in), "class": class, "input_len": len(in), "allocated_bytes": dw, "bound": allocBound})
					}
				}
				for _, p := range []*FramePool{nil, pool} {
					if dr := c23AllocDelta(func() { c23ReadFrame(rin, p, limit) }); dr > allocBound {
						attributed = true
						allocViolations++
						total := uint32(0)
						if len(in) >= 4 {
							total = binary.BigEndian.Uint32(in[:4])
						}
						r.Violation("frame-hostile:alloc-beyond-limit:readProtoFrame", map[string]any{"input": fmt.Sprintf("%x", in), "class": class, "pooled": p != nil, "allocated_bytes": dr, "announced_len": total, "limit": limit})
					}
				}
				if !attributed {
					// no single call is above the bound: not a violation of the
					// per-call statement (shared caches are flushed now and then)
					r.Count("alloc_group_above_bound_but_no_single_call", 1)
				}
			}
		}

		for w := c23DecPlain; w <= c23DecAuto; w++ {
			exact := make([]byte, len(in)) // cap == len: any read past the end panics
			copy(exact, in)
			a := c23Run(w, cl, exact)
			if a.pan != "" {
				r.Violation("frame-hostile:panic:"+c23DecNames[w], map[string]any{"input": fmt.Sprintf("%x", in), "class": class, "panic": a.pan})
				continue
			}
			if a.ok {
				accepted++
			} else {
				rejected++
			}
			if a.ok && c23MustFail(w, in) {
				r.Violation("frame-hostile:accepted-malformed:"+c23DecNames[w], map[string]any{"input": fmt.Sprintf("%x", in), "class": class, "decoded": c23MsgText(a.msg)})
			}
			if a.ok && a.msg == nil {
				r.Violation("frame-hostile:nil-message-without-error:"+c23DecNames[w], map[string]any{"input": fmt.Sprintf("%x", in), "class": class})
			}
			if alloc {
				continue
			}
			// same bytes in a larger buffer whose tail (beyond len, within cap)
			// holds a canary: the outcome must not depend on it
			canaries := []byte{0x00}
			if inIdx%2 == 1 {
				canaries[0] = 0xFF
			}
			for _, canary := range canaries {
				big := make([]byte, len(in), len(in)+256)
				copy(big, in)
				tail := big[len(in):cap(big)]
				for k := range tail {
					tail[k] = canary
				}
				b := c23Run(w, cl, big)
				same := a.ok == b.ok && b.pan == ""
				if same && a.ok {
					same = proto.Equal(a.msg, b.msg) && c23SameHeaders(a.headers, b.headers)
				}
				if !same {
					r.Violation("frame-hostile:reads-beyond-frame:"+c23DecNames[w], map[string]any{"input": fmt.Sprintf("%x", in), "class": class, "exact_ok": a.ok, "slack_ok": b.ok, "slack_panic": b.pan, "canary": canary})
					break
				}
			}
		}

		// frame reader with a 4 KiB limit, pooled and unpooled
		for _, p := range []*FramePool{nil, pool} {
			res := c23ReadFrame(rin, p, limit)
			fr, err := res.frame, res.err
			det := map[string]any{"input": fmt.Sprintf("%x", rin), "class": class, "pooled": p != nil}
			if res.pan != "" {
				det["panic"] = res.pan
				r.Violation("frame-hostile:panic:readProtoFrame", det)
				continue
			}
			total := uint32(0)
			if len(rin) >= 4 {
				total = binary.BigEndian.Uint32(rin[:4])
			}
			mustFail := len(rin) < 4 || total < 8 || total > limit || int64(total) > int64(len(rin))
			switch {
			case err == nil && mustFail:
				det["announced_len"] = total
				r.Violation("frame-hostile:reader-accepted-malformed", det)
			case err == nil && (len(fr) != int(total) || !bytes.Equal(fr, rin[:total]) || res.left != len(rin)-int(total)):
				det["got_len"], det["announced_len"], det["left_in_reader"] = len(fr), total, res.left
				r.Violation("frame-hostile:reader-frame-differs", det)
			case err != nil && !mustFail:
				det["error"] = err.Error()
				r.Violation("frame-hostile:reader-rejected-wellformed", det)
			case err != nil && len(rin) >= 4 && total > limit && !errors.Is(err, ErrFrameTooLarge):
				det["error"] = err.Error()
				r.Violation("frame-hostile:oversized-not-reported-as-too-large", det)
			}
			if err == nil && p != nil {
				p.Put(fr)
			}
		}
		r.Case("h/"+string(in), true)
	}
	for k, v := range classes {
		r.Count("hostile_"+k, v)
	}
	r.Count("hostile_calls_rejected", rejected)
	r.Count("hostile_calls_accepted", accepted)
}

func c23HugeMetaCount(in []byte) bool {
	if len(in) < 14 {
		return false
	}
	nameLen := int(binary.BigEndian.Uint32(in[4:8]))
	off := 12 + nameLen
	if nameLen < 0 || off+2 > len(in) {
		return false
	}
	return binary.BigEndian.Uint16(in[off:]) > 4096
}

// c23AllocDelta returns what fn allocated (bytes), measured on this goroutine
// by runtime.MemStats.TotalAlloc; a reading above 256 KiB is re-measured and
// the minimum kept so that unrelated background allocation cannot alarm.
func c23AllocDelta(fn func()) uint64 {
	var best uint64 = math.MaxUint64
	for try := 0; try < 3; try++ {
		var m0, m1 runtime.MemStats
		runtime.ReadMemStats(&m0)
		fn()
		runtime.ReadMemStats(&m1)
		d := m1.TotalAlloc - m0.TotalAlloc
		if d < best {
			best = d
		}
		if best <= 256<<10 {
			break
		}
	}
	return best
}

// TestVerif_C23Alloc is the allocation-bound part: plain build, one
// goroutine, a 4 KiB frame limit; no call on a hostile input of at most 4 KiB
// may allocate more than 1 MiB, and the frame reader must refuse an announced
// length above the limit before allocating for it.
func TestVerif_C23Alloc(t *testing.T) {
	r := verifrt.Start(t, "C23")
	defer r.Finish()
	r.Rule("alloc case = one hostile input (same generator as the hostile part; announced lengths up to 2^30) given to each decoder and to readProtoFrame(limit 4 KiB) on a single goroutine with runtime.MemStats.TotalAlloc read before and after (minimum of up to 3 runs); violation = more than 1 MiB allocated for an input of at most 4 KiB")
	r.Assume("runtime.MemStats.TotalAlloc deltas on an otherwise idle process bound what the measured call allocated")
	types := c23MessageTypes()
	rng := r.Rand(2323)
	cl := NewClient("127.0.0.1:1")
	var corpus []c23Frame
	for len(corpus) < 200 {
		mt := types[rng.Intn(len(types))]
		m := mt.New()
		c23Fill(rng, m, 2)
		meta := rng.Intn(3) != 0
		var md *c23MD
		if meta && rng.Intn(4) != 0 {
			md = c23GenMD(rng, "")
			if len(md.headers) > 8 {
				continue
			}
		}
		fr, err := c23Encode(cl.serializer, nil, m.Interface(), md, meta)
		if err != nil || len(fr) > 400 {
			continue
		}
		corpus = append(corpus, c23Frame{msg: m.Interface(), md: md, meta: meta, bytes: fr})
	}
	// warm up lazily initialised state so that it is not charged to a case
	for _, f := range corpus {
		c23Decode(c23DecAuto, cl, f.bytes)
	}
	c23Hostile(r, rng, cl, corpus, true)
}
