//go:build verif

package ddata

// C40: CRDT values survive encoding. States and deltas of all seven CRDT types
// are generated through the public crdt API (random executions of 3 replicas
// with merges), with elements / keys / register values drawn from the value
// serializer's supported domain; each is sent through EncodeCRDT ->
// proto.Marshal -> proto.Unmarshal -> DecodeCRDT and compared with the original:
// observable value, causal state (State/RawState), membership under the
// original typed elements, and merge-equivalence against every other state of
// the same execution. CRDT keys round-trip through codec.EncodeCRDTKey.

import (
	"encoding/base64"
	"fmt"
	"math"
	"math/rand"
	"reflect"
	"sort"
	"strconv"
	"strings"
	"testing"
	"time"

	"google.golang.org/protobuf/proto"
	"google.golang.org/protobuf/types/known/durationpb"
	"google.golang.org/protobuf/types/known/wrapperspb"

	"github.com/tochemey/goakt/v4/crdt"
	"github.com/tochemey/goakt/v4/internal/codec"
	"github.com/tochemey/goakt/v4/internal/internalpb"
	"github.com/tochemey/goakt/v4/internal/types"
	"github.com/tochemey/goakt/v4/internal/verifrt"
)

// C40Struct is a user struct registered for CBOR (register values only; sent and
// received as a pointer, the serializer's documented convention).
type C40Struct struct {
	ID   int64
	Name string
	Tags []string
}

const (
	c40KGCounter = iota
	c40KPNCounter
	c40KFlag
	c40KLWW
	c40KMV
	c40KORSet
	c40KORMap
	c40NKinds
)

var c40KindNames = [...]string{"GCounter", "PNCounter", "Flag", "LWWRegister", "MVRegister", "ORSet", "ORMap"}

func c40New(kind int) crdt.ReplicatedData {
	switch kind {
	case c40KGCounter:
		return crdt.NewGCounter()
	case c40KPNCounter:
		return crdt.NewPNCounter()
	case c40KFlag:
		return crdt.NewFlag()
	case c40KLWW:
		return crdt.NewLWWRegister()
	case c40KMV:
		return crdt.NewMVRegister()
	case c40KORSet:
		return crdt.NewORSet()
	}
	return crdt.NewORMap()
}

// comparable primitives: usable as OR-set elements and OR-map keys.
var c40Prims = []any{
	"", "a", "x", "héllo wörld ✓ 日本", "\x00\x01", strings.Repeat("long-", 80), "1", "true",
	int(0), int(1), int(-1), int(math.MaxInt64), int(math.MinInt64),
	int8(1), int8(-128), int8(127), int16(1), int16(math.MinInt16), int16(math.MaxInt16),
	int32(1), int32(math.MinInt32), int32(math.MaxInt32), int64(1), int64(math.MinInt64), int64(math.MaxInt64), int64(42),
	uint(0), uint(1), uint(math.MaxUint64), uint8(1), uint8(255), uint16(1), uint16(math.MaxUint16),
	uint32(1), uint32(math.MaxUint32), uint64(1), uint64(math.MaxUint64), uint64(1 << 63),
	true, false,
	float32(1), float32(1.5), float32(0.1), float32(math.MaxFloat32), float64(1), float64(2.5), float64(0.1), float64(math.MaxFloat64),
	float64(math.SmallestNonzeroFloat64), math.Inf(1), math.Inf(-1), float64(1e-300), float64(1 << 53),
}

// register values additionally: proto messages and registered CBOR structs.
func c40RegExtra(i int) any {
	switch i % 6 {
	case 0:
		return wrapperspb.String("proto-" + strconv.Itoa(i))
	case 1:
		return durationpb.New(time.Duration(i) * time.Millisecond)
	case 2:
		return &internalpb.CRDTKey{Id: "k" + strconv.Itoa(i), DataType: internalpb.CRDTDataType(1 + i%7)}
	case 3:
		return &C40Struct{ID: int64(i), Name: "s" + strconv.Itoa(i), Tags: []string{"a", "b"}}
	case 4:
		return &C40Struct{}
	default:
		return wrapperspb.Bytes([]byte{0, 1, 2, byte(i)})
	}
}

func c40ValStr(v any) string {
	switch x := v.(type) {
	case nil:
		return "<nil>"
	case proto.Message:
		b, _ := proto.MarshalOptions{Deterministic: true}.Marshal(x)
		return "proto:" + string(x.ProtoReflect().Descriptor().FullName()) + ":" + base64.StdEncoding.EncodeToString(b)
	case *C40Struct:
		if x == nil {
			return "*C40Struct(nil)"
		}
		return fmt.Sprintf("*C40Struct%+v", *x)
	case string:
		return "string(" + strconv.Quote(x) + ")"
	}
	return fmt.Sprintf("%T(%#v)", v, v)
}

func c40ClockStr(m map[string]uint64) string {
	ks := make([]string, 0, len(m))
	for k, v := range m {
		if v != 0 {
			ks = append(ks, k)
		}
	}
	sort.Strings(ks)
	for i, k := range ks {
		ks[i] = strconv.Quote(k) + ":" + strconv.FormatUint(m[k], 10)
	}
	return "{" + strings.Join(ks, ",") + "}"
}

func c40DotsStr(ds []crdt.Dot) string {
	ss := make([]string, len(ds))
	for i, d := range ds {
		ss[i] = strconv.Quote(d.NodeID) + "." + strconv.FormatUint(d.Counter, 10)
	}
	sort.Strings(ss)
	return "[" + strings.Join(ss, " ") + "]"
}

func c40EntriesStr(es []crdt.Entry) string {
	ss := make([]string, len(es))
	for i, e := range es {
		ss[i] = c40ValStr(e.Element) + c40DotsStr(e.Dots)
	}
	sort.Strings(ss)
	return "{" + strings.Join(ss, " ") + "}"
}

// c40Val: observable value through the read API.
func c40Val(d crdt.ReplicatedData) string {
	switch v := d.(type) {
	case nil:
		return "<nil>"
	case *crdt.GCounter:
		return "gc=" + strconv.FormatUint(v.Value(), 10)
	case *crdt.PNCounter:
		return "pn=" + strconv.FormatInt(v.Value(), 10)
	case *crdt.Flag:
		return "flag=" + strconv.FormatBool(v.Enabled())
	case *crdt.LWWRegister:
		return fmt.Sprintf("lww=(%s,%d,%q)", c40ValStr(v.Value()), v.Timestamp(), v.NodeID())
	case *crdt.MVRegister:
		vals := v.Values()
		ss := make([]string, len(vals))
		for i, x := range vals {
			ss[i] = c40ValStr(x)
		}
		sort.Strings(ss)
		return "mv=[" + strings.Join(ss, " ") + "]"
	case *crdt.ORSet:
		els := v.Elements()
		ss := make([]string, len(els))
		for i, x := range els {
			ss[i] = c40ValStr(x)
		}
		sort.Strings(ss)
		return "set={" + strings.Join(ss, " ") + "}#" + strconv.Itoa(v.Len())
	case *crdt.ORMap:
		keys := v.Keys()
		ss := make([]string, len(keys))
		for i, k := range keys {
			val, ok := v.Get(k)
			if !ok || val == nil {
				ss[i] = c40ValStr(k) + "-><novalue>"
			} else {
				ss[i] = c40ValStr(k) + "->" + c40Val(val)
			}
		}
		sort.Strings(ss)
		return "map={" + strings.Join(ss, "; ") + "}#" + strconv.Itoa(v.Len())
	}
	return fmt.Sprintf("?%T", d)
}

// c40Raw: the replicated causal state through State/RawState.
func c40Raw(d crdt.ReplicatedData) string {
	switch v := d.(type) {
	case nil:
		return "<nil>"
	case *crdt.GCounter:
		return "GC" + c40ClockStr(v.State())
	case *crdt.PNCounter:
		p, n := v.State()
		return "PN+" + c40ClockStr(p) + "-" + c40ClockStr(n)
	case *crdt.Flag:
		return "F" + strconv.FormatBool(v.Enabled())
	case *crdt.LWWRegister:
		return fmt.Sprintf("LWW(%s,%d,%q)", c40ValStr(v.Value()), v.Timestamp(), v.NodeID())
	case *crdt.MVRegister:
		es, clk := v.RawState()
		ss := make([]string, len(es))
		for i, e := range es {
			ss[i] = strconv.Quote(e.Dot.NodeID) + "." + strconv.FormatUint(e.Dot.Counter, 10) + "=" + c40ValStr(e.Value)
		}
		sort.Strings(ss)
		return "MV[" + strings.Join(ss, " ") + "]" + c40ClockStr(clk)
	case *crdt.ORSet:
		es, clk := v.RawState()
		return "OS" + c40EntriesStr(es) + c40ClockStr(clk)
	case *crdt.ORMap:
		st := v.RawState()
		ss := make([]string, 0, len(st.Values))
		for k, val := range st.Values {
			ss = append(ss, c40ValStr(k)+"=>"+c40Raw(val))
		}
		sort.Strings(ss)
		return "OM" + c40EntriesStr(st.KeyEntries) + c40ClockStr(st.KeyClock) + "<" + strings.Join(ss, "; ") + ">"
	}
	return fmt.Sprintf("?%T", d)
}

type c40Exec struct {
	rng     *rand.Rand
	kind    int
	nodes   []string
	elems   []any // element / key domain of this execution
	st      []crdt.ReplicatedData
	tick    int64
	opid    int
	hist    []string
	pool    []crdt.ReplicatedData // every state that existed
	poolWhy []string
}

func c40NestedKind(keyIdx, depth int) int {
	if depth >= 1 {
		return [...]int{c40KGCounter, c40KORSet, c40KLWW}[keyIdx%3]
	}
	return [...]int{c40KGCounter, c40KORSet, c40KLWW, c40KPNCounter, c40KMV, c40KORMap, c40KFlag}[keyIdx%7]
}

func (x *c40Exec) regValue() any {
	x.opid++
	if x.rng.Intn(3) == 0 {
		return c40RegExtra(x.rng.Intn(1000))
	}
	return c40Prims[x.rng.Intn(len(c40Prims))]
}

func (x *c40Exec) amount() uint64 {
	return []uint64{1, 1, 2, 3, 1 << 32, 1 << 62, math.MaxUint64 >> 2}[x.rng.Intn(7)]
}

func (x *c40Exec) ts() int64 {
	x.tick++
	switch x.rng.Intn(12) {
	case 0:
		return math.MaxInt64 - x.tick
	case 1:
		return -x.tick // before 1970
	case 2:
		return time.Now().UnixNano() + x.tick
	}
	return x.tick
}

// mutate applies one random op of the kind to cur on behalf of node.
func (x *c40Exec) mutate(kind int, cur crdt.ReplicatedData, node string, depth int) (crdt.ReplicatedData, string) {
	rng := x.rng
	switch kind {
	case c40KGCounter:
		a := x.amount()
		return cur.(*crdt.GCounter).Increment(node, a), fmt.Sprintf("inc(%d)", a)
	case c40KPNCounter:
		a := x.amount()
		if rng.Intn(2) == 0 {
			return cur.(*crdt.PNCounter).Decrement(node, a), fmt.Sprintf("dec(%d)", a)
		}
		return cur.(*crdt.PNCounter).Increment(node, a), fmt.Sprintf("inc(%d)", a)
	case c40KFlag:
		return cur.(*crdt.Flag).Enable(), "enable"
	case c40KLWW:
		v, ts := x.regValue(), x.ts()
		return cur.(*crdt.LWWRegister).Set(v, time.Unix(0, ts), node), fmt.Sprintf("set(%s@%d)", c40ValStr(v), ts)
	case c40KMV:
		v := x.regValue()
		return cur.(*crdt.MVRegister).Set(node, v), fmt.Sprintf("set(%s)", c40ValStr(v))
	case c40KORSet:
		e := x.elems[rng.Intn(len(x.elems))]
		s := cur.(*crdt.ORSet)
		switch p := rng.Intn(100); {
		case p < 60:
			return s.Add(node, e), "add(" + c40ValStr(e) + ")"
		case p < 95:
			return s.Remove(e), "rem(" + c40ValStr(e) + ")"
		default:
			return s.Compact(), "compact"
		}
	default:
		m := cur.(*crdt.ORMap)
		ki := rng.Intn(len(x.elems))
		k := x.elems[ki]
		nk := c40NestedKind(ki, depth)
		switch p := rng.Intn(100); {
		case p < 65:
			var base crdt.ReplicatedData
			if v, ok := m.Get(k); ok && v != nil && reflect.TypeOf(v) == reflect.TypeOf(c40New(nk)) {
				base = v
			} else {
				base = c40New(nk)
			}
			nv, what := x.mutate(nk, base, node, depth+1)
			return m.Set(node, k, nv), "bump(" + c40ValStr(k) + "," + what + ")"
		case p < 95:
			return m.Remove(k), "rem(" + c40ValStr(k) + ")"
		default:
			return m.Compact(), "compact"
		}
	}
}

func (x *c40Exec) keep(d crdt.ReplicatedData, why string) {
	if len(x.pool) < 60 {
		x.pool = append(x.pool, d)
		x.poolWhy = append(x.poolWhy, why)
	}
}

func c40Run(rng *rand.Rand, kind int) *c40Exec {
	x := &c40Exec{rng: rng, kind: kind, tick: 1000}
	nodeSets := [][]string{{"node-1", "node-2", "node-3"}, {"a", "nœud-β", "10.0.0.1:3322"}, {"n1", "n2", "N1"}}
	x.nodes = nodeSets[rng.Intn(len(nodeSets))]
	ne := 2 + rng.Intn(7)
	for i := 0; i < ne; i++ {
		x.elems = append(x.elems, c40Prims[rng.Intn(len(c40Prims))])
	}
	if rng.Intn(3) == 0 { // look-alike keys of different dynamic types
		x.elems = append(x.elems, int(1), int64(1), uint8(1), float64(1), "1", true)
	}
	for range x.nodes {
		x.st = append(x.st, c40New(kind))
	}
	steps := 4 + rng.Intn(36)
	for s := 0; s < steps; s++ {
		if rng.Intn(100) < 65 {
			i := rng.Intn(len(x.nodes))
			var what string
			x.st[i], what = x.mutate(kind, x.st[i], x.nodes[i], 0)
			x.hist = append(x.hist, x.nodes[i]+":"+what)
			x.keep(x.st[i], "state of "+x.nodes[i]+" after step "+strconv.Itoa(len(x.hist)))
			if rng.Intn(3) == 0 {
				if d := x.st[i].Delta(); d != nil {
					x.keep(d, "delta of "+x.nodes[i]+" after step "+strconv.Itoa(len(x.hist)))
				}
				if rng.Intn(2) == 0 {
					c := x.st[i].Clone()
					c.ResetDelta()
					x.st[i] = c
				}
			}
		} else {
			i, j := rng.Intn(len(x.nodes)), rng.Intn(len(x.nodes))
			if i == j {
				continue
			}
			x.st[i] = x.st[i].Merge(x.st[j])
			x.hist = append(x.hist, x.nodes[i]+"<-merge("+x.nodes[j]+")")
			x.keep(x.st[i], "state of "+x.nodes[i]+" after step "+strconv.Itoa(len(x.hist)))
		}
	}
	return x
}

// c40Encodable: an LWW register that was never written holds a nil value, which
// the value serializer rejects by design (the repository's own tests expect the
// error); such values are outside the quantified domain.
func c40Encodable(d crdt.ReplicatedData) bool {
	switch v := d.(type) {
	case *crdt.LWWRegister:
		return v.Value() != nil
	case *crdt.ORMap:
		for _, val := range v.RawState().Values {
			if !c40Encodable(val) {
				return false
			}
		}
	}
	return true
}

func c40RoundTrip(d crdt.ReplicatedData, ser *CRDTValueSerializer) (crdt.ReplicatedData, int, error) {
	pb, err := EncodeCRDT(d, ser)
	if err != nil {
		return nil, 0, fmt.Errorf("encode: %w", err)
	}
	b, err := proto.Marshal(pb)
	if err != nil {
		return nil, 0, fmt.Errorf("marshal: %w", err)
	}
	pb2 := new(internalpb.CRDTData)
	if err := proto.Unmarshal(b, pb2); err != nil {
		return nil, len(b), fmt.Errorf("unmarshal: %w", err)
	}
	out, err := DecodeCRDT(pb2, ser)
	if err != nil {
		return nil, len(b), fmt.Errorf("decode: %w", err)
	}
	return out, len(b), nil
}

func TestVerif_C40(t *testing.T) {
	r := verifrt.Start(t, "C40")
	defer r.Finish()
	r.Rule("case = one CRDT value (a state or a Delta() of one of the seven types, reached by a random execution of 3 replicas with merges; elements/keys over 50+ primitives of every supported Go type at width boundaries incl. look-alikes int(1)/int64(1)/uint8(1)/float64(1)/\"1\"/true, register values additionally proto messages and registered CBOR structs; node ids with unicode; timestamps at int64 boundaries; OR-maps nesting all seven types) sent through EncodeCRDT -> proto.Marshal -> Unmarshal -> DecodeCRDT; oracle = same concrete type, same observable value, same causal state (State/RawState), Contains/Get succeed for every original typed element/key, merging the decoded value with the original changes nothing, and for every other state z of the same execution dec(enc(x))+z == x+z and z+dec(enc(x)) == z+x (value and causal state); plus CRDT keys through codec.EncodeCRDTKey -> Marshal -> Unmarshal -> DecodeCRDTKey; non-trivial = the value carries at least two causal entries (dots/slots) or a nested map; distinct by type and causal state")
	r.Assume("quantified domain excludes: LWW registers that were never written (nil value is rejected by the serializer by design), NaN (not equal to itself as a map key), pointer-typed OR-set elements / OR-map keys (identity semantics cannot survive any encoding)")

	types.GlobalRegistry.Register(new(C40Struct))
	ser := NewCRDTValueSerializer()
	rng := r.Rand(1)

	// value serializer alone: every primitive keeps its dynamic type and value
	if r.Batch == 0 {
		for _, v := range c40Prims {
			b, err := ser.Serialize(v)
			if err != nil {
				r.Violation("value-not-serializable:"+fmt.Sprintf("%T", v), map[string]any{"value": c40ValStr(v), "error": err.Error()})
				continue
			}
			back, err := ser.Deserialize(b)
			if err != nil || c40ValStr(back) != c40ValStr(v) || reflect.TypeOf(back) != reflect.TypeOf(v) || back != v {
				r.Violation("value-changed-by-serializer:"+fmt.Sprintf("%T", v), map[string]any{"value": c40ValStr(v), "back": c40ValStr(back), "error": fmt.Sprint(err)})
			}
			r.Count("primitive_values_round_tripped", 1)
		}
		for i := 0; i < 12; i++ {
			v := c40RegExtra(i)
			b, err := ser.Serialize(v)
			if err != nil {
				r.Violation("value-not-serializable:"+fmt.Sprintf("%T", v), map[string]any{"value": c40ValStr(v), "error": err.Error()})
				continue
			}
			back, err := ser.Deserialize(b)
			if err != nil || c40ValStr(back) != c40ValStr(v) || reflect.TypeOf(back) != reflect.TypeOf(v) {
				r.Violation("value-changed-by-serializer:"+fmt.Sprintf("%T", v), map[string]any{"value": c40ValStr(v), "back": c40ValStr(back), "error": fmt.Sprint(err)})
			}
			r.Count("message_values_round_tripped", 1)
		}
		// keys
		ids := []string{"", "k", "a/b/c", "ключ-✓", strings.Repeat("k", 1000), "\x00"}
		ctor := map[crdt.DataType]func(string) crdt.Key{
			crdt.GCounterType: crdt.GCounterKey, crdt.PNCounterType: crdt.PNCounterKey, crdt.LWWRegisterType: crdt.LWWRegisterKey,
			crdt.ORSetType: crdt.ORSetKey, crdt.ORMapType: crdt.ORMapKey, crdt.FlagType: crdt.FlagKey, crdt.MVRegisterType: crdt.MVRegisterKey,
		}
		for dt, mk := range ctor {
			for _, id := range ids {
				k := mk(id)
				if k.Type() != dt || k.ID() != id {
					r.Violation("key-constructor-type-mismatch", map[string]any{"id": id, "want": int(dt), "got": int(k.Type())})
				}
				pb := codec.EncodeCRDTKey(k.ID(), k.Type())
				b, err := proto.Marshal(pb)
				pb2 := new(internalpb.CRDTKey)
				if err == nil {
					err = proto.Unmarshal(b, pb2)
				}
				var gid string
				var gdt crdt.DataType
				if err == nil {
					gid, gdt, err = codec.DecodeCRDTKey(pb2)
				}
				if err != nil || gid != id || gdt != dt {
					r.Violation("key-round-trip-mismatch:type="+strconv.Itoa(int(dt)), map[string]any{"id": id, "type": int(dt), "got_id": gid, "got_type": int(gdt), "error": fmt.Sprint(err)})
				}
				r.Count("keys_round_tripped", 1)
			}
		}
	}

	n := r.N(1500, 60000)
	for c := 0; c < n; c++ {
		kind := []int{c40KGCounter, c40KPNCounter, c40KFlag, c40KLWW, c40KMV, c40KORSet, c40KORMap, c40KORSet, c40KORMap, c40KMV, c40KLWW}[c%11]
		label := c40KindNames[kind]
		x := c40Run(rng, kind)
		histFn := func() string { return strings.Join(x.hist, "; ") }
		r.Count("executions_"+label, 1)
		for xi, d := range x.pool {
			if !c40Encodable(d) {
				r.Count("skipped_never_written_lww_register", 1)
				continue
			}
			wit := func(extra map[string]any) map[string]any {
				extra["history"] = histFn()
				extra["which"] = x.poolWhy[xi]
				extra["original_value"] = c40Val(d)
				extra["original_causal_state"] = c40Raw(d)
				return extra
			}
			y, size, err := c40RoundTrip(d, ser)
			if err != nil {
				r.Violation("round-trip-error:"+label, wit(map[string]any{"error": err.Error()}))
				r.Case(label+"|"+c40Raw(d), false)
				continue
			}
			r.Count("wire_bytes", int64(size))
			vd, rd := c40Val(d), c40Raw(d)
			bad := false
			if reflect.TypeOf(y) != reflect.TypeOf(d) {
				r.Violation("decoded-type-differs:"+label, wit(map[string]any{"decoded_type": fmt.Sprintf("%T", y)}))
				bad = true
			} else if vy := c40Val(y); vy != vd {
				r.Violation("decoded-value-differs:"+label, wit(map[string]any{"decoded_value": vy}))
				bad = true
			} else if ry := c40Raw(y); ry != rd {
				r.Violation("decoded-causal-state-differs:"+label, wit(map[string]any{"decoded_causal_state": ry}))
				bad = true
			}
			if !bad {
				// membership with the original typed elements / keys
				switch o := d.(type) {
				case *crdt.ORSet:
					for _, e := range o.Elements() {
						if !y.(*crdt.ORSet).Contains(e) {
							r.Violation("decoded-contains-miss:"+label, wit(map[string]any{"element": c40ValStr(e)}))
							bad = true
							break
						}
					}
				case *crdt.ORMap:
					for _, k := range o.Keys() {
						ov, ook := o.Get(k)
						yv, yok := y.(*crdt.ORMap).Get(k)
						if ook != yok || (ook && c40Val(ov) != c40Val(yv)) {
							r.Violation("decoded-get-miss:"+label, wit(map[string]any{"key": c40ValStr(k)}))
							bad = true
							break
						}
					}
				}
				if y.Delta() != nil && d.Delta() == nil {
					r.Count("metadata_divergence_decoded_has_pending_delta_"+label, 1)
				}
			}
			if !bad {
				// merging the decoded value with the original changes nothing
				for _, m := range []crdt.ReplicatedData{d.Merge(y), y.Merge(d)} {
					if c40Val(m) != vd {
						r.Violation("decoded-merged-with-original-differs:"+label, wit(map[string]any{"merged_value": c40Val(m)}))
						bad = true
						break
					} else if c40Raw(m) != rd {
						r.Count("metadata_divergence_self_merge_"+label, 1)
					}
				}
			}
			if !bad {
				// merge-equivalence against the other states of the execution
				for zi, z := range x.pool {
					if zi == xi {
						continue
					}
					dz, yz := d.Merge(z), y.Merge(z)
					zd, zy := z.Merge(d), z.Merge(y)
					r.Count("merge_equivalence_checks", 2)
					if c40Val(dz) != c40Val(yz) || c40Val(zd) != c40Val(zy) {
						r.Violation("decoded-merges-differently:"+label, wit(map[string]any{"other": x.poolWhy[zi], "other_causal_state": c40Raw(z), "x_merge_z": c40Val(dz), "dec_merge_z": c40Val(yz), "z_merge_x": c40Val(zd), "z_merge_dec": c40Val(zy)}))
						break
					} else if c40Raw(dz) != c40Raw(yz) || c40Raw(zd) != c40Raw(zy) {
						r.Violation("decoded-merges-differently-in-causal-state:"+label, wit(map[string]any{"other": x.poolWhy[zi], "x_merge_z": c40Raw(dz), "dec_merge_z": c40Raw(yz), "z_merge_x": c40Raw(zd), "z_merge_dec": c40Raw(zy)}))
						break
					}
				}
			}
			nontrivial := strings.Count(rd, ".")+strings.Count(rd, ":") >= 2 || kind == c40KORMap
			r.Case(label+"|"+rd, nontrivial)
			if c < 3 && xi == len(x.pool)-1 {
				s := rd
				if len(s) > 400 {
					s = s[:400] + "..."
				}
				r.Sample(map[string]any{"type": label, "causal_state": s, "wire_bytes": size})
			}
		}
	}
}
