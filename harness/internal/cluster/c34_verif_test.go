//go:build verif

package cluster

import (
	"fmt"
	"math/rand"
	"strings"
	"testing"

	"github.com/tochemey/olric/events"

	"github.com/tochemey/goakt/v4/discovery"
	"github.com/tochemey/goakt/v4/internal/verifrt"
	"github.com/tochemey/goakt/v4/log"
)

// C34: membership events are emitted once and only after rebalancing settles.
//
// A generated *true* cluster timeline (facts: a peer departs / arrives, each possibly
// triggering a rebalance epoch that possibly completes; epochs with other reasons; hostile
// facts naming the local node) is turned into the notifications olric would publish
// (node-join, node-left, rebalance-start, rebalance-complete, in the real JSON encoding),
// which are then delivered perturbed (duplicates, swaps, full shuffles) to the real
// handleClusterEvent of a *cluster built with New(...) and never started. The 30 s
// overdue timer is never waited for: "the timeout of the pending departure of n elapsed"
// is a logical input that calls emitOverdueNodeLeft(n) directly. After every input the
// Events() channel is drained and the outputs are attributed to that input.

const (
	c34Self = "10.0.0.100:3322"
)

type c34Note struct {
	Kind   string // join | left | rstart | rcomplete | timeout
	Node   string
	Epoch  uint64
	Reason string
	UID    int64 // carried in Timestamp (ms); identifies the notification instance
	Fact   int   // index of the true fact this notification stems from
	Dup    bool  // a duplicate delivery of an earlier notification
}

func (n c34Note) String() string {
	d := ""
	if n.Dup {
		d = "'"
	}
	short := func(a string) string {
		if a == c34Self {
			return "self"
		}
		if a == "" {
			return "-"
		}
		return "p" + a[len("10.0.0."):strings.Index(a, ":")]
	}
	switch n.Kind {
	case "join":
		return fmt.Sprintf("J%s(%s#%d)", d, short(n.Node), n.UID)
	case "left":
		return fmt.Sprintf("L%s(%s#%d)", d, short(n.Node), n.UID)
	case "rstart":
		return fmt.Sprintf("RS%s(e%d,%s,%s)", d, n.Epoch, n.Reason, short(n.Node))
	case "rcomplete":
		return fmt.Sprintf("RC%s(e%d)", d, n.Epoch)
	case "timeout":
		return fmt.Sprintf("TO(%s)", short(n.Node))
	}
	return "?"
}

type c34Epoch struct {
	ID     uint64
	Reason string
	Fact   int // the fact that triggered it: its routing table reflects facts <= Fact
}

type c34History struct {
	Peers      []string
	Delivered  []c34Note
	Epochs     map[uint64]*c34Epoch
	LeftFact   map[int64]int    // UID of a left notification -> fact index of that departure
	LeftNode   map[int64]string // UID of a left notification -> node
	Departures map[string][]int // node -> fact indexes of its true departures, ascending
	Perturb    string
}

func (h *c34History) text() string {
	parts := make([]string, len(h.Delivered))
	for i, n := range h.Delivered {
		parts[i] = n.String()
	}
	return strings.Join(parts, " ")
}

func c34Peer(i int) string { return fmt.Sprintf("10.0.0.%d:3322", i+1) }

// c34Generate builds a true timeline and the perturbed delivery of its notifications.
func c34Generate(rng *rand.Rand) *c34History {
	h := &c34History{Epochs: map[uint64]*c34Epoch{}, LeftFact: map[int64]int{}, LeftNode: map[int64]string{}, Departures: map[string][]int{}}
	np := 1 + rng.Intn(3)
	alive := map[string]bool{}
	for i := 0; i < np; i++ {
		h.Peers = append(h.Peers, c34Peer(i))
		alive[c34Peer(i)] = rng.Intn(3) != 0 // already a member when the history starts, or not yet
	}
	var truth []c34Note
	uid := int64(0)
	nextUID := func() int64 { uid++; return uid }
	epochIDs := rng.Perm(9) // epoch ids are routing-table signatures: unordered, non-zero
	nEpoch := 0
	maxEpochs := 1 + rng.Intn(3)
	if rng.Intn(6) == 0 {
		maxEpochs = 4 + rng.Intn(2)
	}
	type lateNote struct {
		n     c34Note
		after int // fact index after which it becomes due
	}
	var late []lateNote
	newEpoch := func(fact int, reason, node string) {
		if nEpoch >= maxEpochs || nEpoch >= len(epochIDs) {
			return
		}
		id := uint64(epochIDs[nEpoch] + 1)
		nEpoch++
		h.Epochs[id] = &c34Epoch{ID: id, Reason: reason, Fact: fact}
		truth = append(truth, c34Note{Kind: "rstart", Node: node, Epoch: id, Reason: reason, UID: nextUID(), Fact: fact})
		switch rng.Intn(5) {
		case 0: // wedged or superseded: never completes
		case 1: // completes after later facts happened
			late = append(late, lateNote{c34Note{Kind: "rcomplete", Epoch: id, UID: nextUID(), Fact: fact}, fact + 1 + rng.Intn(2)})
		default:
			truth = append(truth, c34Note{Kind: "rcomplete", Epoch: id, UID: nextUID(), Fact: fact})
		}
	}
	nFacts := 1 + rng.Intn(5)
	for f := 0; f < nFacts; f++ {
		// late completions that became due
		keep := late[:0]
		for _, l := range late {
			if l.after <= f {
				truth = append(truth, l.n)
			} else {
				keep = append(keep, l)
			}
		}
		late = keep
		p := h.Peers[rng.Intn(np)]
		switch k := rng.Intn(20); {
		case k == 0: // hostile: the local node named by a join notification and its epoch
			truth = append(truth, c34Note{Kind: "join", Node: c34Self, UID: nextUID(), Fact: f})
			if rng.Intn(2) == 0 {
				newEpoch(f, rebalanceReasonNodeJoin, c34Self)
			}
		case k == 1: // hostile: the local node named by a left notification and its epoch
			u := nextUID()
			truth = append(truth, c34Note{Kind: "left", Node: c34Self, UID: u, Fact: f})
			h.LeftFact[u], h.LeftNode[u] = f, c34Self
			h.Departures[c34Self] = append(h.Departures[c34Self], f)
			if rng.Intn(2) == 0 {
				newEpoch(f, rebalanceReasonNodeLeft, c34Self)
			}
		case k <= 3: // an epoch the membership gate must ignore
			newEpoch(f, []string{"periodic", "node-update", "bootstrap", "manual"}[rng.Intn(4)], "")
		case alive[p]:
			alive[p] = false
			u := nextUID()
			truth = append(truth, c34Note{Kind: "left", Node: p, UID: u, Fact: f})
			h.LeftFact[u], h.LeftNode[u] = f, p
			h.Departures[p] = append(h.Departures[p], f)
			if rng.Intn(6) != 0 {
				newEpoch(f, rebalanceReasonNodeLeft, p)
			}
			if rng.Intn(3) == 0 {
				late = append(late, lateNote{c34Note{Kind: "timeout", Node: p, Fact: f}, f + rng.Intn(3)})
			}
		default:
			alive[p] = true
			truth = append(truth, c34Note{Kind: "join", Node: p, UID: nextUID(), Fact: f})
			if rng.Intn(6) != 0 {
				newEpoch(f, rebalanceReasonNodeJoin, p)
			}
		}
	}
	for _, l := range late {
		if rng.Intn(3) != 0 {
			truth = append(truth, l.n)
		}
	}

	// ---- delivery: the true order, perturbed ---------------------------------------------
	del := append([]c34Note(nil), truth...)
	mode := rng.Intn(20)
	switch {
	case mode < 5:
		h.Perturb = "none"
	case mode < 12:
		h.Perturb = "swaps"
	case mode < 18:
		h.Perturb = "dups+swaps"
	default:
		h.Perturb = "shuffle"
	}
	if h.Perturb == "dups+swaps" || (h.Perturb == "shuffle" && rng.Intn(2) == 0) {
		for i, n := 0, 1+rng.Intn(3); i < n && len(del) > 0; i++ {
			src := rng.Intn(len(del))
			if del[src].Kind == "timeout" {
				continue
			}
			d := del[src]
			d.Dup = true
			at := src + 1 + rng.Intn(len(del)-src)
			del = append(del[:at], append([]c34Note{d}, del[at:]...)...)
		}
	}
	switch h.Perturb {
	case "swaps", "dups+swaps":
		for i, n := 0, 1+rng.Intn(4); i < n && len(del) > 1; i++ {
			a := rng.Intn(len(del) - 1)
			b := a + 1
			if rng.Intn(4) == 0 {
				b = rng.Intn(len(del))
			}
			del[a], del[b] = del[b], del[a]
		}
	case "shuffle":
		rng.Shuffle(len(del), func(i, j int) { del[i], del[j] = del[j], del[i] })
	}
	// a late duplicate of the start notification of an epoch whose complete was already
	// delivered (a re-published or delayed copy): must be de-duplicated, never acted upon
	if rng.Intn(3) == 0 {
		var cands []int // positions of first starts whose epoch's complete is delivered too
		for i, n := range del {
			if n.Kind != "rstart" || n.Dup {
				continue
			}
			for _, m := range del {
				if m.Kind == "rcomplete" && m.Epoch == n.Epoch {
					cands = append(cands, i)
					break
				}
			}
		}
		if len(cands) > 0 {
			src := cands[rng.Intn(len(cands))]
			after := src
			for j, m := range del {
				if m.Kind == "rcomplete" && m.Epoch == del[src].Epoch && j > after {
					after = j
				}
			}
			d := del[src]
			d.Dup = true
			at := after + 1 + rng.Intn(len(del)-after)
			del = append(del[:at], append([]c34Note{d}, del[at:]...)...)
			h.Perturb += "+latestart"
		}
	}
	// a timeout can only elapse for a departure whose notification was already tracked
	// (the timer is armed by the tracking): move early timeouts behind the first left(n)
	for changed := true; changed; {
		changed = false
		for i, n := range del {
			if n.Kind != "timeout" {
				continue
			}
			first := -1
			for j, m := range del {
				if m.Kind == "left" && m.Node == n.Node {
					first = j
					break
				}
			}
			if first > i {
				moved := del[i]
				copy(del[i:first], del[i+1:first+1])
				del[first] = moved
				changed = true
				break
			}
		}
	}
	h.Delivered = del
	return h
}

func c34Payload(n c34Note) (string, error) {
	ts := n.UID * 1_000_000 // ns; the emitted event carries it at ms granularity
	switch n.Kind {
	case "join":
		return (&events.NodeJoinEvent{Kind: events.KindNodeJoinEvent, Source: "10.0.0.99:3322", NodeJoin: n.Node, Timestamp: ts}).Encode()
	case "left":
		return (&events.NodeLeftEvent{Kind: events.KindNodeLeftEvent, Source: "10.0.0.99:3322", NodeLeft: n.Node, Timestamp: ts}).Encode()
	case "rstart":
		return (&events.RebalanceStartEvent{Kind: events.KindRebalanceStartEvent, Source: "10.0.0.99:3322", Epoch: n.Epoch, Reason: n.Reason, Node: n.Node, Timestamp: ts}).Encode()
	case "rcomplete":
		return (&events.RebalanceCompleteEvent{Kind: events.KindRebalanceCompleteEvent, Source: "10.0.0.99:3322", Epoch: n.Epoch, Timestamp: ts}).Encode()
	}
	return "", fmt.Errorf("no payload for %s", n.Kind)
}

type c34Out struct {
	Step int
	Type string
	Node string
	UID  int64
}

type c34Obs struct {
	Lefts, Joins         int
	ByTimeout            int
	ByCoveringDone       int
	DupStartsOfCompleted int
	EmittedAtDupStart    int
	Nontrivial           bool
}

// c34Run feeds one history to a fresh *cluster and judges the (inputs, outputs) trace.
func c34Run(t *testing.T, r *verifrt.Run, h *c34History) c34Obs {
	var obs c34Obs
	cl := New("c34", nil, &discovery.Node{Name: "self", Host: "10.0.0.100", PeersPort: 3322, DiscoveryPort: 3320, RemotingPort: 3323}, WithLogger(log.DiscardLogger)).(*cluster)
	if cl.node.PeersAddress() != c34Self {
		t.Fatalf("self address mismatch: %s", cl.node.PeersAddress())
	}
	evch := cl.Events()

	var outs []c34Out
	viol := func(sig string, extra map[string]any) {
		d := map[string]any{"history": h.text(), "perturbation": h.Perturb, "outputs": outs, "epochs": h.Epochs}
		for k, v := range extra {
			d[k] = v
		}
		r.Violation(sig, d)
	}

	completeDelivered := map[uint64]bool{} // epochs whose rebalance-complete was delivered so far
	startDelivered := map[uint64]bool{}    // epochs whose rebalance-start was delivered so far
	leftDelivered := map[string][]int64{}  // node -> UIDs of delivered left notifications, in order
	joinDelivered := map[string]bool{}
	// at-most-once automata
	leftOpen := map[string]bool{} // a NodeLeft(n) was emitted and nothing reset it since
	leftCount := map[string]int{} // NodeLeft(n) outputs so far
	joinOpen := map[string]bool{}

	for step, n := range h.Delivered {
		// a start notification of an epoch that was already started and completed before
		dupStartOfCompleted := n.Kind == "rstart" && startDelivered[n.Epoch] && completeDelivered[n.Epoch]
		if dupStartOfCompleted {
			obs.DupStartsOfCompleted++
		}
		switch n.Kind {
		case "timeout":
			cl.emitOverdueNodeLeft(n.Node)
		default:
			payload, err := c34Payload(n)
			if err != nil {
				t.Fatalf("encode: %v", err)
			}
			if err := cl.handleClusterEvent(payload); err != nil {
				t.Fatalf("handleClusterEvent(%s): %v", payload, err)
			}
		}
		// the input itself acts on the oracle state before its outputs are judged
		switch n.Kind {
		case "rcomplete":
			completeDelivered[n.Epoch] = true
		case "rstart":
			startDelivered[n.Epoch] = true
		case "left":
			leftDelivered[n.Node] = append(leftDelivered[n.Node], n.UID)
			joinOpen[n.Node] = false // "until the opposite event": a departure notification re-arms NodeJoined
		case "join":
			joinDelivered[n.Node] = true
			leftOpen[n.Node] = false
		}
		// drain the outputs of this input
		for drained := false; !drained; {
			select {
			case ev := <-evch:
				switch p := ev.Payload.(type) {
				case *NodeLeftEvent:
					if dupStartOfCompleted {
						obs.EmittedAtDupStart++
					}
					o := c34Out{Step: step, Type: "NodeLeft", Node: p.Address, UID: p.Timestamp.UnixMilli()}
					outs = append(outs, o)
					obs.Lefts++
					if p.Address == c34Self {
						viol("self-reported:NodeLeft", map[string]any{"step": step, "input": n.String()})
						continue
					}
					if leftOpen[p.Address] {
						viol("duplicate-NodeLeft-without-join-between", map[string]any{"step": step, "node": p.Address, "input": n.String()})
					}
					leftOpen[p.Address] = true
					joinOpen[p.Address] = false
					if len(leftDelivered[p.Address]) == 0 {
						viol("NodeLeft-without-departure-notification", map[string]any{"step": step, "node": p.Address, "input": n.String()})
						continue
					}
					// which departure is reported: the k-th NodeLeft(n) stands for the k-th true
					// departure of n. Notifications of different departures of one node are
					// indistinguishable to any observer, so under reordering the report is
					// credited to the earliest departure it can stand for (most lenient).
					deps := h.Departures[p.Address]
					k := leftCount[p.Address]
					leftCount[p.Address]++
					if k >= len(deps) {
						k = len(deps) - 1
					}
					depFact := deps[k]
					if node, ok := h.LeftNode[o.UID]; !ok || node != p.Address {
						r.Count("nodeleft_timestamp_not_of_a_left_notification", 1)
					}
					if n.Kind == "timeout" && n.Node == p.Address {
						obs.ByTimeout++
						continue
					}
					covered, stale := false, false
					for id := range completeDelivered {
						e := h.Epochs[id]
						if e == nil {
							continue
						}
						if e.Fact >= depFact {
							covered = true
						} else if e.Reason == rebalanceReasonNodeLeft {
							stale = true
						}
					}
					if covered {
						obs.ByCoveringDone++
						continue
					}
					class := "no-epoch-complete"
					if stale {
						class = "only-an-older-departures-epoch-complete"
					}
					at := n.Kind
					if dupStartOfCompleted {
						at = "rstart-duplicate-of-completed-epoch"
					}
					viol("NodeLeft-before-covering-rebalance-complete:at="+at+":"+class, map[string]any{"step": step, "node": p.Address, "departure_fact": depFact, "input": n.String(), "complete_delivered": completeDelivered})
				case *NodeJoinedEvent:
					if dupStartOfCompleted {
						obs.EmittedAtDupStart++
					}
					o := c34Out{Step: step, Type: "NodeJoined", Node: p.Address, UID: p.Timestamp.UnixMilli()}
					outs = append(outs, o)
					obs.Joins++
					if p.Address == c34Self {
						viol("self-reported:NodeJoined", map[string]any{"step": step, "input": n.String()})
						continue
					}
					if joinOpen[p.Address] {
						viol("duplicate-NodeJoined-without-left-between", map[string]any{"step": step, "node": p.Address, "input": n.String()})
					}
					joinOpen[p.Address] = true
					leftOpen[p.Address] = false
					if !joinDelivered[p.Address] {
						viol("NodeJoined-without-arrival-notification", map[string]any{"step": step, "node": p.Address, "input": n.String()})
					}
				default:
					outs = append(outs, c34Out{Step: step, Type: ev.Type.String()})
					viol("unexpected-event-type:"+ev.Type.String(), map[string]any{"step": step, "input": n.String()})
				}
			default:
				drained = true
			}
		}
	}
	obs.Nontrivial = obs.Lefts+obs.Joins >= 1 && len(h.Delivered) >= 4
	return obs
}

func TestVerif_C34(t *testing.T) {
	r := verifrt.Start(t, "C34")
	defer r.Finish()
	r.Rule("case = a true timeline of 1-5 membership facts over 1-3 peers (+ hostile facts naming the local node, + epochs of other reasons), 1-5 rebalance epochs with unordered ids, each possibly never completing or completing late, delivered as real JSON notifications to handleClusterEvent of a fresh never-started *cluster with duplicates / swaps / full shuffle and, in a third of the histories, a late duplicate start of an already completed epoch, overdue timeout as a logical input (emitOverdueNodeLeft) only after the departure was tracked; Events() drained after every input. Oracle: at-most-once automata per node (NodeLeft re-armed by a join notification or NodeJoined output, NodeJoined re-armed by a left notification or NodeLeft output), no event naming the local node, no event for a node without notification, and every NodeLeft(n) emitted either during the timeout input of n or after delivery of a rebalance-complete of an epoch started at or after that departure in the true timeline (the k-th NodeLeft(n) is credited to the k-th true departure of n, the most lenient reading under reordering). non-trivial = >=1 event emitted and >=4 inputs; distinct by delivered history text")
	r.Assume("an epoch covers a departure iff it was started, in the true timeline, by that departure or by a later fact (its routing table no longer contains the node); completion of any such epoch, whatever its reason, counts as settled")
	rng := r.Rand(1)
	n := r.N(20000, 400000)
	for i := 0; i < n; i++ {
		h := c34Generate(rng)
		obs := c34Run(t, r, h)
		r.Case(h.text(), obs.Nontrivial)
		r.Count("inputs_delivered", int64(len(h.Delivered)))
		r.Count("nodeleft_emitted", int64(obs.Lefts))
		r.Count("nodejoined_emitted", int64(obs.Joins))
		r.Count("nodeleft_by_timeout", int64(obs.ByTimeout))
		r.Count("nodeleft_after_covering_complete", int64(obs.ByCoveringDone))
		r.Count("perturbation_"+h.Perturb, 1)
		r.Count("duplicate_starts_of_completed_epochs", int64(obs.DupStartsOfCompleted))
		r.Count("events_emitted_at_duplicate_start_of_completed_epoch", int64(obs.EmittedAtDupStart))
		r.Max("history_len_max", int64(len(h.Delivered)))
		if i < 4 {
			r.Sample(map[string]any{"history": h.text(), "perturbation": h.Perturb})
		}
	}
}
