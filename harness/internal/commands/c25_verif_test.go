//go:build verif

package commands

import (
	"bytes"
	"fmt"
	"math"
	"math/rand"
	"reflect"
	"strings"
	"testing"

	"google.golang.org/protobuf/proto"
	"google.golang.org/protobuf/types/known/durationpb"

	"github.com/tochemey/goakt/v4/internal/internalpb"
	"github.com/tochemey/goakt/v4/internal/verifrt"
	"github.com/tochemey/goakt/v4/remote"
)

func c25Str(rng *rand.Rand) string {
	switch rng.Intn(12) {
	case 0:
		return "" // rejected by the constructors
	case 1:
		return " \t" // blank: rejected
	case 2:
		return "é世界 𝄞 \x00 nonce"
	case 3:
		return strings.Repeat("s", 1+rng.Intn(3000))
	case 4:
		return " padded "
	}
	n := 1 + rng.Intn(36)
	b := make([]byte, n)
	for i := range b {
		b[i] = byte(33 + rng.Intn(94))
	}
	return string(b)
}

func c25Seq(rng *rand.Rand) int64 {
	switch rng.Intn(8) {
	case 0:
		return 0
	case 1:
		return 1
	case 2:
		return math.MaxInt64
	case 3:
		return -1 - rng.Int63n(5)
	}
	return rng.Int63() >> uint(rng.Intn(63))
}

func c25Recover(f func() (any, error)) (v any, err error, pan string) {
	defer func() {
		if rec := recover(); rec != nil {
			pan = fmt.Sprintf("%v\n%s", rec, verifrt.Stack())
		}
	}()
	v, err = f()
	return
}

// c25Command builds one delivery command through its validating constructor.
func c25Command(rng *rand.Rand, ps remote.Serializer) (any, string, error) {
	switch rng.Intn(6) {
	case 0:
		c, err := NewRegisterConsumer(c25Str(rng))
		return c, "RegisterConsumer", err
	case 1:
		c, err := NewRegistrationAck(c25Str(rng), c25Seq(rng), c25Str(rng))
		return c, "RegistrationAck", err
	case 2:
		a := c25Seq(rng)
		b := a
		if rng.Intn(3) != 0 && a >= 0 && a < math.MaxInt64-1000 {
			b = a + rng.Int63n(1000)
		} else if rng.Intn(4) == 0 {
			b = c25Seq(rng)
		}
		c, err := NewRequest(c25Str(rng), c25Str(rng), a, b, rng.Intn(2) == 0)
		return c, "Request", err
	case 3:
		c, err := NewAck(c25Str(rng), c25Str(rng), c25Seq(rng))
		return c, "Ack", err
	case 4:
		payload := make([]byte, rng.Intn(300))
		rng.Read(payload)
		if rng.Intn(3) == 0 {
			// a real application payload snapshot
			p, err := EncodeReliablePayload(durationpb.New(1234567), ps)
			if err == nil {
				payload = p
			}
		}
		c, err := NewSequencedMessage(c25Str(rng), c25Str(rng), c25Seq(rng), payload)
		return c, "SequencedMessage", err
	default:
		payload := make([]byte, 1+rng.Intn(5000))
		rng.Read(payload)
		c, err := NewChunkedSequencedMessage(c25Str(rng), c25Str(rng), c25Seq(rng), payload, rng.Intn(2) == 0, rng.Intn(2) == 0)
		return c, "ChunkedSequencedMessage", err
	}
}

func c25Validate(v any) error {
	switch c := v.(type) {
	case *RegisterConsumer:
		return c.validate()
	case *RegistrationAck:
		return c.validate()
	case *Request:
		return c.validate()
	case *Ack:
		return c.validate()
	case *SequencedMessage:
		return c.validate()
	}
	return fmt.Errorf("not a delivery command: %T", v)
}

// TestVerif_C25 (package internal/commands): reliable-delivery envelopes.
func TestVerif_C25(t *testing.T) {
	r := verifrt.Start(t, "C25")
	defer r.Finish()
	r.Rule("[internal/commands] round-trip case = one delivery command (RegisterConsumer, RegistrationAck, Request, Ack, SequencedMessage, chunked SequencedMessage) built by its validating constructor from generated fields (unicode/long/padded strings, sequence edge values, payloads up to 5 KB, real serialized application payloads) through DeliverySerializer: Deserialize(Serialize(c)) must succeed and be deeply equal to c with the same dynamic type; application payloads must come back equal through Encode/DecodeReliablePayload; values the serializer does not support give an error; non-trivial = the constructor accepted the fields and Serialize accepted the command; distinct by frame. hostile case = mutated frame, or a well-formed envelope with field values no constructor accepts, to Deserialize under recover: anything accepted must satisfy the command's own validate()")
	r.Assume("reflect.DeepEqual on the command structs (same package) is the equality of delivery commands")

	rng := r.Rand(2504)
	ds := new(DeliverySerializer)
	ps := remote.NewProtoSerializer()
	var frames [][]byte
	kinds := map[string]int64{}
	n := r.N(4000, 400000)
	for i := 0; i < n; i++ {
		cmd, kind, cerr := c25Command(rng, ps)
		if cerr != nil {
			r.Count("fields_rejected_by_constructor", 1)
			r.Case(fmt.Sprintf("rejected/%s/%d", kind, i), false)
			continue
		}
		det := func(extra map[string]any) map[string]any {
			txt := fmt.Sprintf("%+v", reflect.ValueOf(cmd).Elem().Interface())
			if len(txt) > 500 {
				txt = txt[:500] + "..."
			}
			d := map[string]any{"command": kind, "value": txt}
			for k, v := range extra {
				d[k] = v
			}
			return d
		}
		out, err, pan := c25Recover(func() (any, error) { return ds.Serialize(cmd) })
		if pan != "" {
			r.Violation("serializer-panic:serialize:delivery", det(map[string]any{"panic": pan}))
			continue
		}
		if err != nil {
			// e.g. a string that is not valid UTF-8 cannot be carried by the envelope: an error is fine
			r.Count("rejected_by_serialize", 1)
			r.Case(fmt.Sprintf("unserializable/%s/%d", kind, i), false)
			continue
		}
		frame := out.([]byte)
		kinds[kind]++
		if len(frame) < 500 && len(frames) < 500 {
			frames = append(frames, frame)
		}
		gotAny, err, pan := c25Recover(func() (any, error) { return ds.Deserialize(bytes.Clone(frame)) })
		switch {
		case pan != "":
			r.Violation("serializer-panic:deserialize-own-output:delivery", det(map[string]any{"panic": pan, "frame": fmt.Sprintf("%x", frame)}))
		case err != nil:
			r.Violation("serializer-roundtrip:own-output-rejected:delivery:"+kind, det(map[string]any{"error": err.Error(), "frame": c25Hex(frame)}))
		case reflect.TypeOf(gotAny) != reflect.TypeOf(cmd):
			r.Violation("serializer-roundtrip:dynamic-type-differs:delivery:"+kind, det(map[string]any{"got_type": fmt.Sprintf("%T", gotAny)}))
		case !reflect.DeepEqual(gotAny, cmd):
			r.Violation("serializer-roundtrip:message-differs:delivery:"+kind, det(map[string]any{"got": fmt.Sprintf("%+v", reflect.ValueOf(gotAny).Elem().Interface()), "frame": c25Hex(frame)}))
		}
		r.Case("d/"+string(frame), true)
		if i < 3 {
			r.Sample(det(map[string]any{"frame_len": len(frame)}))
		}

		if i%20 == 0 {
			// application payload through the reliable payload helpers and a sequenced message
			app := &internalpb.Request{SessionId: c25Str(rng), RegistrationNonce: c25Str(rng), ConfirmedSeq: c25Seq(rng), ViaTimeout: true}
			if snap, err := EncodeReliablePayload(app, ps); err == nil {
				sm, err := NewSequencedMessage("s", "m", 1, snap)
				if err == nil {
					fr, err1 := ds.Serialize(sm)
					back, err2 := ds.Deserialize(fr)
					var msg any
					var err3 error
					if err1 == nil && err2 == nil {
						msg, err3 = DecodeReliablePayload(back.(*SequencedMessage).Payload(), ps)
					}
					if err1 != nil || err2 != nil || err3 != nil || !proto.Equal(msg.(proto.Message), app) {
						r.Violation("serializer-roundtrip:application-payload-differs:delivery", map[string]any{"errors": fmt.Sprint(err1, err2, err3), "payload": c25Hex(snap)})
					}
					r.Count("application_payload_roundtrips", 1)
				}
			}
			for _, bad := range []any{nil, "x", new(internalpb.Ack), (*Ack)(nil), Ack{}, &AsyncRequest{}} {
				if out, err, pan := c25Recover(func() (any, error) { return ds.Serialize(bad) }); pan != "" {
					r.Violation("serializer-panic:serialize:delivery", map[string]any{"type": fmt.Sprintf("%T", bad), "panic": pan})
				} else if err == nil {
					r.Violation("serializer-unsupported:bytes-instead-of-error:delivery", map[string]any{"type": fmt.Sprintf("%T", bad), "bytes": fmt.Sprintf("%x", out)})
				} else {
					r.Count("unsupported_rejected", 1)
				}
			}
		}
	}
	for k, v := range kinds {
		r.Count("roundtrip_"+k, v)
	}

	if len(frames) == 0 {
		r.Inconclusive("no frame for the hostile part")
		return
	}
	h := r.N(30000, 3000000)
	classes := map[string]int64{}
	var accepted, rejected int64
	for i := 0; i < h; i++ {
		b := bytes.Clone(frames[rng.Intn(len(frames))])
		class := ""
		switch rng.Intn(7) {
		case 0:
			b, class = b[:rng.Intn(len(b))], "truncate"
		case 1:
			for k := 1 + rng.Intn(3); k > 0; k-- {
				b[rng.Intn(len(b))] ^= byte(1 << uint(rng.Intn(8)))
			}
			class = "bitflip"
		case 2:
			g := make([]byte, rng.Intn(64))
			rng.Read(g)
			b, class = append(append([]byte{}, deliveryFrameMagic[:]...), g...), "magic+garbage"
		case 3:
			g := make([]byte, rng.Intn(40))
			rng.Read(g)
			b, class = g, "garbage"
		case 4:
			// well-formed envelope, field values no constructor accepts
			env := &internalpb.DeliveryEnvelope{}
			switch rng.Intn(7) {
			case 0:
				env.Command = &internalpb.DeliveryEnvelope_RegisterConsumer{RegisterConsumer: &internalpb.RegisterConsumer{Nonce: " "}}
			case 1:
				env.Command = &internalpb.DeliveryEnvelope_RegistrationAck{RegistrationAck: &internalpb.RegistrationAck{SessionId: "s", NextSeq: -c25Seq(rng) - 1, Nonce: ""}}
			case 2:
				env.Command = &internalpb.DeliveryEnvelope_Request{Request: &internalpb.Request{SessionId: "s", RegistrationNonce: "n", ConfirmedSeq: 10, RequestUpToSeq: 9}}
			case 3:
				env.Command = &internalpb.DeliveryEnvelope_Ack{Ack: &internalpb.Ack{SessionId: "", RegistrationNonce: "n", ConfirmedSeq: -1}}
			case 4:
				env.Command = &internalpb.DeliveryEnvelope_SequencedMessage{SequencedMessage: &internalpb.SequencedMessage{SessionId: "s", MessageId: "m", Seq: 0, Payload: &internalpb.ReliablePayload{Data: []byte{1}}}}
			case 5:
				env.Command = &internalpb.DeliveryEnvelope_SequencedMessage{SequencedMessage: &internalpb.SequencedMessage{SessionId: "s", MessageId: "m", Seq: 3, ChunkInfo: &internalpb.ChunkInfo{First: true}}}
			default:
				// no command at all
			}
			body, _ := proto.Marshal(env)
			b, class = append(append([]byte{}, deliveryFrameMagic[:]...), body...), "invalid-fields"
		case 5:
			b, class = append(b, byte(rng.Intn(256)), byte(rng.Intn(256))), "extra-bytes"
		default:
			// duplicate the envelope body: protobuf merges repeated occurrences of a field
			body := b[len(deliveryFrameMagic):]
			b, class = append(b, body...), "doubled-body"
		}
		classes[class]++
		data := bytes.Clone(b)
		got, err, pan := c25Recover(func() (any, error) { return ds.Deserialize(data) })
		switch {
		case pan != "":
			r.Violation("serializer-panic:deserialize:delivery", map[string]any{"input": fmt.Sprintf("%x", b), "class": class, "panic": pan})
		case err == nil && (got == nil || reflect.ValueOf(got).IsNil()):
			r.Violation("serializer-hostile:nil-without-error:delivery", map[string]any{"input": fmt.Sprintf("%x", b), "class": class})
		case err == nil:
			accepted++
			if verr := c25Validate(got); verr != nil {
				r.Violation("serializer-hostile:invalid-command-accepted:delivery", map[string]any{"input": fmt.Sprintf("%x", b), "class": class, "decoded": fmt.Sprintf("%+v", reflect.ValueOf(got).Elem().Interface()), "validate": verr.Error()})
			}
		default:
			rejected++
		}
		if !bytes.Equal(data, b) {
			r.Violation("serializer-hostile:deserialize-modified-input:delivery", map[string]any{"input": fmt.Sprintf("%x", b), "class": class})
		}
		r.Case("h/"+string(b), true)
	}
	for k, v := range classes {
		r.Count("hostile_"+k, v)
	}
	r.Count("hostile_deserialize_accepted", accepted)
	r.Count("hostile_deserialize_rejected", rejected)
}

func c25Hex(b []byte) string {
	if len(b) > 160 {
		return fmt.Sprintf("%x...(%d bytes)", b[:160], len(b))
	}
	return fmt.Sprintf("%x", b)
}
