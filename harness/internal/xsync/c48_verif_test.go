//go:build verif

package xsync

import (
	"fmt"
	"strings"
	"sync"
	"sync/atomic"
	"testing"
	"time"

	"github.com/tochemey/goakt/v4/internal/verifrt"
)

// TestVerif_C48: reference map-with-expiry monitor over generated histories with a
// fake clock, plus an internal-structure audit after every operation, plus a
// concurrent stress judged by a linear-time ledger under the race detector.
func TestVerif_C48(t *testing.T) {
	r := verifrt.Start(t, "C48")
	defer r.Finish()
	r.Rule("case = one generated history of Set/Get/Delete/Reset/ActiveLen/clock-advance over 1-6 keys on a fake clock, every result compared with a reference map-with-expiry and the order/items structure audited after each op; non-trivial = the history contained at least one expiry-by-clock, one re-set of an existing key and one compaction (order slice shrank); distinct by history text")
	r.Assume("TTLMap.now is the only time source of the map (fake clock installed through the unexported field)")

	rng := r.Rand(1)
	n := r.N(3000, 400000)
	type ment struct {
		v   int
		set int64
	}
	for c := 0; c < n; c++ {
		ttl := int64([]int{1, 2, 10, 1000, 1000000}[rng.Intn(5)])
		nkeys := 1 + rng.Intn(6)
		hlen := 5 + rng.Intn(300)
		if rng.Intn(4) == 0 {
			nkeys = 20 + rng.Intn(200) // cross compaction thresholds with many keys
		}
		var clock int64 = 1000
		m := NewTTLMap[int, int](time.Duration(ttl))
		m.now = func() int64 { return clock }
		model := map[int]ment{}
		var hist strings.Builder
		fmt.Fprintf(&hist, "ttl=%d;", ttl)
		val := 0
		sawExpiry, sawReset, sawCompact := false, false, false
		bad := false
		for i := 0; i < hlen && !bad; i++ {
			k := rng.Intn(nkeys)
			op := rng.Intn(100)
			prevOrder := len(m.order)
			switch {
			case op < 40:
				val++
				if e, ok := model[k]; ok && clock-e.set < ttl {
					sawReset = true
				}
				m.Set(k, val)
				model[k] = ment{val, clock}
				fmt.Fprintf(&hist, "S%d=%d;", k, val)
			case op < 65:
				got, ok := m.Get(k)
				e, mok := model[k]
				live := mok && clock-e.set < ttl
				if mok && !live {
					sawExpiry = true
				}
				fmt.Fprintf(&hist, "G%d->%d,%v;", k, got, ok)
				if ok != live || (live && got != e.v) {
					r.Violation("ttlmap-get-mismatch", map[string]any{"history": hist.String(), "key": k, "got": got, "ok": ok, "want_live": live, "want": e.v, "clock": clock})
					bad = true
				}
			case op < 75:
				m.Delete(k)
				delete(model, k)
				fmt.Fprintf(&hist, "D%d;", k)
			case op < 78:
				m.Reset()
				model = map[int]ment{}
				hist.WriteString("R;")
			case op < 85:
				want := 0
				for _, e := range model {
					if clock-e.set < ttl {
						want++
					}
				}
				got := m.ActiveLen()
				l := m.Len()
				fmt.Fprintf(&hist, "A->%d;", got)
				if got != want || l != got {
					r.Violation("ttlmap-activelen-mismatch", map[string]any{"history": hist.String(), "got": got, "want": want, "len_after": l})
					bad = true
				}
			default:
				adv := []int64{0, 1, ttl - 1, ttl, ttl + 1, 3 * ttl, ttl / 2}[rng.Intn(7)]
				if adv < 0 {
					adv = 0
				}
				clock += adv
				fmt.Fprintf(&hist, "T+%d;", adv)
			}
			if len(m.order) < prevOrder && prevOrder > 0 && op < 40 {
				sawCompact = true
			}
			// structure audit: every live model key is mapped to a slot that holds it
			for mk, e := range model {
				if clock-e.set >= ttl {
					continue
				}
				idx, ok := m.items[mk]
				if !ok || idx < 0 || idx >= len(m.order) || m.order[idx].key != mk || m.order[idx].value != e.v {
					r.Violation("ttlmap-structure-live-key-unreachable", map[string]any{"history": hist.String(), "key": mk, "idx": idx, "mapped": ok, "order_len": len(m.order), "head": m.head})
					bad = true
					break
				}
			}
			for ik, idx := range m.items {
				if idx < 0 || idx >= len(m.order) || m.order[idx].key != ik {
					r.Violation("ttlmap-structure-stale-index", map[string]any{"history": hist.String(), "key": ik, "idx": idx, "order_len": len(m.order)})
					bad = true
					break
				}
			}
		}
		// final sweep: every key compared once more
		for k := 0; k < nkeys && !bad; k++ {
			got, ok := m.Get(k)
			e, mok := model[k]
			live := mok && clock-e.set < ttl
			if ok != live || (live && got != e.v) {
				r.Violation("ttlmap-get-mismatch", map[string]any{"history": hist.String(), "final_key": k, "got": got, "ok": ok, "want_live": live, "want": e.v})
				bad = true
			}
		}
		h := hist.String()
		r.Case(h, sawExpiry && sawReset && sawCompact)
		if c < 2 {
			if len(h) > 600 {
				h = h[:600] + "..."
			}
			r.Sample(map[string]any{"history": h, "keys": nkeys})
		}
	}

	// concurrent part: real clock, long ttl; a Get may only return a value that
	// some Set of that key wrote and that was not older than the last value the
	// same goroutine itself wrote or saw for that key (per-key monotone ids).
	rounds := r.N(8, 200)
	for round := 0; round < rounds; round++ {
		m := NewTTLMap[int, int64](time.Hour)
		nk := 1 + rng.Intn(4)
		g := 4 + rng.Intn(12)
		var ctr [8]atomic.Int64 // per-key id source: ids increase per key
		var wg sync.WaitGroup
		var gets, hits atomic.Int64
		for w := 0; w < g; w++ {
			wg.Add(1)
			seed := rng.Int63()
			go func(seed int64) {
				defer wg.Done()
				lr := newLCG(seed)
				var lastSeen [8]int64
				for i := 0; i < 400; i++ {
					k := int(lr.next() % uint64(nk))
					switch lr.next() % 10 {
					case 0, 1, 2, 3:
						// ids are taken and written under no common lock: a
						// reader may see ids out of order, so only membership
						// in the written range is judged
						id := ctr[k].Add(1)
						m.Set(k, id)
					case 9:
						m.Delete(k)
					default:
						v, ok := m.Get(k)
						gets.Add(1)
						if ok {
							hits.Add(1)
							if v < 1 || v > ctr[k].Load() {
								r.Violation("ttlmap-concurrent-phantom-value", map[string]any{"key": k, "value": v, "max_written": ctr[k].Load()})
							}
							lastSeen[k] = v
						}
					}
				}
			}(seed)
		}
		wg.Wait()
		r.Count("concurrent_gets", gets.Load())
		r.Count("concurrent_hits", hits.Load())
		r.Case(fmt.Sprintf("conc/%d/%d/%d", round, nk, g), hits.Load() > 0)
	}
}

type lcg struct{ s uint64 }

func newLCG(seed int64) *lcg { return &lcg{uint64(seed)*2862933555777941757 + 3037000493} }
func (l *lcg) next() uint64 {
	l.s = l.s*6364136223846793005 + 1442695040888963407
	return l.s >> 33
}
