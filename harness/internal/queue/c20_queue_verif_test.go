//go:build verif

package queue

import (
	"fmt"
	"sort"
	"sync"
	"sync/atomic"
	"testing"
	"time"

	"github.com/anishathalye/porcupine"

	"github.com/tochemey/goakt/v4/internal/verifrt"
)

// C20 (queue part): the event stream's per-subscriber queue must behave as a FIFO
// under concurrent Enqueue and concurrent Dequeue (concurrent draining of one
// subscriber). Histories recorded under the serial scheduler are checked with
// porcupine; free-running stress is judged by an exactly-once ledger.

type c20In struct {
	Enq bool
	V   int
}

var c20Model = porcupine.Model{
	Init: func() interface{} { return []int(nil) },
	Step: func(state, input, output interface{}) (bool, interface{}) {
		st := state.([]int)
		in := input.(c20In)
		if in.Enq {
			ns := append(append([]int(nil), st...), in.V)
			return true, ns
		}
		out := output.(int)
		if out == 0 {
			return len(st) == 0, st
		}
		if len(st) == 0 || st[0] != out {
			return false, st
		}
		return true, append([]int(nil), st[1:]...)
	},
	Equal: func(a, b interface{}) bool {
		x, y := a.([]int), b.([]int)
		if len(x) != len(y) {
			return false
		}
		for i := range x {
			if x[i] != y[i] {
				return false
			}
		}
		return true
	},
	DescribeOperation: func(input, output interface{}) string {
		in := input.(c20In)
		if in.Enq {
			return fmt.Sprintf("Enq(%d)", in.V)
		}
		return fmt.Sprintf("Deq->%d", output.(int))
	},
}

func c20Describe(ops []porcupine.Operation) []string {
	sorted := append([]porcupine.Operation(nil), ops...)
	sort.Slice(sorted, func(i, j int) bool { return sorted[i].Call < sorted[j].Call })
	var out []string
	for _, o := range sorted {
		out = append(out, fmt.Sprintf("c%d [%d,%d] %s", o.ClientId, o.Call, o.Return, c20Model.DescribeOperation(o.Input, o.Output)))
	}
	return out
}

func TestVerif_C20Queue(t *testing.T) {
	r := verifrt.Start(t, "C20")
	defer r.Finish()
	r.Rule("queue part: case = one serialized execution (random/PCT/sticky schedule at every atomic of internal/queue/queue.go) of 2 enqueuers x 1-3 ops and 2-3 dequeuers x 1-3 ops on one queue that was pre-cycled so that pooled nodes are reused, followed by a sequential drain; oracle = porcupine FIFO model (multi-consumer) + exactly-once ledger; plus free-running stress with schedule noise (2-4 enqueuers, 2-3 dequeuers, 2000 values) judged by the ledger and per-producer order per dequeuer; non-trivial = at least two dequeue operations overlapped in the history; distinct by schedule trace")
	rng := r.Rand(20)
	n := r.N(4000, 150000)
	for c := 0; c < n; c++ {
		q := NewQueue()
		// pre-cycle: fill the node pool so that Enqueue reuses released nodes
		for i := 0; i < 3; i++ {
			q.Enqueue(-1)
		}
		for i := 0; i < 3; i++ {
			q.Dequeue()
		}
		var clock int64
		var mu sync.Mutex
		var ops []porcupine.Operation
		tick := func() int64 { return atomic.AddInt64(&clock, 1) }
		rec := func(o porcupine.Operation) { mu.Lock(); ops = append(ops, o); mu.Unlock() }
		var fns []func()
		nenq, ndeq := 2, 2+rng.Intn(2)
		id := 0
		pre := rng.Intn(3) // elements already queued before the threads start
		for i := 0; i < pre; i++ {
			id++
			call := tick()
			q.Enqueue(id)
			rec(porcupine.Operation{ClientId: 9, Input: c20In{Enq: true, V: id}, Call: call, Output: 0, Return: tick()})
		}
		for e := 0; e < nenq; e++ {
			k := 1 + rng.Intn(3)
			var vals []int
			for i := 0; i < k; i++ {
				id++
				vals = append(vals, id)
			}
			e := e
			fns = append(fns, func() {
				for _, v := range vals {
					call := tick()
					q.Enqueue(v)
					rec(porcupine.Operation{ClientId: e, Input: c20In{Enq: true, V: v}, Call: call, Output: 0, Return: tick()})
				}
			})
		}
		for d := 0; d < ndeq; d++ {
			k := 1 + rng.Intn(3)
			d := d
			fns = append(fns, func() {
				for i := 0; i < k; i++ {
					call := tick()
					v := q.Dequeue()
					out := 0
					if v != nil {
						out = v.(int)
					}
					rec(porcupine.Operation{ClientId: nenq + d, Input: c20In{}, Call: call, Output: out, Return: tick()})
				}
			})
		}
		policy := []verifrt.SerialPolicy{verifrt.SerialRandom, verifrt.SerialPCT, verifrt.SerialSticky}[rng.Intn(3)]
		res := verifrt.RunSerial(rng.Int63(), policy, 3, 4000, fns...)
		if res.Aborted {
			r.Count("serial_step_budget_exhausted", 1)
		}
		for i := 0; i < id+3; i++ {
			call := tick()
			v := q.Dequeue()
			out := 0
			if v != nil {
				out = v.(int)
			}
			rec(porcupine.Operation{ClientId: 9, Input: c20In{}, Call: call, Output: out, Return: tick()})
			if v == nil {
				break
			}
		}
		overlapDeq := false
		for i, a := range ops {
			for j, b := range ops {
				if i < j && !a.Input.(c20In).Enq && !b.Input.(c20In).Enq && a.Call < b.Return && b.Call < a.Return {
					overlapDeq = true
				}
			}
		}
		r.Case(fmt.Sprintf("%d/%d/%d/%v", nenq, ndeq, pre, res.Trace), overlapDeq)
		r.Count("queue_operations_recorded", int64(len(ops)))
		seen := map[int]int{}
		for _, o := range ops {
			if !o.Input.(c20In).Enq && o.Output.(int) != 0 {
				seen[o.Output.(int)]++
			}
		}
		for v := 1; v <= id; v++ {
			if seen[v] != 1 {
				r.Violation(fmt.Sprintf("queue-ledger-value-dequeued-%dx", seen[v]), map[string]any{"value": v, "history": c20Describe(ops), "schedule": fmt.Sprint(res.Trace)})
			}
		}
		switch porcupine.CheckOperationsTimeout(c20Model, ops, 20*time.Second) {
		case porcupine.Illegal:
			r.Violation("queue-nonlinearizable", map[string]any{"history": c20Describe(ops), "schedule": fmt.Sprint(res.Trace)})
		case porcupine.Unknown:
			r.Inconclusive("porcupine timeout in C20 queue")
		}
		if c == 0 {
			r.Sample(map[string]any{"history": c20Describe(ops), "schedule": fmt.Sprint(res.Trace)})
		}
	}

	// free-running stress with noise
	rounds := r.N(16, 400)
	for round := 0; round < rounds; round++ {
		q := NewQueue()
		nenq, ndeq := 2+rng.Intn(3), 2+rng.Intn(2)
		per := 500
		hot := verifrt.StartNoise(verifrt.NoiseConfig{Seed: rng.Int63(), GoschedPerMille: 50, HotSites: 1 + rng.Intn(3), Candidates: verifrt.SitesIn("internal/queue/queue.go"), HotPerMille: 200, MinDelay: 5 * time.Microsecond, MaxDelay: 200 * time.Microsecond, Budget: 300})
		counts := make([]atomic.Int32, nenq*per+1)
		var wg, ewg sync.WaitGroup
		var enqDone atomic.Bool
		var orderBad atomic.Int64
		var orderWit atomic.Value
		for e := 0; e < nenq; e++ {
			ewg.Add(1)
			go func(e int) {
				defer ewg.Done()
				for i := 0; i < per; i++ {
					q.Enqueue(e*per + i + 1)
				}
			}(e)
		}
		for d := 0; d < ndeq; d++ {
			wg.Add(1)
			go func() {
				defer wg.Done()
				last := make([]int, nenq)
				idle := 0
				for {
					v := q.Dequeue()
					if v == nil {
						if enqDone.Load() {
							idle++
							if idle > 3 {
								return
							}
						}
						time.Sleep(10 * time.Microsecond)
						continue
					}
					idle = 0
					x, ok := v.(int)
					if !ok || x < 1 || x > nenq*per {
						orderBad.Add(1)
						orderWit.Store(fmt.Sprintf("dequeued foreign value %v", v))
						continue
					}
					counts[x].Add(1)
					e, i := (x-1)/per, (x-1)%per+1
					if i <= last[e] {
						orderBad.Add(1)
						orderWit.Store(fmt.Sprintf("one dequeuer saw producer %d value %d after %d", e, i, last[e]))
					}
					last[e] = i
				}
			}()
		}
		ewg.Wait()
		enqDone.Store(true)
		wg.Wait()
		verifrt.StopNoise()
		for {
			v := q.Dequeue()
			if v == nil {
				break
			}
			if x, ok := v.(int); ok && x >= 1 && x <= nenq*per {
				counts[x].Add(1)
			}
		}
		lost, dup := 0, 0
		for x := 1; x <= nenq*per; x++ {
			switch c := counts[x].Load(); {
			case c == 0:
				lost++
			case c > 1:
				dup++
			}
		}
		if lost > 0 || dup > 0 {
			r.Violation("queue-stress-lost-or-duplicated", map[string]any{"lost": lost, "duplicated": dup, "enqueuers": nenq, "dequeuers": ndeq, "hot_sites": hot})
		}
		if orderBad.Load() > 0 {
			w, _ := orderWit.Load().(string)
			r.Violation("queue-stress-order", map[string]any{"count": orderBad.Load(), "witness": w, "hot_sites": hot})
		}
		r.Case(fmt.Sprintf("stress/%d/%d/%d", round, nenq, ndeq), true)
		r.Count("queue_stress_values", int64(nenq*per))
	}
}
