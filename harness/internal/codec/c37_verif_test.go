//go:build verif

package codec

import (
	"bytes"
	"context"
	"encoding/json"
	stderrors "errors"
	"fmt"
	"math"
	"sort"
	"strings"
	"testing"
	"time"

	"google.golang.org/protobuf/proto"

	gerrors "github.com/tochemey/goakt/v4/errors"
	"github.com/tochemey/goakt/v4/extension"
	"github.com/tochemey/goakt/v4/internal/internalpb"
	"github.com/tochemey/goakt/v4/internal/types"
	"github.com/tochemey/goakt/v4/internal/verifrt"
	"github.com/tochemey/goakt/v4/passivation"
	"github.com/tochemey/goakt/v4/reentrancy"
	"github.com/tochemey/goakt/v4/supervisor"
)

// C37 (codec level): Decode*(unmarshal(marshal(Encode*(x)))) == x, judged on every
// accessor of the in-memory object, over generated supervisors, passivation strategies,
// reentrancy settings and dependency lists (zero, negative and extreme values included).

type c37DepX struct {
	IDv  string
	Blob []byte
	N    int64
}

func (d *c37DepX) ID() string                     { return d.IDv }
func (d *c37DepX) MarshalBinary() ([]byte, error) { return json.Marshal(d) }
func (d *c37DepX) UnmarshalBinary(b []byte) error { return json.Unmarshal(b, d) }

type c37DepY struct {
	IDv string
	S   string
}

func (d *c37DepY) ID() string                     { return d.IDv }
func (d *c37DepY) MarshalBinary() ([]byte, error) { return []byte(d.IDv + "\x00" + d.S), nil }
func (d *c37DepY) UnmarshalBinary(b []byte) error {
	id, s, ok := bytes.Cut(b, []byte{0})
	if !ok {
		return stderrors.New("c37DepY: malformed")
	}
	d.IDv, d.S = string(id), string(s)
	return nil
}

var (
	_ extension.Dependency = (*c37DepX)(nil)
	_ extension.Dependency = (*c37DepY)(nil)
)

type c37ErrV struct{}

func (c37ErrV) Error() string { return "c37 v" }

type c37ErrP struct{}

func (*c37ErrP) Error() string { return "c37 p" }

var c37CodecErrs = []error{
	&gerrors.PanicError{}, &gerrors.InternalError{}, &gerrors.SpawnError{}, c37ErrV{}, &c37ErrP{},
	stderrors.New("plain"), context.DeadlineExceeded, gerrors.ErrDead, context.Canceled,
}

func c37SupText(s *supervisor.Supervisor) map[string]string {
	if s == nil {
		return map[string]string{"nil": "true"}
	}
	var rules []string
	for _, r := range s.Rules() {
		rules = append(rules, r.ErrorType+"="+r.Directive.String())
	}
	sort.Strings(rules)
	anyErr := "<none>"
	if d, ok := s.AnyErrorDirective(); ok {
		anyErr = d.String()
	}
	return map[string]string{
		"strategy":     s.Strategy().String(),
		"rules":        strings.Join(rules, ";"),
		"any_error":    anyErr,
		"max_retries":  fmt.Sprint(s.MaxRetries()),
		"retry_window": fmt.Sprint(int64(s.Timeout())),
		"backoff":      fmt.Sprintf("initial=%d max=%d reset=%d", s.InitialDelay(), s.MaxDelay(), s.BackoffResetAfter()),
	}
}

func c37PassText(p passivation.Strategy) string {
	switch s := p.(type) {
	case *passivation.TimeBasedStrategy:
		return fmt.Sprintf("time:%d", s.Timeout())
	case *passivation.MessagesCountBasedStrategy:
		return fmt.Sprintf("count:%d", s.MaxMessages())
	case *passivation.LongLivedStrategy:
		return "longlived"
	case nil:
		return "<nil>"
	}
	return fmt.Sprintf("%T", p)
}

func TestVerif_C37(t *testing.T) {
	r := verifrt.Start(t, "C37")
	defer r.Finish()
	r.Rule("case = one generated object (supervisor | passivation strategy | reentrancy | dependency list) -> Encode* -> proto.Marshal/Unmarshal -> Decode* -> every accessor compared with the original; values include 0, -1, 1ns, min/max durations and counters, all strategies/directives, 9 error types (custom value and pointer types), any-error, backoff triple, 0-4 dependencies of 2 types with binary content. non-trivial = supervisor with >=2 rules or any-error or backoff / non-default passivation parameter / reentrancy with max-in-flight > 0 / >=2 dependencies; distinct by object text")
	rng := r.Rand(7)
	n := r.N(20000, 1000000)
	durs := []time.Duration{-1, 0, 1, time.Millisecond, time.Second, 90 * time.Minute, math.MaxInt64, math.MinInt64, -time.Hour}
	registry := types.NewRegistry()
	registry.Register(&c37DepX{})
	registry.Register(&c37DepY{})

	for i := 0; i < n; i++ {
		switch i % 4 {
		case 0: // ---- supervisor -------------------------------------------------------------
			opts := []supervisor.SupervisorOption{}
			desc := ""
			if rng.Intn(4) != 0 {
				st := supervisor.Strategy(rng.Intn(2))
				opts = append(opts, supervisor.WithStrategy(st))
				desc += "strategy=" + st.String() + ";"
			}
			nr := rng.Intn(5)
			for j := 0; j < nr; j++ {
				e, d := rng.Intn(len(c37CodecErrs)), supervisor.Directive(rng.Intn(4))
				opts = append(opts, supervisor.WithDirective(c37CodecErrs[e], d))
				desc += fmt.Sprintf("rule(%d,%s);", e, d)
			}
			hasAny := rng.Intn(4) == 0
			if hasAny {
				d := supervisor.Directive(rng.Intn(4))
				opts = append(opts, supervisor.WithAnyErrorDirective(d))
				desc += "any=" + d.String() + ";"
			}
			if rng.Intn(3) != 0 {
				mr := []uint32{0, 1, 3, 10, math.MaxUint32}[rng.Intn(5)]
				w := durs[rng.Intn(len(durs))]
				opts = append(opts, supervisor.WithRetry(mr, w))
				desc += fmt.Sprintf("retry(%d,%d);", mr, w)
			}
			hasBackoff := rng.Intn(4) == 0
			if hasBackoff {
				a := []time.Duration{time.Millisecond, time.Second}[rng.Intn(2)]
				b := []time.Duration{0, 10 * time.Second}[rng.Intn(2)]
				c := []time.Duration{0, time.Minute}[rng.Intn(2)]
				opts = append(opts, supervisor.WithExponentialBackoff(a, b, c))
				desc += fmt.Sprintf("backoff(%d,%d,%d);", a, b, c)
			}
			orig := supervisor.NewSupervisor(opts...)
			raw, err := proto.Marshal(EncodeSupervisor(orig))
			if err != nil {
				t.Fatalf("marshal: %v", err)
			}
			spec := new(internalpb.SupervisorSpec)
			if err := proto.Unmarshal(raw, spec); err != nil {
				t.Fatalf("unmarshal: %v", err)
			}
			got := DecodeSupervisor(spec)
			want, have := c37SupText(orig), c37SupText(got)
			for _, f := range []string{"nil", "strategy", "rules", "any_error", "max_retries", "retry_window", "backoff"} {
				if want[f] != have[f] {
					r.Violation("codec-roundtrip-differs:supervisor."+f, map[string]any{"options": desc, "original": want, "decoded": have})
				}
			}
			r.Count("supervisors", 1)
			r.Case("sup/"+desc, nr >= 2 || hasAny || hasBackoff)
			if i < 8 {
				r.Sample(map[string]any{"supervisor_options": desc, "decoded": have})
			}
		case 1: // ---- passivation ------------------------------------------------------------
			var orig passivation.Strategy
			switch rng.Intn(3) {
			case 0:
				orig = passivation.NewTimeBasedStrategy(durs[rng.Intn(len(durs))])
			case 1:
				orig = passivation.NewMessageCountBasedStrategy([]int{0, 1, 5, -3, 1 << 31, 1 << 40, math.MaxInt64, math.MinInt64}[rng.Intn(8)])
			default:
				orig = passivation.NewLongLivedStrategy()
			}
			raw, err := proto.Marshal(EncodePassivationStrategy(orig))
			if err != nil {
				t.Fatalf("marshal: %v", err)
			}
			spec := new(internalpb.PassivationStrategy)
			if err := proto.Unmarshal(raw, spec); err != nil {
				t.Fatalf("unmarshal: %v", err)
			}
			got := DecodePassivationStrategy(spec)
			if c37PassText(orig) != c37PassText(got) {
				r.Violation("codec-roundtrip-differs:passivation:"+orig.Name(), map[string]any{"original": c37PassText(orig), "decoded": c37PassText(got)})
			}
			r.Count("passivations", 1)
			r.Case("pass/"+c37PassText(orig), c37PassText(orig) != "longlived")
		case 2: // ---- reentrancy -------------------------------------------------------------
			mode := reentrancy.Mode(rng.Intn(3))
			mx := []int{0, 1, 7, 1000, math.MaxInt32, math.MaxUint32, -5}[rng.Intn(7)]
			orig := reentrancy.New(reentrancy.WithMode(mode), reentrancy.WithMaxInFlight(mx))
			raw, err := proto.Marshal(EncodeReentrancy(orig))
			if err != nil {
				t.Fatalf("marshal: %v", err)
			}
			spec := new(internalpb.ReentrancyConfig)
			if err := proto.Unmarshal(raw, spec); err != nil {
				t.Fatalf("unmarshal: %v", err)
			}
			got := DecodeReentrancy(spec)
			if got == nil || got.Mode() != orig.Mode() {
				r.Violation("codec-roundtrip-differs:reentrancy.mode", map[string]any{"original_mode": int(orig.Mode()), "decoded": fmt.Sprint(got)})
			} else if got.MaxInFlight() != orig.MaxInFlight() {
				r.Violation("codec-roundtrip-differs:reentrancy.max_in_flight", map[string]any{"original": orig.MaxInFlight(), "decoded": got.MaxInFlight()})
			}
			r.Count("reentrancies", 1)
			r.Case(fmt.Sprintf("reent/%d/%d", mode, mx), orig.MaxInFlight() > 0)
		default: // ---- dependencies ----------------------------------------------------------
			nd := rng.Intn(5)
			var deps []extension.Dependency
			var desc []string
			for j := 0; j < nd; j++ {
				data := []string{"", "x", "héllo\x00wörld", strings.Repeat("z", 300), "\xff\xfe"}[rng.Intn(5)]
				if rng.Intn(2) == 0 {
					deps = append(deps, &c37DepX{IDv: fmt.Sprintf("dx-%d", j), Blob: []byte(data), N: rng.Int63() - rng.Int63()})
				} else {
					deps = append(deps, &c37DepY{IDv: fmt.Sprintf("dy-%d", j), S: data})
				}
				b, _ := deps[j].MarshalBinary()
				desc = append(desc, fmt.Sprintf("%T|%s|%x", deps[j], deps[j].ID(), b))
			}
			enc, err := EncodeDependencies(deps...)
			if err != nil {
				t.Fatalf("encode deps: %v", err)
			}
			var wire []*internalpb.Dependency
			for _, e := range enc {
				raw, err := proto.Marshal(e)
				if err != nil {
					t.Fatalf("marshal: %v", err)
				}
				w := new(internalpb.Dependency)
				if err := proto.Unmarshal(raw, w); err != nil {
					t.Fatalf("unmarshal: %v", err)
				}
				wire = append(wire, w)
			}
			got, err := DecodeDependencies(registry, wire...)
			if err != nil {
				r.Violation("codec-roundtrip-failed:dependencies", map[string]any{"deps": desc, "error": err.Error()})
			} else {
				var have []string
				for _, d := range got {
					b, _ := d.MarshalBinary()
					have = append(have, fmt.Sprintf("%T|%s|%x", d, d.ID(), b))
				}
				if strings.Join(desc, ";") != strings.Join(have, ";") {
					r.Violation("codec-roundtrip-differs:dependencies", map[string]any{"original": desc, "decoded": have})
				}
			}
			r.Count("dependency_lists", 1)
			r.Case("deps/"+strings.Join(desc, ";"), nd >= 2)
		}
	}
}
