//go:build verif

package remoteclient

import (
	"context"
	"errors"
	"fmt"
	"math/rand"
	"net"
	"runtime"
	"strconv"
	"strings"
	"sync"
	"sync/atomic"
	"testing"
	"time"

	"google.golang.org/protobuf/proto"
	"google.golang.org/protobuf/types/known/wrapperspb"

	"github.com/tochemey/goakt/v4/internal/address"
	"github.com/tochemey/goakt/v4/internal/internalpb"
	"github.com/tochemey/goakt/v4/internal/verifrt"
)

// C27, client layer: the remoting client built directly with small coalescing
// batch sizes and a recording error handler, against the stub server. The
// server-side script decides per batch: answer, answer with a proto error, close
// the connection before or after processing. Oracle: delivered order per caller,
// at-most-once, and accepted ⊆ delivered ∪ handedToErrorHandler once Close returned.

type c27bScript struct {
	Kind     string // fail-batches | close-with-pending | close-racing-submit | backpressure-cancel
	MaxBatch int
	Callers  int
	PerCall  int
	Actions  map[int]string // batch index -> proto-error | drop-before | drop-after
	Pending  int            // close-with-pending: messages queued behind the gated first batch
	CloseAt  int            // close-racing-submit: Close is called once this many sends were accepted
	Noise    int
}

func (s c27bScript) String() string {
	var acts []string
	for k := 0; k < 64; k++ {
		if a, ok := s.Actions[k]; ok {
			acts = append(acts, fmt.Sprintf("%s@%d", a, k))
		}
	}
	return fmt.Sprintf("%s maxBatch=%d callers=%d n=%d actions=[%s] pending=%d closeAt=%d noise=%d",
		s.Kind, s.MaxBatch, s.Callers, s.PerCall, strings.Join(acts, ","), s.Pending, s.CloseAt, s.Noise)
}

type c27bObs struct {
	Accepted, Rejected, Delivered, Failed, Ambiguous int
	Batches, FailedBatches                           int
	MaxBatchSeen                                     int
	Lost                                             []string
	LostN                                            int
	LostAcceptedBeforeClose                          int
	LostOverlappingClose                             int
	Stranded                                         int // messages left in the coalescer's channel after Close
	OrderBad, Dups, HandlerMismatch                  int
	Wit                                              string
	PendingAtClose                                   int
	ClosedErrors, Foreign                            int
	Nontrivial                                       bool
	Inconclusive                                     string
	HotSites                                         []string
}

func c27bGen(rng *rand.Rand, i int) c27bScript {
	s := c27bScript{MaxBatch: []int{1, 4, 64}[rng.Intn(3)], Callers: 1 + rng.Intn(6), PerCall: 50 + rng.Intn(400), Noise: rng.Intn(3)}
	kinds := []string{"fail-batches", "close-with-pending", "close-racing-submit", "fail-batches", "backpressure-cancel", "close-with-pending", "close-racing-submit"}
	s.Kind = kinds[i%len(kinds)]
	switch s.Kind {
	case "fail-batches":
		s.Actions = map[int]string{}
		for n := 1 + rng.Intn(5); n > 0; n-- {
			s.Actions[rng.Intn(30)] = []string{"proto-error", "drop-before", "drop-after"}[rng.Intn(3)]
		}
	case "close-with-pending":
		s.Callers = 1 + rng.Intn(3)
		// pending in (maxBatch, 4*maxBatch], sometimes <= maxBatch (must then be flushed completely)
		lo, hi := s.MaxBatch+1, 4*s.MaxBatch
		s.Pending = lo + rng.Intn(hi-lo+1)
		if rng.Intn(5) == 0 {
			s.Pending = 1 + rng.Intn(s.MaxBatch)
		}
		if rng.Intn(3) == 0 {
			s.Pending = hi
		}
		s.PerCall = (s.Pending + s.Callers - 1) / s.Callers
	case "close-racing-submit":
		s.Callers = 2 + rng.Intn(6)
		s.PerCall = 300 + rng.Intn(700)
		s.CloseAt = 1 + rng.Intn(s.Callers*s.PerCall/2)
		s.Noise = 1 + rng.Intn(2)
	case "backpressure-cancel":
		s.Callers = 2 + rng.Intn(4)
		s.PerCall = (5*s.MaxBatch)/s.Callers + 6
	}
	return s
}

var c27bCaseNo atomic.Int64

func c27bMsgID(tag string, caller, seq int) string {
	return tag + "m|" + strconv.Itoa(caller) + "|" + strconv.Itoa(seq)
}

func c27bRun(st *c27Stub, s c27bScript, seed int64) (obs c27bObs) {
	ctx := context.Background()
	// ids carry the case number: a request of an earlier case whose RPC the client gave up
	// on (5 s flush timeout on a slow machine) may reach the stub during a later case
	tag := strconv.FormatInt(c27bCaseNo.Add(1), 10) + "#"
	var foreign atomic.Int64
	delivered := c27NewRec()
	failed := c27NewRec()
	var batches, failedBatches, maxSeen atomic.Int64
	var inHandler atomic.Int64
	var gate chan struct{}
	if s.Kind == "close-with-pending" || s.Kind == "backpressure-cancel" {
		gate = make(chan struct{})
	}
	var mismatch atomic.Int64
	hooks := &c27Hooks{OnTell: func(_ context.Context, req *internalpb.RemoteTellRequest) (proto.Message, error) {
		ids := make([]string, 0, len(req.GetRemoteMessages()))
		for _, m := range req.GetRemoteMessages() {
			id := c27ID(m)
			if !strings.HasPrefix(id, tag) {
				foreign.Add(1)
				continue
			}
			ids = append(ids, strings.TrimPrefix(id, tag))
		}
		if len(ids) == 0 && len(req.GetRemoteMessages()) > 0 {
			// a late request of an earlier case: not part of this script
			return new(internalpb.RemoteTellResponse), nil
		}
		k := int(batches.Add(1) - 1)
		inHandler.Add(1)
		if gate != nil && k == 0 {
			<-gate
		}
		if n := int64(len(ids)); n > maxSeen.Load() {
			maxSeen.Store(n)
		}
		switch s.Actions[k] {
		case "proto-error":
			return &internalpb.Error{Code: internalpb.Code_CODE_INTERNAL_ERROR, Message: "c27 scripted error"}, nil
		case "drop-before":
			return nil, errors.New("c27 scripted drop")
		case "drop-after":
			delivered.Add(ids...)
			return nil, errors.New("c27 scripted drop after processing")
		}
		delivered.Add(ids...)
		return new(internalpb.RemoteTellResponse), nil
	}}
	st.Use(hooks)
	defer st.Use(nil)

	dest := net.JoinHostPort(st.Host, strconv.Itoa(st.Port))
	cl := NewClient(WithSendCoalescing(s.MaxBatch), WithCoalescingErrorHandler(func(d string, msgs []*internalpb.RemoteMessage, err error) {
		failedBatches.Add(1)
		if d != dest || err == nil {
			mismatch.Add(1)
		}
		ids := make([]string, 0, len(msgs))
		for _, m := range msgs {
			ids = append(ids, strings.TrimPrefix(c27ID(m), tag))
		}
		failed.Add(ids...)
	})).(*client)
	from := address.NoSender()
	to := address.New("c27sink", "c27sys", st.Host, st.Port)

	if s.Noise > 0 {
		obs.HotSites = verifrt.StartNoise(verifrt.NoiseConfig{Seed: seed, GoschedPerMille: 30, HotSites: s.Noise,
			Candidates: verifrt.SitesIn("remoteclient/coalescer.go"), HotPerMille: 400,
			MinDelay: 10 * time.Microsecond, MaxDelay: 500 * time.Microsecond, Budget: 150})
		defer verifrt.StopNoise()
	}

	total := s.Callers * s.PerCall
	accepted := make([]atomic.Bool, total+1) // last slot: the gated first message
	beforeClose := make([]atomic.Bool, total+1)
	rejected := make([]atomic.Bool, total+1)
	var acceptedN, closedErrs atomic.Int64
	var closeCalled atomic.Bool
	tell := func(idx int, id string, c context.Context) error {
		err := cl.RemoteTell(c, from, to, wrapperspb.String(id))
		if err == nil {
			if !closeCalled.Load() {
				beforeClose[idx].Store(true)
			}
			accepted[idx].Store(true)
			acceptedN.Add(1)
		} else {
			rejected[idx].Store(true)
		}
		return err
	}
	closeDone := make(chan struct{})
	doClose := func() {
		closeCalled.Store(true)
		cl.Close()
		close(closeDone)
	}
	waitClose := func() bool {
		select {
		case <-closeDone:
			return true
		case <-time.After(60 * time.Second):
			obs.Inconclusive = "Close did not return within 60s"
			return false
		}
	}
	coal := func() *coalescer {
		c, _ := cl.coalescers.Get(dest)
		return c
	}
	fence := func() bool {
		for n := 1; n <= 100; n++ {
			id := "f|" + strconv.Itoa(n)
			if err := cl.RemoteTell(ctx, from, to, wrapperspb.String(tag+id)); err != nil {
				obs.Inconclusive = "fence rejected: " + err.Error()
				return false
			}
			if !verifrt.WaitUntil(60*time.Second, func() bool { return delivered.Has(id) || failed.Has(id) }) {
				obs.Inconclusive = "fence neither delivered nor failed within 60s"
				return false
			}
			if delivered.Has(id) {
				return true
			}
		}
		obs.Inconclusive = "100 fences failed in a row"
		return false
	}

	var strandedCoal *coalescer
	switch s.Kind {
	case "fail-batches":
		var wg sync.WaitGroup
		for c := 0; c < s.Callers; c++ {
			wg.Add(1)
			go func(c int) {
				defer wg.Done()
				for q := 0; q < s.PerCall; q++ {
					_ = tell(c*s.PerCall+q, c27bMsgID(tag, c, q), ctx)
					if q%16 == 15 {
						runtime.Gosched()
					}
				}
			}(c)
		}
		wg.Wait()
		// no further scripted failures for the fence
		if !fence() {
			cl.Close()
			return obs
		}
		strandedCoal = coal()
		go doClose()
		if !waitClose() {
			return obs
		}
	case "close-with-pending":
		// first message: its batch hangs in the gated handler
		if err := tell(total, tag+"m|first", ctx); err != nil {
			obs.Inconclusive = "first send rejected: " + err.Error()
			cl.Close()
			return obs
		}
		if !verifrt.WaitUntil(30*time.Second, func() bool { return inHandler.Load() >= 1 }) {
			obs.Inconclusive = "gated batch never reached the stub"
			close(gate)
			cl.Close()
			return obs
		}
		var wg sync.WaitGroup
		per := s.PerCall
		for c := 0; c < s.Callers; c++ {
			wg.Add(1)
			go func(c int) {
				defer wg.Done()
				for q := 0; q < per && c*per+q < s.Pending; q++ {
					_ = tell(c*s.PerCall+q, c27bMsgID(tag, c, q), ctx)
				}
			}(c)
		}
		wg.Wait() // pending <= 4*maxBatch = queue capacity: nobody blocks
		strandedCoal = coal()
		obs.PendingAtClose = len(strandedCoal.in)
		go doClose()
		// structural: wait until close() has signalled the writer, then release the RPC
		if !verifrt.WaitUntil(30*time.Second, func() bool {
			select {
			case <-strandedCoal.done:
				return true
			default:
				return false
			}
		}) {
			obs.Inconclusive = "coalescer.done not closed within 30s"
			close(gate)
			return obs
		}
		close(gate)
		if !waitClose() {
			return obs
		}
	case "close-racing-submit":
		var wg sync.WaitGroup
		for c := 0; c < s.Callers; c++ {
			wg.Add(1)
			go func(c int) {
				defer wg.Done()
				for q := 0; q < s.PerCall; q++ {
					if err := tell(c*s.PerCall+q, c27bMsgID(tag, c, q), ctx); err != nil {
						closedErrs.Add(1)
						if closeCalled.Load() {
							return
						}
					}
				}
			}(c)
		}
		verifrt.WaitUntil(30*time.Second, func() bool { return acceptedN.Load() >= int64(s.CloseAt) })
		strandedCoal = coal()
		go doClose()
		wg.Wait()
		if !waitClose() {
			return obs
		}
	case "backpressure-cancel":
		var wg sync.WaitGroup
		for c := 0; c < s.Callers; c++ {
			wg.Add(1)
			go func(c int) {
				defer wg.Done()
				for q := 0; q < s.PerCall; q++ {
					cctx, cancel := context.WithTimeout(ctx, 3*time.Millisecond)
					_ = tell(c*s.PerCall+q, c27bMsgID(tag, c, q), cctx)
					cancel()
				}
			}(c)
		}
		wg.Wait()
		close(gate)
		if !fence() {
			cl.Close()
			return obs
		}
		strandedCoal = coal()
		go doClose()
		if !waitClose() {
			return obs
		}
	}

	// ---- verdict: Close returned, the writer goroutine is gone, error handlers ran inline
	idOf := func(i int) string {
		if i == total {
			return "m|first"
		}
		return c27bMsgID("", i/s.PerCall, i%s.PerCall)
	}
	for i := range accepted {
		id := idOf(i)
		del, fl := delivered.Has(id), failed.Has(id)
		if rejected[i].Load() {
			obs.Rejected++
		}
		if !accepted[i].Load() {
			continue
		}
		obs.Accepted++
		if del && fl {
			obs.Ambiguous++
		}
		if !del && !fl {
			obs.LostN++
			if beforeClose[i].Load() {
				obs.LostAcceptedBeforeClose++
			} else {
				obs.LostOverlappingClose++
			}
			if len(obs.Lost) < 10 {
				obs.Lost = append(obs.Lost, id)
			}
		}
		if n := delivered.Count(id); n > 1 {
			obs.Dups++
			obs.Wit = fmt.Sprintf("%s delivered %d times", id, n)
		}
	}
	// order per caller over the stub's handling order; ids handed to the error handler
	// (ambiguous acks) are left out
	last := map[int]int{}
	for _, id := range delivered.Order() {
		p := strings.Split(id, "|")
		if len(p) != 3 || p[0] != "m" || failed.Has(id) {
			continue
		}
		c, _ := strconv.Atoi(p[1])
		q, _ := strconv.Atoi(p[2])
		if l, seen := last[c]; seen && q <= l {
			obs.OrderBad++
			obs.Wit = fmt.Sprintf("caller %d: seq %d handled after seq %d", c, q, l)
		} else {
			last[c] = q
		}
	}
	obs.Delivered, obs.Failed = delivered.Len(), failed.Len()
	obs.Batches, obs.FailedBatches = int(batches.Load()), int(failedBatches.Load())
	obs.MaxBatchSeen = int(maxSeen.Load())
	obs.HandlerMismatch = int(mismatch.Load())
	obs.ClosedErrors = int(closedErrs.Load())
	obs.Foreign = int(foreign.Load())
	if strandedCoal != nil {
		obs.Stranded = len(strandedCoal.in)
	}
	switch s.Kind {
	case "fail-batches":
		obs.Nontrivial = obs.FailedBatches > 0
	case "close-with-pending":
		obs.Nontrivial = obs.PendingAtClose > s.MaxBatch
	case "close-racing-submit":
		obs.Nontrivial = obs.ClosedErrors > 0
	case "backpressure-cancel":
		obs.Nontrivial = obs.Rejected > 0
	}
	return obs
}

// TestVerif_C27 (client layer).
func TestVerif_C27(t *testing.T) {
	r := verifrt.Start(t, "C27")
	defer r.Finish()
	r.Rule("client layer: case = script (scripted batch failures: proto error / connection closed before / after processing, for batch indexes < 30 | Close with the first batch held in its RPC and 1..4*maxBatch messages queued | Close racing 2-7 submitting goroutines under schedule noise in coalescer.go | peer stall with callers cancelled on back-pressure) x maxBatch in {1,4,64} on a client built with WithSendCoalescing and a recording error handler against a stub server; oracle = per-caller order and at-most-once at the stub, accepted ⊆ delivered ∪ handed-to-error-handler once Close returned; non-trivial = a batch failed / more than maxBatch were pending when done was closed / submitters were refused by the closing coalescer / callers were rejected by back-pressure")
	rng := r.Rand(2701)
	n := r.N(120, 6000)
	st := c27NewStub(t)
	defer st.Close()
	for i := 0; i < n; i++ {
		s := c27bGen(rng, i+r.Batch)
		seed := rng.Int63()
		obs := c27bRun(st, s, seed)
		key := "client:" + s.String()
		if obs.Inconclusive != "" {
			r.Inconclusive("%s: %s", key, obs.Inconclusive)
			continue
		}
		r.Case(key+"/"+verifrt.Hash64s(seed), obs.Nontrivial)
		r.Count("client_accepted", int64(obs.Accepted))
		r.Count("client_rejected", int64(obs.Rejected))
		r.Count("client_delivered", int64(obs.Delivered))
		r.Count("client_handed_to_error_handler", int64(obs.Failed))
		r.Count("client_ambiguous_acks", int64(obs.Ambiguous))
		r.Count("client_batches", int64(obs.Batches))
		r.Count("client_failed_batches", int64(obs.FailedBatches))
		r.Count("client_kind_"+s.Kind, 1)
		r.Count("client_late_requests_of_earlier_cases", int64(obs.Foreign))
		r.Count("client_stranded_in_channel_after_close", int64(obs.Stranded))
		r.Max("max_client_batch_len", int64(obs.MaxBatchSeen))
		r.Max("max_client_pending_at_close", int64(obs.PendingAtClose))
		detail := map[string]any{"script": key, "seed": seed, "obs": obs}
		if obs.OrderBad > 0 {
			r.Violation("order:client:"+s.Kind, detail)
		}
		if obs.Dups > 0 {
			r.Violation("duplicate-delivery:client:"+s.Kind, detail)
		}
		if obs.HandlerMismatch > 0 {
			r.Violation("error-handler-arguments:client:"+s.Kind, detail)
		}
		switch {
		case obs.LostN == 0:
		case s.Kind == "fail-batches" || s.Kind == "backpressure-cancel":
			// the queue was empty (fence) when Close was called
			r.Violation("silent-drop:client:"+s.Kind, detail)
		default:
			if obs.LostAcceptedBeforeClose > 0 {
				// RemoteTell had returned nil before Close was called
				r.Violation("silent-drop:close-with-pending", detail)
			}
			if obs.LostOverlappingClose > 0 {
				// RemoteTell returned nil while Close was in progress
				r.Violation("silent-drop:submit-racing-close", detail)
			}
		}
		if i < 3 {
			r.Sample(detail)
		}
	}
}
