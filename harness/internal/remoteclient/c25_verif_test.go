//go:build verif

package remoteclient

import (
	"bytes"
	"encoding/binary"
	"errors"
	"fmt"
	"math/rand"
	"reflect"
	"strings"
	"sync/atomic"
	"testing"
	"time"

	"google.golang.org/protobuf/proto"
	"google.golang.org/protobuf/types/known/durationpb"
	"google.golang.org/protobuf/types/known/wrapperspb"

	"github.com/tochemey/goakt/v4/internal/verifrt"
	"github.com/tochemey/goakt/v4/remote"
	"github.com/tochemey/goakt/v4/test/data/testpb"
)

// message types of the dispatch part
type c25Tagged interface{ C25Tag() string }
type c25Other interface{ C25Other() }

type c25A struct {
	N int64
	S string
}
type c25B struct {
	L []string
	M map[string]int64
}
type c25C struct {
	T time.Time
	P *c25A
}
type c25D struct{ X uint32 } // implements no registered interface
type c25None struct{ X int } // never registered

func (*c25A) C25Tag() string { return "a" }
func (*c25B) C25Tag() string { return "b" }
func (*c25C) C25Tag() string { return "c" }
func (*c25C) C25Other()       {}

// c25TagSer is a tagging wrapper: it identifies which registration was
// chosen, and counts what it was asked to decode.
type c25TagSer struct {
	tag     string
	inner   remote.Serializer
	decoded atomic.Int64
}

func (s *c25TagSer) Serialize(m any) ([]byte, error) {
	if s.inner == nil {
		return nil, errors.New("c25: tag only")
	}
	return s.inner.Serialize(m)
}

func (s *c25TagSer) Deserialize(b []byte) (any, error) {
	if s.inner == nil {
		return nil, errors.New("c25: tag only")
	}
	v, err := s.inner.Deserialize(b)
	if err == nil {
		s.decoded.Add(1)
	}
	return v, err
}

// RegistryRequired makes WithClientSerializers register concrete types in the
// global types registry, as it does for the CBOR/JSON serializers it wraps.
func (s *c25TagSer) RegistryRequired() {}

type c25Reg struct {
	key   any          // value handed to WithClientSerializers
	typ   reflect.Type // concrete pointer type or interface type
	iface bool
	name  string
}

func c25Registrations() []c25Reg {
	return []c25Reg{
		{key: new(c25A), typ: reflect.TypeOf(new(c25A)), name: "*c25A"},
		{key: new(c25B), typ: reflect.TypeOf(new(c25B)), name: "*c25B"},
		{key: new(c25C), typ: reflect.TypeOf(new(c25C)), name: "*c25C"},
		{key: new(c25D), typ: reflect.TypeOf(new(c25D)), name: "*c25D"},
		{key: new(testpb.Reply), typ: reflect.TypeOf(new(testpb.Reply)), name: "*testpb.Reply"},
		{key: new(durationpb.Duration), typ: reflect.TypeOf(new(durationpb.Duration)), name: "*durationpb.Duration"},
		{key: (*c25Tagged)(nil), typ: reflect.TypeFor[c25Tagged](), iface: true, name: "c25Tagged"},
		{key: (*c25Other)(nil), typ: reflect.TypeFor[c25Other](), iface: true, name: "c25Other"},
	}
}

func c25Probes() []any {
	return []any{&c25A{N: 1}, &c25B{}, &c25C{}, &c25D{}, &c25None{}, &testpb.Reply{Content: "x"}, durationpb.New(time.Second), &testpb.TestPing{}, wrapperspb.String("s"), "a string", 7, c25A{}}
}

// c25Expect computes what the documented dispatch order allows for a probe.
// exact: tag of the registration of the probe's concrete type ("" if none).
// ifaces: tags of registered interfaces the probe implements, in registration order.
func c25Expect(order []c25Reg, tags []string, probe any, defaultProto bool) (exact string, ifaces []string) {
	pt := reflect.TypeOf(probe)
	if defaultProto {
		if _, ok := probe.(proto.Message); ok {
			ifaces = append(ifaces, "default-proto")
		}
	}
	for i, reg := range order {
		if reg.iface {
			if pt.Implements(reg.typ) {
				ifaces = append(ifaces, tags[i])
			}
		} else if pt == reg.typ && exact == "" {
			exact = tags[i]
		}
	}
	return
}

func c25TagOf(s remote.Serializer) string {
	switch x := s.(type) {
	case nil:
		return "<nil>"
	case *c25TagSer:
		return x.tag
	case *remote.ProtoSerializer:
		return "default-proto"
	}
	return fmt.Sprintf("%T", s)
}

func c25In(list []string, s string) bool {
	for _, x := range list {
		if x == s {
			return true
		}
	}
	return false
}

// c25JudgeChoice applies the oracle to one (registrations, probe, chosen).
func c25JudgeChoice(r *verifrt.Run, via string, order []c25Reg, tags []string, probe any, chosen remote.Serializer) {
	exact, ifaces := c25Expect(order, tags, probe, true)
	got := c25TagOf(chosen)
	var names []string
	for i, reg := range order {
		names = append(names, fmt.Sprintf("%s->%s", reg.name, tags[i]))
	}
	det := map[string]any{"via": via, "registration_order": strings.Join(names, ", "), "message_type": fmt.Sprintf("%T", probe), "chosen": got, "registered_for_exact_type": exact, "matching_interfaces": strings.Join(ifaces, ",")}
	switch {
	case exact != "" && got == exact:
	case exact != "" && c25In(ifaces, got):
		which := "user-interface"
		if got == "default-proto" {
			which = "default-proto-entry"
		}
		r.Violation("serializer-choice:exact-type-registration-shadowed-by-interface:"+which+":"+via, det)
	case exact != "":
		r.Violation("serializer-choice:wrong-serializer-for-registered-type:"+via, det)
	case len(ifaces) > 0 && c25In(ifaces, got):
	case len(ifaces) > 0:
		r.Violation("serializer-choice:serializer-of-unrelated-registration:"+via, det)
	case got != "<nil>":
		r.Violation("serializer-choice:serializer-for-unregistered-type:"+via, det)
	}
}

func c25Recover(f func() (any, error)) (v any, err error, pan string) {
	defer func() {
		if rec := recover(); rec != nil {
			pan = fmt.Sprintf("%v\n%s", rec, verifrt.Stack())
		}
	}()
	v, err = f()
	return
}

func c25Equal(a, b any) bool {
	if pa, ok := a.(proto.Message); ok {
		pb, ok := b.(proto.Message)
		return ok && proto.Equal(pa, pb)
	}
	if ca, ok := a.(*c25C); ok {
		cb, ok := b.(*c25C)
		return ok && ca.T.Equal(cb.T) && reflect.DeepEqual(ca.P, cb.P)
	}
	if ba, ok := a.(*c25B); ok {
		bb, ok := b.(*c25B)
		if !ok || len(ba.L) != len(bb.L) || len(ba.M) != len(bb.M) {
			return false
		}
		for i := range ba.L {
			if ba.L[i] != bb.L[i] {
				return false
			}
		}
		for k, v := range ba.M {
			if w, ok := bb.M[k]; !ok || w != v {
				return false
			}
		}
		return true
	}
	return reflect.DeepEqual(a, b)
}

// magic-prefixed user serializer for c25D (not the shared frame layout)
type c25MagicSer struct{}

var c25Magic = []byte{0xFF, 0xFF, 0xFF, 0xFF, 'C', '2', '5', 'D'}

func (c25MagicSer) Serialize(m any) ([]byte, error) {
	d, ok := m.(*c25D)
	if !ok || d == nil {
		return nil, errors.New("c25: not a *c25D")
	}
	return binary.BigEndian.AppendUint32(append([]byte{}, c25Magic...), d.X), nil
}

func (c25MagicSer) Deserialize(b []byte) (any, error) {
	if len(b) != 12 || !bytes.Equal(b[:8], c25Magic) {
		return nil, errors.New("c25: not a c25D frame")
	}
	return &c25D{X: binary.BigEndian.Uint32(b[8:])}, nil
}

func c25Word(rng *rand.Rand) string {
	n := rng.Intn(12)
	b := make([]byte, n)
	for i := range b {
		b[i] = byte(97 + rng.Intn(26))
	}
	if rng.Intn(6) == 0 {
		return string(b) + "é世"
	}
	return string(b)
}

func c25Message(rng *rand.Rand) any {
	switch rng.Intn(9) {
	case 0:
		return &c25A{N: rng.Int63() >> uint(rng.Intn(63)), S: c25Word(rng)}
	case 1:
		b := &c25B{}
		for n := rng.Intn(4); n > 0; n-- {
			b.L = append(b.L, c25Word(rng))
		}
		if rng.Intn(2) == 0 {
			b.M = map[string]int64{}
			for n := rng.Intn(4); n > 0; n-- {
				b.M[c25Word(rng)] = rng.Int63n(1000) - 500
			}
		}
		return b
	case 2:
		c := &c25C{T: time.Unix(rng.Int63n(4102444800), 0).UTC()}
		if rng.Intn(2) == 0 {
			c.P = &c25A{N: int64(rng.Intn(100)), S: c25Word(rng)}
		}
		return c
	case 3:
		return &c25D{X: rng.Uint32()}
	case 4:
		return &testpb.Reply{Content: c25Word(rng)}
	case 5:
		return durationpb.New(time.Duration(rng.Int63n(1e12)))
	case 6:
		return &testpb.TestMessage{}
	case 7:
		// Go primitives are pre-registered in the types registry
		switch rng.Intn(4) {
		case 0:
			return int64(rng.Intn(30)) // one or two decimal digits
		case 1:
			return c25Word(rng)
		case 2:
			return rng.Intn(2) == 0
		}
		return rng.Float64()
	}
	return &testpb.Account{AccountId: c25Word(rng), AccountBalance: rng.Float64()}
}

// TestVerif_C25 (package internal/remoteclient): which serializer is chosen,
// and the composite dispatcher of the receive path.
func TestVerif_C25(t *testing.T) {
	r := verifrt.Start(t, "C25")
	defer r.Finish()
	r.Rule("[internal/remoteclient] choice case = one random subset and order of registrations (concrete Go struct types, concrete protobuf types, user interfaces implemented by some of them; each with its own tagging serializer) given to a client through WithClientSerializers, and to a remote.Config through remote.WithSerializers (probed with Config.Serializer and through ClientSerializerOptions), probed with 12 messages: a message whose concrete type has a registration must get that registration's serializer; otherwise one of the registered interfaces it implements (the default proto.Message entry included); otherwise none. non-trivial = the order contains a concrete type and an interface that overlap; distinct by order. dispatch case = one generated message serialized by the serializer the client chooses for it (CBOR, JSON, protobuf, a magic-prefixed user serializer; registration order permuted) and decoded by the receive-path dispatcher: equal value, same dynamic type, decoded by the serializer that encoded it; messages nothing is registered for get no serializer / an error. hostile case = mutated frame to the dispatcher under recover")
	r.Assume("documented dispatch order of WithClientSerializers / remote.WithSerializers: exact concrete type first, then registered interfaces, else none")

	rng := r.Rand(2502)
	regs := c25Registrations()
	probes := c25Probes()

	// --- part 1: which serializer is chosen -------------------------------
	n := r.N(400, 40000)
	for i := 0; i < n; i++ {
		perm := rng.Perm(len(regs))
		k := 1 + rng.Intn(len(regs))
		order := make([]c25Reg, 0, k)
		for _, p := range perm[:k] {
			order = append(order, regs[p])
		}
		tags := make([]string, len(order))
		sers := make([]*c25TagSer, len(order))
		opts := make([]ClientOption, 0, len(order))
		ropts := make([]remote.Option, 0, len(order))
		overlap := false
		for j, reg := range order {
			tags[j] = fmt.Sprintf("tag%d:%s", j, reg.name)
			sers[j] = &c25TagSer{tag: tags[j]}
			opts = append(opts, WithClientSerializers(reg.key, sers[j]))
			ropts = append(ropts, remote.WithSerializers(reg.key, sers[j]))
			if reg.iface {
				for _, other := range order {
					if !other.iface && other.typ.Implements(reg.typ) {
						overlap = true
					}
				}
			} else if reg.typ.Implements(reflect.TypeFor[proto.Message]()) {
				overlap = true // overlaps the default proto.Message entry
			}
		}
		cl := NewClient(opts...).(*client)
		for _, p := range probes {
			c25JudgeChoice(r, "WithClientSerializers", order, tags, p, cl.Serializer(p))
		}
		if d := cl.Serializer(nil); d == nil {
			r.Violation("serializer-choice:no-dispatcher-for-receive-path", map[string]any{"order": fmt.Sprint(tags)})
		}
		cl.Close()

		cfg := remote.NewConfig("127.0.0.1", 9000, ropts...)
		for _, p := range probes {
			c25JudgeChoice(r, "remote.Config.Serializer", order, tags, p, cfg.Serializer(p))
		}
		cl2 := NewClient(ClientSerializerOptions(cfg)...).(*client)
		for _, p := range probes {
			c25JudgeChoice(r, "ClientSerializerOptions", order, tags, p, cl2.Serializer(p))
		}
		cl2.Close()
		var names []string
		for _, reg := range order {
			names = append(names, reg.name)
		}
		r.Case("choice/"+strings.Join(names, ","), overlap)
		if i < 2 {
			r.Sample(map[string]any{"registration_order": names})
		}
	}

	// --- part 2: receive-path dispatcher round trip ------------------------
	type entry struct {
		key any
		ser *c25TagSer
	}
	m := r.N(3000, 300000)
	var frames [][]byte
	var disp remote.Serializer
	var cl *client
	var entries []entry
	rebuild := func() {
		if cl != nil {
			cl.Close()
		}
		cbor := &c25TagSer{tag: "cbor", inner: remote.NewCBORSerializer()}
		json := &c25TagSer{tag: "json", inner: remote.NewJSONSerializer()}
		magic := &c25TagSer{tag: "magic", inner: c25MagicSer{}}
		entries = []entry{
			{new(c25A), cbor}, {new(c25B), json}, {new(c25C), cbor}, {new(c25D), magic},
			{new(int64), json}, {new(string), cbor}, {new(bool), json}, {new(float64), cbor},
		}
		rng.Shuffle(len(entries), func(i, j int) { entries[i], entries[j] = entries[j], entries[i] })
		var opts []ClientOption
		for _, e := range entries {
			opts = append(opts, WithClientSerializers(e.key, e.ser))
		}
		cl = NewClient(opts...).(*client)
		disp = cl.Serializer(nil)
	}
	for i := 0; i < m; i++ {
		if i%25 == 0 {
			rebuild() // a new registration order
		}
		msg := c25Message(rng)
		probe := msg
		// primitives are registered by pointer (new(int64)) and sent by value
		var want *c25TagSer
		for _, e := range entries {
			kt := reflect.TypeOf(e.key)
			if kt == reflect.TypeOf(msg) || (reflect.TypeOf(msg).Kind() != reflect.Pointer && kt.Elem() == reflect.TypeOf(msg)) {
				want = e.ser
			}
		}
		var order []string
		for _, e := range entries {
			order = append(order, fmt.Sprintf("%T->%s", e.key, e.ser.tag))
		}
		det := func(extra map[string]any) map[string]any {
			d := map[string]any{"message_type": fmt.Sprintf("%T", msg), "message": fmt.Sprintf("%+v", msg), "registration_order": strings.Join(order, ", ")}
			for k, v := range extra {
				d[k] = v
			}
			return d
		}
		ser := cl.Serializer(probe)
		if reflect.TypeOf(msg).Kind() != reflect.Pointer {
			// a value of a primitive type: the registration is for *T, so the client has none
			// for it; the serializer registered for the type is used directly as a user would
			if want == nil {
				r.Case(fmt.Sprintf("disp/noser/%T", msg), false)
				continue
			}
			ser = want
		}
		if _, isProto := msg.(proto.Message); isProto {
			if _, ok := ser.(*remote.ProtoSerializer); !ok {
				r.Violation("serializer-choice:wrong-serializer-for-registered-type:dispatch", det(map[string]any{"chosen": c25TagOf(ser)}))
				continue
			}
		} else if want != nil && ser != remote.Serializer(want) {
			r.Violation("serializer-choice:wrong-serializer-for-registered-type:dispatch", det(map[string]any{"chosen": c25TagOf(ser), "want": want.tag}))
			continue
		}
		if ser == nil {
			r.Violation("serializer-choice:no-serializer-for-registered-type:dispatch", det(nil))
			continue
		}
		out, err, pan := c25Recover(func() (any, error) { return ser.Serialize(msg) })
		if pan != "" {
			r.Violation("serializer-panic:serialize:dispatch", det(map[string]any{"panic": pan}))
			continue
		}
		if err != nil {
			r.Count("rejected_by_serialize", 1)
			r.Case(fmt.Sprintf("disp/rejected/%d", i), false)
			continue
		}
		frame := out.([]byte)
		if len(frames) < 400 {
			frames = append(frames, frame)
		}
		before := map[string]int64{}
		for _, e := range entries {
			before[e.ser.tag] = e.ser.decoded.Load()
		}
		got, err, pan := c25Recover(func() (any, error) { return disp.Deserialize(bytes.Clone(frame)) })
		decodedBy := ""
		for _, e := range entries {
			if e.ser.decoded.Load() != before[e.ser.tag] {
				decodedBy = e.ser.tag
			}
		}
		switch {
		case pan != "":
			r.Violation("serializer-panic:deserialize:dispatch", det(map[string]any{"panic": pan, "frame": fmt.Sprintf("%x", frame)}))
		case err != nil:
			r.Violation("serializer-dispatch:own-frame-rejected", det(map[string]any{"error": err.Error(), "encoded_by": c25TagOf(ser), "frame": fmt.Sprintf("%x", frame)}))
		case reflect.TypeOf(got) != reflect.TypeOf(msg) || !c25Equal(msg, got):
			kind := "value-differs"
			if want != nil && decodedBy != "" && decodedBy != want.tag {
				kind = "decoded-by-other-serializer"
			}
			r.Violation("serializer-dispatch:"+kind, det(map[string]any{"got": fmt.Sprintf("%+v", got), "got_type": fmt.Sprintf("%T", got), "encoded_by": c25TagOf(ser), "decoded_by": decodedBy, "frame": fmt.Sprintf("%x", frame)}))
		case want != nil && decodedBy != "" && decodedBy != want.tag:
			r.Count("decoded_by_other_serializer_but_equal", 1)
		}
		r.Case("disp/"+string(frame)+"/"+strings.Join(order, ","), true)

		if i%40 == 0 {
			// nothing is registered for these: no serializer, and the dispatcher's Serialize errs
			for _, bad := range []any{&c25None{X: 1}, struct{ Z int }{1}, []int{1}, map[string]int{"a": 1}} {
				if s := cl.Serializer(bad); s != nil {
					r.Violation("serializer-choice:serializer-for-unregistered-type:dispatch", map[string]any{"type": fmt.Sprintf("%T", bad), "chosen": c25TagOf(s)})
				}
				out, err, pan := c25Recover(func() (any, error) { return disp.Serialize(bad) })
				if pan != "" {
					r.Violation("serializer-panic:serialize:dispatch", map[string]any{"type": fmt.Sprintf("%T", bad), "panic": pan})
				} else if err == nil {
					r.Violation("serializer-unsupported:bytes-instead-of-error:dispatch", map[string]any{"type": fmt.Sprintf("%T", bad), "bytes": fmt.Sprintf("%x", out)})
				} else {
					r.Count("unsupported_rejected", 1)
				}
			}
		}
	}

	// --- part 3: hostile bytes to the dispatcher ---------------------------
	if len(frames) == 0 {
		r.Inconclusive("no frame for the hostile part")
		return
	}
	h := r.N(20000, 2000000)
	var accepted, rejected int64
	for i := 0; i < h; i++ {
		b := bytes.Clone(frames[rng.Intn(len(frames))])
		class := ""
		switch rng.Intn(7) {
		case 0:
			b, class = b[:rng.Intn(len(b))], "truncate"
		case 1:
			if len(b) >= 4 {
				binary.BigEndian.PutUint32(b, []uint32{0, 7, 8, uint32(len(b)) + 1, uint32(len(b)) - 1, 1 << 31, 1<<32 - 1}[rng.Intn(7)])
			}
			class = "total-len"
		case 2:
			if len(b) >= 8 {
				cur := binary.BigEndian.Uint32(b[4:])
				binary.BigEndian.PutUint32(b[4:], []uint32{0, cur + 1, cur - 1, uint32(len(b)), 1 << 31, 1<<32 - 1, 1<<32 - 8}[rng.Intn(7)])
			}
			class = "name-len"
		case 3:
			for k := 1 + rng.Intn(3); k > 0; k-- {
				b[rng.Intn(len(b))] ^= byte(1 << uint(rng.Intn(8)))
			}
			class = "bitflip"
		case 4:
			g := make([]byte, rng.Intn(40))
			rng.Read(g)
			b, class = g, "garbage"
		case 5:
			b, class = append(append([]byte{}, c25Magic...), b[rng.Intn(len(b)):]...), "magic+tail"
		default:
			if len(b) >= 8 {
				nl := int(binary.BigEndian.Uint32(b[4:]))
				for j := 8 + nl; j >= 8 && j < len(b); j++ {
					if rng.Intn(3) == 0 {
						b[j] = byte(rng.Intn(256))
					}
				}
			}
			class = "payload-garbage"
		}
		data := bytes.Clone(b)
		got, err, pan := c25Recover(func() (any, error) { return disp.Deserialize(data) })
		switch {
		case pan != "":
			r.Violation("serializer-panic:deserialize:dispatch", map[string]any{"input": fmt.Sprintf("%x", b), "class": class, "panic": pan})
		case err == nil && got == nil:
			r.Violation("serializer-hostile:nil-without-error:dispatch", map[string]any{"input": fmt.Sprintf("%x", b), "class": class})
		case err == nil && class == "truncate":
			r.Violation("serializer-hostile:truncated-frame-accepted:dispatch", map[string]any{"input": fmt.Sprintf("%x", b), "decoded": fmt.Sprintf("%+v", got)})
		case err == nil:
			accepted++
		default:
			rejected++
		}
		r.Count("hostile_"+class, 1)
		r.Case("h/"+string(b), true)
	}
	r.Count("hostile_deserialize_accepted", accepted)
	r.Count("hostile_deserialize_rejected", rejected)
	if cl != nil {
		cl.Close()
	}
}
