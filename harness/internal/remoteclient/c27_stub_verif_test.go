//go:build verif

package remoteclient

import (
	"context"
	"net"
	"strconv"
	"sync"
	"sync/atomic"
	"testing"
	"time"

	"google.golang.org/protobuf/proto"
	"google.golang.org/protobuf/types/known/wrapperspb"

	"github.com/tochemey/goakt/v4/internal/internalpb"
	inet "github.com/tochemey/goakt/v4/internal/net"
	"github.com/tochemey/goakt/v4/remote"
)

// Shared by the internal-layer harnesses of C27, C28 and C29 (VERIF_ONLY=c27,c28,c29):
// a stub proto server (the repository's own ProtoServer with harness handlers) that
// lives for the whole batch - every server allocates a 20 MiB ballast - and
// dispatches each request to the hooks of the current case.

type c27Hooks struct {
	// OnTell receives the request's messages; the returned message is the response, a
	// non-nil error closes the connection without a response.
	OnTell func(ctx context.Context, req *internalpb.RemoteTellRequest) (proto.Message, error)
	OnAsk  func(ctx context.Context, req *internalpb.RemoteAskRequest) (proto.Message, error)
}

type c27Stub struct {
	ps   *inet.ProtoServer
	Host string
	Port int
	cur  atomic.Pointer[c27Hooks]
	done chan struct{}
}

func c27NewStub(t testing.TB) *c27Stub {
	st := &c27Stub{done: make(chan struct{})}
	tell := func(ctx context.Context, _ inet.Connection, req proto.Message) (proto.Message, error) {
		h := st.cur.Load()
		if h == nil || h.OnTell == nil {
			return new(internalpb.RemoteTellResponse), nil
		}
		return h.OnTell(ctx, req.(*internalpb.RemoteTellRequest))
	}
	ask := func(ctx context.Context, _ inet.Connection, req proto.Message) (proto.Message, error) {
		h := st.cur.Load()
		if h == nil || h.OnAsk == nil {
			return &internalpb.Error{Code: internalpb.Code_CODE_UNAVAILABLE, Message: "no case"}, nil
		}
		return h.OnAsk(ctx, req.(*internalpb.RemoteAskRequest))
	}
	ps, err := inet.NewProtoServer("127.0.0.1:0",
		inet.WithProtoHandler("internalpb.RemoteTellRequest", tell),
		inet.WithProtoHandler("internalpb.RemoteAskRequest", ask),
	)
	if err != nil {
		t.Fatalf("c27 stub: %v", err)
	}
	if err := ps.Listen(); err != nil {
		t.Fatalf("c27 stub listen: %v", err)
	}
	go func() { defer close(st.done); _ = ps.Serve() }()
	host, portStr, _ := net.SplitHostPort(ps.ListenAddr().String())
	st.ps, st.Host = ps, host
	st.Port, _ = strconv.Atoi(portStr)
	return st
}

func (st *c27Stub) Use(h *c27Hooks) { st.cur.Store(h) }

func (st *c27Stub) Close() {
	_ = st.ps.Shutdown(2 * time.Second)
	select {
	case <-st.done:
	case <-time.After(10 * time.Second):
	}
}

var c27Codec = remote.NewProtoSerializer()

// c27ID extracts the id of a harness message (a StringValue payload).
func c27ID(m *internalpb.RemoteMessage) string {
	v, err := c27Codec.Deserialize(m.GetMessage())
	if err != nil {
		return "undecodable:" + err.Error()
	}
	if sv, ok := v.(*wrapperspb.StringValue); ok {
		return sv.GetValue()
	}
	return "unexpected-type"
}

// c27Rec is a mutex-guarded, ordered id recorder.
type c27Rec struct {
	mu    sync.Mutex
	order []string
	count map[string]int
}

func c27NewRec() *c27Rec { return &c27Rec{count: map[string]int{}} }

func (r *c27Rec) Add(ids ...string) {
	r.mu.Lock()
	for _, id := range ids {
		r.order = append(r.order, id)
		r.count[id]++
	}
	r.mu.Unlock()
}

func (r *c27Rec) Has(id string) bool {
	r.mu.Lock()
	defer r.mu.Unlock()
	return r.count[id] > 0
}

func (r *c27Rec) Count(id string) int {
	r.mu.Lock()
	defer r.mu.Unlock()
	return r.count[id]
}

func (r *c27Rec) Order() []string {
	r.mu.Lock()
	defer r.mu.Unlock()
	return append([]string(nil), r.order...)
}

func (r *c27Rec) Len() int {
	r.mu.Lock()
	defer r.mu.Unlock()
	return len(r.order)
}
