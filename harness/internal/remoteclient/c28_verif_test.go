//go:build verif

package remoteclient

import (
	"context"
	"errors"
	"fmt"
	"math/rand"
	"sort"
	"strconv"
	"strings"
	"sync"
	"sync/atomic"
	"testing"
	"time"

	"google.golang.org/protobuf/proto"
	"google.golang.org/protobuf/types/known/wrapperspb"

	"github.com/tochemey/goakt/v4/internal/address"
	"github.com/tochemey/goakt/v4/internal/internalpb"
	"github.com/tochemey/goakt/v4/internal/verifrt"
)

// C28, client layer: the remoting client with its idle pool limited to 1-4
// connections (the public remote config does not expose that knob) against the stub
// server, whose ask handler echoes each request's token after the delay the token
// names, answers with a deadline error when the delay exceeds the request timeout,
// or closes the connection on scripted request numbers. Callers' context deadlines
// are partly shorter than the server's delay, so that responses arrive on
// connections their caller has given up on.

type c28bScript struct {
	Askers    int
	PerAsker  int
	MaxIdle   int
	TimeoutMs int
	BatchPct  int
	ShortCtx  int
	DropPct   int // percent of requests on which the stub closes the connection (before or after the delay)
}

func (s c28bScript) String() string {
	return fmt.Sprintf("client: askers=%d n=%d maxIdle=%d timeout=%dms batch%%=%d shortctx%%=%d drop%%=%d",
		s.Askers, s.PerAsker, s.MaxIdle, s.TimeoutMs, s.BatchPct, s.ShortCtx, s.DropPct)
}

type c28bObs struct {
	OK, Errors, BatchOK, BatchErr      int64
	WrongReply, BatchOrder, BatchCount int64
	Wit                                []string
	Requests, Drops, LateAtServer      int64
	ClientGaveUp, TimeoutUsedMs        int64
	Nontrivial                         bool
}

func c28bRun(st *c27Stub, s c28bScript, seed int64) (obs c28bObs) {
	ctx := context.Background()
	var requests, drops, lateSrv atomic.Int64
	hooks := &c27Hooks{OnAsk: func(_ context.Context, req *internalpb.RemoteAskRequest) (proto.Message, error) {
		k := requests.Add(1)
		h := uint64(seed) ^ uint64(k)*0x9E3779B97F4A7C15
		drop := int(h>>33)%100 < s.DropPct
		dropEarly := (h>>7)&1 == 0
		if drop && dropEarly {
			drops.Add(1)
			return nil, errors.New("c28 scripted drop")
		}
		timeout := req.GetTimeout().AsDuration()
		out := make([][]byte, 0, len(req.GetRemoteMessages()))
		var spent time.Duration
		for _, m := range req.GetRemoteMessages() {
			id := c27ID(m)
			// id = x|asker|seq|delayMicros
			var d time.Duration
			if i := strings.LastIndexByte(id, '|'); i >= 0 {
				if us, err := strconv.Atoi(id[i+1:]); err == nil {
					d = time.Duration(us) * time.Microsecond
				}
			}
			if timeout > 0 && spent+d >= timeout {
				time.Sleep(timeout - spent)
				lateSrv.Add(1)
				return &internalpb.Error{Code: internalpb.Code_CODE_DEADLINE_EXCEEDED, Message: "c28 stub: request timeout"}, nil
			}
			time.Sleep(d)
			spent += d
			raw, err := c27Codec.Serialize(wrapperspb.String(id))
			if err != nil {
				return nil, err
			}
			out = append(out, raw)
		}
		if drop {
			drops.Add(1)
			return nil, errors.New("c28 scripted drop after processing")
		}
		return &internalpb.RemoteAskResponse{Messages: out}, nil
	}}
	st.Use(hooks)
	defer st.Use(nil)
	cl := NewClient(WithClientMaxIdleConns(s.MaxIdle))
	defer cl.Close()
	from := address.NoSender()
	to := address.New("c28echo", "c28sys", st.Host, st.Port)
	timeout := time.Duration(s.TimeoutMs) * time.Millisecond
	{ // workload shaping only: stretch the timeout to 3x the upper quartile of undelayed round trips at the workload's concurrency
		var rtts []time.Duration
		var rmu sync.Mutex
		var pw sync.WaitGroup
		for a := 0; a < s.Askers; a++ {
			pw.Add(1)
			go func(a int) {
				defer pw.Done()
				for i := 0; i < 3; i++ {
					t0 := time.Now()
					if _, err := cl.RemoteAsk(ctx, from, to, wrapperspb.String("p|"+strconv.Itoa(a)+"|"+strconv.Itoa(i)+"|0"), 20*time.Second); err == nil {
						rmu.Lock()
						rtts = append(rtts, time.Since(t0))
						rmu.Unlock()
					}
				}
			}(a)
		}
		pw.Wait()
		if len(rtts) > 0 {
			sort.Slice(rtts, func(i, j int) bool { return rtts[i] < rtts[j] })
			if t := 3 * rtts[len(rtts)*3/4]; t > timeout {
				timeout = t
			}
		}
		if timeout > 500*time.Millisecond {
			timeout = 500 * time.Millisecond
		}
		obs.TimeoutUsedMs = timeout.Milliseconds()
	}

	var witMu sync.Mutex
	wit := func(format string, args ...any) {
		witMu.Lock()
		if len(obs.Wit) < 8 {
			obs.Wit = append(obs.Wit, fmt.Sprintf(format, args...))
		}
		witMu.Unlock()
	}
	str := func(v any) string {
		if sv, ok := v.(*wrapperspb.StringValue); ok {
			return sv.GetValue()
		}
		return fmt.Sprintf("%T", v)
	}
	var ok, errs, batchOK, batchErr, wrong, border, bcount, gaveUp atomic.Int64
	var wg sync.WaitGroup
	for ask := 0; ask < s.Askers; ask++ {
		wg.Add(1)
		go func(ask int) {
			defer wg.Done()
			rng := rand.New(rand.NewSource(seed ^ int64(ask+1)*104729))
			for seq := 0; seq < s.PerAsker; seq++ {
				if rng.Intn(100) < s.BatchPct {
					n := 1 + rng.Intn(20)
					msgs := make([]any, n)
					ids := make([]string, n)
					for i := range msgs {
						ids[i] = fmt.Sprintf("b|%d|%d.%d|%d", ask, seq, i, rng.Intn(200))
						msgs[i] = wrapperspb.String(ids[i])
					}
					resp, err := cl.RemoteBatchAsk(ctx, from, to, msgs, time.Second)
					if err != nil {
						batchErr.Add(1)
						continue
					}
					batchOK.Add(1)
					got := make([]string, len(resp))
					for i := range resp {
						got[i] = str(resp[i])
					}
					if len(got) != n {
						bcount.Add(1)
						wit("batch of %d requests returned %d replies", n, len(got))
						continue
					}
					if strings.Join(got, ",") != strings.Join(ids, ",") {
						g2, i2 := append([]string(nil), got...), append([]string(nil), ids...)
						sort.Strings(g2)
						sort.Strings(i2)
						if strings.Join(g2, ",") == strings.Join(i2, ",") {
							border.Add(1)
							wit("batch replies permuted: requests %v replies %v", ids, got)
						} else {
							wrong.Add(1)
							wit("batch got foreign replies: requests %v replies %v", ids, got)
						}
					}
					continue
				}
				var delay time.Duration
				switch rng.Intn(8) {
				case 0, 1, 2:
					delay = time.Duration(rng.Intn(300)) * time.Microsecond
				case 3:
					delay = timeout * 3 / 4
				case 4:
					delay = timeout - time.Duration(rng.Intn(1000))*time.Microsecond
				case 5:
					delay = timeout + time.Duration(rng.Intn(1000))*time.Microsecond
				default:
					delay = time.Duration(rng.Int63n(int64(timeout)))
				}
				id := fmt.Sprintf("a|%d|%d|%d", ask, seq, delay.Microseconds())
				actx, cancel := ctx, context.CancelFunc(func() {})
				if rng.Intn(100) < s.ShortCtx {
					actx, cancel = context.WithTimeout(ctx, timeout/2)
					if delay > timeout/2 && delay < timeout {
						gaveUp.Add(1)
					}
				}
				resp, err := cl.RemoteAsk(actx, from, to, wrapperspb.String(id), timeout)
				cancel()
				if err != nil {
					errs.Add(1)
					continue
				}
				if got := str(resp); got != id {
					wrong.Add(1)
					wit("request %q got the reply %q", id, got)
					continue
				}
				ok.Add(1)
			}
		}(ask)
	}
	wg.Wait()
	obs.OK, obs.Errors, obs.BatchOK, obs.BatchErr = ok.Load(), errs.Load(), batchOK.Load(), batchErr.Load()
	obs.WrongReply, obs.BatchOrder, obs.BatchCount = wrong.Load(), border.Load(), bcount.Load()
	obs.Requests, obs.Drops, obs.LateAtServer, obs.ClientGaveUp = requests.Load(), drops.Load(), lateSrv.Load(), gaveUp.Load()
	obs.Nontrivial = obs.OK > 0 && obs.Errors > 0 && s.Askers > s.MaxIdle
	return obs
}

// TestVerif_C28 (client layer).
func TestVerif_C28(t *testing.T) {
	r := verifrt.Start(t, "C28")
	defer r.Finish()
	r.Rule("client layer: case = 8-64 concurrent askers x 8-20 operations (RemoteAsk with server delays around the timeout, a share with a context deadline of half the timeout; RemoteBatchAsk of 1-20 messages) on a client whose idle pool holds 1-4 connections, against a stub that echoes tokens, answers deadline errors, or closes the connection before/after processing on a scripted share of requests; oracle = reply token == request token, batch replies in request order; non-trivial = more askers than pooled connections, at least one success and one error in the case")
	rng := r.Rand(2801)
	n := r.N(40, 1500)
	st := c27NewStub(t)
	defer st.Close()
	for i := 0; i < n; i++ {
		s := c28bScript{Askers: 8 + rng.Intn(57), PerAsker: 8 + rng.Intn(13), MaxIdle: 1 + rng.Intn(4),
			TimeoutMs: []int{10, 20, 40}[rng.Intn(3)], BatchPct: []int{0, 15, 40}[rng.Intn(3)],
			ShortCtx: []int{0, 15, 30}[rng.Intn(3)], DropPct: []int{0, 2, 8}[rng.Intn(3)]}
		seed := rng.Int63()
		obs := c28bRun(st, s, seed)
		key := s.String()
		r.Case(key+"/"+verifrt.Hash64s(seed), obs.Nontrivial)
		r.Count("client_asks_ok", obs.OK)
		r.Count("client_asks_error", obs.Errors)
		r.Count("client_batch_ok", obs.BatchOK)
		r.Count("client_batch_error", obs.BatchErr)
		r.Count("stub_requests", obs.Requests)
		r.Count("stub_connection_drops", obs.Drops)
		r.Count("stub_deadline_errors", obs.LateAtServer)
		r.Count("client_deadline_before_server_reply", obs.ClientGaveUp)
		r.Max("max_client_ask_timeout_used_ms", obs.TimeoutUsedMs)
		detail := map[string]any{"script": key, "seed": seed, "obs": obs}
		if obs.WrongReply > 0 {
			r.Violation("wrong-reply:client", detail)
		}
		if obs.BatchOrder > 0 {
			r.Violation("batch-order:client:permuted", detail)
		}
		if obs.BatchCount > 0 {
			r.Violation("batch-reply-count:client", detail)
		}
		if i < 3 {
			r.Sample(detail)
		}
	}
}
