//go:build verif

package remoteclient

import (
	"context"
	"fmt"
	"math/rand"
	nethttp "net/http"
	"strconv"
	"strings"
	"sync"
	"sync/atomic"
	"testing"
	"time"

	"google.golang.org/protobuf/proto"
	"google.golang.org/protobuf/types/known/wrapperspb"

	"github.com/tochemey/goakt/v4/internal/address"
	"github.com/tochemey/goakt/v4/internal/internalpb"
	inet "github.com/tochemey/goakt/v4/internal/net"
	"github.com/tochemey/goakt/v4/internal/verifrt"
)

// C29, client layer: the client built directly with a harness propagator and
// coalescing batch sizes {1,4,64}. The stub compares, for every message of every
// tell batch, the per-message metadata on the wire with the header set the message
// id names, and for asks the request-level metadata; it also measures how many
// batches really mixed messages of different callers.

type c29bKey struct{}

type c29bProp struct{}

func (c29bProp) Inject(ctx context.Context, headers nethttp.Header) error {
	if h, ok := ctx.Value(c29bKey{}).(map[string]string); ok {
		for k, v := range h {
			headers.Set(k, v)
		}
	}
	return nil
}

func (c29bProp) Extract(ctx context.Context, _ nethttp.Header) (context.Context, error) {
	return ctx, nil
}

// id = op|caller|seq|spec ; spec = none | <nExtra>.<size>
func c29bHeaders(id string) map[string]string {
	p := strings.Split(id, "|")
	if len(p) != 4 || p[3] == "none" {
		return nil
	}
	var n, size int
	fmt.Sscanf(p[3], "%d.%d", &n, &size)
	h := map[string]string{"X-Verif": "tok-" + p[1] + "-" + p[2]}
	for i := 0; i < n; i++ {
		h["X-E"+strconv.Itoa(i)] = strings.Repeat(p[1]+"."+p[2]+"."+strconv.Itoa(i)+";", size/4+1)[:size]
	}
	return h
}

func c29bSame(want map[string]string, got map[string]string) bool {
	if len(want) != len(got) {
		return false
	}
	for k, v := range want {
		if gv, ok := got[k]; !ok || gv != v {
			return false
		}
	}
	return true
}

func TestVerif_C29(t *testing.T) {
	r := verifrt.Start(t, "C29")
	defer r.Finish()
	r.Rule("client layer: case = 2-16 concurrent callers x 40-150 RemoteTell (and 10% RemoteAsk) with a per-call header set (token + 0-20 extras of 0-600 bytes) or none, on a client built with a harness propagator and WithSendCoalescing(maxBatch in {1,4,64}) against a stub whose first batch is held so that later batches fill; oracle = the per-message metadata on the wire (request-level metadata for asks) equals the header set the message id names, header-less messages carry none; non-trivial = at least one batch mixed messages of different callers with different header sets (always for maxBatch=1: at least two callers)")
	rng := r.Rand(2901)
	n := r.N(40, 1500)
	st := c27NewStub(t)
	defer st.Close()
	for i := 0; i < n; i++ {
		maxBatch := []int{1, 4, 64}[rng.Intn(3)]
		callers := 2 + rng.Intn(15)
		per := 40 + rng.Intn(111)
		nonePct := []int{0, 20, 50}[rng.Intn(3)]
		maxExtra := []int{0, 3, 20}[rng.Intn(3)]
		seed := rng.Int63()
		key := fmt.Sprintf("client: maxBatch=%d callers=%d n=%d none%%=%d maxExtra=%d", maxBatch, callers, per, nonePct, maxExtra)

		var bad, inherit, seen, mixed, batches, askSeen atomic.Int64
		var mu sync.Mutex
		var wit []string
		note := func(id string, want, got map[string]string) {
			bad.Add(1)
			if len(want) == 0 {
				inherit.Add(1)
			}
			mu.Lock()
			if len(wit) < 6 {
				wit = append(wit, fmt.Sprintf("message %q: injected %d headers (token %q), on the wire %d headers (token %q)", id, len(want), want["X-Verif"], len(got), got["X-Verif"]))
			}
			mu.Unlock()
		}
		st.Use(&c27Hooks{
			OnTell: func(_ context.Context, req *internalpb.RemoteTellRequest) (proto.Message, error) {
				batches.Add(1)
				who := map[string]bool{}
				for _, m := range req.GetRemoteMessages() {
					id := c27ID(m)
					want := c29bHeaders(id)
					if !c29bSame(want, m.GetMetadata()) {
						note(id, want, m.GetMetadata())
					}
					seen.Add(1)
					if p := strings.Split(id, "|"); len(p) == 4 {
						who[p[1]+"/"+p[3]] = true
					}
				}
				if len(who) > 1 {
					mixed.Add(1)
				}
				if len(req.GetRemoteMessages()) > 0 {
					time.Sleep(50 * time.Microsecond) // let the queue fill behind the RPC
				}
				return new(internalpb.RemoteTellResponse), nil
			},
			OnAsk: func(ctx context.Context, req *internalpb.RemoteAskRequest) (proto.Message, error) {
				got := map[string]string{}
				if md, ok := inet.FromContext(ctx); ok && md != nil {
					md.IterateHeaders(func(k, v string) { got[k] = v })
				}
				out := make([][]byte, 0, len(req.GetRemoteMessages()))
				for _, m := range req.GetRemoteMessages() {
					id := c27ID(m)
					want := c29bHeaders(id)
					if !c29bSame(want, got) {
						note(id, want, got)
					}
					askSeen.Add(1)
					raw, _ := c27Codec.Serialize(wrapperspb.String(id))
					out = append(out, raw)
				}
				return &internalpb.RemoteAskResponse{Messages: out}, nil
			},
		})
		cl := NewClient(WithSendCoalescing(maxBatch), WithClientContextPropagator(c29bProp{}))
		from := address.NoSender()
		to := address.New("c29sink", "c29sys", st.Host, st.Port)
		var accepted atomic.Int64
		var wg sync.WaitGroup
		for c := 0; c < callers; c++ {
			wg.Add(1)
			go func(c int) {
				defer wg.Done()
				rg := rand.New(rand.NewSource(seed ^ int64(c+1)*32452843))
				for q := 0; q < per; q++ {
					spec := "none"
					if rg.Intn(100) >= nonePct {
						spec = strconv.Itoa(rg.Intn(maxExtra+1)) + "." + strconv.Itoa([]int{0, 1, 7, 255, 256, 600}[rg.Intn(6)])
					}
					op := "t"
					if rg.Intn(10) == 0 {
						op = "a"
					}
					id := op + "|" + strconv.Itoa(c) + "|" + strconv.Itoa(q) + "|" + spec
					ctx := context.Background()
					if h := c29bHeaders(id); h != nil {
						ctx = context.WithValue(ctx, c29bKey{}, h)
					}
					if op == "a" {
						_, _ = cl.RemoteAsk(ctx, from, to, wrapperspb.String(id), 20*time.Second)
						continue
					}
					if err := cl.RemoteTell(ctx, from, to, wrapperspb.String(id)); err == nil {
						accepted.Add(1)
					}
				}
			}(c)
		}
		wg.Wait()
		done := verifrt.WaitUntil(60*time.Second, func() bool { return seen.Load() >= accepted.Load() })
		cl.Close()
		st.Use(nil)
		if !done {
			r.Inconclusive("%s: only %d of %d accepted tells reached the stub within 60s", key, seen.Load(), accepted.Load())
			continue
		}
		r.Case(key+"/"+verifrt.Hash64s(seed), mixed.Load() > 0 || (maxBatch == 1 && callers >= 2))
		r.Count("client_tells_seen", seen.Load())
		r.Count("client_asks_seen", askSeen.Load())
		r.Count("client_batches", batches.Load())
		r.Count("client_batches_mixing_callers", mixed.Load())
		detail := map[string]any{"script": key, "seed": seed, "bad": bad.Load(), "witness": wit, "batches": batches.Load(), "mixed_batches": mixed.Load()}
		if bad.Load() > inherit.Load() {
			r.Violation("header-mismatch:client", detail)
		}
		if inherit.Load() > 0 {
			r.Violation("header-mismatch:client:headerless-message-carried-headers", detail)
		}
		if i < 3 {
			r.Sample(detail)
		}
	}
}
