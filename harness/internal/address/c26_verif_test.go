//go:build verif

package address

import (
	"fmt"
	"math/rand"
	"net"
	"strings"
	"testing"

	"github.com/google/uuid"

	"github.com/tochemey/goakt/v4/internal/verifrt"
)

// TestVerif_C26: generated valid addresses (as judged by the package's own
// Validate) must survive String -> Parse; HostPortOf(String) must equal
// HostPort; Parse / HostPortOf / ParseWithIncarnationID never panic on
// grammar-aware hostile strings.
func TestVerif_C26(t *testing.T) {
	r := verifrt.Start(t, "C26")
	defer r.Finish()
	r.Rule("round-trip case = one generated address (system/name from the validation pattern incl. length 1 and 255, leading digit, '-_.'; host in {DNS name, IPv4, IPv6 literal forms}; port in {0,1,80,65535,random}; with/without parent) that the package's own Validate accepts; compared with Parse(String()) on system/host/port/name (Equals) and parent name, and HostPortOf(String()) with HostPort(); non-trivial = Validate accepted it and Parse was called; distinct by string form. hostile case = one mutated/garbage string fed to Parse, HostPortOf, ParseWithIncarnationID under recover; non-trivial = the string got past the scheme check (parsed or failed later); distinct by string")
	r.Assume("Validate of the package under test defines which addresses are valid; hosts are restricted to DNS names, IPv4 and IPv6 literals as the property statement lists")

	rng := r.Rand(26)
	n := r.N(20000, 1000000)
	kinds := map[string]int64{}
	var valid []string
	for i := 0; i < n; i++ {
		a, hostKind := c26GenAddress(rng)
		if err := a.Validate(); err != nil {
			// generator produced something validation rejects: not in the domain
			r.Count("generated_rejected_by_validate", 1)
			continue
		}
		kinds[hostKind]++
		s := a.String()
		if len(valid) < 4000 {
			valid = append(valid, s)
		}
		c26CheckRoundTrip(r, a, s, hostKind)
		r.Case(s, true)
		if i < 3 {
			r.Sample(map[string]any{"address": s, "host_kind": hostKind, "parent": a.Parent() != nil})
		}
	}
	for k, v := range kinds {
		r.Count("roundtrip_host_"+k, v)
	}
	if r.Distinct() == 0 {
		r.Inconclusive("no generated address was accepted by Validate")
	}

	// hostile strings
	m := r.N(200000, 10000000)
	if len(valid) == 0 {
		valid = []string{"goakt://sys@127.0.0.1:80/a"}
	}
	var parsedOK, pastScheme int64
	for i := 0; i < m; i++ {
		in := c26Hostile(rng, valid)
		ok, later, pv := c26ParseNoPanic(in)
		if pv != nil {
			r.Violation("address-parse-panic:"+pv.fn, map[string]any{"input": fmt.Sprintf("%q", in), "panic": pv.msg, "stack": pv.stack})
		}
		if ok {
			parsedOK++
		}
		if later {
			pastScheme++
		}
		r.Case("h:"+in, later)
	}
	r.Count("hostile_inputs", int64(m))
	r.Count("hostile_parsed_ok", parsedOK)
	r.Count("hostile_past_scheme_check", pastScheme)
}

type c26Panic struct{ fn, msg, stack string }

// c26ParseNoPanic feeds one string to every parsing entry point.
func c26ParseNoPanic(in string) (parsed bool, pastScheme bool, pv *c26Panic) {
	fn := "Parse"
	defer func() {
		if rec := recover(); rec != nil {
			pv = &c26Panic{fn: fn, msg: fmt.Sprint(rec), stack: verifrt.Stack()}
		}
	}()
	a, err := Parse(in)
	if err == nil {
		parsed, pastScheme = true, true
		fn = "String-of-parsed"
		_ = a.String()
		_ = a.HostPort()
		_ = a.Validate()
		_ = a.Equals(a)
		if a.Parent() != nil {
			_ = a.Parent().Name()
		}
	} else {
		msg := err.Error()
		pastScheme = msg != "address is required" && msg != "address protocol is not supported" && !(msg == "address format is invalid" && !strings.Contains(in, "://"))
	}
	fn = "HostPortOf"
	hp, ok := HostPortOf(in)
	if ok && hp == "" {
		panic("unreachable")
	}
	fn = "ParseWithIncarnationID"
	_, _ = ParseWithIncarnationID(in, c26UUID)
	_, _ = ParseWithIncarnationID(in, "not-a-uuid")
	return
}

var c26UUID = uuid.NewString()

func c26CheckRoundTrip(r *verifrt.Run, a *Address, s, hostKind string) {
	detail := func(extra map[string]any) map[string]any {
		d := map[string]any{"string": s, "system": a.System(), "host": a.Host(), "port": a.Port(), "name": a.Name(), "host_kind": hostKind}
		if a.Parent() != nil {
			d["parent"] = a.Parent().Name()
		}
		for k, v := range extra {
			d[k] = v
		}
		return d
	}
	var p *Address
	var err error
	func() {
		defer func() {
			if rec := recover(); rec != nil {
				r.Violation("address-parse-panic:Parse", detail(map[string]any{"input": fmt.Sprintf("%q", s), "panic": fmt.Sprint(rec), "stack": verifrt.Stack()}))
				err = fmt.Errorf("panic")
			}
		}()
		p, err = Parse(s)
	}()
	ipv6 := strings.Contains(a.Host(), ":")
	switch {
	case err != nil && err.Error() == "panic":
	case err != nil:
		if ipv6 {
			r.Violation("address-roundtrip:ipv6-host", detail(map[string]any{"parse_error": err.Error()}))
		} else {
			r.Violation("address-roundtrip:parse-error:"+hostKind, detail(map[string]any{"parse_error": err.Error()}))
		}
	default:
		field := ""
		switch {
		case p.System() != a.System():
			field = "system"
		case p.Host() != a.Host():
			field = "host"
		case p.Port() != a.Port():
			field = "port"
		case p.Name() != a.Name():
			field = "name"
		case !p.Equals(a) || !a.Equals(p):
			field = "equals"
		}
		got := map[string]any{"got_system": p.System(), "got_host": p.Host(), "got_port": p.Port(), "got_name": p.Name()}
		if field != "" {
			if ipv6 {
				r.Violation("address-roundtrip:ipv6-host", detail(got))
			} else {
				r.Violation("address-roundtrip:field-mismatch:"+field, detail(got))
			}
		}
		wantParent := ""
		if a.Parent() != nil && !a.Parent().Equals(NoSender()) {
			wantParent = a.Parent().Name()
		}
		gotParent := ""
		if p.Parent() != nil && !p.Parent().Equals(NoSender()) {
			gotParent = p.Parent().Name()
		}
		if wantParent != gotParent && field == "" {
			r.Violation("address-roundtrip:parent-name", detail(map[string]any{"got_parent": gotParent}))
		}
	}
	var hp string
	var ok bool
	func() {
		defer func() {
			if rec := recover(); rec != nil {
				r.Violation("address-parse-panic:HostPortOf", detail(map[string]any{"input": fmt.Sprintf("%q", s), "panic": fmt.Sprint(rec)}))
				ok, hp = true, a.HostPort()
			}
		}()
		hp, ok = HostPortOf(s)
	}()
	if !ok || hp != a.HostPort() {
		r.Violation("address-hostportof:mismatch:"+hostKind, detail(map[string]any{"got": hp, "ok": ok, "want": a.HostPort()}))
	}
}

const (
	c26First = "abcdefghijklmnopqrstuvwxyzABCDEFGHIJKLMNOPQRSTUVWXYZ0123456789"
	c26Rest  = c26First + "-_."
)

func c26Name(rng *rand.Rand, maxLen int) string {
	var l int
	switch rng.Intn(10) {
	case 0:
		l = 1
	case 1:
		l = maxLen
	case 2:
		l = 2
	default:
		l = 1 + rng.Intn(24)
	}
	if l > maxLen {
		l = maxLen
	}
	b := make([]byte, l)
	if rng.Intn(3) == 0 {
		b[0] = "0123456789"[rng.Intn(10)] // leading digit
	} else {
		b[0] = c26First[rng.Intn(len(c26First))]
	}
	for i := 1; i < l; i++ {
		if rng.Intn(4) == 0 {
			b[i] = "-_."[rng.Intn(3)]
		} else {
			b[i] = c26Rest[rng.Intn(len(c26Rest))]
		}
	}
	return string(b)
}

func c26DNS(rng *rand.Rand) string {
	if rng.Intn(8) == 0 {
		return "localhost"
	}
	labels := 1 + rng.Intn(4)
	parts := make([]string, labels)
	const al = "abcdefghijklmnopqrstuvwxyz0123456789"
	for i := range parts {
		l := 1 + rng.Intn(12)
		if rng.Intn(20) == 0 {
			l = 63
		}
		b := make([]byte, l)
		for j := range b {
			if j > 0 && j < l-1 && rng.Intn(6) == 0 {
				b[j] = '-'
			} else {
				b[j] = al[rng.Intn(len(al))]
			}
		}
		if rng.Intn(5) == 0 {
			b[0] = "ABCXYZ"[rng.Intn(6)]
		}
		parts[i] = string(b)
	}
	return strings.Join(parts, ".")
}

var c26IPv6Forms = []string{
	"::1", "::", "fe80::1", "2001:db8::7", "2001:0db8:85a3:0000:0000:8a2e:0370:7334",
	"2001:db8:85a3:0:0:8a2e:370:7334", "::ffff:10.1.2.3", "fe80::1%eth0", "fe80::a:b%1", "ff02::2",
	"1:2:3:4:5:6:7:8", "64:ff9b::192.0.2.33",
}

func c26Host(rng *rand.Rand) (string, string) {
	switch rng.Intn(10) {
	case 0, 1, 2, 3:
		return c26DNS(rng), "dns"
	case 4, 5, 6:
		if rng.Intn(4) == 0 {
			return []string{"127.0.0.1", "0.0.0.0", "255.255.255.255", "10.0.0.1"}[rng.Intn(4)], "ipv4"
		}
		return fmt.Sprintf("%d.%d.%d.%d", rng.Intn(256), rng.Intn(256), rng.Intn(256), rng.Intn(256)), "ipv4"
	default:
		if rng.Intn(2) == 0 {
			return c26IPv6Forms[rng.Intn(len(c26IPv6Forms))], "ipv6"
		}
		ip := make(net.IP, 16)
		for i := range ip {
			if rng.Intn(3) != 0 {
				ip[i] = byte(rng.Intn(256))
			}
		}
		ip[0] = 0x20 // keep it out of the IPv4-mapped range so String() prints colons
		return ip.String(), "ipv6"
	}
}

func c26Port(rng *rand.Rand) int {
	switch rng.Intn(8) {
	case 0:
		return 1
	case 1:
		return 80
	case 2:
		return 65535
	case 3:
		return 0
	default:
		return rng.Intn(65536)
	}
}

func c26GenAddress(rng *rand.Rand) (*Address, string) {
	system := c26Name(rng, 64)
	name := c26Name(rng, 255)
	host, kind := c26Host(rng)
	port := c26Port(rng)
	if rng.Intn(5) < 2 {
		pname := c26Name(rng, 255)
		if pname == name {
			pname += "p"
			if len(pname) > 255 {
				pname = "p"
			}
		}
		psys := system
		if rng.Intn(6) == 0 {
			psys = strings.ToUpper(system) // validation compares systems case-insensitively
		}
		parent := New(pname, psys, host, port)
		return NewWithParent(name, system, host, port, parent), kind
	}
	return New(name, system, host, port), kind
}

// c26Hostile derives a hostile string from a valid one (grammar-aware) or
// produces garbage.
func c26Hostile(rng *rand.Rand, valid []string) string {
	s := valid[rng.Intn(len(valid))]
	if len(s) > 120 && rng.Intn(3) != 0 {
		// long names are not interesting for most mutations
		s = valid[rng.Intn(len(valid))]
	}
	tokens := []string{"@", "://", "/", ":", "//", "@@", "::", "[", "]", "%", " ", "\x00", "\xff", "\xc3\x28", "goakt", "goakt://", "-", "+", "0x", "/@:"}
	ports := []string{"", "-1", "65536", "2147483647", "2147483648", "-2147483649", "99999999999999999999", "+80", "0x50", "1e3", " 80", "80 ", "٣", "80\n"}
	b := []byte(s)
	nm := 1 + rng.Intn(3)
	for k := 0; k < nm; k++ {
		switch rng.Intn(12) {
		case 0: // insert token
			tok := tokens[rng.Intn(len(tokens))]
			p := rng.Intn(len(b) + 1)
			b = append(b[:p:p], append([]byte(tok), b[p:]...)...)
		case 1: // delete a range
			if len(b) > 0 {
				p := rng.Intn(len(b))
				q := p + 1 + rng.Intn(4)
				if q > len(b) {
					q = len(b)
				}
				b = append(b[:p:p], b[q:]...)
			}
		case 2: // truncate
			b = b[:rng.Intn(len(b)+1)]
		case 3: // flip a byte
			if len(b) > 0 {
				b[rng.Intn(len(b))] ^= byte(1 << uint(rng.Intn(8)))
			}
		case 4: // replace the port
			str := string(b)
			if at := strings.LastIndex(str, ":"); at >= 0 {
				if sl := strings.Index(str[at:], "/"); sl >= 0 {
					str = str[:at+1] + ports[rng.Intn(len(ports))] + str[at+sl:]
					b = []byte(str)
				}
			}
		case 5: // delete every occurrence of a delimiter
			tok := []string{"@", "://", "/", ":"}[rng.Intn(4)]
			b = []byte(strings.ReplaceAll(string(b), tok, ""))
		case 6: // empty one part
			str := string(b)
			switch rng.Intn(4) {
			case 0:
				if i, j := strings.Index(str, "://"), strings.Index(str, "@"); i >= 0 && j > i {
					str = str[:i+3] + str[j:]
				}
			case 1:
				if i, j := strings.Index(str, "@"), strings.LastIndex(str, ":"); i >= 0 && j > i {
					str = str[:i+1] + str[j:]
				}
			case 2:
				if i := strings.LastIndex(str, "/"); i >= 0 {
					str = str[:i+1]
				}
			default:
				if i := strings.Index(str, "://"); i >= 0 {
					str = str[i:]
				}
			}
			b = []byte(str)
		case 7: // extra path segments
			for x := rng.Intn(3) + 1; x > 0; x-- {
				b = append(b, '/')
				if rng.Intn(2) == 0 {
					b = append(b, "seg"...)
				}
			}
		case 8: // duplicate a slice of itself
			if len(b) > 1 {
				p := rng.Intn(len(b))
				q := p + rng.Intn(len(b)-p)
				b = append(b, b[p:q]...)
			}
		case 9: // bracket the host (the form net.JoinHostPort would print)
			str := string(b)
			if i, j := strings.Index(str, "@"), strings.LastIndex(str, ":"); i >= 0 && j > i {
				str = str[:i+1] + "[" + str[i+1:j] + "]" + str[j:]
			}
			b = []byte(str)
		case 10: // pure garbage
			g := make([]byte, rng.Intn(40))
			for i := range g {
				g[i] = byte(rng.Intn(256))
			}
			b = g
		default: // scheme case / different scheme
			str := string(b)
			str = strings.Replace(str, "goakt", []string{"GOAKT", "goak", "goaktt", "http", ""}[rng.Intn(5)], 1)
			b = []byte(str)
		}
	}
	return string(b)
}
