//go:build verif

package stream

import (
	"context"
	"encoding/json"
	"fmt"
	"math/rand"
	"os"
	"runtime"
	"sort"
	"strconv"
	"strings"
	"sync"
	"sync/atomic"
	"syscall"
	"testing"
	"time"

	"github.com/tochemey/goakt/v4/actor"
	"github.com/tochemey/goakt/v4/internal/verifrt"
	"github.com/tochemey/goakt/v4/log"
)

// C46: stream junctions preserve elements and per-branch order.
//
// One case = one junction graph over unique (source, index) elements, run on a fresh
// actor system and judged by reference predicates on what every sink collected.
// Completion is observed through the handles (Done/Err).

// c46El is a unique element: I-th element of source S.
type c46El struct{ S, I int }

type c46Pace struct {
	Every   int `json:"every,omitempty"`
	SleepUS int `json:"sleep_us,omitempty"`
	StallAt int `json:"stall_at,omitempty"`
	StallMS int `json:"stall_ms,omitempty"`
}

func (p c46Pace) slow() bool { return p.Every > 0 || p.StallAt > 0 }

func (p c46Pace) dwell(i int) {
	if p.StallAt > 0 && i == p.StallAt {
		time.Sleep(time.Duration(p.StallMS) * time.Millisecond)
	}
	if p.Every > 0 && i%p.Every == 0 {
		time.Sleep(time.Duration(p.SleepUS) * time.Microsecond)
	}
}

// c46Src describes one input source.
type c46Src struct {
	Kind string `json:"kind"` // of chan chanbuf unfold
	Len  int    `json:"len"`
	Flow string `json:"flow,omitempty"` // "", map, buffer1, buffer64, batchflat
}

// c46Out describes one consumer (a branch of a fan-out, or the single sink of a fan-in).
type c46Out struct {
	Flow string  `json:"flow,omitempty"`
	Sink string  `json:"sink"` // collect foreach
	Pace c46Pace `json:"pace"`
}

type c46Case struct {
	Seed  int64    `json:"case_seed,string"`
	Kind  string   `json:"kind"` // merge concat zip broadcast balance partition balance-merge partition-merge broadcast-zip
	Srcs  []c46Src `json:"sources"`
	Outs  []c46Out `json:"outs"`
	Slots []int    `json:"-"` // partition: slot of element I (may be out of range)
	OOR   int      `json:"partition_out_of_range,omitempty"`

	monMu sync.Mutex
	mons  []*c46Mon
}

func (c *c46Case) describe() string {
	b, _ := json.Marshal(c)
	return string(b)
}

func (c *c46Case) input(s int) []c46El {
	out := make([]c46El, c.Srcs[s].Len)
	for i := range out {
		out[i] = c46El{S: s, I: i}
	}
	return out
}

var c46Lens = []int{0, 0, 1, 2, 3, 7, 50, 63, 64, 65, 159, 160, 161, 223, 224, 225, 256, 300, 447, 448, 449, 512, 700, 1000}

func c46GenPace(rng *rand.Rand, n int) c46Pace {
	var p c46Pace
	switch rng.Intn(5) {
	case 0:
		p.Every = []int{8, 16, 64}[rng.Intn(3)]
		p.SleepUS = 50 + rng.Intn(200)
	case 1:
		p.StallAt = 1 + rng.Intn(1+n/2)
		p.StallMS = 5 + rng.Intn(40)
	case 2:
		p.StallAt = 1 + rng.Intn(3)
		p.StallMS = 20 + rng.Intn(40)
		p.Every = 64
		p.SleepUS = 100
	}
	return p
}

func c46GenCase(seed int64) *c46Case {
	rng := rand.New(rand.NewSource(seed))
	c := &c46Case{Seed: seed}
	c.Kind = []string{"merge", "concat", "zip", "broadcast", "balance", "partition", "merge", "concat", "zip", "broadcast", "balance", "partition", "balance-merge", "partition-merge", "broadcast-zip"}[rng.Intn(15)]
	genLen := func() int {
		if rng.Intn(3) == 0 {
			return rng.Intn(1001)
		}
		return c46Lens[rng.Intn(len(c46Lens))]
	}
	genSrc := func() c46Src {
		s := c46Src{Len: genLen()}
		s.Kind = []string{"of", "of", "chan", "chanbuf", "unfold"}[rng.Intn(5)]
		if s.Kind == "unfold" && s.Len == 0 {
			s.Kind = "of"
		}
		s.Flow = []string{"", "", "", "map", "buffer1", "buffer64"}[rng.Intn(6)]
		return s
	}
	genOut := func(n int) c46Out {
		o := c46Out{Sink: []string{"collect", "foreach", "foreach"}[rng.Intn(3)]}
		o.Flow = []string{"", "", "", "map", "buffer1", "buffer64"}[rng.Intn(6)]
		if o.Sink == "foreach" {
			o.Pace = c46GenPace(rng, n)
		}
		return o
	}
	k := 1 + rng.Intn(5)
	switch c.Kind {
	case "merge", "concat", "zip":
		total := 0
		for i := 0; i < k; i++ {
			s := genSrc()
			if c.Kind == "zip" && rng.Intn(2) == 0 && i > 0 {
				s.Len = c.Srcs[0].Len // equal lengths are the interesting zip case as well
			}
			c.Srcs = append(c.Srcs, s)
			total += s.Len
		}
		c.Outs = []c46Out{genOut(total)}
	default:
		s := genSrc()
		c.Srcs = []c46Src{s}
		if c.Kind == "partition" || c.Kind == "partition-merge" {
			c.Slots = make([]int, s.Len)
			mode := rng.Intn(4)
			for i := range c.Slots {
				switch mode {
				case 0: // uniform
					c.Slots[i] = rng.Intn(k)
				case 1: // everything to one branch, the others starve
					c.Slots[i] = k - 1
				case 2: // runs
					c.Slots[i] = (i / 37) % k
				default: // with out-of-range results (documented: dropped)
					c.Slots[i] = rng.Intn(k+3) - 1
				}
				if c.Slots[i] < 0 || c.Slots[i] >= k {
					c.OOR++
				}
			}
		}
		switch c.Kind {
		case "balance-merge", "partition-merge", "broadcast-zip":
			c.Outs = []c46Out{genOut(s.Len)}
			// the branch count is carried by a pseudo source list entry
			for i := 1; i < k; i++ {
				c.Srcs = append(c.Srcs, c46Src{Kind: "branch"})
			}
		default:
			for i := 0; i < k; i++ {
				c.Outs = append(c.Outs, genOut(s.Len))
			}
		}
	}
	return c
}

func c46Flow(src Source[c46El], flow string) Source[c46El] {
	switch flow {
	case "map":
		return src.Via(Map(func(e c46El) c46El { return e }))
	case "buffer1":
		return src.Via(Buffer[c46El](1, BackpressureSource))
	case "buffer64":
		return src.Via(Buffer[c46El](64, BackpressureSource))
	}
	return src
}

func (c *c46Case) source(s int, stop <-chan struct{}) Source[c46El] {
	in := c.input(s)
	var src Source[c46El]
	switch c.Srcs[s].Kind {
	case "chan", "chanbuf":
		capacity := 0
		if c.Srcs[s].Kind == "chanbuf" {
			capacity = 128
		}
		ch := make(chan c46El, capacity)
		go func() {
			defer close(ch)
			for _, v := range in {
				select {
				case ch <- v:
				case <-stop:
					return
				}
			}
		}()
		src = FromChannel[c46El](ch)
	case "unfold":
		src = Unfold(0, func(i int) (int, c46El, bool) { return i + 1, in[i], i+1 < len(in) })
	default:
		src = Of(in...)
	}
	return c46Monitored(c, c46Flow(src, c.Srcs[s].Flow))
}

// c46Mon wraps a stage actor and records whether it handled a stream-protocol message
// before its stageWire (when its upstream/downstream PIDs are still nil). It only
// observes; the label refines the signature of violations found by the oracle.
type c46Mon struct {
	inner      actor.Actor
	started    atomic.Bool
	wired      atomic.Bool
	early      atomic.Int64
	firstEarly atomic.Value // string
}

func (m *c46Mon) PreStart(ctx *actor.Context) error {
	m.started.Store(true)
	return m.inner.PreStart(ctx)
}

func (m *c46Mon) PostStop(ctx *actor.Context) error { return m.inner.PostStop(ctx) }

func (m *c46Mon) Receive(rctx *actor.ReceiveContext) {
	switch rctx.Message().(type) {
	case *stageWire:
		m.wired.Store(true)
	case *streamElement, *streamRequest, *streamComplete, *streamError, *streamCancel:
		if !m.wired.Load() {
			m.early.Add(1)
			m.firstEarly.CompareAndSwap(nil, fmt.Sprintf("%T", rctx.Message()))
		}
	}
	m.inner.Receive(rctx)
}

// TermErr passes the wrapped sink's terminal error on to the materializer's completion
// wrapper (terminalErrorActor).
func (m *c46Mon) TermErr() error {
	if tea, ok := m.inner.(terminalErrorActor); ok {
		return tea.TermErr()
	}
	return nil
}

// c46MonitoredSink wraps the sink actor in a c46Mon registered with the case.
func c46MonitoredSink[T any](c *c46Case, sink Sink[T]) Sink[T] {
	m := &c46Mon{}
	c.monMu.Lock()
	c.mons = append(c.mons, m)
	c.monMu.Unlock()
	cp := *sink.desc
	orig := sink.desc.actorFn
	cp.actorFn = func(cfg StageConfig) actor.Actor {
		m.inner = orig(cfg)
		return m
	}
	return Sink[T]{desc: &cp}
}

// c46Monitored wraps every stage actor of src in a c46Mon registered with the case.
func c46Monitored[T any](c *c46Case, src Source[T]) Source[T] {
	stages := make([]*stage, len(src.stages))
	for i, st := range src.stages {
		m := &c46Mon{}
		c.monMu.Lock()
		c.mons = append(c.mons, m)
		c.monMu.Unlock()
		cp := *st
		orig := st.actorFn
		cp.actorFn = func(cfg StageConfig) actor.Actor {
			m.inner = orig(cfg)
			return m
		}
		stages[i] = &cp
	}
	return Source[T]{stages: stages}
}

// earlyFacts reports the stage actors that handled a message before their wiring.
func (c *c46Case) earlyFacts() []string {
	c.monMu.Lock()
	defer c.monMu.Unlock()
	var facts []string
	for i, m := range c.mons {
		if m.started.Load() && m.early.Load() > 0 {
			what, _ := m.firstEarly.Load().(string)
			facts = append(facts, fmt.Sprintf("monitored stage %d (%T) handled %d stream message(s) before its stageWire (first: %s)", i, m.inner, m.early.Load(), what))
		}
	}
	return facts
}

// c46Sink is one consumer with its collected elements.
type c46Sink[T any] struct {
	mu        sync.Mutex
	got       []T
	collector *Collector[T]
	doneSeen  atomic.Bool
	late      atomic.Int64
}

func c46NewSink[T any](o c46Out) (*c46Sink[T], Sink[T]) {
	k := &c46Sink[T]{}
	if o.Sink == "collect" {
		var sink Sink[T]
		k.collector, sink = Collect[T]()
		return k, sink
	}
	i := 0
	return k, ForEach(func(x T) {
		if k.doneSeen.Load() {
			k.late.Add(1)
		}
		i++
		o.Pace.dwell(i)
		k.mu.Lock()
		k.got = append(k.got, x)
		k.mu.Unlock()
	})
}

func (k *c46Sink[T]) items() []T {
	if k.collector != nil {
		return k.collector.Items()
	}
	k.mu.Lock()
	defer k.mu.Unlock()
	return append([]T(nil), k.got...)
}

type c46Outcome struct {
	Got     [][]c46El   // per consumer (element graphs)
	GotZip  [][]c46El   // zip graphs: the tuples
	Errs    []error     // per handle
	Done    bool        // all handles done
	Stuck   string
	StuckMode string // spinning | quiescent
	Leak      bool   // the actor system is left running (quiescent stuck graph)
	Slow    string
	RunErr  error
	Late    int64
	Elapsed time.Duration
}

var c46Watchdog = 20 * time.Second

// c46Progress is a system-wide progress signature: number of actors and the sum of the
// messages they processed (the case runs on its own actor system).
func c46Progress(sys actor.ActorSystem) (int, int) {
	pids, err := sys.Actors(context.Background(), time.Second)
	if err != nil {
		return -1, -1
	}
	sum := 0
	for _, p := range pids {
		sum += p.ProcessedCount()
	}
	return len(pids), sum
}

// c46CPU is the CPU time (user+system) the process has used so far.
func c46CPU() time.Duration {
	var ru syscall.Rusage
	_ = syscall.Getrusage(syscall.RUSAGE_SELF, &ru)
	return time.Duration(ru.Utime.Nano() + ru.Stime.Nano())
}

// c46BlockedInPut counts the goroutines that are inside the blocking put of a bounded
// mailbox's ring buffer.
func c46BlockedInPut() int {
	buf := make([]byte, 8<<20)
	n := runtime.Stack(buf, true)
	return strings.Count(string(buf[:n]), "(*RingBuffer).put(")
}

// c46Settle waits (bounded) until no actor of the system processes messages any more, so
// that stopping the system does not tear down sub-pipelines that are still winding down
// (e.g. the longer inputs of a completed Zip).
func c46Settle(sys actor.ActorSystem) {
	n1, s1 := c46Progress(sys)
	for i := 0; i < 100; i++ {
		time.Sleep(30 * time.Millisecond)
		n2, s2 := c46Progress(sys)
		if n1 == n2 && s1 == s2 {
			return
		}
		n1, s1 = n2, s2
	}
}

var c46DumpOnce sync.Once

func c46DumpStacks() {
	c46DumpOnce.Do(func() {
		buf := make([]byte, 8<<20)
		n := runtime.Stack(buf, true)
		fmt.Fprintf(os.Stderr, "c46: goroutine dump at first stuck verdict\n%s\n", buf[:n])
	})
}

// c46Await waits for all handles. After the watchdog it keeps waiting as long as any
// actor of the system still processes messages; ten seconds without a single processed
// message anywhere in the system while a handle is not done is a stuck graph.
func c46Await(sys actor.ActorSystem, hs []StreamHandle, o *c46Outcome) {
	allDone := func(wait time.Duration) bool {
		timer := time.NewTimer(wait)
		defer timer.Stop()
		for _, h := range hs {
			select {
			case <-h.Done():
			case <-timer.C:
				return false
			}
		}
		return true
	}
	if allDone(c46Watchdog) {
		o.Done = true
		return
	}
	deadline := time.Now().Add(10 * time.Minute)
	n1, s1 := c46Progress(sys)
	quiet := 0
	cpu0, t0 := c46CPU(), time.Now()
	for time.Now().Before(deadline) {
		if allDone(2 * time.Second) {
			o.Done = true
			return
		}
		n2, s2 := c46Progress(sys)
		if n1 == n2 && s1 == s2 && n2 >= 0 {
			quiet++
		} else {
			quiet = 0
			cpu0, t0 = c46CPU(), time.Now()
		}
		n1, s1 = n2, s2
		if quiet >= 5 {
			c46DumpStacks()
			var pending []int
			for i, h := range hs {
				select {
				case <-h.Done():
				default:
					pending = append(pending, i)
				}
			}
			burn := float64(c46CPU()-cpu0) / float64(time.Since(t0))
			putNote := ""
			o.StuckMode = "quiescent"
			if burn > 0.5 {
				o.StuckMode = "spinning" // nothing is processed and yet the process burns CPU
			}
			// dispatcher workers (or other senders) spinning in the blocking Enqueue of a
			// full BoundedMailbox show up in the goroutine stacks
			if n := c46BlockedInPut(); n > 0 {
				o.StuckMode = "senders-blocked-on-full-mailbox"
				putNote = fmt.Sprintf("; %d goroutine(s) inside RingBuffer.put with GOMAXPROCS=%d", n, runtime.GOMAXPROCS(0))
			}
			o.Stuck = fmt.Sprintf("no actor of the system processed a message for 10 s after a %s watchdog; live actors=%d processed=%d handles not done=%v; process CPU over that window: %.2f cores%s", c46Watchdog, n2, s2, pending, burn, putNote)
			return
		}
	}
	o.Slow = "not done after 10 min but still progressing"
}

func (c *c46Case) run(sys actor.ActorSystem) c46Outcome {
	var o c46Outcome
	stop := make(chan struct{})
	defer close(stop)
	ctx := context.Background()
	var hs []StreamHandle
	var sinks []*c46Sink[c46El]
	var zipSink *c46Sink[[]c46El]
	t0 := time.Now()
	runOne := func(src Source[c46El], out c46Out) bool {
		k, sink := c46NewSink[c46El](out)
		h, err := c46Monitored(c, c46Flow(src, out.Flow)).To(c46MonitoredSink(c, sink)).Run(ctx, sys)
		if err != nil {
			o.RunErr = err
			return false
		}
		sinks = append(sinks, k)
		hs = append(hs, h)
		return true
	}
	runZip := func(src Source[[]c46El], out c46Out) bool {
		k, sink := c46NewSink[[]c46El](out)
		h, err := c46Monitored(c, src).To(c46MonitoredSink(c, sink)).Run(ctx, sys)
		if err != nil {
			o.RunErr = err
			return false
		}
		zipSink = k
		hs = append(hs, h)
		return true
	}
	n := len(c.Srcs) // sources of a fan-in / branches of a composite
	slotFn := func(e c46El) int { return c.Slots[e.I] }
	ok := true
	switch c.Kind {
	case "merge", "concat", "zip":
		srcs := make([]Source[c46El], n)
		for i := range srcs {
			srcs[i] = c.source(i, stop)
		}
		switch c.Kind {
		case "merge":
			ok = runOne(Merge(srcs...), c.Outs[0])
		case "concat":
			ok = runOne(Concat(srcs...), c.Outs[0])
		default:
			ok = runZip(Zip(srcs...), c.Outs[0])
		}
	case "broadcast", "balance", "partition":
		var branches []Source[c46El]
		switch c.Kind {
		case "broadcast":
			branches = Broadcast(c.source(0, stop), len(c.Outs))
		case "balance":
			branches = Balance(c.source(0, stop), len(c.Outs))
		default:
			branches = Partition(c.source(0, stop), len(c.Outs), slotFn)
		}
		for i, b := range branches {
			if ok = runOne(b, c.Outs[i]); !ok {
				break
			}
		}
	case "balance-merge":
		ok = runOne(Merge(Balance(c.source(0, stop), n)...), c.Outs[0])
	case "partition-merge":
		ok = runOne(Merge(Partition(c.source(0, stop), n, slotFn)...), c.Outs[0])
	case "broadcast-zip":
		ok = runZip(Zip(Broadcast(c.source(0, stop), n)...), c.Outs[0])
	}
	if !ok {
		for _, h := range hs {
			h.Abort()
		}
		return o
	}
	c46Await(sys, hs, &o)
	o.Elapsed = time.Since(t0)
	if !o.Done {
		// a quiescent stuck graph is left alone (tearing it down concurrently with its
		// sinks only adds unrelated shutdown races); a spinning one must be stopped
		if o.StuckMode == "quiescent" {
			o.Leak = true
		} else {
			for _, h := range hs {
				h.Abort()
			}
		}
		return o
	}
	for _, h := range hs {
		o.Errs = append(o.Errs, h.Err())
	}
	for _, k := range sinks {
		k.doneSeen.Store(true)
		o.Got = append(o.Got, k.items())
	}
	if zipSink != nil {
		zipSink.doneSeen.Store(true)
		o.GotZip = zipSink.items()
	}
	runtime.Gosched()
	for i, k := range sinks {
		o.Late += k.late.Load()
		if again := k.items(); len(again) != len(o.Got[i]) {
			o.Late += int64(len(again) - len(o.Got[i]))
		}
	}
	if zipSink != nil {
		o.Late += zipSink.late.Load()
	}
	return o
}

func c46Head(xs []c46El, n int) []c46El {
	if len(xs) > n {
		return xs[:n]
	}
	return xs
}

// c46SeqDiff describes the first difference between two sequences.
func c46SeqDiff(got, want []c46El) map[string]any {
	i := 0
	for i < len(got) && i < len(want) && got[i] == want[i] {
		i++
	}
	lo := max(0, i-2)
	return map[string]any{"got_len": len(got), "want_len": len(want), "first_diff_index": i,
		"got_around": got[lo:min(len(got), i+5)], "want_around": want[lo:min(len(want), i+5)]}
}

// c46Multiset compares got with want as multisets.
func c46Multiset(got, want []c46El) (missing, extra []c46El) {
	cnt := map[c46El]int{}
	for _, e := range want {
		cnt[e]++
	}
	for _, e := range got {
		cnt[e]--
	}
	for e, n := range cnt {
		for ; n > 0; n-- {
			missing = append(missing, e)
		}
		for ; n < 0; n++ {
			extra = append(extra, e)
		}
	}
	less := func(a, b c46El) bool { return a.S < b.S || (a.S == b.S && a.I < b.I) }
	sort.Slice(missing, func(i, j int) bool { return less(missing[i], missing[j]) })
	sort.Slice(extra, func(i, j int) bool { return less(extra[i], extra[j]) })
	return
}

// c46Increasing reports the first position where elements of one source are not in
// strictly increasing index order.
func c46Increasing(got []c46El) (int, bool) {
	last := map[int]int{}
	for i, e := range got {
		if p, ok := last[e.S]; ok && e.I <= p {
			return i, false
		}
		last[e.S] = e.I
	}
	return -1, true
}

// violation records a violation; when a protocol monitor saw a stage handle a message
// before its wiring, the signature carries that root-cause label.
func (c *c46Case) violation(r *verifrt.Run, sig string, detail any) {
	if len(c.earlyFacts()) > 0 && !strings.Contains(sig, "msg-before-wire") {
		sig += ":msg-before-wire"
	}
	r.Violation(sig, detail)
}

func (c *c46Case) judge(r *verifrt.Run, o c46Outcome) {
	detail := func(extra map[string]any) map[string]any {
		d := map[string]any{"case": c.describe(), "case_seed": strconv.FormatInt(c.Seed, 10), "elapsed_ms": o.Elapsed.Milliseconds()}
		for k, v := range extra {
			d[k] = v
		}
		return d
	}
	facts := c.earlyFacts()
	if len(facts) > 0 {
		baseDetail := detail
		detail = func(extra map[string]any) map[string]any {
			d := baseDetail(extra)
			d["protocol_monitor"] = facts
			return d
		}
	}
	if o.RunErr != nil {
		if strings.Contains(o.RunErr.Error(), "wire stage") && strings.Contains(o.RunErr.Error(), "not alive") {
			c.violation(r, "run-failed:wire-stage-actor-not-alive", detail(map[string]any{"run_err": o.RunErr.Error()}))
			return
		}
		c.violation(r, "run-failed:"+c.Kind, detail(map[string]any{"run_err": o.RunErr.Error()}))
		return
	}
	if o.Stuck != "" {
		sig := "graph-never-completes:" + o.StuckMode + ":" + c.Kind
		if len(facts) > 0 {
			sig = "graph-never-completes:" + o.StuckMode + ":msg-before-wire"
		}
		c.violation(r, sig, detail(map[string]any{"stuck": o.Stuck}))
		return
	}
	if !o.Done {
		r.Inconclusive("C46 watchdog without a structural verdict: %s: %s", o.Slow, c.describe())
		return
	}
	for i, err := range o.Errs {
		if err != nil {
			c.violation(r, "unexpected-stream-error:"+c.Kind, detail(map[string]any{"handle": i, "err": err.Error()}))
			return
		}
	}
	if o.Late > 0 {
		c.violation(r, "element-delivered-after-completion:"+c.Kind, detail(map[string]any{"late": o.Late}))
	}
	in0 := c.input(0)
	nb := len(c.Srcs)
	switch c.Kind {
	case "merge":
		var union []c46El
		for s := range c.Srcs {
			union = append(union, c.input(s)...)
		}
		got := o.Got[0]
		if miss, extra := c46Multiset(got, union); len(miss)+len(extra) > 0 {
			c.violation(r, c46LossSig("merge", miss, extra), detail(map[string]any{"missing": c46Head(miss, 10), "missing_count": len(miss), "extra": c46Head(extra, 10), "extra_count": len(extra), "got_len": len(got), "want_len": len(union)}))
			return
		}
		if at, ok := c46Increasing(got); !ok {
			c.violation(r, "merge-source-order-broken", detail(map[string]any{"at": at, "around": got[max(0, at-3):min(len(got), at+3)]}))
		}
	case "concat":
		var want []c46El
		for s := range c.Srcs {
			want = append(want, c.input(s)...)
		}
		c.judgeSeq(r, "concat", o.Got[0], want, detail)
	case "zip":
		minLen := -1
		for _, s := range c.Srcs {
			if minLen < 0 || s.Len < minLen {
				minLen = s.Len
			}
		}
		c.judgeZip(r, "zip", o.GotZip, minLen, func(j, s int) c46El { return c46El{S: s, I: j} }, detail)
	case "broadcast-zip":
		c.judgeZip(r, "broadcast-zip", o.GotZip, len(in0), func(j, s int) c46El { return c46El{S: 0, I: j} }, detail)
	case "broadcast":
		for b := range c.Outs {
			if !c.judgeSeq(r, "broadcast-branch", o.Got[b], in0, func(x map[string]any) map[string]any {
				x["branch"] = b
				return detail(x)
			}) {
				return
			}
		}
	case "balance":
		var all []c46El
		for b := range c.Outs {
			all = append(all, o.Got[b]...)
		}
		if miss, extra := c46Multiset(all, in0); len(miss)+len(extra) > 0 {
			lens := make([]int, len(o.Got))
			for b := range o.Got {
				lens[b] = len(o.Got[b])
			}
			c.violation(r, c46LossSig("balance", miss, extra), detail(map[string]any{"missing": c46Head(miss, 10), "missing_count": len(miss), "in_more_than_one_branch_or_invented": c46Head(extra, 10), "extra_count": len(extra), "branch_lens": lens}))
			return
		}
		for b := range c.Outs {
			if at, ok := c46Increasing(o.Got[b]); !ok {
				c.violation(r, "balance-branch-order-broken", detail(map[string]any{"branch": b, "at": at, "around": o.Got[b][max(0, at-3):min(len(o.Got[b]), at+3)]}))
				return
			}
		}
	case "partition":
		want := make([][]c46El, len(c.Outs))
		for _, e := range in0 {
			if s := c.Slots[e.I]; s >= 0 && s < len(c.Outs) {
				want[s] = append(want[s], e)
			}
		}
		for b := range c.Outs {
			for _, e := range o.Got[b] {
				if c.Slots[e.I] != b {
					c.violation(r, "partition-element-in-wrong-branch", detail(map[string]any{"branch": b, "element": e, "fn_result": c.Slots[e.I]}))
					return
				}
			}
			if !c.judgeSeq(r, "partition-branch", o.Got[b], want[b], func(x map[string]any) map[string]any {
				x["branch"] = b
				return detail(x)
			}) {
				return
			}
		}
	case "balance-merge", "partition-merge":
		want := in0
		if c.Kind == "partition-merge" {
			want = nil
			for _, e := range in0 {
				if s := c.Slots[e.I]; s >= 0 && s < nb {
					want = append(want, e)
				}
			}
		}
		got := o.Got[0]
		if miss, extra := c46Multiset(got, want); len(miss)+len(extra) > 0 {
			c.violation(r, c46LossSig(c.Kind, miss, extra), detail(map[string]any{"missing": c46Head(miss, 10), "missing_count": len(miss), "extra": c46Head(extra, 10), "extra_count": len(extra), "got_len": len(got), "want_len": len(want)}))
		}
	}
}

func c46LossSig(kind string, miss, extra []c46El) string {
	switch {
	case len(miss) > 0 && len(extra) == 0:
		return kind + "-elements-lost"
	case len(miss) == 0 && len(extra) > 0:
		return kind + "-elements-duplicated"
	}
	return kind + "-elements-wrong"
}

func (c *c46Case) judgeSeq(r *verifrt.Run, what string, got, want []c46El, detail func(map[string]any) map[string]any) bool {
	if len(got) == len(want) {
		same := true
		for i := range got {
			if got[i] != want[i] {
				same = false
				break
			}
		}
		if same {
			return true
		}
	}
	miss, extra := c46Multiset(got, want)
	sig := what + "-order-broken"
	if len(miss)+len(extra) > 0 {
		sig = c46LossSig(what, miss, extra)
	}
	d := c46SeqDiff(got, want)
	d["missing_count"], d["extra_count"] = len(miss), len(extra)
	d["missing"], d["extra"] = c46Head(miss, 10), c46Head(extra, 10)
	c.violation(r, sig, detail(d))
	return false
}

func (c *c46Case) judgeZip(r *verifrt.Run, what string, got [][]c46El, wantLen int, at func(j, s int) c46El, detail func(map[string]any) map[string]any) {
	width := len(c.Srcs)
	for j, tup := range got {
		bad := len(tup) != width || j >= wantLen
		for s := 0; !bad && s < width; s++ {
			if tup[s] != at(j, s) {
				bad = true
			}
		}
		if bad {
			sig := what + "-tuple-not-positional"
			if j >= wantLen {
				sig = what + "-longer-than-shortest-source"
			}
			c.violation(r, sig, detail(map[string]any{"index": j, "tuple": tup, "got_len": len(got), "want_len": wantLen}))
			return
		}
	}
	if len(got) != wantLen {
		c.violation(r, what+"-shorter-than-shortest-source", detail(map[string]any{"got_len": len(got), "want_len": wantLen}))
	}
}

func c46NewSystem(t *testing.T) actor.ActorSystem {
	name := fmt.Sprintf("c46sys%d", time.Now().UnixNano())
	sys, err := actor.NewActorSystem(name, actor.WithLogger(log.DiscardLogger), actor.WithShutdownTimeout(30*time.Second))
	if err != nil {
		t.Fatalf("NewActorSystem: %v", err)
	}
	if err := sys.Start(context.Background()); err != nil {
		t.Fatalf("system Start: %v", err)
	}
	return sys
}

func c46StopSystem(sys actor.ActorSystem) {
	ctx, cancel := context.WithTimeout(context.Background(), 60*time.Second)
	defer cancel()
	_ = sys.Stop(ctx)
}

func TestVerif_C46(t *testing.T) {
	r := verifrt.Start(t, "C46")
	defer r.Finish()
	r.Rule("case = one junction graph over unique (source,index) elements on a fresh actor system: Merge / Concat / Zip over 1-5 sources (Of, FromChannel unbuffered/buffered, Unfold; lengths 0-1000 incl. empty, unequal and the demand-window sizes 64/160/224/256/448/512; optional Map or Buffer(1|64) per source), Broadcast / Balance / Partition of one source into 1-5 branches (each branch with its own optional flow, Collect or ForEach sink and consumer pace: fast, periodic sleep, long stall; partition functions uniform, all-to-one-branch, runs, and with out-of-range results which the documentation drops), and the composites Merge(Balance), Merge(Partition), Zip(Broadcast); oracle = reference predicates on the collected outputs (union + per-source order; concatenation; positional tuples with the length of the shortest source; every branch equals the input; disjoint union + branch order; branch = the elements its function selects, in order), all handles Done with nil Err, no delivery after Done; non-trivial = at least 2 sources/branches and at least 10 elements; distinct by graph text")
	r.Assume("ten seconds without any processed message anywhere in the case's private actor system (after a 20 s watchdog) means the graph is stuck")

	if v := os.Getenv("C46_CASE_SEED"); v != "" {
		seed, _ := strconv.ParseInt(v, 10, 64)
		reps := 20
		if r.Batch != 0 {
			reps = 0
		}
		for k := 0; k < reps; k++ {
			runtime.GOMAXPROCS(4)
			sys := c46NewSystem(t)
			c := c46GenCase(seed)
			o := c.run(sys)
			c.judge(r, o)
			r.Case(c.describe(), true)
			if !o.Leak {
				c46StopSystem(sys)
			}
			if !o.Done {
				break
			}
		}
		return
	}

	rng := r.Rand(46)
	n := r.N(300, 20000)
	stuck := 0
	maxStuck := r.Pick(4, 12) // each stream that never completes costs about 30 s
	for done := 0; done < n && stuck < maxStuck; {
		g := 1 // one case per actor system: clean attribution of a stuck system
		if g > n-done {
			g = n - done
		}
		procs := []int{2, 4, 4, 8}[rng.Intn(4)]
		runtime.GOMAXPROCS(procs)
		r.Count(fmt.Sprintf("groups_gomaxprocs_%d", procs), 1)
		sys := c46NewSystem(t)
		cases := make([]*c46Case, g)
		outs := make([]c46Outcome, g)
		var wg sync.WaitGroup
		for i := 0; i < g; i++ {
			cases[i] = c46GenCase(rng.Int63())
			wg.Add(1)
			go func(i int) {
				defer wg.Done()
				outs[i] = cases[i].run(sys)
			}(i)
		}
		wg.Wait()
		if !outs[0].Leak {
			c46Settle(sys)
			c46StopSystem(sys)
		}
		for i, c := range cases {
			o := outs[i]
			c.judge(r, o)
			if !o.Done {
				stuck++
			}
			width := max(len(c.Srcs), len(c.Outs))
			total := 0
			for _, s := range c.Srcs {
				total += s.Len
			}
			delivered := len(o.GotZip)
			slow := false
			for b := range o.Got {
				delivered += len(o.Got[b])
			}
			for _, out := range c.Outs {
				slow = slow || out.Pace.slow()
			}
			r.Case(c.describe(), width >= 2 && total >= 10)
			r.Count("graphs_"+c.Kind, 1)
			r.Count("elements_in", int64(total))
			r.Count("elements_delivered", int64(delivered))
			r.Count("partition_out_of_range_results", int64(c.OOR))
			if len(c.earlyFacts()) > 0 {
				r.Count("graphs_where_a_stage_handled_a_message_before_its_wiring", 1)
			}
			if slow {
				r.Count("graphs_with_a_slow_consumer", 1)
			}
			r.Max("max_elapsed_ms", o.Elapsed.Milliseconds())
			if os.Getenv("C46_DEBUG") != "" {
				fmt.Fprintf(os.Stderr, "c46: g=%d procs=%d elapsed=%v delivered=%d %s\n", g, procs, o.Elapsed, delivered, strings.TrimSpace(c.describe()))
			}
			if done+i < 3 {
				r.Sample(map[string]any{"case": c.describe(), "delivered": delivered, "elapsed_ms": o.Elapsed.Milliseconds()})
			}
		}
		done += g
	}
	if stuck >= maxStuck {
		r.Note("batch stopped early after %d graphs that did not complete", stuck)
	}
}
