//go:build verif

package stream

import (
	"context"
	"encoding/json"
	"errors"
	"fmt"
	"math/rand"
	"os"
	"runtime"
	"sort"
	"strconv"
	"strings"
	"sync"
	"sync/atomic"
	"syscall"
	"testing"
	"time"

	"github.com/tochemey/goakt/v4/actor"
	"github.com/tochemey/goakt/v4/internal/verifrt"
	"github.com/tochemey/goakt/v4/log"
)

// C45: linear stream pipelines compute exactly their list semantics.
//
// One case = one generated pipeline (source kind, input, 1-6 stage groups, sink kind,
// sink pace, fusion mode) run on the batch's actor system and compared with a
// reference interpreter over slices. Completion is observed through the handle
// (Done/Err). Every stage that takes a user function carries a probe that records
// the inputs the function saw, so that a mismatch is attributed to the first
// stretch of stages whose input still was right and whose output was not.

// c45Err is the injected stage error; identity (pointer) is what must arrive at Err().
type c45Err struct{ id int64 }

func (e *c45Err) Error() string { return "c45 injected stage error " + strconv.FormatInt(e.id, 10) }

// c45Stage is one generated stage group (one or two real stages).
type c45Stage struct {
	Kind   string `json:"kind"` // map trymap filter flatmap batchflat batchhash scan dedup buffer omap pmap
	A      int    `json:"a,omitempty"`
	B      int    `json:"b,omitempty"`
	N      int    `json:"n,omitempty"`      // batch size / buffer size / parallelism / flatmap burst
	HasErr bool   `json:"has_err,omitempty"` // trymap: error, omap/pmap: panic(error), on the element equal to ErrVal
	ErrVal int    `json:"err_val,omitempty"`
	Resume bool   `json:"resume,omitempty"` // trymap with the Resume strategy (documented: skip the element)
	Jit    int    `json:"jitter_us,omitempty"`
}

func c45Mod(x, m int) int {
	r := x % m
	if r < 0 {
		r += m
	}
	return r
}

func c45FloorDiv(x, d int) int {
	q := x / d
	if (x%d != 0) && ((x < 0) != (d < 0)) {
		q--
	}
	return q
}

// elem is the element function of map-like kinds.
func (s *c45Stage) elem(x int) int { return c45Mod(x*s.A+s.B, 2000003) }

func (s *c45Stage) fails(x int) bool { return s.HasErr && x == s.ErrVal }

func (s *c45Stage) keep(x int) bool { return c45Mod(x, s.A) != s.B }

func (s *c45Stage) expand(x int) []int {
	n := c45Mod(x, s.A)
	if s.N > 0 && c45Mod(x, 53) == s.B {
		n = s.N
	}
	out := make([]int, n)
	for i := range out {
		out[i] = c45Mod(x*5+i, 2000003)
	}
	return out
}

func c45HashBatch(b []int) int {
	h := len(b)
	for _, v := range b {
		h = c45Mod(h*1000003+v, 2147483629)
	}
	return h
}

func (s *c45Stage) scanStep(acc, x int) int { return c45Mod(acc*31+x, 1000003) }

// orderSensitive: the list result depends on the order of the input.
func (s *c45Stage) orderSensitive() bool {
	switch s.Kind {
	case "scan", "dedup", "batchhash":
		return true
	}
	return false
}

// ref applies the stage group's list semantics. With skipFailing the failing element is
// skipped (Resume, or the over-approximation used after an unordered stage); otherwise
// the computation stops in front of it and failed is reported (fail-fast).
func (s *c45Stage) ref(in []int, skipFailing bool) (out []int, failed bool) {
	switch s.Kind {
	case "map", "trymap", "omap", "pmap":
		out = make([]int, 0, len(in))
		for _, x := range in {
			if s.fails(x) {
				if s.Resume || skipFailing {
					continue
				}
				return out, true
			}
			out = append(out, s.elem(x))
		}
	case "filter":
		for _, x := range in {
			if s.keep(x) {
				out = append(out, x)
			}
		}
	case "flatmap":
		for _, x := range in {
			out = append(out, s.expand(x)...)
		}
	case "batchflat", "buffer":
		out = append(out, in...)
	case "batchhash":
		for i := 0; i < len(in); i += s.N {
			j := i + s.N
			if j > len(in) {
				j = len(in)
			}
			out = append(out, c45HashBatch(in[i:j]))
		}
	case "scan":
		acc := s.B
		for _, x := range in {
			acc = s.scanStep(acc, x)
			out = append(out, acc)
		}
	case "dedup":
		has := false
		last := 0
		for _, x := range in {
			v := c45FloorDiv(x, s.A)
			if has && v == last {
				continue
			}
			has, last = true, v
			out = append(out, v)
		}
	default:
		panic("c45: unknown kind " + s.Kind)
	}
	return out, false
}

// c45Probe records what a stage's user function saw.
type c45Probe struct {
	mu   sync.Mutex
	seen []int
}

func (p *c45Probe) rec(x int) {
	p.mu.Lock()
	p.seen = append(p.seen, x)
	p.mu.Unlock()
}

func (p *c45Probe) snapshot() []int {
	p.mu.Lock()
	defer p.mu.Unlock()
	return append([]int(nil), p.seen...)
}

// c45Pace describes how slowly the consumer takes elements.
type c45Pace struct {
	Every   int `json:"every,omitempty"`    // sleep SleepUS every Every-th element
	SleepUS int `json:"sleep_us,omitempty"` //
	StallAt int `json:"stall_at,omitempty"` // one long stall in front of element StallAt (1-based; 0 = none)
	StallMS int `json:"stall_ms,omitempty"`
}

func (p c45Pace) slow() bool { return p.Every > 0 || p.StallAt > 0 }

func (p c45Pace) dwell(i int) {
	if p.StallAt > 0 && i == p.StallAt {
		time.Sleep(time.Duration(p.StallMS) * time.Millisecond)
	}
	if p.Every > 0 && i%p.Every == 0 {
		time.Sleep(time.Duration(p.SleepUS) * time.Microsecond)
	}
}

type c45Case struct {
	Seed    int64      `json:"case_seed,string"`
	Source  string     `json:"source"` // of range chan chanbuf unfold
	Input   []int      `json:"-"`
	Stages  []c45Stage `json:"stages"`
	Sink    string     `json:"sink"` // collect foreach fold chan
	Pace    c45Pace    `json:"pace"`
	Fusion  int        `json:"fusion"` // 0 stateless(default) 1 none 2 aggressive
	ChanCap int        `json:"chan_cap,omitempty"`

	sysName  string          // actor system the case ran on (key of its captured runtime log)
	mons     []*c45Mon       // per real stage (source and flows), set by run
	aliveAtVerdict []bool    // per real stage: actor alive when a stuck verdict was taken
	batchIdx []int           // per stage group: real stage index of its Batch stage (0 = none)
	batchOut []*c45BatchOut  // per stage group: what a Batch+hash group's function saw
	sentinel *c45Err
	probes   []*c45Probe // per stage group; nil when the head stage has no user function
	ooo      atomic.Int64
	tickets  atomic.Int64
	maxStart atomic.Int64
}

func (c *c45Case) kinds() []string {
	out := make([]string, len(c.Stages))
	for i := range c.Stages {
		out[i] = c.Stages[i].Kind
	}
	return out
}

func (c *c45Case) describe() string {
	b, _ := json.Marshal(c)
	return fmt.Sprintf("len=%d %s", len(c.Input), b)
}

// c45Expect is the reference result.
type c45Expect struct {
	Want      []int
	Ordered   bool // compare as a sequence (otherwise as a multiset)
	Failed    bool // the stream must end with the injected error; got must be a prefix / sub-multiset of Want
	StageIn   [][]int
	OrderedAt []bool
}

func (c *c45Case) expect() c45Expect {
	e := c45Expect{Ordered: true}
	cur := append([]int(nil), c.Input...)
	for i := range c.Stages {
		s := &c.Stages[i]
		e.StageIn = append(e.StageIn, cur)
		e.OrderedAt = append(e.OrderedAt, e.Ordered)
		var out []int
		switch {
		case e.Failed:
			out, _ = s.ref(cur, true)
		case s.HasErr && !s.Resume && (!e.Ordered || s.Kind == "pmap"):
			// which elements precede the failure is not determined: over-approximate
			for _, x := range cur {
				if s.fails(x) {
					e.Failed = true
				}
			}
			out, _ = s.ref(cur, true)
		default:
			var f bool
			out, f = s.ref(cur, false)
			e.Failed = f
		}
		if s.Kind == "pmap" {
			e.Ordered = false
		}
		cur = out
	}
	e.Want = cur
	return e
}

var c45Lens = []int{0, 0, 1, 1, 2, 3, 5, 8, 17, 63, 64, 65, 100, 159, 160, 161, 223, 224, 225, 255, 256, 257, 300, 447, 448, 449, 500, 511, 512, 513, 700, 1000, 1500, 2000}

func c45GenCase(seed int64) *c45Case {
	rng := rand.New(rand.NewSource(seed))
	c := &c45Case{Seed: seed}
	c.sentinel = &c45Err{id: seed}
	// input
	n := c45Lens[rng.Intn(len(c45Lens))]
	if rng.Intn(4) == 0 {
		n = rng.Intn(2001)
	}
	c.Input = make([]int, n)
	style := rng.Intn(3)
	v := rng.Intn(50)
	for i := range c.Input {
		switch style {
		case 0: // distinct increasing
			v += 1 + rng.Intn(3)
		case 1: // runs of equal values
			if rng.Intn(3) == 0 {
				v += rng.Intn(4)
			}
		default:
			v = rng.Intn(5000) - 100
		}
		c.Input[i] = v
	}
	c.Source = []string{"of", "of", "range", "chan", "chanbuf", "unfold"}[rng.Intn(6)]
	if c.Source == "unfold" && n == 0 {
		c.Source = "of" // Unfold always emits at least one element
	}
	// stages
	depth := 1 + rng.Intn(6)
	kindsOrdered := []string{"map", "map", "trymap", "filter", "flatmap", "batchflat", "batchflat", "batchhash", "scan", "dedup", "buffer", "omap", "pmap"}
	kindsUnordered := []string{"map", "trymap", "filter", "flatmap", "batchflat", "batchflat", "buffer", "omap", "pmap"}
	ordered := true
	errPlaced := false
	cur := append([]int(nil), c.Input...)
	budget := 40000 // bound on any intermediate list
	for d := 0; d < depth; d++ {
		var s c45Stage
		if ordered {
			s.Kind = kindsOrdered[rng.Intn(len(kindsOrdered))]
		} else {
			s.Kind = kindsUnordered[rng.Intn(len(kindsUnordered))]
		}
		switch s.Kind {
		case "map", "trymap":
			s.A = []int{1, 3, -1, 7, 2}[rng.Intn(5)]
			s.B = rng.Intn(10)
		case "filter":
			s.A = []int{2, 3, 5, 10}[rng.Intn(4)]
			s.B = rng.Intn(s.A)
		case "flatmap":
			s.A = []int{1, 2, 3, 4}[rng.Intn(4)]
			if rng.Intn(4) == 0 {
				s.N = []int{230, 300, 600}[rng.Intn(3)]
				s.B = rng.Intn(53)
			}
		case "batchflat", "batchhash":
			s.N = []int{1, 2, 7, 64, 1, 3}[rng.Intn(6)]
		case "scan":
			s.B = rng.Intn(100)
		case "dedup":
			s.A = []int{1, 1, 2, 4, 16}[rng.Intn(5)]
		case "buffer":
			s.N = []int{1, 2, 7, 64, 300}[rng.Intn(5)]
		case "omap", "pmap":
			s.A = []int{1, 3, -1}[rng.Intn(3)]
			s.B = rng.Intn(10)
			s.N = []int{1, 4, 16, 2}[rng.Intn(4)]
			if len(cur) > 0 {
				// keep the added latency near 50 ms whatever the length
				perElem := 50000 * s.N / len(cur)
				if perElem > 400 {
					perElem = 400
				}
				if rng.Intn(4) > 0 {
					s.Jit = perElem
				}
			}
		}
		// error injection: at most one failing stage per pipeline
		if !errPlaced && len(cur) > 0 && (s.Kind == "trymap" || s.Kind == "omap" || s.Kind == "pmap") {
			p := 10
			if s.Kind == "trymap" {
				p = 3
			}
			if rng.Intn(p) == 0 {
				s.HasErr = true
				idx := rng.Intn(len(cur))
				if rng.Intn(3) == 0 {
					idx = []int{0, len(cur) - 1, len(cur) / 2}[rng.Intn(3)]
				}
				s.ErrVal = cur[idx]
				if s.Kind == "trymap" && rng.Intn(3) == 0 {
					s.Resume = true
				}
				errPlaced = true
			}
		}
		out, _ := s.ref(cur, true)
		if len(out) > budget {
			d--
			if rng.Intn(20) == 0 {
				break
			}
			continue
		}
		if s.Kind == "pmap" {
			ordered = false
		}
		cur = out
		c.Stages = append(c.Stages, s)
	}
	if len(c.Stages) == 0 {
		c.Stages = append(c.Stages, c45Stage{Kind: "map", A: 1, B: 0})
	}
	c.Sink = []string{"collect", "collect", "foreach", "foreach", "fold", "chan"}[rng.Intn(6)]
	if c.Sink == "foreach" || c.Sink == "chan" {
		switch rng.Intn(4) {
		case 0:
			c.Pace.Every = []int{1, 16, 64}[rng.Intn(3)]
			c.Pace.SleepUS = 50 + rng.Intn(200)
			if c.Pace.Every == 1 && len(cur) > 300 {
				c.Pace.Every = 16
			}
		case 1:
			c.Pace.StallAt = 1 + rng.Intn(1+len(cur)/2)
			c.Pace.StallMS = 5 + rng.Intn(40)
		case 2:
			c.Pace.StallAt = 1 + rng.Intn(3)
			c.Pace.StallMS = 20 + rng.Intn(40)
			c.Pace.Every = 64
			c.Pace.SleepUS = 100
		}
	}
	c.ChanCap = []int{0, 1, 16}[rng.Intn(3)]
	c.Fusion = []int{0, 0, 1, 2}[rng.Intn(4)]
	c.probes = make([]*c45Probe, len(c.Stages))
	c.batchIdx = make([]int, len(c.Stages))
	c.batchOut = make([]*c45BatchOut, len(c.Stages))
	return c
}

// c45Jitter delays a parallel worker by a value-derived amount so that completion order
// differs from dispatch order.
func c45Jitter(x, maxUS int) {
	if maxUS <= 0 {
		return
	}
	us := c45Mod(x*2654435761, maxUS+1)
	if us < 20 {
		runtime.Gosched()
		return
	}
	time.Sleep(time.Duration(us) * time.Microsecond)
}

// parFn builds the function of a (ordered) parallel map with start/finish tickets.
func (c *c45Case) parFn(s *c45Stage, p *c45Probe) func(int) int {
	return func(x int) int {
		p.rec(x)
		st := c.tickets.Add(1)
		c45Jitter(x, s.Jit)
		// a call that started later than some call still running finishes first: out of order
		for {
			m := c.maxStart.Load()
			if st > m {
				if c.maxStart.CompareAndSwap(m, st) {
					break
				}
				continue
			}
			if st < m {
				c.ooo.Add(1)
			}
			break
		}
		if s.fails(x) {
			panic(c.sentinel)
		}
		return s.elem(x)
	}
}

// attach appends the real stage(s) of group i to src.
func (c *c45Case) attach(src Source[int], i int) Source[int] {
	s := &c.Stages[i]
	switch s.Kind {
	case "map":
		p := &c45Probe{}
		c.probes[i] = p
		return src.Via(Map(func(x int) int { p.rec(x); return s.elem(x) }))
	case "trymap":
		p := &c45Probe{}
		c.probes[i] = p
		f := TryMap(func(x int) (int, error) {
			p.rec(x)
			if s.fails(x) {
				return 0, c.sentinel
			}
			return s.elem(x), nil
		})
		if s.Resume {
			f = f.WithErrorStrategy(Resume)
		}
		return src.Via(f)
	case "filter":
		p := &c45Probe{}
		c.probes[i] = p
		return src.Via(Filter(func(x int) bool { p.rec(x); return s.keep(x) }))
	case "flatmap":
		p := &c45Probe{}
		c.probes[i] = p
		return src.Via(FlatMap(func(x int) []int { p.rec(x); return s.expand(x) }))
	case "batchflat":
		c.batchIdx[i] = len(src.stages)
		return Via(Via(src, Batch[int](s.N, time.Hour)), Flatten[int]())
	case "batchhash":
		c.batchIdx[i] = len(src.stages)
		ob := &c45BatchOut{}
		c.batchOut[i] = ob
		return Via(Via(src, Batch[int](s.N, time.Hour)), Map(func(b []int) int { ob.rec(len(b)); return c45HashBatch(b) }))
	case "scan":
		p := &c45Probe{}
		c.probes[i] = p
		return src.Via(Scan(s.B, func(acc, x int) int { p.rec(x); return s.scanStep(acc, x) }))
	case "dedup":
		p := &c45Probe{}
		c.probes[i] = p
		d := s.A
		return src.Via(Map(func(x int) int { p.rec(x); return c45FloorDiv(x, d) })).Via(Deduplicate[int]())
	case "buffer":
		return src.Via(Buffer[int](s.N, BackpressureSource))
	case "omap":
		p := &c45Probe{}
		c.probes[i] = p
		return src.Via(OrderedParallelMap(s.N, c.parFn(s, p)))
	case "pmap":
		p := &c45Probe{}
		c.probes[i] = p
		return src.Via(ParallelMap(s.N, c.parFn(s, p)))
	}
	panic("c45: unknown kind " + s.Kind)
}

// source builds the real source; stop is closed when the case is over so that feeder
// goroutines never outlive it.
func (c *c45Case) source(stop <-chan struct{}) Source[int] {
	in := c.Input
	switch c.Source {
	case "range":
		base := int64(1000)
		return Via(Range(base, base+int64(len(in))), Map(func(i int64) int { return in[i-base] }))
	case "chan", "chanbuf":
		capacity := 0
		if c.Source == "chanbuf" {
			capacity = 128
		}
		ch := make(chan int, capacity)
		go func() {
			defer close(ch)
			for _, v := range in {
				select {
				case ch <- v:
				case <-stop:
					return
				}
			}
		}()
		return FromChannel[int](ch)
	case "unfold":
		return Unfold(0, func(i int) (int, int, bool) { return i + 1, in[i], i+1 < len(in) })
	}
	return Of(in...)
}

// c45Mon wraps a stage actor and records the stream-protocol messages it receives.
// It only observes; every message is handed to the wrapped actor unchanged.
type c45Mon struct {
	inner      actor.Actor
	started    atomic.Bool
	stopped    atomic.Bool
	wired      atomic.Bool
	early      atomic.Int64 // stream messages handled before the stage's stageWire
	firstEarly atomic.Value // string
	elemsIn    atomic.Int64
	sliceElems atomic.Int64 // sum of len(value) over []int elements (output of a Batch upstream)
	maxSlice   atomic.Int64
	reqIn      atomic.Int64 // demand signalled by the downstream stage
	completeIn atomic.Int64
}

func (m *c45Mon) PreStart(ctx *actor.Context) error {
	m.started.Store(true)
	return m.inner.PreStart(ctx)
}

func (m *c45Mon) PostStop(ctx *actor.Context) error {
	m.stopped.Store(true)
	return m.inner.PostStop(ctx)
}

// TermErr passes the wrapped sink's terminal error on to the materializer's completion
// wrapper (terminalErrorActor).
func (m *c45Mon) TermErr() error {
	if tea, ok := m.inner.(terminalErrorActor); ok {
		return tea.TermErr()
	}
	return nil
}

func (m *c45Mon) note(what string) {
	if !m.wired.Load() {
		m.early.Add(1)
		m.firstEarly.CompareAndSwap(nil, what)
	}
}

func (m *c45Mon) Receive(rctx *actor.ReceiveContext) {
	switch msg := rctx.Message().(type) {
	case *stageWire:
		m.wired.Store(true)
	case *streamElement:
		m.note("streamElement")
		m.elemsIn.Add(1)
		if b, ok := msg.value.([]int); ok {
			m.sliceElems.Add(int64(len(b)))
			for {
				cur := m.maxSlice.Load()
				if int64(len(b)) <= cur || m.maxSlice.CompareAndSwap(cur, int64(len(b))) {
					break
				}
			}
		}
	case *streamRequest:
		m.note("streamRequest")
		m.reqIn.Add(msg.n)
	case *streamComplete:
		m.note("streamComplete")
		m.completeIn.Add(1)
	case *streamError:
		m.note("streamError")
	case *streamCancel:
		m.note("streamCancel")
	}
	m.inner.Receive(rctx)
}

// c45Monitored returns src with every stage actor wrapped in a c45Mon. Stages that the
// materializer fuses are replaced by a fused actor and are then not observed.
func c45Monitored(src Source[int]) (Source[int], []*c45Mon) {
	mons := make([]*c45Mon, len(src.stages))
	stages := make([]*stage, len(src.stages))
	for i, st := range src.stages {
		m := &c45Mon{}
		mons[i] = m
		cp := *st
		orig := st.actorFn
		cp.actorFn = func(cfg StageConfig) actor.Actor {
			m.inner = orig(cfg)
			return m
		}
		stages[i] = &cp
	}
	return Source[int]{stages: stages}, mons
}

// c45BatchOut records the batches a Batch+Map(hash) group handed to the hash function.
type c45BatchOut struct {
	batches atomic.Int64
	elems   atomic.Int64
	maxLen  atomic.Int64
}

func (b *c45BatchOut) rec(n int) {
	b.batches.Add(1)
	b.elems.Add(int64(n))
	for {
		cur := b.maxLen.Load()
		if int64(n) <= cur || b.maxLen.CompareAndSwap(cur, int64(n)) {
			break
		}
	}
}

// rootCause labels a failing case with what the protocol monitors saw. The labels only
// refine the signature of a violation found by the oracle; they never create one.
//   - msg-before-wire: a stage handled a stream message before its stageWire (its
//     upstream/downstream PIDs were still nil)
//   - batch-flush-skipped: a Batch stage emitted a batch larger than n, or completed while
//     still holding elements, or sits on a full window although its downstream has
//     outstanding demand (batchFlowActor.flush does nothing when downstreamDemand <= 0 and
//     nothing flushes when demand arrives)
func (c *c45Case) rootCause(o c45Outcome) (labels []string, facts []string) {
	early := int64(0)
	for i, m := range c.mons {
		if m != nil && m.started.Load() && m.early.Load() > 0 {
			early += m.early.Load()
			what, _ := m.firstEarly.Load().(string)
			facts = append(facts, fmt.Sprintf("real stage %d handled %d stream message(s) before its stageWire (first: %s)", i, m.early.Load(), what))
		}
	}
	batchBad := false
	for g := range c.Stages {
		s := &c.Stages[g]
		if s.Kind != "batchflat" && s.Kind != "batchhash" {
			continue
		}
		b := c.batchIdx[g]
		if b <= 0 || b+1 >= len(c.mons) || !c.mons[b].started.Load() {
			continue
		}
		bm := c.mons[b]
		in, demand, completed := bm.elemsIn.Load(), bm.reqIn.Load(), bm.completeIn.Load() > 0
		var outBatches, outElems, maxLen int64
		if s.Kind == "batchhash" {
			ob := c.batchOut[g]
			outBatches, outElems, maxLen = ob.batches.Load(), ob.elems.Load(), ob.maxLen.Load()
		} else {
			dm := c.mons[b+1]
			outBatches, outElems, maxLen = dm.elemsIn.Load(), dm.sliceElems.Load(), dm.maxSlice.Load()
		}
		var why []string
		if maxLen > int64(s.N) {
			why = append(why, "emitted a batch larger than n")
		}
		if o.Done && o.Err == nil && completed && in > outElems {
			why = append(why, "completed while holding elements")
		}
		alive := len(c.aliveAtVerdict) > b+1 && c.aliveAtVerdict[b] && (!c.mons[b+1].started.Load() || c.aliveAtVerdict[b+1])
		if !o.Done && alive && demand > outBatches && (in-outElems >= int64(s.N) || (completed && in > outElems)) {
			why = append(why, "holds a full window (or the tail after upstream completion) although the downstream has outstanding demand")
		}
		if len(why) > 0 {
			batchBad = true
			facts = append(facts, fmt.Sprintf("group %d Batch(%d): elements in=%d, batches out=%d carrying %d elements, largest batch=%d, demand received=%d, upstream completed=%v: %s", g, s.N, in, outBatches, outElems, maxLen, demand, completed, strings.Join(why, "; ")))
		}
	}
	if early == 0 {
		// a stage the monitors cannot see (fused) that handled a stream message before
		// its stageWire calls Tell(nil, ...): the runtime logs that stage's failure
		if v, ok := c45Logs.Load(c.sysName); ok {
			if hits := v.(*c45Logger).matching("nil pointer dereference", "invalid memory address"); len(hits) > 0 {
				early = int64(len(hits))
				facts = append(facts, fmt.Sprintf("the runtime logged %d stage failure(s) with a nil dereference (a stage handled a stream message before its stageWire): %s", len(hits), hits[0]))
			}
		}
	}
	if early > 0 {
		labels = append(labels, "msg-before-wire")
	}
	if batchBad {
		labels = append(labels, "batch-flush-skipped")
	}
	return labels, facts
}

// c45Outcome is what was observed for one run.
type c45Outcome struct {
	Got      []int
	Err      error
	Done     bool
	Late     int64 // deliveries observed after Done
	Stuck    string
	StuckMode string // spinning | quiescent
	Leak      bool   // the actor system is left running (quiescent stuck stream)
	Slow     string
	Elapsed  time.Duration
	RunErr   error
	Consumer bool // the chan consumer saw the channel closed
}

var c45Watchdog = 8 * time.Second

// c45ProcessedCounts samples the processed-message counters of the stream's actors.
func c45ProcessedCounts(h StreamHandle) ([]int, []bool) {
	impl, ok := h.(*streamHandleImpl)
	if !ok {
		return nil, nil
	}
	var counts []int
	var running []bool
	for _, pid := range impl.stageActors {
		counts = append(counts, pid.ProcessedCount())
		running = append(running, pid.IsRunning())
	}
	return counts, running
}

// c45CPU is the CPU time (user+system) the process has used so far.
func c45CPU() time.Duration {
	var ru syscall.Rusage
	_ = syscall.Getrusage(syscall.RUSAGE_SELF, &ru)
	return time.Duration(ru.Utime.Nano() + ru.Stime.Nano())
}

// c45BlockedInPut counts the goroutines that are inside the blocking put of a bounded
// mailbox's ring buffer.
func c45BlockedInPut() int {
	buf := make([]byte, 8<<20)
	n := runtime.Stack(buf, true)
	return strings.Count(string(buf[:n]), "(*RingBuffer).put(")
}

// c45Settle waits (bounded) until no actor of the system processes messages any more, so
// that stopping the system does not tear down stages that are still winding down (the
// upstream part of a failed stream).
func c45Settle(sys actor.ActorSystem) {
	sample := func() (int, int) {
		pids, err := sys.Actors(context.Background(), time.Second)
		if err != nil {
			return -1, -1
		}
		sum := 0
		for _, p := range pids {
			sum += p.ProcessedCount()
		}
		return len(pids), sum
	}
	n1, s1 := sample()
	for i := 0; i < 100; i++ {
		time.Sleep(30 * time.Millisecond)
		n2, s2 := sample()
		if n1 == n2 && s1 == s2 {
			return
		}
		n1, s1 = n2, s2
	}
}

var c45DumpOnce sync.Once

// c45DumpStacks writes all goroutine stacks to the batch log, once per process.
func c45DumpStacks() {
	c45DumpOnce.Do(func() {
		buf := make([]byte, 8<<20)
		n := runtime.Stack(buf, true)
		fmt.Fprintf(os.Stderr, "c45: goroutine dump at first watchdog\n%s\n", buf[:n])
	})
}

// c45Await waits for Done. When the watchdog fires it decides structurally whether the
// stream is stuck: as long as some stage actor still processes messages it keeps
// waiting (slow is not wrong); when no stage actor processed a single message over a
// further 10 s window while the sink actor is still alive, the stream is stuck.
func c45Await(h StreamHandle, o *c45Outcome) {
	select {
	case <-h.Done():
		o.Done = true
		return
	case <-time.After(c45Watchdog):
	}
	deadline := time.Now().Add(10 * time.Minute)
	c1, r1 := c45ProcessedCounts(h)
	quiet := 0
	cpu0, t0 := c45CPU(), time.Now()
	for time.Now().Before(deadline) {
		select {
		case <-h.Done():
			o.Done = true
			return
		case <-time.After(1500 * time.Millisecond):
		}
		c2, r2 := c45ProcessedCounts(h)
		same := len(c1) > 0 && len(c1) == len(c2)
		for i := range c1 {
			if !same || c1[i] != c2[i] || r1[i] != r2[i] {
				same = false
				break
			}
		}
		if same {
			quiet++
		} else {
			quiet = 0
			cpu0, t0 = c45CPU(), time.Now()
		}
		c1, r1 = c2, r2
		if quiet >= 5 && r2[len(r2)-1] {
			c45DumpStacks()
			burn := float64(c45CPU()-cpu0) / float64(time.Since(t0))
			putNote := ""
			o.StuckMode = "quiescent"
			if burn > 0.5 {
				o.StuckMode = "spinning" // nothing is processed and yet the process burns CPU
			}
			// dispatcher workers (or other senders) spinning in the blocking Enqueue of a
			// full BoundedMailbox show up in the goroutine stacks
			if n := c45BlockedInPut(); n > 0 {
				o.StuckMode = "senders-blocked-on-full-mailbox"
				putNote = fmt.Sprintf("; %d goroutine(s) inside RingBuffer.put with GOMAXPROCS=%d", n, runtime.GOMAXPROCS(0))
			}
			o.Stuck = fmt.Sprintf("no stage actor processed a message for 10 s after a %s watchdog while the sink actor is alive; processed=%v running=%v; process CPU over that window: %.2f cores%s", c45Watchdog, c2, r2, burn, putNote)
			return
		}
	}
	c45DumpStacks()
	o.Slow = fmt.Sprintf("not done after 10 min; processed=%v running=%v", c1, r1)
}

// run materializes and runs the case once.
func (c *c45Case) run(sys actor.ActorSystem) c45Outcome {
	var o c45Outcome
	c.sysName = sys.Name()
	stop := make(chan struct{})
	defer close(stop)
	src := c.source(stop)
	for i := range c.Stages {
		src = c.attach(src, i)
	}
	src, c.mons = c45Monitored(src)
	var mu sync.Mutex
	var got []int
	var doneSeen atomic.Bool
	var late atomic.Int64
	var collector *Collector[int]
	var fold *FoldResult[[]int]
	var consumerDone chan struct{}
	var sink Sink[int]
	switch c.Sink {
	case "collect":
		collector, sink = Collect[int]()
	case "fold":
		fold, sink = Fold([]int(nil), func(acc []int, x int) []int {
			if doneSeen.Load() {
				late.Add(1)
			}
			return append(acc, x)
		})
	case "chan":
		ch := make(chan int, c.ChanCap)
		sink = Chan(ch)
		consumerDone = make(chan struct{})
		go func() {
			defer close(consumerDone)
			i := 0
			for v := range ch {
				i++
				c.Pace.dwell(i)
				mu.Lock()
				got = append(got, v)
				mu.Unlock()
			}
		}()
	default:
		i := 0
		sink = ForEach(func(x int) {
			if doneSeen.Load() {
				late.Add(1)
			}
			i++
			c.Pace.dwell(i)
			mu.Lock()
			got = append(got, x)
			mu.Unlock()
		})
	}
	{ // the sink actor is observed as well
		m := &c45Mon{}
		cp := *sink.desc
		orig := sink.desc.actorFn
		cp.actorFn = func(cfg StageConfig) actor.Actor {
			m.inner = orig(cfg)
			return m
		}
		sink = Sink[int]{desc: &cp}
		c.mons = append(c.mons, m)
	}
	mode := []FusionMode{FuseStateless, FuseNone, FuseAggressive}[c.Fusion]
	t0 := time.Now()
	h, err := src.To(sink).WithFusion(mode).Run(context.Background(), sys)
	if err != nil {
		o.RunErr = err
		return o
	}
	c45Await(h, &o)
	o.Elapsed = time.Since(t0)
	if !o.Done {
		// remember which stage actors were still alive when the verdict was taken
		c.aliveAtVerdict = make([]bool, len(c.mons))
		for i, m := range c.mons {
			c.aliveAtVerdict[i] = m.started.Load() && !m.stopped.Load()
		}
		// a quiescent stuck stream is left alone (tearing it down concurrently with a
		// blocked sink only adds unrelated shutdown races); a spinning one must be stopped
		if o.StuckMode == "quiescent" {
			o.Leak = true
		} else {
			h.Abort()
		}
		return o
	}
	doneSeen.Store(true)
	o.Err = h.Err()
	switch c.Sink {
	case "collect":
		o.Got = collector.Items()
	case "fold":
		o.Got = append([]int(nil), fold.Value()...)
	case "chan":
		select {
		case <-consumerDone:
			o.Consumer = true
		case <-time.After(c45Watchdog):
			o.Slow = "chan sink: channel not closed although the handle is done"
		}
		mu.Lock()
		o.Got = append([]int(nil), got...)
		mu.Unlock()
	default:
		mu.Lock()
		o.Got = append([]int(nil), got...)
		mu.Unlock()
	}
	// deliveries after Done: give the runtime a moment, then look again
	runtime.Gosched()
	o.Late = late.Load()
	if c.Sink == "collect" {
		if again := collector.Items(); len(again) != len(o.Got) {
			o.Late += int64(len(again) - len(o.Got))
		}
	} else if c.Sink != "fold" {
		mu.Lock()
		if len(got) != len(o.Got) {
			o.Late += int64(len(got) - len(o.Got))
		}
		mu.Unlock()
	}
	return o
}

func c45Counts(xs []int) map[int]int {
	m := make(map[int]int, len(xs))
	for _, x := range xs {
		m[x]++
	}
	return m
}

func c45EqualSeq(a, b []int) bool {
	if len(a) != len(b) {
		return false
	}
	for i := range a {
		if a[i] != b[i] {
			return false
		}
	}
	return true
}

// c45Diff classifies got against want. sub: got may be a prefix (ordered) or a
// sub-multiset (unordered) of want.
func c45Diff(got, want []int, ordered, sub bool) (class string, info map[string]any) {
	info = map[string]any{"got_len": len(got), "want_len": len(want)}
	gc, wc := c45Counts(got), c45Counts(want)
	missing, extra := 0, 0
	var missEx, extraEx []int
	for v, n := range wc {
		if d := n - gc[v]; d > 0 {
			missing += d
			if len(missEx) < 8 {
				missEx = append(missEx, v)
			}
		}
	}
	for v, n := range gc {
		if d := n - wc[v]; d > 0 {
			extra += d
			if len(extraEx) < 8 {
				extraEx = append(extraEx, v)
			}
		}
	}
	sort.Ints(missEx)
	sort.Ints(extraEx)
	info["missing"], info["extra"] = missing, extra
	info["missing_examples"], info["extra_examples"] = missEx, extraEx
	firstDiff := -1
	for i := 0; i < len(got) && i < len(want); i++ {
		if got[i] != want[i] {
			firstDiff = i
			break
		}
	}
	if firstDiff < 0 && len(got) != len(want) {
		firstDiff = min(len(got), len(want))
	}
	info["first_diff_index"] = firstDiff
	if firstDiff >= 0 {
		lo := max(0, firstDiff-3)
		info["got_around"] = got[lo:min(len(got), firstDiff+6)]
		info["want_around"] = want[lo:min(len(want), firstDiff+6)]
	}
	if sub {
		if extra > 0 {
			return "elements-not-from-list-computation", info
		}
		if ordered {
			if len(got) <= len(want) && c45EqualSeq(got, want[:len(got)]) {
				return "", info
			}
			return "elements-before-error-not-a-prefix", info
		}
		return "", info
	}
	switch {
	case missing == 0 && extra == 0:
		if !ordered || c45EqualSeq(got, want) {
			return "", info
		}
		return "elements-reordered", info
	case missing > 0 && extra == 0:
		return "elements-lost", info
	case missing == 0 && extra > 0:
		return "elements-duplicated-or-invented", info
	}
	return "elements-wrong", info
}

// culprit attributes a mismatch: the stages between the last probe whose recorded input
// equals the reference input and the first probe that deviates (or the sink).
func (c *c45Case) culprit(e c45Expect) (string, []map[string]any) {
	lastOK := -1 // index of the last stage group whose recorded input was right; -1 = source
	var report []map[string]any
	firstBad := len(c.Stages)
	for i, p := range c.probes {
		if p == nil {
			continue
		}
		seen := p.snapshot()
		par := c.Stages[i].Kind == "omap" || c.Stages[i].Kind == "pmap" // called concurrently: no order
		class, info := c45Diff(seen, e.StageIn[i], e.OrderedAt[i] && !par, false)
		if class == "" {
			lastOK = i
			continue
		}
		info["stage"] = i
		info["kind"] = c.Stages[i].Kind
		info["input_deviation"] = class
		report = append(report, info)
		firstBad = i
		break
	}
	var parts []string
	if lastOK < 0 {
		parts = append(parts, "src-"+c.Source)
	}
	for i := max(lastOK, 0); i < firstBad; i++ {
		parts = append(parts, c.Stages[i].Kind)
	}
	if firstBad == len(c.Stages) {
		parts = append(parts, "sink-"+c.Sink)
	}
	return strings.Join(parts, ">"), report
}

func c45Trunc(xs []int, n int) []int {
	if len(xs) > n {
		return xs[:n]
	}
	return xs
}

// judge compares one outcome with the reference and records violations.
func (c *c45Case) judge(r *verifrt.Run, o c45Outcome, e c45Expect) (bad bool) {
	detail := func(extra map[string]any) map[string]any {
		d := map[string]any{"case": c.describe(), "case_seed": strconv.FormatInt(c.Seed, 10), "input_head": c45Trunc(c.Input, 40), "elapsed_ms": o.Elapsed.Milliseconds(), "slow_sink": c.Pace.slow()}
		if o.Err != nil {
			d["err"] = o.Err.Error()
		}
		for k, v := range extra {
			d[k] = v
		}
		return d
	}
	kinds := strings.Join(c45Uniq(c.kinds()), "+")
	labels, facts := c.rootCause(o)
	cause := strings.Join(labels, "+")
	// where: the root-cause labels of the protocol monitors when there are any, the
	// given location otherwise
	where := func(loc string) string {
		if cause != "" {
			return cause
		}
		return loc
	}
	baseDetail := detail
	detail = func(extra map[string]any) map[string]any {
		d := baseDetail(extra)
		if len(facts) > 0 {
			d["protocol_monitor"] = facts
		}
		return d
	}
	if o.RunErr != nil {
		if strings.Contains(o.RunErr.Error(), "wire stage") && strings.Contains(o.RunErr.Error(), "not alive") {
			r.Violation("run-failed:wire-stage-actor-not-alive", detail(map[string]any{"run_err": o.RunErr.Error()}))
			return true
		}
		r.Violation("run-failed:"+where(kinds), detail(map[string]any{"run_err": o.RunErr.Error()}))
		return true
	}
	if o.Stuck != "" {
		var flow []string // how far the elements got: seen/expected inputs per probed stage
		for i, p := range c.probes {
			if p != nil {
				flow = append(flow, fmt.Sprintf("%d:%s saw %d of %d", i, c.Stages[i].Kind, len(p.snapshot()), len(e.StageIn[i])))
			}
		}
		var counters []string // per monitored real stage: what it received
		for i, m := range c.mons {
			if m != nil && m.started.Load() {
				counters = append(counters, fmt.Sprintf("real stage %d (%T): elements in=%d (slices carrying %d), demand received=%d, completes in=%d, stopped=%v", i, m.inner, m.elemsIn.Load(), m.sliceElems.Load(), m.reqIn.Load(), m.completeIn.Load(), m.stopped.Load()))
			}
		}
		r.Violation("stream-never-completes:"+o.StuckMode+":"+where("stages="+kinds+":sink="+c.Sink), detail(map[string]any{"stuck": o.Stuck, "progress_per_probed_stage": flow, "monitor_counters": counters}))
		return true
	}
	if !o.Done {
		r.Inconclusive("C45 watchdog without a structural verdict: %s: %s", o.Slow, c.describe())
		return true
	}
	if o.Slow != "" {
		r.Inconclusive("C45: %s: %s", o.Slow, c.describe())
	}
	if o.Late > 0 {
		r.Violation("element-delivered-after-completion:sink="+c.Sink, detail(map[string]any{"late": o.Late}))
		bad = true
	}
	resumeStage := false
	for i := range c.Stages {
		if c.Stages[i].Resume {
			resumeStage = true
		}
	}
	if e.Failed {
		switch {
		case o.Err == nil:
			class, info := c45Diff(o.Got, e.Want, e.Ordered, true)
			info["prefix_class"] = class
			r.Violation("stage-error-not-reported:"+where("stages="+kinds), detail(info))
			return true
		case !errors.Is(o.Err, error(c.sentinel)) && o.Err != error(c.sentinel):
			r.Violation("stage-error-replaced:"+where("stages="+kinds), detail(nil))
			return true
		}
		if class, info := c45Diff(o.Got, e.Want, e.Ordered, true); class != "" {
			r.Violation(class+":"+where("stages="+kinds), detail(info))
			return true
		}
		return bad
	}
	if o.Err != nil {
		if resumeStage && (errors.Is(o.Err, error(c.sentinel)) || o.Err == error(c.sentinel)) {
			r.Violation("resume-strategy-not-honoured:fusion="+[]string{"stateless", "none", "aggressive"}[c.Fusion], detail(map[string]any{"note": "TryMap(...).WithErrorStrategy(Resume) failed the stream instead of skipping the element"}))
			return true
		}
		r.Violation("unexpected-stream-error:"+where("stages="+kinds), detail(nil))
		return true
	}
	if class, info := c45Diff(o.Got, e.Want, e.Ordered, false); class != "" {
		at, rep := c.culprit(e)
		info["attribution"] = rep
		info["at"] = at
		r.Violation(class+":"+where("at="+at), detail(info))
		return true
	}
	return bad
}

func c45Uniq(xs []string) []string {
	seen := map[string]bool{}
	var out []string
	for _, x := range xs {
		if !seen[x] {
			seen[x] = true
			out = append(out, x)
		}
	}
	sort.Strings(out)
	return out
}

// c45Logger keeps the runtime's own warnings and errors (everything else is
// discarded): the supervision path logs a failing stage actor with its panic text,
// which is the only trace of a stage that the materializer fused (fused stages are
// not wrapped by a c45Mon).
type c45Logger struct {
	log.Logger
	mu    sync.Mutex
	lines []string
}

func (l *c45Logger) add(s string) {
	l.mu.Lock()
	if len(l.lines) < 200 {
		l.lines = append(l.lines, s)
	}
	l.mu.Unlock()
}
func (l *c45Logger) Warn(a ...any)             { l.add(fmt.Sprint(a...)) }
func (l *c45Logger) Warnf(f string, a ...any)  { l.add(fmt.Sprintf(f, a...)) }
func (l *c45Logger) Error(a ...any)            { l.add(fmt.Sprint(a...)) }
func (l *c45Logger) Errorf(f string, a ...any) { l.add(fmt.Sprintf(f, a...)) }
func (l *c45Logger) With(...any) log.Logger    { return l }
func (l *c45Logger) matching(subs ...string) []string {
	l.mu.Lock()
	defer l.mu.Unlock()
	var out []string
	for _, ln := range l.lines {
		for _, sub := range subs {
			if strings.Contains(ln, sub) {
				if len(ln) > 400 {
					ln = ln[:400]
				}
				out = append(out, ln)
				break
			}
		}
	}
	return out
}

// c45Logs maps an actor system (by name) to its capturing logger.
var c45Logs sync.Map

func c45NewSystem(t *testing.T) actor.ActorSystem {
	name := fmt.Sprintf("c45sys%d", time.Now().UnixNano())
	lg := &c45Logger{Logger: log.DiscardLogger}
	c45Logs.Store(name, lg)
	sys, err := actor.NewActorSystem(name, actor.WithLogger(lg), actor.WithShutdownTimeout(30*time.Second))
	if err != nil {
		t.Fatalf("NewActorSystem: %v", err)
	}
	if err := sys.Start(context.Background()); err != nil {
		t.Fatalf("system Start: %v", err)
	}
	return sys
}

func c45StopSystem(sys actor.ActorSystem) {
	ctx, cancel := context.WithTimeout(context.Background(), 60*time.Second)
	defer cancel()
	_ = sys.Stop(ctx)
}

func TestVerif_C45(t *testing.T) {
	r := verifrt.Start(t, "C45")
	defer r.Finish()
	r.Rule("case = one generated linear pipeline: source in {Of, Range+Map, FromChannel unbuffered/buffered, Unfold}, input length 0..2000 (biased to the demand-window sizes 64/160/224/256/448/512), 1-6 stage groups out of {Map, TryMap (fail-fast error or Resume on one chosen element), Filter, FlatMap (incl. bursts of 230-600 outputs), Batch(n,1h)+Flatten, Batch(n,1h)+Map(hash of the batch: batch boundaries visible), Scan, Map+Deduplicate, Buffer(n,Backpressure), OrderedParallelMap / ParallelMap (parallelism 1/2/4/16, value-derived jitter, optional panic(error))}, sink in {Collect, ForEach, Fold, Chan} with consumer pace {fast, periodic sleep, one long stall}, fusion mode {stateless, none, aggressive}, 1-4 pipelines concurrently on one actor system; oracle = reference interpreter over slices (sequence; multiset from the first ParallelMap on; prefix / sub-multiset + identical error for a failing stage), completion through Done/Err, no delivery after Done; non-trivial = at least 2 stage groups, at least 10 input elements and (a non-empty result or an expected error); distinct by pipeline text and input seed")
	r.Assume("Batch's maxWait of one hour never fires; the functions given to the stages are deterministic")
	if v := os.Getenv("C45_CASE_SEED"); v != "" {
		seed, _ := strconv.ParseInt(v, 10, 64)
		reps := 20
		if r.Batch != 0 {
			reps = 0
		}
		for k := 0; k < reps; k++ {
			runtime.GOMAXPROCS(4)
			sys := c45NewSystem(t)
			c := c45GenCase(seed)
			o := c.run(sys)
			c.judge(r, o, c.expect())
			r.Case(c.describe(), true)
			if !o.Leak {
				c45StopSystem(sys)
			}
			if !o.Done {
				break
			}
		}
		return
	}

	rng := r.Rand(45)
	n := r.N(320, 30000)
	stuck := 0
	maxStuck := r.Pick(4, 12) // each stream that never completes costs about 30 s
	for done := 0; done < n && stuck < maxStuck; {
		g := 1 // one case per actor system: clean attribution of a stuck system
		if g > n-done {
			g = n - done
		}
		// a fresh actor system per group: actors of finished streams must not
		// influence later cases
		// the dispatcher sizes its worker pool from GOMAXPROCS at system start; small
		// pools also bound what stopped-but-spinning stage actors can burn
		procs := []int{2, 4, 4, 8}[rng.Intn(4)]
		runtime.GOMAXPROCS(procs)
		r.Count(fmt.Sprintf("groups_gomaxprocs_%d", procs), 1)
		tSys := time.Now()
		sys := c45NewSystem(t)
		r.Count("system_start_ms", time.Since(tSys).Milliseconds())
		cases := make([]*c45Case, g)
		outs := make([]c45Outcome, g)
		var wg sync.WaitGroup
		for i := 0; i < g; i++ {
			cases[i] = c45GenCase(rng.Int63())
			wg.Add(1)
			go func(i int) {
				defer wg.Done()
				outs[i] = cases[i].run(sys)
			}(i)
		}
		wg.Wait()
		tSys = time.Now()
		if !outs[0].Leak {
			c45Settle(sys)
			c45StopSystem(sys)
		}
		r.Count("system_stop_ms", time.Since(tSys).Milliseconds())
		if os.Getenv("C45_DEBUG") != "" {
			for i, c := range cases {
				fmt.Fprintf(os.Stderr, "c45: g=%d elapsed=%v stop=%v got=%d %s\n", g, outs[i].Elapsed, time.Since(tSys), len(outs[i].Got), c.describe())
			}
		}
		for i, c := range cases {
			e := c.expect()
			o := outs[i]
			c.judge(r, o, e)
			if !o.Done {
				stuck++
			}
			nontrivial := len(c.Stages) >= 2 && len(c.Input) >= 10 && (len(e.Want) > 0 || e.Failed)
			r.Case(c.describe(), nontrivial)
			r.Count("elements_in", int64(len(c.Input)))
			r.Count("elements_delivered", int64(len(o.Got)))
			r.Count("stage_groups", int64(len(c.Stages)))
			for _, k := range c.kinds() {
				r.Count("stage_"+k, 1)
			}
			r.Count("source_"+c.Source, 1)
			r.Count("sink_"+c.Sink, 1)
			if c.Pace.slow() {
				r.Count("slow_consumer_cases", 1)
			}
			if e.Failed {
				r.Count("expected_error_cases", 1)
			}
			for _, m := range c.mons {
				if m != nil && m.started.Load() {
					r.Count("monitored_stage_actors", 1)
					if m.early.Load() > 0 {
						r.Count("stage_actors_that_handled_a_message_before_their_wiring", 1)
					}
				}
			}
			if !e.Ordered {
				r.Count("multiset_cases", 1)
			}
			if c.ooo.Load() > 0 {
				r.Count("parallel_cases_with_out_of_order_completion", 1)
				r.Count("out_of_order_completions", c.ooo.Load())
			}
			r.Max("max_elapsed_ms", o.Elapsed.Milliseconds())
			if done+i < 3 {
				r.Sample(map[string]any{"case": c.describe(), "want_len": len(e.Want), "got_len": len(o.Got), "expect_error": e.Failed, "elapsed_ms": o.Elapsed.Milliseconds()})
			}
		}
		done += g
	}
	if stuck >= maxStuck {
		r.Note("batch stopped early after %d streams that did not complete", stuck)
	}
}
