//go:build verif

package eventstream

import (
	"fmt"
	"sync"
	"sync/atomic"
	"testing"
	"time"

	"github.com/tochemey/goakt/v4/internal/verifrt"
)

// C20 (stream part): per-subscriber exactly-once + per-publisher order, and no
// delivery of events published after Unsubscribe/RemoveSubscriber returned.

type c20Event struct {
	Pub, N int
	Seq    int64 // global logical stamp taken before Publish is called
}

type c20Sub struct {
	sub      Subscriber
	mu       sync.Mutex
	got      map[[2]int]int
	subAt    int64 // stamp after Subscribe returned
	unsubAt  int64 // stamp after Unsubscribe/Remove returned (0 = never)
	unsubBeg int64 // stamp before Unsubscribe/Remove was called
	orderBad []string
}

func TestVerif_C20Stream(t *testing.T) {
	r := verifrt.Start(t, "C20")
	defer r.Finish()
	r.Rule("stream part: case = 2-8 publishers x 50-2000 events on one topic, 1-6 subscribers (some subscribing late, some unsubscribing or being removed mid-way), 1-3 goroutines draining each subscriber through Iterator concurrently, optional schedule noise in eventstream/*.go and internal/queue; oracle = per (subscriber,event) counter: must-deliver (published entirely inside the subscription interval) == 1, must-not (publish call started after Unsubscribe/RemoveSubscriber returned) == 0, may <= 1; per-publisher order within each draining goroutine's consecutive reads; non-trivial = at least one subscriber was drained by >1 goroutine while publishers were running; distinct by knobs+seed")
	rng := r.Rand(21)
	n := r.N(40, 1000)
	for c := 0; c < n; c++ {
		npub := 2 + rng.Intn(7)
		per := []int{50, 200, 2000}[rng.Intn(3)]
		nsub := 1 + rng.Intn(6)
		drainers := 1 + rng.Intn(3)
		noise := rng.Intn(3)
		key := fmt.Sprintf("pub=%d per=%d sub=%d drainers=%d noise=%d", npub, per, nsub, drainers, noise)
		var hot []string
		if noise > 0 {
			hot = verifrt.StartNoise(verifrt.NoiseConfig{Seed: rng.Int63(), GoschedPerMille: 30, HotSites: noise, Candidates: verifrt.SitesIn("eventstream/", "internal/queue/queue.go"), HotPerMille: 200, MinDelay: 5 * time.Microsecond, MaxDelay: 300 * time.Microsecond, Budget: 200})
		}
		var clock atomic.Int64
		es := New()
		subs := make([]*c20Sub, nsub)
		var pubDone atomic.Bool
		var dwg, pwg, cwg sync.WaitGroup
		type plan struct{ late, leave, remove bool }
		plans := make([]plan, nsub)
		for i := range subs {
			plans[i] = plan{late: rng.Intn(4) == 0, leave: rng.Intn(3) == 0, remove: rng.Intn(2) == 0}
			s := &c20Sub{sub: es.AddSubscriber(), got: map[[2]int]int{}}
			subs[i] = s
			if !plans[i].late {
				es.Subscribe(s.sub, "t")
				s.subAt = clock.Add(1)
			}
		}
		// drainers
		for _, s := range subs {
			for d := 0; d < drainers; d++ {
				dwg.Add(1)
				go func(s *c20Sub) {
					defer dwg.Done()
					last := map[int]int{}
					for {
						done := pubDone.Load()
						cnt := 0
						for m := range s.sub.Iterator() {
							cnt++
							ev, ok := m.Payload().(*c20Event)
							if !ok {
								continue
							}
							s.mu.Lock()
							s.got[[2]int{ev.Pub, ev.N}]++
							if drainers == 1 {
								if l, ok := last[ev.Pub]; ok && ev.N <= l {
									s.orderBad = append(s.orderBad, fmt.Sprintf("publisher %d: event %d drained after %d", ev.Pub, ev.N, l))
								}
								last[ev.Pub] = ev.N
							}
							s.mu.Unlock()
						}
						if done && cnt == 0 {
							return
						}
						if cnt == 0 {
							time.Sleep(50 * time.Microsecond)
						}
					}
				}(s)
			}
		}
		events := make([][]*c20Event, npub)
		pubRet := make([][]int64, npub)
		for p := 0; p < npub; p++ {
			events[p] = make([]*c20Event, per)
			pubRet[p] = make([]int64, per)
			pwg.Add(1)
			go func(p int) {
				defer pwg.Done()
				for i := 0; i < per; i++ {
					ev := &c20Event{Pub: p, N: i + 1, Seq: clock.Add(1)}
					events[p][i] = ev
					es.Publish("t", ev)
					pubRet[p][i] = clock.Add(1)
				}
			}(p)
		}
		// churn: late subscribe / unsubscribe / remove while publishing
		for i, s := range subs {
			cwg.Add(1)
			go func(i int, s *c20Sub) {
				defer cwg.Done()
				if plans[i].late {
					time.Sleep(time.Duration(50+i*30) * time.Microsecond)
					es.Subscribe(s.sub, "t")
					s.mu.Lock()
					s.subAt = clock.Add(1)
					s.mu.Unlock()
				}
				if plans[i].leave {
					time.Sleep(time.Duration(100+i*50) * time.Microsecond)
					beg := clock.Add(1)
					if plans[i].remove {
						es.RemoveSubscriber(s.sub)
					} else {
						es.Unsubscribe(s.sub, "t")
					}
					s.mu.Lock()
					s.unsubBeg = beg
					s.unsubAt = clock.Add(1)
					s.mu.Unlock()
				}
			}(i, s)
		}
		// redundant / foreign membership calls while publishing: a bystander that
		// never joined topic "t" unsubscribes from it (and from a topic nobody
		// uses), subscribes to another topic and is removed; none of this may
		// affect the subscribers of "t"
		bystander := es.AddSubscriber()
		cwg.Add(1)
		go func() {
			defer cwg.Done()
			for i := 0; i < 4; i++ {
				es.Unsubscribe(bystander, "t")
				es.Unsubscribe(bystander, "nobody")
				es.Subscribe(bystander, "other")
				es.Publish("other", "x")
				es.Unsubscribe(bystander, "other")
				es.Unsubscribe(bystander, "other")
				time.Sleep(time.Duration(40+i*60) * time.Microsecond)
			}
			es.RemoveSubscriber(bystander)
			es.Unsubscribe(bystander, "t")
		}()
		pwg.Wait()
		cwg.Wait()
		// subscribers that already left repeat their Unsubscribe (idempotent call)
		for i, s := range subs {
			if plans[i].leave {
				es.Unsubscribe(s.sub, "t")
			}
		}
		// one more wave of events after all membership calls: everyone still
		// subscribed must get them
		for p := 0; p < npub; p++ {
			ev := &c20Event{Pub: p, N: per + 1, Seq: clock.Add(1)}
			events[p] = append(events[p], ev)
			es.Publish("t", ev)
			pubRet[p] = append(pubRet[p], clock.Add(1))
		}
		pubDone.Store(true)
		dwg.Wait()
		if noise > 0 {
			verifrt.StopNoise()
		}
		// judge
		for si, s := range subs {
			s.mu.Lock()
			for p := 0; p < npub; p++ {
				for i := 0; i < len(events[p]); i++ {
					ev := events[p][i]
					cnt := s.got[[2]int{p, i + 1}]
					ret := pubRet[p][i]
					must := s.subAt != 0 && ev.Seq > s.subAt && (s.unsubBeg == 0 || ret < s.unsubBeg)
					mustNot := s.subAt == 0 || (s.unsubAt != 0 && ev.Seq > s.unsubAt)
					switch {
					case cnt > 1:
						r.Violation("stream-event-delivered-twice", map[string]any{"case": key, "subscriber": si, "publisher": p, "event": i + 1, "count": cnt, "hot_sites": hot})
					case must && cnt != 1:
						r.Violation("stream-event-lost", map[string]any{"case": key, "subscriber": si, "publisher": p, "event": i + 1, "drainers": drainers, "hot_sites": hot})
					case mustNot && cnt != 0:
						r.Violation("stream-event-after-unsubscribe", map[string]any{"case": key, "subscriber": si, "publisher": p, "event": i + 1, "removed": plans[si].remove, "hot_sites": hot})
					}
				}
			}
			if len(s.orderBad) > 0 {
				r.Violation("stream-publisher-order", map[string]any{"case": key, "subscriber": si, "witness": s.orderBad[0], "count": len(s.orderBad), "hot_sites": hot})
			}
			s.mu.Unlock()
		}
		es.Close()
		r.Case(key+fmt.Sprint(c), drainers > 1)
		r.Count("stream_events_published", int64(npub*per))
		if c < 2 {
			r.Sample(map[string]any{"case": key, "hot_sites": hot})
		}
	}
}
