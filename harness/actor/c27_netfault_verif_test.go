//go:build verif

package actor

import (
	"context"
	"encoding/binary"
	"fmt"
	"io"
	"net"
	"strings"
	"sync"
	"sync/atomic"
	"syscall"
	"testing"
	"time"

	"google.golang.org/protobuf/reflect/protoreflect"

	"github.com/tochemey/goakt/v4/eventstream"
	inet "github.com/tochemey/goakt/v4/internal/net"
	"github.com/tochemey/goakt/v4/log"
	"github.com/tochemey/goakt/v4/remote"
	"github.com/tochemey/goakt/v4/test/data/testpb"
)

// Helpers shared by the remoting checks C27, C28 and C29 (run them together:
// VERIF_ONLY=c27,c28,c29). Two real actor systems with remoting on
// kernel-assigned loopback ports inside one process, and a frame-aware TCP
// fault proxy in front of the receiving node.

// ---------------------------------------------------------------------------
// TCP fault proxy
// ---------------------------------------------------------------------------

// Fault kinds, all keyed by the global index of a request frame (client ->
// server direction) counted from the last Arm call.
const (
	c27KillBeforeReq = "kill-before-req" // request frame is read and never forwarded; both sides reset
	c27KillMidReq    = "kill-mid-req"    // half of the request frame is forwarded, then both sides reset
	c27KillAfterReq  = "kill-after-req"  // request forwarded; the response frame is swallowed and the connection reset (ambiguous ack)
	c27KillMidResp   = "kill-mid-resp"   // request forwarded; half of the response is forwarded, then reset
)

var c27FaultKinds = []string{c27KillBeforeReq, c27KillMidReq, c27KillAfterReq, c27KillMidResp}

type c27Proxy struct {
	ln     *net.TCPListener
	target atomic.Value // string "host:port"
	port   int

	mu     sync.Mutex
	pairs  map[*c27Pair]struct{}
	faults map[int64]string
	stall  chan struct{} // non-nil while stalled; closed on resume

	reqSeen atomic.Int64 // request frames seen since Arm
	refuse  atomic.Bool
	closed  atomic.Bool

	// observations
	Accepted  atomic.Int64
	Refused   atomic.Int64
	ReqFwd    atomic.Int64
	RespFwd   atomic.Int64
	Fired     atomic.Int64
	firedMu   sync.Mutex
	firedLog  []string
	wg        sync.WaitGroup
}

type c27Pair struct {
	p      *c27Proxy
	cli    *net.TCPConn
	mu     sync.Mutex
	srv    *net.TCPConn // guarded by mu
	dead   bool         // guarded by mu
	onResp atomic.Value // string: fault to apply to the next response frame
}

func (pr *c27Pair) kill() {
	pr.mu.Lock()
	if pr.dead {
		pr.mu.Unlock()
		return
	}
	pr.dead = true
	_ = pr.cli.SetLinger(0)
	_ = pr.cli.Close()
	if pr.srv != nil {
		_ = pr.srv.Close()
	}
	pr.mu.Unlock()
	pr.p.mu.Lock()
	delete(pr.p.pairs, pr)
	pr.p.mu.Unlock()
}

// c27ListenReusePort opens a loopback listener with SO_REUSEPORT (the option the
// repository's own server sockets use), so that a port can be reserved by the
// harness, bound by the actor system, and then owned by the proxy without any
// window in which it is unbound.
func c27ListenReusePort(port int) (*net.TCPListener, error) {
	lc := net.ListenConfig{Control: func(_, _ string, c syscall.RawConn) error {
		var serr error
		if err := c.Control(func(fd uintptr) {
			serr = syscall.SetsockoptInt(int(fd), syscall.SOL_SOCKET, 0x0F /* SO_REUSEPORT */, 1)
		}); err != nil {
			return err
		}
		return serr
	}}
	l, err := lc.Listen(context.Background(), "tcp4", fmt.Sprintf("127.0.0.1:%d", port))
	if err != nil {
		return nil, err
	}
	return l.(*net.TCPListener), nil
}

func c27NewProxy(ln *net.TCPListener) *c27Proxy {
	p := &c27Proxy{ln: ln, pairs: map[*c27Pair]struct{}{}, faults: map[int64]string{}}
	p.port = ln.Addr().(*net.TCPAddr).Port
	p.target.Store("")
	p.wg.Add(1)
	go p.acceptLoop()
	return p
}

func (p *c27Proxy) SetTarget(hostport string) { p.target.Store(hostport) }
func (p *c27Proxy) Port() int                  { return p.port }

// Arm installs a fault script and restarts request-frame numbering.
func (p *c27Proxy) Arm(faults map[int64]string) {
	p.mu.Lock()
	p.faults = map[int64]string{}
	for k, v := range faults {
		p.faults[k] = v
	}
	p.reqSeen.Store(0)
	p.mu.Unlock()
	p.firedMu.Lock()
	p.firedLog = nil
	p.firedMu.Unlock()
}

// Heal removes every pending fault, refusal and stall.
func (p *c27Proxy) Heal() {
	p.mu.Lock()
	p.faults = map[int64]string{}
	p.mu.Unlock()
	p.refuse.Store(false)
	p.Resume()
}

func (p *c27Proxy) SetRefuse(on bool) { p.refuse.Store(on) }

// Stall freezes forwarding in both directions (connections are still accepted).
func (p *c27Proxy) Stall() {
	p.mu.Lock()
	if p.stall == nil {
		p.stall = make(chan struct{})
	}
	p.mu.Unlock()
}

func (p *c27Proxy) Resume() {
	p.mu.Lock()
	if p.stall != nil {
		close(p.stall)
		p.stall = nil
	}
	p.mu.Unlock()
}

// KillAll resets every open connection (the peer "crashed").
func (p *c27Proxy) KillAll() int {
	p.mu.Lock()
	ps := make([]*c27Pair, 0, len(p.pairs))
	for pr := range p.pairs {
		ps = append(ps, pr)
	}
	p.mu.Unlock()
	for _, pr := range ps {
		pr.kill()
	}
	return len(ps)
}

func (p *c27Proxy) FiredLog() []string {
	p.firedMu.Lock()
	defer p.firedMu.Unlock()
	return append([]string(nil), p.firedLog...)
}

func (p *c27Proxy) Close() {
	if !p.closed.CompareAndSwap(false, true) {
		return
	}
	_ = p.ln.Close()
	p.Resume()
	p.KillAll()
	p.wg.Wait()
}

func (p *c27Proxy) waitStall() {
	for {
		p.mu.Lock()
		ch := p.stall
		p.mu.Unlock()
		if ch == nil || p.closed.Load() {
			return
		}
		<-ch
	}
}

func (p *c27Proxy) takeFault(idx int64) string {
	p.mu.Lock()
	defer p.mu.Unlock()
	k, ok := p.faults[idx]
	if ok {
		delete(p.faults, idx)
	}
	return k
}

func (p *c27Proxy) noteFired(kind string, idx int64, size int) {
	p.Fired.Add(1)
	p.firedMu.Lock()
	if len(p.firedLog) < 64 {
		p.firedLog = append(p.firedLog, fmt.Sprintf("%s@req%d(%dB)", kind, idx, size))
	}
	p.firedMu.Unlock()
}

func (p *c27Proxy) acceptLoop() {
	defer p.wg.Done()
	for {
		c, err := p.ln.AcceptTCP()
		if err != nil {
			return
		}
		if p.closed.Load() {
			_ = c.Close()
			return
		}
		p.Accepted.Add(1)
		if p.refuse.Load() {
			p.Refused.Add(1)
			_ = c.SetLinger(0)
			_ = c.Close()
			continue
		}
		pr := &c27Pair{p: p, cli: c}
		pr.onResp.Store("")
		p.mu.Lock()
		p.pairs[pr] = struct{}{}
		p.mu.Unlock()
		p.wg.Add(1)
		go pr.run()
	}
}

func c27ReadFrame(r io.Reader) ([]byte, error) {
	var hdr [4]byte
	if _, err := io.ReadFull(r, hdr[:]); err != nil {
		return nil, err
	}
	n := binary.BigEndian.Uint32(hdr[:])
	if n < 8 || n > 64<<20 {
		return nil, fmt.Errorf("c27 proxy: implausible frame length %d", n)
	}
	buf := make([]byte, n)
	copy(buf, hdr[:])
	if _, err := io.ReadFull(r, buf[4:]); err != nil {
		return nil, err
	}
	return buf, nil
}

func (pr *c27Pair) run() {
	p := pr.p
	defer p.wg.Done()
	defer pr.kill()
	tgt, _ := p.target.Load().(string)
	if tgt == "" {
		return
	}
	d := net.Dialer{Timeout: 10 * time.Second}
	sc, err := d.Dial("tcp4", tgt)
	if err != nil {
		return
	}
	srv := sc.(*net.TCPConn)
	pr.mu.Lock()
	if pr.dead { // killed while dialing
		pr.mu.Unlock()
		_ = srv.Close()
		return
	}
	pr.srv = srv
	pr.mu.Unlock()
	p.wg.Add(1)
	go func() { // server -> client
		defer p.wg.Done()
		defer pr.kill()
		for {
			f, err := c27ReadFrame(srv)
			if err != nil {
				return
			}
			p.waitStall()
			switch k, _ := pr.onResp.Load().(string); k {
			case c27KillAfterReq:
				return
			case c27KillMidResp:
				_, _ = pr.cli.Write(f[:len(f)/2])
				return
			}
			if _, err := pr.cli.Write(f); err != nil {
				return
			}
			p.RespFwd.Add(1)
		}
	}()
	for { // client -> server
		f, err := c27ReadFrame(pr.cli)
		if err != nil {
			return
		}
		idx := p.reqSeen.Add(1) - 1
		kind := p.takeFault(idx)
		p.waitStall()
		if p.refuse.Load() {
			// an established connection during a refusal window is reset as well
			return
		}
		switch kind {
		case c27KillBeforeReq:
			p.noteFired(kind, idx, len(f))
			return
		case c27KillMidReq:
			p.noteFired(kind, idx, len(f))
			_, _ = srv.Write(f[:len(f)/2])
			return
		case c27KillAfterReq, c27KillMidResp:
			p.noteFired(kind, idx, len(f))
			pr.onResp.Store(kind)
		}
		if _, err := srv.Write(f); err != nil {
			return
		}
		p.ReqFwd.Add(1)
	}
}

// ---------------------------------------------------------------------------
// Two nodes
// ---------------------------------------------------------------------------

type c27Node struct {
	Sys   *actorSystem
	Port  int
	Proxy *c27Proxy // nil when not proxied
	Log   *c27Logger
}

// c27Logger discards everything but counts the coalesced-failure hand-off drops
// the system logs ("deadletter fan-out queue full").
type c27Logger struct {
	log.Logger
	FanoutFull atomic.Int64
	BatchFail  atomic.Int64
}

func (l *c27Logger) Warnf(format string, args ...any) {
	switch {
	case strings.HasPrefix(format, "deadletter fan-out queue full"):
		l.FanoutFull.Add(1)
	case strings.HasPrefix(format, "coalesced remote tell to"):
		l.BatchFail.Add(1)
	}
}

func (l *c27Logger) With(...any) log.Logger { return l }

// c27StartNode starts an actor system with remoting on a kernel-assigned loopback
// port. When proxied, the system's identity port is afterwards served by a fault
// proxy and the system's real listener (same handlers, same options) is moved to
// another kernel-assigned port behind it; actor addresses are unchanged.
func c27StartNode(t testing.TB, proxied bool, cfgOpts []remote.Option, sysOpts ...Option) *c27Node {
	hold, err := c27ListenReusePort(0)
	if err != nil {
		t.Fatalf("c27: reserve port: %v", err)
	}
	port := hold.Addr().(*net.TCPAddr).Port
	lg := &c27Logger{Logger: log.DiscardLogger}
	opts := append([]Option{WithRemote(remote.NewConfig("127.0.0.1", port, cfgOpts...)), WithLogger(lg)}, sysOpts...)
	sys := vfNewSystem(t, opts...)
	n := &c27Node{Sys: sys, Port: port, Log: lg}
	if !proxied {
		_ = hold.Close()
		return n
	}
	// move the real listener behind the proxy
	old := sys.remoteServer
	if old == nil {
		t.Fatalf("c27: system has no remote server")
	}
	if err := old.Shutdown(5 * time.Second); err != nil {
		t.Fatalf("c27: shutdown of the original listener: %v", err)
	}
	serverOpts := sys.protoServerOptions()
	if sys.remoteConfig.MaxFrameSize() > 0 {
		serverOpts = append(serverOpts, inet.WithProtoServerMaxFrameSize(sys.remoteConfig.MaxFrameSize()))
	}
	if sys.remoteConfig.IdleTimeout() > 0 {
		serverOpts = append(serverOpts, inet.WithProtoServerIdleTimeout(sys.remoteConfig.IdleTimeout()))
	}
	serverOpts = append(serverOpts, inet.WithProtoServerContext(context.Background()))
	serverOpts = append(serverOpts, inet.WithProtoServerPanicHandler(func(protoreflect.FullName, any) {}))
	ps, err := inet.NewProtoServer("127.0.0.1:0", serverOpts...)
	if err != nil {
		t.Fatalf("c27: new proto server: %v", err)
	}
	if err := ps.Listen(); err != nil {
		t.Fatalf("c27: listen: %v", err)
	}
	go func() { _ = ps.Serve() }()
	sys.locker.Lock()
	sys.remoteServer = ps
	sys.locker.Unlock()
	n.Proxy = c27NewProxy(hold)
	n.Proxy.SetTarget(ps.ListenAddr().String())
	return n
}

func (n *c27Node) Stop() {
	if n.Proxy != nil {
		n.Proxy.Heal()
	}
	vfStop(n.Sys)
	if n.Proxy != nil {
		n.Proxy.Close()
	}
}

// ---------------------------------------------------------------------------
// Dead-letter collector (node A's event stream)
// ---------------------------------------------------------------------------

type c27DeadLetters struct {
	sub  eventstream.Subscriber
	mu   sync.Mutex
	ids  map[string]int
	why  map[string]int // dead-letter reasons (first 8 distinct)
	n    atomic.Int64
	stop chan struct{}
	done chan struct{}
}

// c27CollectDeadLetters subscribes to the system's event stream and records the
// text of every dead-lettered *testpb.TestLog.
func c27CollectDeadLetters(t testing.TB, sys *actorSystem) *c27DeadLetters {
	sub, err := sys.Subscribe()
	if err != nil {
		t.Fatalf("c27: subscribe: %v", err)
	}
	d := &c27DeadLetters{sub: sub, ids: map[string]int{}, why: map[string]int{}, stop: make(chan struct{}), done: make(chan struct{})}
	go func() {
		defer close(d.done)
		for {
			d.drain()
			select {
			case <-d.stop:
				d.drain()
				return
			case <-time.After(500 * time.Microsecond):
			}
		}
	}()
	return d
}

func (d *c27DeadLetters) drain() {
	for m := range d.sub.Iterator() {
		dl, ok := m.Payload().(*Deadletter)
		if !ok {
			continue
		}
		if tl, ok := dl.Message().(*testpb.TestLog); ok {
			d.mu.Lock()
			d.ids[tl.GetText()]++
			if r := dl.Reason(); len(d.why) < 8 || d.why[r] > 0 {
				d.why[r]++
			}
			d.mu.Unlock()
			d.n.Add(1)
		}
	}
}

func (d *c27DeadLetters) Has(id string) bool {
	d.mu.Lock()
	defer d.mu.Unlock()
	return d.ids[id] > 0
}

func (d *c27DeadLetters) Count(id string) int {
	d.mu.Lock()
	defer d.mu.Unlock()
	return d.ids[id]
}

func (d *c27DeadLetters) Total() int64 { return d.n.Load() }

func (d *c27DeadLetters) Reasons() map[string]int {
	d.mu.Lock()
	defer d.mu.Unlock()
	out := map[string]int{}
	for k, v := range d.why {
		if len(k) > 160 {
			k = k[:160]
		}
		out[k] += v
	}
	return out
}

func (d *c27DeadLetters) Close() {
	close(d.stop)
	<-d.done
}
