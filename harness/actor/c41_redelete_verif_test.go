//go:build verif

package actor

import (
	"fmt"
	"math/rand"
	"strings"
	"sync"
	"testing"
	"time"

	"github.com/tochemey/goakt/v4/crdt"
	"github.com/tochemey/goakt/v4/internal/codec"
	"github.com/tochemey/goakt/v4/internal/internalpb"
	"github.com/tochemey/goakt/v4/internal/verifrt"
)

// C41, short-TTL part with re-deletes. The key is deleted on one replica (tombstone T0) and,
// while T0 is live, deleted again on the same or another replica (T1, sometimes T2); the
// tombstones reach the other replicas in any order, duplicated. When T0 has certainly outlived
// the TTL but the later tombstones certainly have not, every replica gets a prune tick and is
// then challenged with a local update, an old delta and a full state carrying the key.
//
// Only lower-bound reasoning about time: the harness stamps its clock BEFORE issuing a delete
// (so that tombstone's deletedAt >= stamp, it cannot expire before stamp+TTL) and AFTER a Get
// returned. Replica R's obligation lasts until (latest stamp among the deletes R performed and
// the tombstones R was handed) + TTL; a Get is judged only if the stamp taken after it is still
// earlier than that instant minus a safety margin. "T0 certainly expired" uses the stamp taken
// after the first delete was acknowledged (deletedAt <= that stamp).

const (
	c41rdTTL    = 600 * time.Millisecond
	c41rdGap    = 270 * time.Millisecond // between the first delete's ack and the re-delete
	c41rdMargin = 25 * time.Millisecond
)

type c41rdTomb struct {
	Origin int
	PB     *internalpb.CRDTTombstone
	Stamp  time.Time // harness clock before the Delete was issued
}

type c41rdDelta struct {
	Origin int
	PB     *internalpb.CRDTDelta
}

type c41rdCase struct {
	rng    *rand.Rand
	typ    string
	n      int
	c      *c41Cluster
	key    crdt.Key
	log    []string
	opn    int
	latest []time.Time // per replica: latest delete stamp it performed / was handed
	older  []bool      // per replica: was handed an older tombstone after a newer one
	known  []map[int]bool // per replica: distinct deletes it performed / tombstones it was handed
	tombs  []*c41rdTomb
	deltas []*c41rdDelta

	judgedLive, judgedLiveRedeleted, challenged, unjudged int
	olderAfterNewer, rejected                             int
	violated                                              bool
}

func (k *c41rdCase) logf(format string, a ...any) { k.log = append(k.log, fmt.Sprintf(format, a...)) }

func (k *c41rdCase) order(i int) string {
	if k.older[i] {
		return "older-after-newer"
	}
	return "in-order"
}

func (k *c41rdCase) violation(r *verifrt.Run, sig, what string, i int, after time.Time) {
	k.violated = true
	r.Violation(sig, map[string]any{
		"what": what, "type": k.typ, "replicas": k.n, "replica": i, "ttl": c41rdTTL.String(),
		"latest_tombstone_stamp_age_at_observation": after.Sub(k.latest[i]).String(),
		"tombstones_known_to_replica":               len(k.known[i]),
		"script":                                    strings.Join(k.log, " ; "),
	})
}

// live reports whether, at harness time `after`, replica i's latest tombstone certainly has
// not expired.
func (k *c41rdCase) live(i int, after time.Time) bool {
	return !k.latest[i].IsZero() && after.Before(k.latest[i].Add(c41rdTTL-c41rdMargin))
}

func (k *c41rdCase) judge(r *verifrt.Run, i int, channel string, challenge bool) {
	if k.violated || k.c.fail != "" {
		return
	}
	d, ok := k.c.get(i, k.key)
	after := time.Now()
	if !ok || k.latest[i].IsZero() {
		return
	}
	if !k.live(i, after) {
		k.unjudged++
		return
	}
	k.judgedLive++
	if len(k.known[i]) >= 2 {
		k.judgedLiveRedeleted++
		if challenge {
			k.challenged++
		}
	}
	if d != nil {
		k.violation(r, fmt.Sprintf("value-exposed-before-latest-tombstone-expired:order=%s:last=%s", k.order(i), channel),
			fmt.Sprintf("replica %d exposes %T for key %q %s after the latest delete it knows of was issued (TTL %s), last handed: %s", i, d, k.key.ID(), after.Sub(k.latest[i]), c41rdTTL, channel), i, after)
	}
}

func (k *c41rdCase) update(r *verifrt.Run, i int) {
	k.opn++
	pubs := k.c.command(i, c41Update(k.typ, k.key, fmt.Sprintf("n%d", i), k.opn))
	after := time.Now()
	if k.c.fail != "" {
		return
	}
	published := false
	for _, p := range pubs {
		if p.Delta != nil {
			k.deltas = append(k.deltas, &c41rdDelta{Origin: i, PB: p.Delta})
			published = true
		}
	}
	k.logf("upd@r%d", i)
	if k.live(i, after) {
		if published {
			k.violation(r, "update-accepted-before-latest-tombstone-expired:order="+k.order(i),
				fmt.Sprintf("replica %d published a delta for a local update of key %q %s after the latest delete it knows of was issued (TTL %s)", i, k.key.ID(), after.Sub(k.latest[i]), c41rdTTL), i, after)
			return
		}
		k.rejected++
	}
	k.judge(r, i, "update", true)
}

func (k *c41rdCase) del(r *verifrt.Run, i int) *c41rdTomb {
	stamp := time.Now()
	pubs := k.c.command(i, &crdt.Delete{Key: k.key})
	if k.c.fail != "" {
		return nil
	}
	k.latest[i] = stamp
	var tb *c41rdTomb
	for _, p := range pubs {
		if p.Tomb != nil {
			tb = &c41rdTomb{Origin: i, PB: p.Tomb, Stamp: stamp}
			k.tombs = append(k.tombs, tb)
			k.known[i][len(k.tombs)-1] = true
		}
	}
	k.logf("del@r%d(T%d)", i, len(k.tombs)-1)
	k.judge(r, i, "delete", false)
	return tb
}

func (k *c41rdCase) deliverTomb(r *verifrt.Run, idx, j int) {
	tb := k.tombs[idx]
	if tb.Origin == j {
		return
	}
	channel := "tombstone"
	if k.rng.Intn(4) == 0 {
		k.c.tell(j, &internalpb.CRDTDeltaBatch{Tombstones: []*internalpb.CRDTTombstone{c41Wire(tb.PB)}, SentAtNanos: time.Now().UnixNano()})
		channel = "tombstone-batch"
	} else {
		k.c.tell(j, c41Wire(tb.PB))
	}
	if _, ok := k.c.get(j, k.key); !ok {
		return
	}
	k.known[j][idx] = true
	if tb.Stamp.After(k.latest[j]) {
		k.latest[j] = tb.Stamp
	} else if tb.Stamp.Before(k.latest[j]) {
		k.older[j] = true
		k.olderAfterNewer++
	}
	k.logf("T%d(%s)->r%d", idx, channel, j)
	k.judge(r, j, channel, false)
}

func (k *c41rdCase) deliverDelta(r *verifrt.Run, d *c41rdDelta, j int, challenge bool) {
	channel := "delta"
	if k.rng.Intn(4) == 0 {
		k.c.tell(j, &internalpb.CRDTDeltaBatch{Deltas: []*internalpb.CRDTDelta{c41Wire(d.PB)}, SentAtNanos: time.Now().UnixNano()})
		channel = "delta-batch"
	} else {
		k.c.tell(j, c41Wire(d.PB))
	}
	k.logf("d(r%d)->r%d(%s)", d.Origin, j, channel)
	k.judge(r, j, channel, challenge)
}

// pull hands j's full state (answer to an empty digest) to i.
func (k *c41rdCase) pull(r *verifrt.Run, i, j int) {
	fs := k.c.fullStateFor(j, &internalpb.CRDTDigest{}, k.key)
	if k.c.fail != "" || fs == nil {
		return
	}
	has := false
	for _, e := range fs.GetEntries() {
		if id, _, err := codec.DecodeCRDTKey(e.GetKey()); err == nil && id == k.key.ID() {
			has = true
		}
	}
	if !has {
		return
	}
	k.c.tell(i, c41Wire(fs))
	k.logf("fullstate r%d->r%d", j, i)
	k.judge(r, i, "fullstate", true)
}

func c41rdSleepUntil(t time.Time) {
	for time.Now().Before(t) {
		time.Sleep(5 * time.Millisecond)
	}
}

func c41rdRun(t *testing.T, r *verifrt.Run, w *c41World, seed int64) *c41rdCase {
	rng := rand.New(rand.NewSource(seed))
	k := &c41rdCase{rng: rng, typ: c41Types[rng.Intn(len(c41Types))], n: 2 + rng.Intn(2)}
	k.key = c41KeyFor(k.typ, "redeleted")
	k.latest, k.older = make([]time.Time, k.n), make([]bool, k.n)
	for i := 0; i < k.n; i++ {
		k.known = append(k.known, map[int]bool{})
	}
	cfg := crdt.NewConfig(crdt.WithAntiEntropyInterval(0), crdt.WithPruneInterval(0), crdt.WithTombstoneTTL(c41rdTTL))
	k.c = c41NewCluster(t, w, k.n, cfg)
	defer k.c.stop()

	// the key exists everywhere (so that every delete publishes a tombstone)
	for i := 0; i < k.n && k.c.fail == ""; i++ {
		k.update(r, i)
	}
	for _, d := range k.deltas {
		for j := 0; j < k.n && k.c.fail == ""; j++ {
			if j != d.Origin {
				k.deliverDelta(r, d, j, false)
			}
		}
	}
	// with three replicas one of them may stay out of every delete: it keeps the value and is
	// the source of full states that carry the key
	spare := -1
	if k.n == 3 && rng.Intn(2) == 0 {
		spare = rng.Intn(k.n)
	}
	pick := func() int {
		for {
			if i := rng.Intn(k.n); i != spare {
				return i
			}
		}
	}

	// first delete
	a := pick()
	if k.del(r, a) == nil {
		return k
	}
	ack0 := time.Now() // T0.deletedAt <= ack0
	for j := 0; j < k.n && !k.violated; j++ {
		if j != spare && j != a && rng.Intn(5) != 0 {
			k.deliverTomb(r, 0, j)
		}
	}
	if rng.Intn(2) == 0 {
		k.update(r, pick())
	}

	// re-delete(s) while T0 is live
	c41rdSleepUntil(ack0.Add(c41rdGap))
	ndel := 1 + rng.Intn(2)
	for d := 0; d < ndel && !k.violated && k.c.fail == ""; d++ {
		k.del(r, pick())
	}
	// all tombstones to the non-spare replicas: any order, duplicates, T0 possibly after T1
	var plan [][2]int
	for idx := range k.tombs {
		for j := 0; j < k.n; j++ {
			if j == spare || j == k.tombs[idx].Origin {
				continue
			}
			switch {
			case idx == 0 && rng.Intn(3) == 0: // a late or duplicated T0
				plan = append(plan, [2]int{idx, j})
			case idx > 0 && rng.Intn(6) != 0:
				plan = append(plan, [2]int{idx, j})
				if rng.Intn(4) == 0 {
					plan = append(plan, [2]int{idx, j})
				}
			}
		}
	}
	rng.Shuffle(len(plan), func(x, y int) { plan[x], plan[y] = plan[y], plan[x] })
	for _, p := range plan {
		if k.violated || k.c.fail != "" {
			break
		}
		k.deliverTomb(r, p[0], p[1])
	}

	// T0 has certainly expired; the re-deletes certainly have not (judge checks that per Get)
	c41rdSleepUntil(ack0.Add(c41rdTTL + 20*time.Millisecond))
	k.logf("T0 expired")
	for _, i := range rng.Perm(k.n) {
		if i == spare || k.violated || k.c.fail != "" {
			continue
		}
		k.c.tell(i, &pruneTick{})
		k.logf("prune@r%d", i)
		k.judge(r, i, "prune", false)
		for _, ch := range rng.Perm(3) {
			if k.violated || k.c.fail != "" {
				break
			}
			switch ch {
			case 0:
				k.update(r, i)
			case 1:
				var cand []*c41rdDelta
				for _, d := range k.deltas {
					if d.Origin != i {
						cand = append(cand, d)
					}
				}
				if len(cand) > 0 {
					k.deliverDelta(r, cand[rng.Intn(len(cand))], i, true)
				}
			case 2:
				if spare >= 0 {
					k.pull(r, i, spare)
				}
			}
		}
	}
	return k
}

// c41RunRedeletes runs the short-TTL cases in parallel waves (each case mostly sleeps).
func c41RunRedeletes(t *testing.T, r *verifrt.Run) {
	w := c41NewWorld(t)
	defer w.close()
	rng := r.Rand(2)
	n := r.N(64, 6400)
	const wave = 8
	for done := 0; done < n; done += wave {
		var wg sync.WaitGroup
		for g := 0; g < wave && done+g < n; g++ {
			seed := rng.Int63()
			wg.Add(1)
			go func() {
				defer wg.Done()
				k := c41rdRun(t, r, w, seed)
				if k.c.fail != "" {
					r.Inconclusive("re-delete case (seed %d): %s; script: %s", seed, k.c.fail, strings.Join(k.log, " ; "))
					return
				}
				r.Case("redelete|"+k.typ+"|"+strings.Join(k.log, ";"), k.challenged > 0)
				r.Count("redelete_cases", 1)
				r.Count("redelete_gets_judged_under_live_tombstone", int64(k.judgedLive))
				r.Count("redelete_gets_judged_after_T0_expiry_challenges", int64(k.challenged))
				r.Count("redelete_gets_judged_on_replicas_knowing_2plus_tombstones", int64(k.judgedLiveRedeleted))
				r.Count("redelete_gets_not_judged_latest_tombstone_may_have_expired", int64(k.unjudged))
				r.Count("redelete_older_tombstone_handed_after_newer", int64(k.olderAfterNewer))
				r.Count("redelete_local_updates_rejected", int64(k.rejected))
				if k.challenged > 0 {
					r.Count("redelete_cases_with_challenge_in_window", 1)
				}
			}()
		}
		wg.Wait()
	}
}
