//go:build verif

package actor

import (
	"fmt"
	"math/rand"
	"sort"
	"strings"
	"testing"
	"time"

	"github.com/tochemey/goakt/v4/crdt"
	"github.com/tochemey/goakt/v4/internal/codec"
	"github.com/tochemey/goakt/v4/internal/ddata"
	"github.com/tochemey/goakt/v4/internal/internalpb"
	"github.com/tochemey/goakt/v4/internal/verifrt"
)

// C39 (actor-level half): 2-3 real replicatorActors behind the harness network. A script
// performs local updates through the public Update command, captures the published deltas,
// and delivers them (re-encoded) to the other replicas in an order that depends on the
// case's delivery discipline (causal / per-origin FIFO / arbitrary), with duplicates, echoes
// to the origin, cross-DC batches and digest -> full-state anti-entropy. Whenever every
// replica has received every update (tracked by the harness), each replica's value read
// through Get must equal the value an operation-level model (no use of the library's Merge)
// assigns to the set of updates: sum of increments, add-wins observed-remove sets, etc.

// lww-mono and orset-own are regimes of lww / orset that stay clear of two library defects found on
// the unchanged tree (see selftest/C39b.md), so that the replicator paths of these two types
// keep a clean baseline: lww-mono = timestamps increase in real-time order over all replicas
// (no local Set below an already merged timestamp); orset-own = replica i only ever adds its
// own element e<i> (any replica removes any element), so a delta's clock never claims dots of
// other elements.
var c39bTypes = []string{"gcounter", "pncounter", "flag", "lww", "lww-mono", "orset", "orset-own", "mvreg", "ormap"}

// c39bBase maps a regime to the CRDT type it runs on.
func c39bBase(typ string) string {
	switch typ {
	case "lww-mono":
		return "lww"
	case "orset-own":
		return "orset"
	}
	return typ
}
var c39bModes = []string{"causal", "fifo", "any"}
var c39bAEs = []string{"none", "none", "mixed", "only"}
var c39bElems = []string{"a", "b", "c"}

type c39bOp struct {
	ID     int
	Rep    int
	Kind   string // inc dec enable set add rem mset mrem
	Elem   string
	Amt    uint64
	TS     int64
	Val    string
	Covers uint64 // op ids whose effect this op removes (observed at Rep when it ran)
	Msg    int    // index of the captured delta, -1 when the update published nothing
}

type c39bMsg struct {
	Op      int
	Origin  int
	PB      *internalpb.CRDTDelta
	Carry   uint64 // updates whose effect this delta carries (harness knowledge tracking)
	Deps    uint64 // updates the origin had seen when it produced the delta
	Sent    []int  // deliveries per target
	Dropped []bool // never delivered to that target (lossy pub/sub; anti-entropy must repair)
}

type c39bSpec struct {
	Typ    string
	N      int
	Mode   string
	AE     string
	Rounds int
	OpsPer int
	DupPM  int
}

func (s c39bSpec) String() string {
	return fmt.Sprintf("type=%s n=%d delivery=%s ae=%s rounds=%d ops/round=%d dup=%d", s.Typ, s.N, s.Mode, s.AE, s.Rounds, s.OpsPer, s.DupPM)
}

type c39bCase struct {
	spec c39bSpec
	rng  *rand.Rand
	c    *c39bCluster
	key  crdt.Key
	ops  []*c39bOp
	msgs []*c39bMsg
	seen []uint64 // per replica: updates whose effect the replica must contain
	all  uint64   // updates that published a delta
	log  []string
	tot  []map[string]uint64 // ormap: per replica running nested total per map key
	skew []int64

	deliveries, dups, reorders, echoes, batches, direct int
	noncausal                                            int
	pulls, pullStates, drops, syncs, origins             int
	violated                                             bool
}

func c39bBit(i int) uint64 { return 1 << uint(i) }

func c39bKeyFor(typ, id string) crdt.Key {
	switch c39bBase(typ) {
	case "gcounter":
		return crdt.GCounterKey(id)
	case "pncounter":
		return crdt.PNCounterKey(id)
	case "flag":
		return crdt.FlagKey(id)
	case "lww":
		return crdt.LWWRegisterKey(id)
	case "orset":
		return crdt.ORSetKey(id)
	case "mvreg":
		return crdt.MVRegisterKey(id)
	case "ormap":
		return crdt.ORMapKey(id)
	}
	panic("type " + typ)
}

func c39bInitial(typ string) crdt.ReplicatedData {
	switch c39bBase(typ) {
	case "gcounter":
		return crdt.NewGCounter()
	case "pncounter":
		return crdt.NewPNCounter()
	case "flag":
		return crdt.NewFlag()
	case "lww":
		return crdt.NewLWWRegister()
	case "orset":
		return crdt.NewORSet()
	case "mvreg":
		return crdt.NewMVRegister()
	case "ormap":
		return crdt.NewORMap()
	}
	panic("type " + typ)
}

// fullClone says whether the type's Delta() is a copy of the whole state (so a delta carries
// everything its origin had seen) or only the change of the update itself.
func c39bFullClone(typ string) bool {
	switch c39bBase(typ) {
	case "flag", "lww", "mvreg", "ormap":
		return true
	}
	return false
}

func (k *c39bCase) logf(format string, a ...any) { k.log = append(k.log, fmt.Sprintf(format, a...)) }

// doOp performs one generated local update at a random replica.
func (k *c39bCase) doOp() {
	i := k.rng.Intn(k.spec.N)
	node := fmt.Sprintf("n%d", i)
	op := &c39bOp{ID: len(k.ops), Rep: i, Msg: -1}
	var modify func(cur crdt.ReplicatedData) crdt.ReplicatedData
	switch c39bBase(k.spec.Typ) {
	case "gcounter":
		op.Kind, op.Amt = "inc", uint64(1+k.rng.Intn(5))
		amt := op.Amt
		modify = func(cur crdt.ReplicatedData) crdt.ReplicatedData { return cur.(*crdt.GCounter).Increment(node, amt) }
	case "pncounter":
		op.Kind, op.Amt = "inc", uint64(1+k.rng.Intn(5))
		if k.rng.Intn(3) == 0 {
			op.Kind = "dec"
		}
		amt, dec := op.Amt, op.Kind == "dec"
		modify = func(cur crdt.ReplicatedData) crdt.ReplicatedData {
			if dec {
				return cur.(*crdt.PNCounter).Decrement(node, amt)
			}
			return cur.(*crdt.PNCounter).Increment(node, amt)
		}
	case "flag":
		op.Kind = "enable"
		modify = func(cur crdt.ReplicatedData) crdt.ReplicatedData { return cur.(*crdt.Flag).Enable() }
	case "lww":
		op.Kind = "set"
		// per-node monotone clocks that are skewed against each other (what time.Now() on
		// different machines gives); unique by construction
		if len(k.skew) == 0 {
			for n := 0; n < k.spec.N; n++ {
				k.skew = append(k.skew, int64(k.rng.Intn(120)-60))
			}
		}
		op.TS = (1_000_000+10*int64(op.ID)+k.skew[i])*4 + int64(i)
		if k.spec.Typ == "lww-mono" {
			op.TS = (1_000_000+10*int64(op.ID))*4 + int64(i)
		}
		op.Val = fmt.Sprintf("v%d", op.ID)
		val, ts := op.Val, op.TS
		modify = func(cur crdt.ReplicatedData) crdt.ReplicatedData {
			return cur.(*crdt.LWWRegister).Set(val, time.Unix(0, ts), node)
		}
	case "orset":
		op.Kind, op.Elem = "add", c39bElems[k.rng.Intn(len(c39bElems))]
		if k.rng.Intn(3) == 0 {
			op.Kind = "rem"
		}
		if k.spec.Typ == "orset-own" {
			op.Elem = fmt.Sprintf("e%d", k.rng.Intn(k.spec.N))
			if op.Kind == "add" {
				op.Elem = fmt.Sprintf("e%d", i)
			}
		}
		elem := op.Elem
		if op.Kind == "rem" {
			for _, o := range k.ops {
				if o.Kind == "add" && o.Elem == elem && k.seen[i]&c39bBit(o.ID) != 0 {
					op.Covers |= c39bBit(o.ID)
				}
			}
			modify = func(cur crdt.ReplicatedData) crdt.ReplicatedData { return cur.(*crdt.ORSet).Remove(elem) }
		} else {
			modify = func(cur crdt.ReplicatedData) crdt.ReplicatedData { return cur.(*crdt.ORSet).Add(node, elem) }
		}
	case "mvreg":
		op.Kind, op.Val = "set", fmt.Sprintf("v%d", op.ID)
		for _, o := range k.ops {
			if k.seen[i]&c39bBit(o.ID) != 0 {
				op.Covers |= c39bBit(o.ID)
			}
		}
		val := op.Val
		modify = func(cur crdt.ReplicatedData) crdt.ReplicatedData { return cur.(*crdt.MVRegister).Set(node, val) }
	case "ormap":
		op.Kind, op.Elem = "mset", c39bElems[k.rng.Intn(len(c39bElems))]
		if k.rng.Intn(4) == 0 {
			op.Kind = "mrem"
		}
		elem := op.Elem
		if op.Kind == "mrem" {
			for _, o := range k.ops {
				if o.Kind == "mset" && o.Elem == elem && k.seen[i]&c39bBit(o.ID) != 0 {
					op.Covers |= c39bBit(o.ID)
				}
			}
			modify = func(cur crdt.ReplicatedData) crdt.ReplicatedData { return cur.(*crdt.ORMap).Remove(elem) }
		} else {
			op.Amt = uint64(1 + k.rng.Intn(3))
			k.tot[i][elem] += op.Amt
			total := k.tot[i][elem]
			modify = func(cur crdt.ReplicatedData) crdt.ReplicatedData {
				return cur.(*crdt.ORMap).Set(node, elem, crdt.NewGCounter().Increment(node, total))
			}
		}
	}
	before := k.seen[i]
	pubs := k.c.command(i, &crdt.Update{Key: k.key, Initial: c39bInitial(k.spec.Typ), Modify: modify})
	if k.c.fail != "" {
		return
	}
	k.ops = append(k.ops, op)
	k.seen[i] |= c39bBit(op.ID)
	for _, p := range pubs {
		if p.Delta == nil || op.Msg >= 0 {
			k.c.fail = fmt.Sprintf("update published %d messages (tombstone=%v)", len(pubs), p.Tomb != nil)
			return
		}
		m := &c39bMsg{Op: op.ID, Origin: i, PB: p.Delta, Sent: make([]int, k.spec.N), Dropped: make([]bool, k.spec.N)}
		m.Deps = before & k.all
		m.Carry = c39bBit(op.ID)
		if c39bFullClone(k.spec.Typ) {
			m.Carry |= before
		}
		for j := 0; j < k.spec.N; j++ {
			if j != i && (k.spec.AE == "only" || (k.spec.AE == "mixed" && k.rng.Intn(10) < 3)) {
				m.Dropped[j] = true
				k.drops++
			}
		}
		op.Msg = len(k.msgs)
		k.msgs = append(k.msgs, m)
		k.all |= c39bBit(op.ID)
	}
	k.logf("u%d@r%d:%s(%s%s)%s", op.ID, i, op.Kind, op.Elem, c39bAmt(op), map[bool]string{true: "", false: "[no delta]"}[op.Msg >= 0])
}

func c39bAmt(op *c39bOp) string {
	switch {
	case op.Kind == "set" && op.TS != 0:
		return fmt.Sprintf("%s,ts=%d", op.Val, op.TS)
	case op.Kind == "set":
		return op.Val
	case op.Amt != 0 && op.Elem != "":
		return fmt.Sprintf(",+%d", op.Amt)
	case op.Amt != 0:
		return fmt.Sprintf("%d", op.Amt)
	}
	return ""
}

// deliverable lists the undelivered, not dropped messages the delivery discipline allows
// to hand to target j now.
func (k *c39bCase) deliverable(j int) []int {
	var out []int
	firstOf := map[int]bool{}
	for idx, m := range k.msgs {
		if m.Origin == j || m.Sent[j] > 0 || m.Dropped[j] {
			continue
		}
		switch k.spec.Mode {
		case "any":
			out = append(out, idx)
		case "fifo":
			if !firstOf[m.Origin] {
				firstOf[m.Origin] = true
				out = append(out, idx)
			}
		case "causal":
			if (k.seen[j]&k.all)&m.Deps == m.Deps {
				out = append(out, idx)
			}
		}
	}
	return out
}

// deliver hands message idx to replica j through one of the three inbound paths.
func (k *c39bCase) deliver(idx, j int, what string) {
	m := k.msgs[idx]
	if m.Origin != j && m.Sent[j] == 0 {
		for later := idx + 1; later < len(k.msgs); later++ {
			if k.msgs[later].Origin == m.Origin && k.msgs[later].Sent[j] > 0 {
				k.reorders++
				break
			}
		}
	}
	if m.Origin != j && (k.seen[j]&k.all)&m.Deps != m.Deps {
		k.noncausal++
	}
	path := "pb"
	switch r := k.rng.Intn(10); {
	case r == 0:
		// the in-process *crdtDelta message
		data, err := ddata.DecodeCRDT(c39bWire(m.PB).GetData(), ddata.NewCRDTValueSerializer())
		keyID, dt, kerr := codec.DecodeCRDTKey(m.PB.GetKey())
		if err != nil || kerr != nil {
			k.c.fail = fmt.Sprintf("harness decode of a captured delta failed: %v %v", err, kerr)
			return
		}
		k.c.tell(j, &crdtDelta{KeyID: keyID, DataType: dt, Delta: data, Origin: m.PB.GetOriginNode()})
		path = "direct"
		k.direct++
	case r == 1:
		k.c.tell(j, &internalpb.CRDTDeltaBatch{Deltas: []*internalpb.CRDTDelta{c39bWire(m.PB)}, SentAtNanos: time.Now().UnixNano()})
		path = "batch"
		k.batches++
	default:
		k.c.tell(j, c39bWire(m.PB))
	}
	if _, ok := k.c.get(j, k.key); !ok {
		return
	}
	m.Sent[j]++
	k.deliveries++
	if j != m.Origin {
		k.seen[j] |= m.Carry
	}
	k.logf("%s u%d->r%d(%s)", what, m.Op, j, path)
}

// pull runs one anti-entropy exchange: replica i's digest (its own, or an empty one as a peer
// that lost the key would send) goes to j, and j's full-state answer is delivered to i.
func (k *c39bCase) pull(i, j int, empty bool) {
	dg := &internalpb.CRDTDigest{}
	if !empty {
		if dg = k.c.digest(i); dg == nil {
			return
		}
	}
	fs := k.c.fullStateFor(j, dg, k.key)
	k.pulls++
	if k.c.fail != "" {
		return
	}
	has := false
	if fs != nil {
		k.c.tell(i, c39bWire(fs))
		if _, ok := k.c.get(i, k.key); !ok {
			return
		}
		for _, e := range fs.GetEntries() {
			if id, _, err := codec.DecodeCRDTKey(e.GetKey()); err == nil && id == k.key.ID() {
				has = true
			}
		}
	}
	if has {
		k.seen[i] |= k.seen[j]
		k.pullStates++
	}
	k.logf("pull r%d<-r%d(%s digest)%s", i, j, map[bool]string{true: "empty", false: "own"}[empty], map[bool]string{true: "", false: "[no state]"}[has])
}

func (k *c39bCase) randomStep() {
	n := k.spec.N
	switch r := k.rng.Intn(100); {
	case r < 55:
		j := k.rng.Intn(n)
		if d := k.deliverable(j); len(d) > 0 {
			k.deliver(d[k.rng.Intn(len(d))], j, "dlv")
		}
	case r < 55+k.spec.DupPM/10:
		if len(k.msgs) == 0 {
			return
		}
		idx := k.rng.Intn(len(k.msgs))
		m := k.msgs[idx]
		j := k.rng.Intn(n)
		if j == m.Origin {
			k.echoes++
			k.deliver(idx, j, "echo")
		} else if m.Sent[j] > 0 {
			k.dups++
			k.deliver(idx, j, "dup")
		}
	case r < 90:
		if k.spec.AE == "none" || n < 2 {
			return
		}
		i := k.rng.Intn(n)
		j := (i + 1 + k.rng.Intn(n-1)) % n
		k.pull(i, j, k.rng.Intn(2) == 0)
	}
}

func (k *c39bCase) allSeen() bool {
	for i := range k.seen {
		if k.seen[i]&k.all != k.all {
			return false
		}
	}
	return true
}

// sync brings every replica to "has received every update": all remaining deliverable
// deltas, then (when deltas were dropped) full-mesh anti-entropy with empty digests.
func (k *c39bCase) sync() bool {
	for round := 0; round < 2*k.spec.N+2 && k.c.fail == ""; round++ {
		for progressed := true; progressed && k.c.fail == ""; {
			progressed = false
			for _, j := range k.rng.Perm(k.spec.N) {
				if d := k.deliverable(j); len(d) > 0 {
					k.deliver(d[k.rng.Intn(len(d))], j, "dlv")
					progressed = true
				}
			}
		}
		if k.allSeen() {
			k.syncs++
			k.logf("sync")
			return true
		}
		for _, i := range k.rng.Perm(k.spec.N) {
			for _, j := range k.rng.Perm(k.spec.N) {
				if i != j {
					k.pull(i, j, true)
				}
			}
		}
	}
	return k.c.fail == "" && k.allSeen()
}

// expected computes the model value of the update set as canonical strings per aspect.
func (k *c39bCase) expected() map[string]string {
	out := map[string]string{}
	var covered uint64
	for _, o := range k.ops {
		covered |= o.Covers
	}
	switch c39bBase(k.spec.Typ) {
	case "gcounter", "pncounter":
		inc, dec := map[string]uint64{}, map[string]uint64{}
		for _, o := range k.ops {
			node := fmt.Sprintf("n%d", o.Rep)
			if o.Kind == "inc" {
				inc[node] += o.Amt
			} else {
				dec[node] += o.Amt
			}
		}
		out["inc"] = c39bSlots(inc)
		if k.spec.Typ == "pncounter" {
			out["dec"] = c39bSlots(dec)
		}
	case "flag":
		out["enabled"] = fmt.Sprint(len(k.ops) > 0)
	case "lww":
		var win *c39bOp
		for _, o := range k.ops {
			if win == nil || o.TS > win.TS {
				win = o
			}
		}
		if win != nil {
			out["value"] = fmt.Sprintf("%s@%d/n%d", win.Val, win.TS, win.Rep)
		} else {
			out["value"] = ""
		}
	case "orset", "ormap":
		present := map[string]bool{}
		removedEver := map[string]bool{}
		for _, o := range k.ops {
			if (o.Kind == "add" || o.Kind == "mset") && covered&c39bBit(o.ID) == 0 {
				present[o.Elem] = true
			}
			if o.Kind == "mrem" {
				removedEver[o.Elem] = true
			}
		}
		out["elements"] = c39bSet(present)
		if k.spec.Typ == "ormap" {
			vals := map[string]uint64{}
			for e := range present {
				if removedEver[e] {
					continue
				}
				for i := range k.tot {
					vals[e] += k.tot[i][e]
				}
			}
			out["stable-values"] = c39bSlots(vals)
		}
	case "mvreg":
		vals := map[string]bool{}
		for _, o := range k.ops {
			if covered&c39bBit(o.ID) == 0 {
				vals[o.Val] = true
			}
		}
		out["values"] = c39bSet(vals)
	}
	return out
}

func c39bSlots(m map[string]uint64) string {
	var ks []string
	for s, v := range m {
		if v != 0 {
			ks = append(ks, fmt.Sprintf("%s=%d", s, v))
		}
	}
	sort.Strings(ks)
	return strings.Join(ks, ",")
}

func c39bSet(m map[string]bool) string {
	var ks []string
	for s, v := range m {
		if v {
			ks = append(ks, s)
		}
	}
	sort.Strings(ks)
	return strings.Join(ks, ",")
}

// observe turns what Get returned into the same canonical aspects. A key a replica never
// stored reads as the type's empty value.
func (k *c39bCase) observe(d crdt.ReplicatedData, exp map[string]string) (map[string]string, string) {
	out := map[string]string{}
	if d == nil {
		d = c39bInitial(k.spec.Typ)
	}
	switch v := d.(type) {
	case *crdt.GCounter:
		if c39bBase(k.spec.Typ) != "gcounter" {
			return nil, fmt.Sprintf("%T", d)
		}
		out["inc"] = c39bSlots(v.State())
	case *crdt.PNCounter:
		if c39bBase(k.spec.Typ) != "pncounter" {
			return nil, fmt.Sprintf("%T", d)
		}
		inc, dec := v.State()
		out["inc"], out["dec"] = c39bSlots(inc), c39bSlots(dec)
	case *crdt.Flag:
		if c39bBase(k.spec.Typ) != "flag" {
			return nil, fmt.Sprintf("%T", d)
		}
		out["enabled"] = fmt.Sprint(v.Enabled())
	case *crdt.LWWRegister:
		if c39bBase(k.spec.Typ) != "lww" {
			return nil, fmt.Sprintf("%T", d)
		}
		if v.Value() == nil && v.Timestamp() == 0 {
			out["value"] = ""
		} else {
			out["value"] = fmt.Sprintf("%v@%d/%s", v.Value(), v.Timestamp(), v.NodeID())
		}
	case *crdt.ORSet:
		if c39bBase(k.spec.Typ) != "orset" {
			return nil, fmt.Sprintf("%T", d)
		}
		set := map[string]bool{}
		for _, e := range v.Elements() {
			set[fmt.Sprint(e)] = true
		}
		out["elements"] = c39bSet(set)
	case *crdt.MVRegister:
		if c39bBase(k.spec.Typ) != "mvreg" {
			return nil, fmt.Sprintf("%T", d)
		}
		set := map[string]bool{}
		for _, e := range v.Values() {
			set[fmt.Sprint(e)] = true
		}
		out["values"] = c39bSet(set)
	case *crdt.ORMap:
		if c39bBase(k.spec.Typ) != "ormap" {
			return nil, fmt.Sprintf("%T", d)
		}
		set := map[string]bool{}
		stable, all := map[string]uint64{}, map[string]uint64{}
		expStable := "," + exp["stable-values"]
		for _, e := range v.Keys() {
			name := fmt.Sprint(e)
			set[name] = true
			nested, ok := v.Get(e)
			val := uint64(0)
			if g, isG := nested.(*crdt.GCounter); ok && isG {
				val = g.Value()
			}
			all[name] = val
			if strings.Contains(expStable, ","+name+"=") {
				stable[name] = val
			}
		}
		out["elements"] = c39bSet(set)
		out["stable-values"] = c39bSlots(stable)
		out["all-values"] = c39bSlots(all)
	default:
		return nil, fmt.Sprintf("%T", d)
	}
	return out, ""
}

// classify names the difference between an observed and an expected aspect.
func c39bClassify(aspect, got, want string) string {
	parse := func(s string) map[string]string {
		m := map[string]string{}
		for _, f := range strings.Split(s, ",") {
			if f == "" {
				continue
			}
			if i := strings.IndexByte(f, '='); i >= 0 {
				m[f[:i]] = f[i+1:]
			} else {
				m[f] = ""
			}
		}
		return m
	}
	g, w := parse(got), parse(want)
	switch aspect {
	case "elements", "values":
		noun := map[string]string{"elements": "add", "values": "write"}[aspect]
		for e := range w {
			if _, ok := g[e]; !ok {
				return "lost-" + noun
			}
		}
		return "resurrected-" + noun
	case "inc", "dec", "stable-values":
		for s, wv := range w {
			var a, b uint64
			fmt.Sscan(g[s], &a)
			fmt.Sscan(wv, &b)
			if a < b {
				return "lost-increment"
			}
		}
		return "phantom-increment"
	case "enabled":
		if want == "true" {
			return "lost-enable"
		}
		return "phantom-enable"
	case "value":
		return "wrong-lww-winner"
	}
	return "wrong-" + aspect
}

// check compares every replica with the model; called only when all replicas have seen all updates.
func (k *c39bCase) check(r *verifrt.Run) {
	exp := k.expected()
	obs := make([]map[string]string, k.spec.N)
	for i := 0; i < k.spec.N; i++ {
		d, ok := k.c.get(i, k.key)
		if !ok {
			return
		}
		o, badType := k.observe(d, exp)
		if badType != "" {
			k.violation(r, "wrong-type", "type", fmt.Sprintf("replica %d exposes %s", i, badType), exp, obs)
			return
		}
		obs[i] = o
	}
	aspects := make([]string, 0, len(exp))
	for a := range exp {
		aspects = append(aspects, a)
	}
	sort.Strings(aspects)
	for _, a := range aspects {
		for i := range obs {
			if obs[i][a] != exp[a] {
				k.violation(r, c39bClassify(a, obs[i][a], exp[a]), a, fmt.Sprintf("replica %d: %s = %q, model of the %d updates says %q", i, a, obs[i][a], len(k.ops), exp[a]), exp, obs)
				return
			}
		}
	}
	// nested values of map keys that were removed and set again have no model value; replicas
	// that have seen the same updates must still agree on them.
	if k.spec.Typ == "ormap" {
		for i := 1; i < len(obs); i++ {
			if obs[i]["all-values"] != obs[0]["all-values"] {
				k.violation(r, "diverged-nested-value", "all-values", fmt.Sprintf("replica 0 has %q, replica %d has %q after the same updates", obs[0]["all-values"], i, obs[i]["all-values"]), exp, obs)
				return
			}
		}
	}
}

func (k *c39bCase) violation(r *verifrt.Run, kind, aspect, what string, exp map[string]string, obs []map[string]string) {
	k.violated = true
	sig := fmt.Sprintf("%s:type=%s:delivery=%s", kind, k.spec.Typ, k.spec.Mode)
	r.Violation(sig, map[string]any{
		"what": what, "aspect": aspect, "spec": k.spec.String(), "script": strings.Join(k.log, " ; "),
		"expected": exp, "observed_per_replica": obs, "replica_ids": k.c.ids,
	})
}

func c39bRunCase(t *testing.T, r *verifrt.Run, w *c39bWorld, spec c39bSpec, seed int64) *c39bCase {
	k := &c39bCase{spec: spec, rng: rand.New(rand.NewSource(seed))}
	k.key = c39bKeyFor(spec.Typ, "k")
	k.seen = make([]uint64, spec.N)
	for i := 0; i < spec.N; i++ {
		k.tot = append(k.tot, map[string]uint64{})
	}
	cfg := crdt.NewConfig(crdt.WithAntiEntropyInterval(0), crdt.WithPruneInterval(0))
	k.c = c39bNewCluster(t, w, spec.N, cfg)
	defer k.c.stop()
	for round := 0; round < spec.Rounds && k.c.fail == "" && !k.violated; round++ {
		for o := 0; o < spec.OpsPer && k.c.fail == "" && len(k.ops) < 60; o++ {
			k.doOp()
			for s := k.rng.Intn(4); s > 0 && k.c.fail == ""; s-- {
				k.randomStep()
			}
		}
		if !k.sync() {
			if k.c.fail == "" {
				k.c.fail = "harness could not bring all replicas to the full update set"
			}
			break
		}
		k.check(r)
	}
	origins := map[int]bool{}
	for _, o := range k.ops {
		origins[o.Rep] = true
	}
	k.origins = len(origins)
	return k
}

func TestVerif_C39b(t *testing.T) {
	r := verifrt.Start(t, "C39b")
	defer r.Finish()
	r.Rule("case = (CRDT type of 7 plus the regimes lww-mono / orset-own, 2-3 real replicatorActors, delivery discipline causal/per-origin-FIFO/arbitrary, anti-entropy none/mixed-with-lost-deltas/only, 1-3 rounds of 2-8 generated local updates) with captured deltas delivered re-encoded via CRDTDelta / *crdtDelta / CRDTDeltaBatch, duplicates, echoes to the origin and digest->full-state pulls; at every point where the harness knows all replicas received all updates, each replica's Get value is compared with an operation-level model (sums, add-wins observed-remove by visibility sets, LWW by timestamp); non-trivial = >=3 updates from >=2 origins and at least one duplicate, per-origin reordering, cross-origin non-causal delivery or full-state transfer happened; distinct by script text")
	r.Assume("mailbox FIFO between one sender's Tell and its following Ask (round trip used as handling confirmation); the harness is the only client, so every step is sequential")
	w := c39bNewWorld(t)
	defer w.close()
	rng := r.Rand(1)
	n := r.N(1400, 100000)
	for i := 0; i < n; i++ {
		spec := c39bSpec{
			Typ:    c39bTypes[rng.Intn(len(c39bTypes))],
			N:      2 + rng.Intn(2),
			Mode:   c39bModes[rng.Intn(len(c39bModes))],
			AE:     c39bAEs[rng.Intn(len(c39bAEs))],
			Rounds: 1 + rng.Intn(3),
			OpsPer: 2 + rng.Intn(7),
			DupPM:  []int{0, 100, 200}[rng.Intn(3)],
		}
		seed := rng.Int63()
		k := c39bRunCase(t, r, w, spec, seed)
		if k.c.fail != "" {
			r.Inconclusive("case %d (%s seed %d): %s; script: %s", i, spec, seed, k.c.fail, strings.Join(k.log, " ; "))
			continue
		}
		disturbed := k.dups+k.reorders+k.noncausal+k.pullStates > 0
		r.Case(spec.String()+"|"+strings.Join(k.log, ";"), len(k.ops) >= 3 && k.origins >= 2 && disturbed && k.syncs > 0)
		r.Count("updates", int64(len(k.ops)))
		r.Count("deltas_captured", int64(len(k.msgs)))
		r.Count("deliveries", int64(k.deliveries))
		r.Count("duplicates", int64(k.dups))
		r.Count("echoes_to_origin", int64(k.echoes))
		r.Count("per_origin_reorders", int64(k.reorders))
		r.Count("non_causal_deliveries", int64(k.noncausal))
		r.Count("batch_deliveries", int64(k.batches))
		r.Count("direct_crdtDelta_deliveries", int64(k.direct))
		r.Count("digest_pulls", int64(k.pulls))
		r.Count("full_states_applied", int64(k.pullStates))
		r.Count("deltas_dropped", int64(k.drops))
		r.Count("sync_points_checked", int64(k.syncs))
		r.Count("cases_"+spec.Typ, 1)
		r.Count("cases_delivery_"+spec.Mode, 1)
		if i < 4 {
			r.Sample(map[string]any{"spec": spec.String(), "script": strings.Join(k.log, " ; "), "expected": k.expected()})
		}
	}
	w.net.mu.Lock()
	unknown := append([]string(nil), w.net.unknown...)
	w.net.mu.Unlock()
	if len(unknown) > 0 {
		r.Note("network actor saw unexpected messages: %v", unknown)
	}
}
