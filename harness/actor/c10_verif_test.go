//go:build verif

package actor

import (
	"testing"

	"github.com/tochemey/goakt/v4/internal/verifrt"
)

// TestVerif_C10: per-(watcher, watchee) Terminated counter against the obligation
// derived from the order of Watch/UnWatch execution intervals and termination
// windows on one global sequence.
func TestVerif_C10(t *testing.T) {
	r := verifrt.Start(t, "C10")
	defer r.Finish()
	r.Rule("case = (termination path in {PoisonPill, Kill, PID.Stop by the parent, Kill of the parent, supervisor Stop directive after a panic, time-based passivation, ctx.Shutdown from the watchee's own handler, Restart followed by Kill}, child or top-level watchee, 1-8 watchers drawn from {parent, siblings, unrelated actors}, 1-4 Watch/UnWatch executions each from the watcher's turn or from an external goroutine, r of the watchers running their script concurrently with the termination, optional restart of a settled watcher, GOMAXPROCS, 0-2 hot noise sites in pid.go/pid_tree.go/death_watch.go) on a fresh actor system; oracle = number of Terminated(watchee) each still-running watcher received vs its obligation: exactly 1 per termination when its last execution that ended before the termination began is a Watch, exactly 0 when it is an UnWatch or it never watched, 0 or 1 when an execution overlaps the termination window (window end = stopLocker barrier after PostStop), when only the parent's implicit registration applies in the mixed script or after a watcher restart; a dedicated scenario holds a parent that never unwatches to exactly 1 after 0-3 supervised in-place restarts of the child; never a Terminated for an actor it did not watch; non-trivial = at least one watcher with an exact obligation of 1 and (an execution overlapped a termination window or another watcher has the exact obligation 0); distinct by knob tuple and seed")
	rng := r.Rand(10)
	// the parent's implicit registration across supervised in-place restarts: see c10_parent_verif_test.go
	c10RunParentImplicit(t, r, r.Rand(110), r.N(60, 1200))
	n := r.N(96, 2400)
	for i := 0; i < n; i++ {
		k := c10GenKnobs(rng, i+r.Batch*3)
		seed := rng.Int63()
		obs := c10RunCase(t, k, seed)
		r.Case(k.String()+"/"+verifrt.Hash64s(seed), obs.Exact1 > 0 && (obs.OpsOverlap > 0 || obs.Exact0 > 0))
		r.Count("watchers_judged", int64(obs.Watchers))
		r.Count("obligations_exactly_one", int64(obs.Exact1))
		r.Count("obligations_exactly_zero", int64(obs.Exact0))
		r.Count("obligations_zero_or_one", int64(obs.Open))
		r.Count("watch_ops_overlapping_termination", int64(obs.OpsOverlap))
		r.Count("terminated_received", int64(obs.Terminated))
		r.Count("noise_delays_injected", obs.Delays)
		if obs.Skipped != "" {
			r.Count("cases_skipped_watchee_unregistered_after_restart", 1)
			r.Note("skipped: %s [%s seed=%d]", obs.Skipped, k.String(), seed)
		}
		if obs.Watchdog != "" {
			r.Inconclusive("%s [%s seed=%d]", obs.Watchdog, k.String(), seed)
		}
		seen := map[string]bool{}
		for _, f := range obs.Findings {
			if seen[f.Sig] {
				continue
			}
			seen[f.Sig] = true
			r.Violation(f.Sig, map[string]any{"knobs": k.String(), "seed": seed, "finding": f.Detail, "script": obs.Script, "hot_sites": obs.HotSites})
		}
		if i < 3 {
			r.Sample(map[string]any{"knobs": k.String(), "script": obs.Script, "exact1": obs.Exact1, "exact0": obs.Exact0, "open": obs.Open, "terminated": obs.Terminated})
		}
	}
}
