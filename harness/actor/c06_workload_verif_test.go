//go:build verif

package actor

import (
	"context"
	"errors"
	"fmt"
	"math/rand"
	"runtime"
	"sort"
	"strings"
	"sync"
	"sync/atomic"
	"testing"
	"time"

	"github.com/tochemey/goakt/v4/internal/verifrt"
	"github.com/tochemey/goakt/v4/passivation"
	"github.com/tochemey/goakt/v4/supervisor"
)

// C06 workload: harness actors that log PreStart/Receive/PostStop entry and exit
// with a global sequence number and the goroutine id, an online CAS word that is
// shared by Receive and PostStop (catches an overlap the moment it happens, with
// the stack), and a case runner that issues one stop path at a random moment of
// steady traffic.

const (
	c06PreStartEnter = iota + 1
	c06PreStartExit
	c06RecvEnter
	c06RecvExit
	c06PostStopEnter
	c06PostStopExit
	c06StopCall
	c06StopRet
)

var c06KindNames = map[int]string{
	c06PreStartEnter: "PreStartEnter", c06PreStartExit: "PreStartExit",
	c06RecvEnter: "ReceiveEnter", c06RecvExit: "ReceiveExit",
	c06PostStopEnter: "PostStopEnter", c06PostStopExit: "PostStopExit",
	c06StopCall: "StopCall", c06StopRet: "StopReturn",
}

type c06Ev struct {
	Seq   int64
	Actor string
	Kind  int
	Gid   int64
	Note  string
}

func (e c06Ev) String() string {
	return fmt.Sprintf("#%d %s %s g%d %s", e.Seq, e.Actor, c06KindNames[e.Kind], e.Gid, e.Note)
}

type c06Overlap struct {
	Actor    string
	Entering string // "receive" | "poststop"
	Holder   string // "receive" | "poststop"
	EnterGid int64
	HoldGid  int64
	Seq      int64
	Stack    string
}

type c06Log struct {
	seq           atomic.Int64
	mu            sync.Mutex
	evs           []c06Ev
	overlaps      []c06Overlap
	sendersActive atomic.Int64
}

func (l *c06Log) add(actor string, kind int, gid int64, note string) int64 {
	s := l.seq.Add(1)
	l.mu.Lock()
	l.evs = append(l.evs, c06Ev{Seq: s, Actor: actor, Kind: kind, Gid: gid, Note: note})
	l.mu.Unlock()
	return s
}

func (l *c06Log) snapshot() []c06Ev {
	l.mu.Lock()
	out := make([]c06Ev, len(l.evs))
	copy(out, l.evs)
	l.mu.Unlock()
	sort.Slice(out, func(i, j int) bool { return out[i].Seq < out[j].Seq })
	return out
}

type c06Msg struct {
	// AfterSuspension: the sender's Tell call started after the harness had seen the target
	// suspended by its fault (set before the call; only meaningful on the supervisor-restart path)
	AfterSuspension bool
	N               int
	Cmd             string // "" work | "shutdown-self" | "stop-child" | "panic"
	Child           *PID
}

type c06Actor struct {
	log   *c06Log
	name  string
	dwell int // 0 none, 1 Gosched, 2 spin ~50us, 3 sleep 100us..1ms
	// word: 0 free, else gid<<2 | 1 (receive) / 2 (poststop)
	word         atomic.Int64
	handled      atomic.Int64
	postStops    atomic.Int64
	preStarts    atomic.Int64
	racedStops   atomic.Int64 // PostStop entries that found senders still active
	busyStops    atomic.Int64 // PostStop entries from another goroutine that found the word held by a Receive
	stopsThisInc atomic.Int64
	preDone      atomic.Int64
	restartDwell time.Duration // PreStart length of incarnations after the first
}

func (a *c06Actor) PreStart(*Context) error {
	gid := verifrt.GoID()
	a.log.add(a.name, c06PreStartEnter, gid, "")
	a.preStarts.Add(1)
	a.stopsThisInc.Store(0)
	// a PreStart of realistic length; a re-initialisation after a fault takes longer
	d := 30 * time.Microsecond
	if n := a.preStarts.Load(); n > 1 && a.restartDwell > 0 {
		d = a.restartDwell
	}
	t0 := time.Now()
	for time.Since(t0) < d {
		if d > time.Millisecond {
			time.Sleep(100 * time.Microsecond)
		} else {
			runtime.Gosched()
		}
	}
	a.log.add(a.name, c06PreStartExit, gid, "")
	a.preDone.Add(1)
	return nil
}

func (a *c06Actor) PostStop(*Context) error {
	gid := verifrt.GoID()
	seq := a.log.add(a.name, c06PostStopEnter, gid, "")
	a.postStops.Add(1)
	if a.log.sendersActive.Load() > 0 {
		a.racedStops.Add(1)
	}
	if n := a.stopsThisInc.Add(1); n > 1 {
		a.log.mu.Lock()
		a.log.overlaps = append(a.log.overlaps, c06Overlap{Actor: a.name, Entering: "poststop", Holder: fmt.Sprintf("poststop-number-%d-of-this-incarnation", n), EnterGid: gid, Seq: seq, Stack: verifrt.Stack()})
		a.log.mu.Unlock()
	}
	tok := gid<<2 | 2
	owned := a.word.CompareAndSwap(0, tok)
	if !owned {
		h := a.word.Load()
		if h != 0 && !(h&3 == 1 && h>>2 == gid) { // a Receive of this very goroutine is the legal nesting
			holder := "receive"
			if h&3 == 2 {
				holder = "poststop"
			} else {
				a.busyStops.Add(1)
			}
			a.log.mu.Lock()
			a.log.overlaps = append(a.log.overlaps, c06Overlap{Actor: a.name, Entering: "poststop", Holder: holder, EnterGid: gid, HoldGid: h >> 2, Seq: seq, Stack: verifrt.Stack()})
			a.log.mu.Unlock()
		}
	}
	// a PostStop of realistic length: long enough for a racing worker to show up
	t0 := time.Now()
	for time.Since(t0) < 30*time.Microsecond {
		runtime.Gosched()
	}
	if owned {
		a.word.CompareAndSwap(tok, 0)
	}
	a.log.add(a.name, c06PostStopExit, gid, "")
	return nil
}

func (a *c06Actor) Receive(ctx *ReceiveContext) {
	gid := verifrt.GoID()
	note := ""
	m, isMsg := ctx.Message().(*c06Msg)
	if isMsg {
		note = m.Cmd
		if m.AfterSuspension {
			note += "|sent-after-suspension-seen"
		}
	} else {
		note = fmt.Sprintf("%T", ctx.Message())
	}
	seq := a.log.add(a.name, c06RecvEnter, gid, note)
	tok := gid<<2 | 1
	owned := a.word.CompareAndSwap(0, tok)
	if !owned {
		h := a.word.Load()
		if h != 0 {
			holder := "receive"
			if h&3 == 2 {
				holder = "poststop"
			}
			a.log.mu.Lock()
			a.log.overlaps = append(a.log.overlaps, c06Overlap{Actor: a.name, Entering: "receive", Holder: holder, EnterGid: gid, HoldGid: h >> 2, Seq: seq, Stack: verifrt.Stack()})
			a.log.mu.Unlock()
		}
	}
	defer func() {
		if owned {
			a.word.CompareAndSwap(tok, 0)
		}
		a.log.add(a.name, c06RecvExit, gid, "")
	}()
	if !isMsg {
		return
	}
	a.handled.Add(1)
	switch a.dwell {
	case 1:
		runtime.Gosched()
	case 2:
		t0 := time.Now()
		for time.Since(t0) < 50*time.Microsecond {
		}
	case 3:
		time.Sleep(time.Duration(100+m.N%10*100) * time.Microsecond)
	}
	switch m.Cmd {
	case "shutdown-self":
		ctx.Shutdown()
	case "stop-child":
		ctx.Stop(m.Child)
	case "panic":
		panic(errors.New("c06 injected failure"))
	}
}

// c06Finding is one automaton verdict.
type c06Finding struct {
	Kind   string
	Sub    string // provenance refinement appended to the signature
	Actor  string
	Seq    int64
	Detail string
	// BySystemStop: the PostStop involved was entered after the final system Stop
	// had been called, i.e. this actor was stopped by the system teardown and not
	// by the scenario's own termination path (which only names the target's)
	BySystemStop bool
}

// c06Judge runs the per-(actor, incarnation) automaton over the log.
func c06Judge(evs []c06Ev) []c06Finding {
	type st struct {
		inc       int
		preDone   bool
		inPre     bool
		psEnter   int // PostStop entries in this incarnation
		psOpen    bool
		psGid     int64
		psExitSeq int64
		psEnterSeq int64
		open      map[int64]int64 // gid -> RecvEnter seq of the Receive in progress on that goroutine
	}
	states := map[string]*st{}
	var out []c06Finding
	var cur c06Ev
	finalStopSeq := int64(-1)
	for _, e := range evs {
		if e.Kind == c06StopCall && e.Note == "final sys.Stop" {
			finalStopSeq = e.Seq
		}
	}
	add := func(kind, actor, format string, args ...any) {
		f := c06Finding{Kind: kind, Actor: actor, Seq: cur.Seq, Detail: fmt.Sprintf(format, args...)}
		if s := states[actor]; s != nil && finalStopSeq >= 0 && s.psEnter > 0 && s.psEnterSeq > finalStopSeq {
			f.BySystemStop = true
		}
		out = append(out, f)
	}
	for _, e := range evs {
		if e.Kind == c06StopCall || e.Kind == c06StopRet {
			continue
		}
		cur = e
		s := states[e.Actor]
		if s == nil {
			s = &st{open: map[int64]int64{}}
			states[e.Actor] = s
		}
		switch e.Kind {
		case c06PreStartEnter:
			open := s.open
			*s = st{inc: s.inc + 1, inPre: true, open: open}
		case c06PreStartExit:
			s.inPre = false
			s.preDone = true
		case c06RecvEnter:
			if s.inc == 0 || !s.preDone {
				add("receive-before-prestart-complete", e.Actor, "%v in incarnation %d (PreStart in progress=%v)", e, s.inc, s.inPre)
				if strings.Contains(e.Note, "sent-after-suspension-seen") {
					// not backlog: this message's Tell call began after the suspension had been observed and was accepted
					out[len(out)-1].Sub = "sent-during-restart"
				}
			}
			if s.psOpen && s.psGid != e.Gid {
				add("receive-overlaps-poststop", e.Actor, "%v entered while PostStop of incarnation %d runs on goroutine %d", e, s.inc, s.psGid)
			} else if s.psEnter > 0 && !s.psOpen {
				add("receive-after-poststop", e.Actor, "%v entered after PostStop of incarnation %d completed at #%d", e, s.inc, s.psExitSeq)
			}
			// two Receives at once are C01's verdict, not judged here
			s.open[e.Gid] = e.Seq
		case c06RecvExit:
			delete(s.open, e.Gid)
		case c06PostStopEnter:
			s.psEnter++
			s.psEnterSeq = e.Seq
			if s.psEnter > 1 {
				add("poststop-twice", e.Actor, "%v is PostStop entry number %d of incarnation %d", e, s.psEnter, s.inc)
			}
			for g, sq := range s.open {
				if g != e.Gid {
					add("poststop-overlaps-receive", e.Actor, "%v entered while the Receive entered at #%d is in progress on goroutine %d", e, sq, g)
				}
			}
			s.psOpen = true
			s.psGid = e.Gid
		case c06PostStopExit:
			s.psOpen = false
			s.psExitSeq = e.Seq
		}
	}
	return out
}

type c06Knobs struct {
	Path      string
	TopLevel  bool
	Dwell     int
	Senders   int
	Burst     int
	StopAfter int
	Procs     int
	Noise     int
}

func (k c06Knobs) String() string {
	return fmt.Sprintf("path=%s top=%v dwell=%d senders=%d burst=%d after=%d procs=%d noise=%d", k.Path, k.TopLevel, k.Dwell, k.Senders, k.Burst, k.StopAfter, k.Procs, k.Noise)
}

var c06Paths = []string{
	"poisonpill", "self-shutdown", "kill-external", "stop-external", "stop-parent-turn",
	"parent-poisonpill", "parent-kill", "supervisor-stop-one", "supervisor-stop-all",
	"passivate-time", "passivate-count", "restart-external", "system-stop", "double-stop", "kill-vs-passivate", "supervisor-restart",
}

// paths for which the target must be a child of the harness parent
var c06NeedsParent = map[string]bool{
	"stop-external": true, "stop-parent-turn": true, "parent-poisonpill": true, "parent-kill": true,
	"supervisor-stop-one": true, "supervisor-stop-all": true, "double-stop": true, "supervisor-restart": true,
}

func c06GenKnobs(rng *rand.Rand, i int) c06Knobs {
	k := c06Knobs{
		Path:      c06Paths[(i+rng.Intn(2)*8)%len(c06Paths)],
		TopLevel:  rng.Intn(2) == 0,
		Dwell:     rng.Intn(4),
		Senders:   1 + rng.Intn(3),
		Burst:     []int{60, 150, 400}[rng.Intn(3)],
		StopAfter: rng.Intn(25),
		Procs:     []int{2, 4, 8, 16}[rng.Intn(4)],
		Noise:     rng.Intn(3),
	}
	if c06NeedsParent[k.Path] {
		k.TopLevel = false
	}
	if k.Dwell == 3 && k.Burst > 150 {
		k.Burst = 150
	}
	return k
}

type c06Obs struct {
	Knobs                   c06Knobs
	Findings                []c06Finding
	Overlaps                []c06Overlap
	Events                  int
	Receives                int64
	PostStops               int64
	Raced                   bool // the target's PostStop began while senders were still sending
	Busy                    bool // ... and found a Receive in progress on another goroutine
	Stopped                 bool
	Watchdog                string
	HotSites                []string
	Yields                  int64
	Delays                  int64
	StopErr                 string
	SuspensionSeen          bool     // supervisor-restart: a sender or the harness saw IsSuspended() before the restart ended
	AcceptedAfterSuspension int64    // sends whose Tell call began after that and returned nil
	APIPanics               []string // panics of framework API calls recovered by the harness (not this property's verdict)
	evs                     []c06Ev
}

// window returns the log around a finding, restricted to its actor and the stop calls.
func (o *c06Obs) window(f c06Finding) []string {
	var rel []c06Ev
	at := 0
	for _, e := range o.evs {
		if e.Actor == f.Actor || e.Actor == "-" {
			if e.Seq <= f.Seq {
				at = len(rel)
			}
			rel = append(rel, e)
		}
	}
	lo, hi := at-24, at+12
	if lo < 0 {
		lo = 0
	}
	if hi > len(rel) {
		hi = len(rel)
	}
	var out []string
	for _, e := range rel[lo:hi] {
		out = append(out, e.String())
	}
	return out
}

var c06GuardMu sync.Mutex

// c06Guard runs a framework API call of a harness goroutine; a panic inside the
// framework is not this property's subject: it is recovered, recorded and left to
// the properties that own it (C09 reports a panicking stop call).
func c06Guard(obs *c06Obs, what string, fn func() error) (err error) {
	defer func() {
		if p := recover(); p != nil {
			c06GuardMu.Lock()
			obs.APIPanics = append(obs.APIPanics, fmt.Sprintf("%s: %v", what, p))
			c06GuardMu.Unlock()
			err = fmt.Errorf("panic: %v", p)
		}
	}()
	return fn()
}

func c06RunCase(t *testing.T, k c06Knobs, seed int64) c06Obs {
	obs := c06Obs{Knobs: k}
	rng := rand.New(rand.NewSource(seed))
	prev := runtime.GOMAXPROCS(k.Procs)
	defer runtime.GOMAXPROCS(prev)

	sys := vfNewSystem(t)
	stopped := false
	defer func() {
		if !stopped {
			vfStop(sys)
		}
	}()
	ctx := context.Background()
	lg := &c06Log{}

	parentAct := &c06Actor{log: lg, name: "parent"}
	targetAct := &c06Actor{log: lg, name: "target", dwell: k.Dwell}
	if k.Path == "supervisor-restart" {
		// the window in which a send could reach the re-initialising actor
		targetAct.restartDwell = time.Duration(1000+rng.Intn(2000)) * time.Microsecond
	}
	sibAct := &c06Actor{log: lg, name: "sibling", dwell: k.Dwell}

	parent, err := sys.Spawn(ctx, "parent", parentAct, WithLongLived())
	if err != nil {
		t.Fatalf("spawn parent: %v", err)
	}
	var topts []SpawnOption
	switch k.Path {
	case "passivate-time":
		topts = append(topts, WithPassivationStrategy(passivation.NewTimeBasedStrategy(time.Duration(2+rng.Intn(4))*time.Millisecond)))
	case "passivate-count", "kill-vs-passivate":
		topts = append(topts, WithPassivationStrategy(passivation.NewMessageCountBasedStrategy(k.StopAfter+1)))
	default:
		topts = append(topts, WithLongLived())
	}
	sopts := []SpawnOption{WithLongLived()}
	switch k.Path {
	case "supervisor-stop-one":
		topts = append(topts, WithSupervisor(supervisor.NewSupervisor(supervisor.WithAnyErrorDirective(supervisor.StopDirective))))
	case "supervisor-restart":
		topts = append(topts, WithSupervisor(supervisor.NewSupervisor(supervisor.WithAnyErrorDirective(supervisor.RestartDirective), supervisor.WithRetry(100, time.Hour))))
	case "supervisor-stop-all":
		sup := supervisor.NewSupervisor(supervisor.WithStrategy(supervisor.OneForAllStrategy), supervisor.WithAnyErrorDirective(supervisor.StopDirective))
		topts = append(topts, WithSupervisor(sup))
		sopts = append(sopts, WithSupervisor(sup))
	}
	var target, sibling *PID
	if k.TopLevel {
		target, err = sys.Spawn(ctx, "target", targetAct, topts...)
	} else {
		target, err = parent.SpawnChild(ctx, "target", targetAct, topts...)
	}
	if err != nil {
		t.Fatalf("spawn target: %v", err)
	}
	sibling, err = parent.SpawnChild(ctx, "sibling", sibAct, sopts...)
	if err != nil {
		t.Fatalf("spawn sibling: %v", err)
	}

	if k.Noise > 0 {
		obs.HotSites = verifrt.StartNoise(verifrt.NoiseConfig{
			Seed: seed, GoschedPerMille: 20, HotSites: k.Noise,
			Candidates:  vfNoiseSites("actor/pid.go", "pid_tree.go", "death_watch.go", "passivation_manager.go"),
			HotPerMille: 500, MinDelay: 20 * time.Microsecond, MaxDelay: 1500 * time.Microsecond, Budget: 80,
		})
	}

	// steady traffic
	var wg sync.WaitGroup
	keepGoing := k.Path == "restart-external" || k.Path == "passivate-time" || k.Path == "supervisor-restart"
	// on the restart paths the senders keep sending until the restarts are over, so that
	// traffic is present while the new incarnation's PreStart runs
	var restartsDone, suspensionSeen atomic.Bool
	var acceptedAfterSuspension atomic.Int64
	untilDone := k.Path == "restart-external" || k.Path == "supervisor-restart"
	for s := 0; s < k.Senders; s++ {
		wg.Add(1)
		lg.sendersActive.Add(1)
		srng := rand.New(rand.NewSource(seed + int64(s) + 1))
		go func(s int) {
			defer wg.Done()
			defer lg.sendersActive.Add(-1)
			for i := 0; i < k.Burst || (untilDone && !restartsDone.Load() && i < 300000); i++ {
				m := &c06Msg{N: i}
				if k.Path == "supervisor-restart" {
					if !suspensionSeen.Load() && target.IsSuspended() {
						suspensionSeen.Store(true)
					}
					m.AfterSuspension = suspensionSeen.Load()
				}
				err := Tell(ctx, target, m)
				if err == nil && m.AfterSuspension {
					acceptedAfterSuspension.Add(1)
				}
				if err != nil && untilDone {
					runtime.Gosched()
				}
				if k.Path == "supervisor-stop-all" {
					_ = Tell(ctx, sibling, &c06Msg{N: i})
				}
				if err != nil && !keepGoing {
					// the target is gone: a few more attempts exercise "Tell after stop", then leave
					if i%8 == 7 {
						return
					}
				}
				if k.Path == "passivate-time" && srng.Intn(12) == 0 {
					time.Sleep(time.Duration(1+srng.Intn(6)) * time.Millisecond)
				} else if srng.Intn(4) == 0 {
					runtime.Gosched()
				}
			}
		}(s)
	}

	// the stop, at a random moment of the traffic
	verifrt.WaitUntil(20*time.Second, func() bool { return targetAct.handled.Load() >= int64(k.StopAfter) || lg.sendersActive.Load() == 0 })
	gid := verifrt.GoID()
	stopCall := func(what string, fn func() error) {
		lg.add("-", c06StopCall, gid, what)
		err := c06Guard(&obs, what, fn)
		note := what
		if err != nil {
			note += " err=" + err.Error()
			obs.StopErr = err.Error()
		}
		lg.add("-", c06StopRet, gid, note)
	}
	wantStops := int64(1)
	subject := targetAct
	switch k.Path {
	case "poisonpill":
		stopCall("Tell(target,PoisonPill)", func() error { return Tell(ctx, target, &PoisonPill{}) })
	case "self-shutdown":
		stopCall("Tell(target,shutdown-self)", func() error { return Tell(ctx, target, &c06Msg{Cmd: "shutdown-self"}) })
	case "kill-external":
		stopCall("sys.Kill(target)", func() error { return sys.Kill(ctx, "target") })
	case "stop-external":
		stopCall("parent.Stop(target)", func() error { return parent.Stop(ctx, target) })
	case "stop-parent-turn":
		stopCall("Tell(parent,stop-child target)", func() error { return Tell(ctx, parent, &c06Msg{Cmd: "stop-child", Child: target}) })
	case "parent-poisonpill":
		stopCall("Tell(parent,PoisonPill)", func() error { return Tell(ctx, parent, &PoisonPill{}) })
	case "parent-kill":
		stopCall("sys.Kill(parent)", func() error { return sys.Kill(ctx, "parent") })
	case "supervisor-stop-one":
		stopCall("Tell(target,panic)", func() error { return Tell(ctx, target, &c06Msg{Cmd: "panic"}) })
	case "supervisor-stop-all":
		stopCall("Tell(sibling,panic)", func() error { return Tell(ctx, sibling, &c06Msg{Cmd: "panic"}) })
	case "passivate-time", "passivate-count":
		// the passivation manager is the stopper
	case "kill-vs-passivate":
		stopCall("sys.Kill(target) racing count passivation", func() error { return sys.Kill(ctx, "target") })
	case "restart-external":
		n := 1 + rng.Intn(2)
		for i := 0; i < n; i++ {
			stopCall("target.Restart", func() error { return target.Restart(ctx) })
			time.Sleep(time.Duration(rng.Intn(800)) * time.Microsecond)
		}
		wantStops = int64(n)
		restartsDone.Store(true)
	case "supervisor-restart":
		// the supervisor's Restart directive re-initialises the suspended actor (no PostStop, new PreStart)
		stopCall("Tell(target,panic) with Restart directive", func() error { return Tell(ctx, target, &c06Msg{Cmd: "panic"}) })
		wantStops = 0
		// the failing message sits behind the burst: the watchdog only runs while the
		// target makes no progress at all (a loaded machine drains the backlog slowly)
		lastHandled, lastChange := targetAct.handled.Load(), time.Now()
		for targetAct.preDone.Load() < 2 {
			if !suspensionSeen.Load() && target.IsSuspended() {
				suspensionSeen.Store(true)
			}
			if h := targetAct.handled.Load(); h != lastHandled {
				lastHandled, lastChange = h, time.Now()
			}
			if time.Since(lastChange) > 30*time.Second {
				obs.Watchdog = "no second PreStart completed within 30s without progress after a failure with Restart directive"
				break
			}
			time.Sleep(200 * time.Microsecond)
		}
		time.Sleep(time.Duration(rng.Intn(500)) * time.Microsecond)
		restartsDone.Store(true)
	case "system-stop":
		stopCall("sys.Stop", func() error {
			sctx, cancel := context.WithTimeout(ctx, 60*time.Second)
			defer cancel()
			stopped = true
			return sys.Stop(sctx)
		})
	case "double-stop":
		var dwg sync.WaitGroup
		dwg.Add(2)
		go func() {
			defer dwg.Done()
			g := verifrt.GoID()
			lg.add("-", c06StopCall, g, "sys.Kill(target) [second stopper]")
			_ = c06Guard(&obs, "sys.Kill(target) [second stopper]", func() error { return sys.Kill(ctx, "target") })
			lg.add("-", c06StopRet, g, "sys.Kill(target) [second stopper]")
		}()
		go func() {
			defer dwg.Done()
			g := verifrt.GoID()
			lg.add("-", c06StopCall, g, "target.Shutdown [third stopper]")
			_ = c06Guard(&obs, "target.Shutdown [third stopper]", func() error { return target.Shutdown(ctx) })
			lg.add("-", c06StopRet, g, "target.Shutdown [third stopper]")
		}()
		stopCall("parent.Stop(target)", func() error { return parent.Stop(ctx, target) })
		dwg.Wait()
	}

	// the stop must become visible as PostStop (watchdog only)
	ok := verifrt.WaitUntil(30*time.Second, func() bool { return subject.postStops.Load() >= wantStops })
	if !ok {
		if k.Path == "restart-external" && obs.StopErr != "" {
			// a Restart that returned an error did not necessarily stop
		} else {
			obs.Watchdog = fmt.Sprintf("no PostStop of %s within 30s after path %s (postStops=%d want=%d handled=%d running=%v)", subject.name, k.Path, subject.postStops.Load(), wantStops, subject.handled.Load(), target.IsRunning())
		}
	}
	obs.Stopped = ok
	wg.Wait()
	// let in-flight hooks end
	verifrt.WaitUntil(10*time.Second, func() bool {
		return targetAct.word.Load() == 0 && sibAct.word.Load() == 0 && parentAct.word.Load() == 0
	})
	if k.Noise > 0 {
		obs.Yields, obs.Delays = verifrt.StopNoise()
	}
	if !stopped {
		stopped = true
		lg.add("-", c06StopCall, gid, "final sys.Stop")
		vfStop(sys)
		lg.add("-", c06StopRet, gid, "final sys.Stop")
	}
	verifrt.WaitUntil(10*time.Second, func() bool {
		return targetAct.word.Load() == 0 && sibAct.word.Load() == 0 && parentAct.word.Load() == 0
	})
	time.Sleep(200 * time.Microsecond)

	evs := lg.snapshot()
	obs.Events = len(evs)
	obs.Findings = c06Judge(evs)
	lg.mu.Lock()
	obs.Overlaps = append(obs.Overlaps, lg.overlaps...)
	lg.mu.Unlock()
	obs.Receives = targetAct.handled.Load() + sibAct.handled.Load() + parentAct.handled.Load()
	obs.PostStops = targetAct.postStops.Load() + sibAct.postStops.Load() + parentAct.postStops.Load()
	obs.Raced = targetAct.racedStops.Load() > 0
	obs.SuspensionSeen = suspensionSeen.Load()
	obs.AcceptedAfterSuspension = acceptedAfterSuspension.Load()
	obs.Busy = targetAct.busyStops.Load()+sibAct.busyStops.Load() > 0
	obs.evs = evs
	return obs
}
