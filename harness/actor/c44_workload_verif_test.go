//go:build verif

package actor

import (
	"bytes"
	"context"
	"encoding/binary"
	"fmt"
	"math/rand"
	"os"
	"path/filepath"
	"sort"
	"strconv"
	"strings"
	"sync"
	"sync/atomic"
	"testing"
	"time"

	"google.golang.org/protobuf/types/known/wrapperspb"

	"github.com/tochemey/goakt/v4/internal/commands"
	"github.com/tochemey/goakt/v4/internal/verifrt"
)

// C44 scenario: one work-pulling producer endpoint and a changing set of worker
// endpoints (join, graceful stop, stop while holding an unconfirmed job, late
// join after an interval without workers), real controllers, the C42 fault
// injector on every controller-to-controller message, and a job ledger.

type c44Knobs struct {
	Jobs         int
	Window       int
	DwellUs      int
	PaceUs       int
	Initial      int // workers at start (0 = first worker joins late)
	Churn        int // number of scripted join/stop events
	Budget       int
	PerMille     int
	Weights      [4]int
	StallTicks   int64
	WatchdogSecs int
}

func (k c44Knobs) String() string {
	return fmt.Sprintf("jobs=%d w=%d dwell=%d pace=%d initial=%d churn=%d budget=%d pm=%d wt=%v", k.Jobs, k.Window, k.DwellUs, k.PaceUs, k.Initial, k.Churn, k.Budget, k.PerMille, k.Weights)
}

func c44GenKnobs(rng *rand.Rand) c44Knobs {
	k := c44Knobs{StallTicks: 75, WatchdogSecs: 150}
	k.Jobs = 40 + rng.Intn(111)
	k.Window = []int{1, 2, 4, 8, 3}[rng.Intn(5)]
	k.DwellUs = []int{0, 200, 1000, 5000}[rng.Intn(4)]
	k.PaceUs = []int{0, 0, 200, 1000}[rng.Intn(4)]
	k.Initial = []int{0, 1, 1, 2, 3}[rng.Intn(5)]
	k.Churn = 2 + rng.Intn(8)
	k.Budget = rng.Intn(26)
	if rng.Intn(10) == 0 {
		k.Budget = 0
	}
	k.PerMille = []int{20, 50, 100, 200}[rng.Intn(4)]
	switch rng.Intn(4) {
	case 0:
		k.Weights = [4]int{1, 0, 0, 0}
	case 1:
		k.Weights = [4]int{0, 1, 1, 1}
	default:
		k.Weights = [4]int{3, 2, 3, 2}
	}
	return k
}

type c44Event struct {
	At   int    // fires once this many jobs are confirmed to the producer
	Kind string // join | stop | stop-holding
}

type c44WorkerRef struct {
	name    string
	pid     *PID
	live    bool
	holding atomic.Bool // set by the endpoint when it keeps a job unconfirmed on purpose
	holdReq atomic.Bool // harness asked the endpoint to hold its next job
	ticks   atomic.Int64
}

type c44Case struct {
	k      c44Knobs
	seed   int64
	jobs   [][]byte
	faults *c42Faults
	probe  *c42Probe
	sys    *actorSystem

	prodPID *PID

	mu              sync.Mutex
	produced        int
	accepted        map[string]bool            // StoredAck sent by the producer endpoint
	handed          map[string]map[string]int  // job -> worker -> presentations
	confirmSent     map[string]map[string]bool // job -> worker -> Confirmed sent
	pconf           map[string]int             // DeliveryConfirmed per job at the producer
	pconfN          int
	workers         map[string]*c44WorkerRef
	order           []string            // worker names in join order
	heldAtStop      map[string][]string // worker -> jobs it held (handed, not yet confirmed to the producer) when it was stopped
	stopped         map[string]bool
	dupHand         int
	wpSnap          map[string]any
	viols           []c42Viol
	vsigs           map[string]bool
	events          []string
	holdCh          chan string
	termSeen        []string // names of actors whose Terminated reached the work-pulling controller
	regBeforeAttach []string // registrations seen while the registering controller was not yet in the actor tree

	pcTicks  atomic.Int64
	progress atomic.Int64
	churnAct atomic.Int64
}

func (sc *c44Case) violate(sig string, detail map[string]any) {
	if sc.vsigs[sig] {
		return
	}
	sc.vsigs[sig] = true
	sc.viols = append(sc.viols, c42Viol{Prop: "C44", Sig: sig, Detail: detail})
}

func c44JobID(i int) string { return fmt.Sprintf("job%04d", i+1) }

func (sc *c44Case) jobIndex(id string) int {
	var i int
	if _, err := fmt.Sscanf(id, "job%04d", &i); err != nil || i < 1 || i > len(sc.jobs) || c44JobID(i-1) != id {
		return -1
	}
	return i - 1
}

// c44AttachSite finds the injected yield point in front of tree.addNode's lock
// acquisition (the step that attaches a freshly started actor to the actor
// tree). A delay there is a legal schedule: the spawning goroutine is descheduled
// between starting the actor (newPID fires PostStart) and attaching it.
func c44AttachSite() ([]int, string) {
	repo := os.Getenv("VERIF_REPO")
	if repo == "" {
		repo = "/repo"
	}
	src, err := os.ReadFile(filepath.Join(repo, "actor", "pid_tree.go"))
	if err != nil {
		return nil, ""
	}
	fn := 0
	for i, line := range strings.Split(string(src), "\n") {
		if strings.HasPrefix(line, "func (x *tree) addNode(") {
			fn = i + 1
			break
		}
	}
	if fn == 0 {
		return nil, ""
	}
	best, bestLine := -1, 0
	for _, id := range verifrt.SitesIn("actor/pid_tree.go:") {
		name := verifrt.SiteNames[id]
		n, err := strconv.Atoi(name[strings.LastIndexByte(name, ':')+1:])
		if err != nil || n <= fn || n > fn+6 {
			continue
		}
		if best < 0 || n < bestLine {
			best, bestLine = id, n
		}
	}
	if best < 0 {
		return nil, ""
	}
	return []int{best}, verifrt.SiteNames[best]
}

// ---- producer endpoint -------------------------------------------------------

type c44Producer struct {
	sc           *c44Case
	next         int
	lastToken    string
	lastProduced *Produced
}

func (p *c44Producer) PreStart(*Context) error { return nil }
func (p *c44Producer) PostStop(*Context) error { return nil }

func (p *c44Producer) Receive(ctx *ReceiveContext) {
	sc := p.sc
	switch msg := ctx.Message().(type) {
	case *RequestNext:
		if !msg.IsAuthorizedFor(ctx.Self(), ctx.Sender()) {
			return
		}
		if msg.Token() == p.lastToken && p.lastProduced != nil {
			ctx.Tell(ctx.Sender(), p.lastProduced)
			return
		}
		if p.next >= len(sc.jobs) {
			return
		}
		if sc.k.PaceUs > 0 {
			time.Sleep(time.Duration(sc.k.PaceUs) * time.Microsecond)
		}
		produced, err := NewProduced(msg, c44JobID(p.next), &wrapperspb.BytesValue{Value: sc.jobs[p.next]})
		if err != nil {
			ctx.Err(err)
			return
		}
		p.next++
		p.lastToken, p.lastProduced = msg.Token(), produced
		sc.mu.Lock()
		sc.produced = p.next
		sc.mu.Unlock()
		sc.progress.Add(1)
		ctx.Tell(ctx.Sender(), produced)
	case *Stored:
		if !msg.IsAuthorizedFor(ctx.Self(), ctx.Sender()) {
			return
		}
		ack, err := NewStoredAck(msg)
		if err != nil {
			ctx.Err(err)
			return
		}
		sc.mu.Lock()
		if !sc.accepted[msg.MessageID()] {
			sc.accepted[msg.MessageID()] = true
			sc.progress.Add(1)
		}
		sc.mu.Unlock()
		ctx.Tell(ctx.Sender(), ack)
	case *DeliveryConfirmed:
		if !msg.IsAuthorizedFor(ctx.Self(), ctx.Sender()) {
			return
		}
		sc.onProducerConfirmed(msg.MessageID())
	}
}

func (sc *c44Case) workersOf(m map[string]int) []string {
	out := make([]string, 0, len(m))
	for w := range m {
		out = append(out, w)
	}
	sort.Strings(out)
	return out
}

func (sc *c44Case) onProducerConfirmed(id string) {
	sc.mu.Lock()
	defer sc.mu.Unlock()
	if sc.jobIndex(id) < 0 {
		sc.violate("confirmed-unknown-job", map[string]any{"job": id})
		return
	}
	if len(sc.confirmSent[id]) == 0 {
		sc.violate("job-confirmed-without-worker-confirmation", map[string]any{"job": id, "handed_to": sc.workersOf(sc.handed[id])})
	}
	sc.pconf[id]++
	if sc.pconf[id] == 1 {
		sc.pconfN++
		sc.progress.Add(1)
		return
	}
	confirmers := []string{}
	for w := range sc.confirmSent[id] {
		confirmers = append(confirmers, w)
	}
	sort.Strings(confirmers)
	sc.violate("job-confirmed-more-than-once", map[string]any{"job": id, "confirmations": sc.pconf[id], "handed_to": sc.workersOf(sc.handed[id]), "workers_that_confirmed": confirmers, "events": sc.events})
}

// ---- worker endpoint ---------------------------------------------------------

type c44Worker struct {
	sc  *c44Case
	ref *c44WorkerRef
}

func (w *c44Worker) PreStart(*Context) error { return nil }
func (w *c44Worker) PostStop(*Context) error { return nil }

func (w *c44Worker) Receive(ctx *ReceiveContext) {
	sc := w.sc
	msg, ok := ctx.Message().(*Delivery)
	if !ok || !msg.IsAuthorizedFor(ctx.Self(), ctx.Sender()) {
		return
	}
	first := sc.onHanded(w.ref.name, msg)
	if w.ref.holding.Load() {
		return // keeps its job unconfirmed until the harness stops it
	}
	if w.ref.holdReq.CompareAndSwap(true, false) {
		w.ref.holding.Store(true)
		select {
		case sc.holdCh <- w.ref.name:
		default:
		}
		return
	}
	if first && sc.k.DwellUs > 0 {
		time.Sleep(time.Duration(sc.k.DwellUs) * time.Microsecond)
	}
	confirmed, err := NewConfirmed(msg)
	if err != nil {
		ctx.Err(err)
		return
	}
	id := msg.MessageID()
	sc.mu.Lock()
	if sc.confirmSent[id] == nil {
		sc.confirmSent[id] = map[string]bool{}
	}
	if !sc.confirmSent[id][w.ref.name] {
		sc.confirmSent[id][w.ref.name] = true
		sc.progress.Add(1)
	}
	sc.mu.Unlock()
	ctx.Tell(ctx.Sender(), confirmed)
}

func (sc *c44Case) onHanded(worker string, d *Delivery) (first bool) {
	id := d.MessageID()
	sc.mu.Lock()
	defer sc.mu.Unlock()
	idx := sc.jobIndex(id)
	if idx < 0 {
		sc.violate("handed-unknown-job", map[string]any{"job": id, "worker": worker})
		return true
	}
	if sc.handed[id] == nil {
		sc.handed[id] = map[string]int{}
	}
	if len(sc.handed[id]) > 0 && sc.handed[id][worker] == 0 {
		sc.dupHand++ // second worker: allowed ("at least one worker")
	}
	sc.handed[id][worker]++
	first = sc.handed[id][worker] == 1
	if first {
		sc.progress.Add(1)
		payload, ok := d.Payload().(*wrapperspb.BytesValue)
		if !ok || !bytes.Equal(payload.GetValue(), sc.jobs[idx]) {
			sc.violate("job-payload-mismatch", map[string]any{"job": id, "worker": worker})
		}
	}
	return first
}

// ---- intercept ---------------------------------------------------------------

func (sc *c44Case) c42Intercept(controller any, ctx *ReceiveContext) bool {
	msg := ctx.Message()
	switch c := controller.(type) {
	case *workPullingProducerController:
		if _, ok := msg.(*producerControllerTick); ok {
			sc.pcTicks.Add(1)
			sc.probe.onTick(c42Tick)
			snap := map[string]any{"pending": len(c.pending), "store_seq": c.storeSeq, "handshake": c.handshake}
			bs := []map[string]any{}
			for name, b := range c.bindings {
				watched := false
				for _, w := range sc.sys.tree().watchers(b.controller) {
					if w.Equals(ctx.Self()) {
						watched = true
					}
				}
				bs = append(bs, map[string]any{"worker": name, "current": b.currentSeq, "confirmed": b.confirmedSeq, "demand": b.demandUpTo, "unconfirmed": len(b.unconfirmed),
					"controller": b.controller.Name(), "controller_running": b.controller.IsRunning(), "watched_by_producer_controller": watched})
			}
			sort.Slice(bs, func(i, j int) bool { return bs[i]["worker"].(string) < bs[j]["worker"].(string) })
			snap["bindings"] = bs
			sc.mu.Lock()
			sc.wpSnap = snap
			sc.mu.Unlock()
			return false
		}
		if tm, ok := msg.(*Terminated); ok {
			sc.mu.Lock()
			sc.termSeen = append(sc.termSeen, tm.ActorPath().Name())
			sc.mu.Unlock()
			return false
		}
		desc, proto := c42DescribeProto(msg)
		if !proto {
			return false
		}
		if _, ok := msg.(*commands.RegisterConsumer); ok {
			// the producer controller is about to Watch the sender: that is a
			// silent no-op while the sender is not yet attached to the actor tree
			if _, attached := sc.sys.tree().node(ctx.Sender().ID()); !attached && ctx.Sender().IsRunning() {
				sc.mu.Lock()
				sc.regBeforeAttach = append(sc.regBeforeAttach, ctx.Sender().Name())
				sc.mu.Unlock()
			}
		}
		swallow, _ := sc.faults.judge(ctx.Self(), ctx.Sender(), msg, "wp<-"+c44Short(ctx.Sender()), desc, true)
		return swallow
	case *consumerController:
		if _, ok := msg.(*consumerControllerTick); ok {
			sc.mu.Lock()
			ref := sc.workers[c.consumer.Name()]
			sc.mu.Unlock()
			if ref != nil {
				ref.ticks.Add(1)
			}
			return false
		}
		desc, proto := c42DescribeProto(msg)
		if !proto {
			return false
		}
		swallow, _ := sc.faults.judge(ctx.Self(), ctx.Sender(), msg, "cc:"+c.consumer.Name(), desc, true)
		return swallow
	}
	return false
}

func c44Short(p *PID) string {
	if p == nil {
		return "?"
	}
	n := p.Name()
	if len(n) > 12 {
		n = n[len(n)-12:]
	}
	return n
}

// ---- one case ----------------------------------------------------------------

type c44Obs struct {
	Knobs           string
	Seed            int64
	Viols           []c42Viol
	Inconclusive    string
	Stalled         bool
	Faults          int64
	FaultsByKind    map[string]int64
	FaultLog        []c42FaultRec
	ProtoMsgs       int64
	Jobs            int
	Confirmed       int
	WorkersUsed     int
	Stops           int
	StopsHolding    int
	HeldAtStop      int
	Redelivered     int
	DupHanded       int
	PCTicks         int64
	CleanTicks      int64
	RegBeforeAttach int
	Events          []string
	Wall            time.Duration
}

func (sc *c44Case) join(ctx context.Context) error {
	sc.mu.Lock()
	name := fmt.Sprintf("c44-worker-%d", len(sc.order)+1)
	ref := &c44WorkerRef{name: name}
	sc.workers[name] = ref
	sc.order = append(sc.order, name)
	sc.mu.Unlock()
	pid, err := sc.sys.Spawn(ctx, name, &c44Worker{sc: sc, ref: ref},
		AsReliableWorkPullingWorker("c44-producer", WithReliableFlowControlWindow(sc.k.Window), WithReliableResendInterval(c42Tick)))
	if err != nil {
		return err
	}
	sc.mu.Lock()
	ref.pid, ref.live = pid, true
	sc.events = append(sc.events, fmt.Sprintf("join %s at confirmed=%d", name, sc.pconfN))
	sc.mu.Unlock()
	sc.churnAct.Add(1)
	return nil
}

func (sc *c44Case) liveWorkers() []*c44WorkerRef {
	// caller holds sc.mu
	var out []*c44WorkerRef
	for _, n := range sc.order {
		if w := sc.workers[n]; w.live {
			out = append(out, w)
		}
	}
	return out
}

func (sc *c44Case) stop(ctx context.Context, ref *c44WorkerRef, why string) {
	sc.mu.Lock()
	if !ref.live {
		sc.mu.Unlock()
		return
	}
	ref.live = false
	sc.mu.Unlock()
	sctx, cancel := context.WithTimeout(ctx, 30*time.Second)
	_ = ref.pid.Shutdown(sctx)
	cancel()
	sc.mu.Lock()
	sc.stopped[ref.name] = true
	var held []string
	for id, ws := range sc.handed {
		if ws[ref.name] > 0 && sc.pconf[id] == 0 {
			held = append(held, id)
		}
	}
	sort.Strings(held)
	sc.heldAtStop[ref.name] = held
	sc.events = append(sc.events, fmt.Sprintf("%s %s at confirmed=%d holding %d unconfirmed job(s)", why, ref.name, sc.pconfN, len(held)))
	sc.mu.Unlock()
	sc.churnAct.Add(1)
}

func (sc *c44Case) state() map[string]any {
	// caller holds sc.mu
	live := []string{}
	for _, w := range sc.liveWorkers() {
		live = append(live, w.name)
	}
	return map[string]any{"produced": sc.produced, "accepted": len(sc.accepted), "confirmed_to_producer": sc.pconfN, "live_workers": live,
		"work_pulling_controller": sc.wpSnap, "events": sc.events, "terminated_seen_by_producer_controller": sc.termSeen,
		"registrations_before_controller_attached_to_tree": sc.regBeforeAttach, "pc_ticks": sc.pcTicks.Load(), "clean_ticks": sc.probe.clean.Load()}
}

// classify names what is missing for the first unfinished job.
func (sc *c44Case) classify() (string, map[string]any) {
	// caller holds sc.mu
	if bs, ok := sc.wpSnap["bindings"].([]map[string]any); ok {
		for _, b := range bs {
			if w, _ := b["worker"].(string); sc.stopped[w] {
				// root cause visible in the controller state: the sub-flow of a
				// worker that stopped long ago (>= 75 ticks) still exists, so
				// its jobs were never requeued
				return "binding-of-stopped-worker-never-ended", map[string]any{"binding": b}
			}
		}
	}
	for i := 0; i < len(sc.jobs); i++ {
		id := c44JobID(i)
		if sc.pconf[id] > 0 {
			continue
		}
		info := map[string]any{"job": id, "accepted_by_producer_controller": sc.accepted[id], "handed_to": sc.workersOf(sc.handed[id])}
		switch {
		case !sc.accepted[id] && i >= sc.produced:
			return "producer-not-granted-credit", info
		case !sc.accepted[id]:
			return "produced-job-not-stored", info
		case len(sc.handed[id]) == 0:
			return "job-never-handed-to-a-worker", info
		}
		allStopped, anyConfirmed := true, false
		for w := range sc.handed[id] {
			if !sc.stopped[w] {
				allStopped = false
			}
			if sc.confirmSent[id][w] && !sc.stopped[w] {
				anyConfirmed = true
			}
		}
		switch {
		case allStopped:
			return "job-of-stopped-worker-not-redelivered", info
		case anyConfirmed:
			return "worker-confirmation-never-reached-producer", info
		}
		return "job-handed-but-not-confirmed", info
	}
	return "all-jobs-confirmed", nil
}

func c44RunCase(t *testing.T, k c44Knobs, seed int64) *c44Obs {
	start := time.Now()
	obs := &c44Obs{Knobs: k.String(), Seed: seed, Jobs: k.Jobs}
	rng := rand.New(rand.NewSource(seed ^ 0x44))
	sc := &c44Case{
		k: k, seed: seed, accepted: map[string]bool{}, handed: map[string]map[string]int{}, confirmSent: map[string]map[string]bool{},
		pconf: map[string]int{}, workers: map[string]*c44WorkerRef{}, heldAtStop: map[string][]string{}, stopped: map[string]bool{},
		vsigs: map[string]bool{}, holdCh: make(chan string, 16),
	}
	sc.jobs = make([][]byte, k.Jobs)
	for i := range sc.jobs {
		b := make([]byte, 8+rng.Intn(100))
		rng.Read(b)
		binary.BigEndian.PutUint64(b, uint64(i)+1)
		sc.jobs[i] = b
	}
	// churn script: thresholds on the number of jobs confirmed to the producer
	script := make([]c44Event, k.Churn)
	for i := range script {
		script[i] = c44Event{At: rng.Intn(k.Jobs), Kind: []string{"join", "join", "stop", "stop-holding", "stop-holding"}[rng.Intn(5)]}
	}
	sort.SliceStable(script, func(i, j int) bool { return script[i].At < script[j].At })

	sc.faults = c42NewFaults(seed, k.Budget, k.PerMille, k.Weights, nil)
	defer sc.faults.close()
	sys := vfNewSystem(t)
	defer vfStop(sys)
	sc.sys = sys
	probe, err := c42StartProbe(sys)
	if err != nil {
		obs.Inconclusive = fmt.Sprintf("harness set-up: probe: %v", err)
		return obs
	}
	defer probe.close()
	sc.probe = probe
	events, err := sys.Subscribe()
	if err != nil {
		obs.Inconclusive = fmt.Sprintf("harness set-up: subscribe: %v", err)
		return obs
	}
	c42Scenarios.Store(ActorSystem(sys), c42Interceptor(sc))
	defer c42Scenarios.Delete(ActorSystem(sys))

	ctx := context.Background()
	prod, err := sys.Spawn(ctx, "c44-producer", &c44Producer{sc: sc},
		AsReliableWorkPullingProducer(WithReliableRetryInterval(c42Tick), WithReliableDeliveryConfirmation()))
	if err != nil {
		obs.Inconclusive = fmt.Sprintf("harness set-up: spawn producer: %v", err)
		return obs
	}
	sc.prodPID = prod
	for i := 0; i < k.Initial; i++ {
		if err := sc.join(ctx); err != nil {
			obs.Inconclusive = fmt.Sprintf("harness set-up: spawn worker: %v", err)
			return obs
		}
	}

	var (
		baseProg  = sc.progress.Load()
		baseAct   = sc.faults.activity.Load()
		baseChurn = sc.churnAct.Load()
		baseClean = probe.clean.Load()
		baseAt    = time.Now()
		baseW     = map[string]int64{}
		failed    *ReliableDeliveryFailed
		deadline  = start.Add(time.Duration(k.WatchdogSecs) * time.Second)
		next      = 0 // next script event
		lateJoin  time.Time
	)
	done := func() bool {
		sc.mu.Lock()
		defer sc.mu.Unlock()
		return sc.pconfN == len(sc.jobs)
	}
	for !done() {
		// --- churn ---
		sc.mu.Lock()
		conf := sc.pconfN
		live := sc.liveWorkers()
		sc.mu.Unlock()
		for next < len(script) && script[next].At <= conf {
			ev := script[next]
			next++
			switch {
			case ev.Kind == "join" && len(live) < 5:
				if err := sc.join(ctx); err != nil {
					obs.Inconclusive = fmt.Sprintf("harness: spawn worker: %v", err)
				}
			case ev.Kind == "stop" && len(live) > 0:
				sc.stop(ctx, live[rng.Intn(len(live))], "stop")
				obs.Stops++
			case ev.Kind == "stop-holding" && len(live) > 0:
				w := live[rng.Intn(len(live))]
				if !w.holding.Load() && !w.holdReq.Load() {
					w.holdReq.Store(true)
					sc.churnAct.Add(1)
				}
			}
			sc.mu.Lock()
			live = sc.liveWorkers()
			sc.mu.Unlock()
		}
	drain:
		for {
			select {
			case name := <-sc.holdCh:
				sc.mu.Lock()
				ref := sc.workers[name]
				sc.mu.Unlock()
				sc.stop(ctx, ref, "stop-holding")
				obs.Stops++
				obs.StopsHolding++
			default:
				break drain
			}
		}
		sc.mu.Lock()
		live = sc.liveWorkers()
		sc.mu.Unlock()
		if len(live) == 0 {
			// an interval without any worker, then a late join
			if lateJoin.IsZero() {
				lateJoin = time.Now().Add(time.Duration(10+rng.Intn(60)) * time.Millisecond)
			} else if time.Now().After(lateJoin) {
				lateJoin = time.Time{}
				if err := sc.join(ctx); err != nil {
					obs.Inconclusive = fmt.Sprintf("harness: spawn worker: %v", err)
				}
			}
		}
		if obs.Inconclusive != "" {
			break
		}
		// --- failure events ---
		for m := range events.Iterator() {
			if f, ok := m.Payload().(*ReliableDeliveryFailed); ok && failed == nil {
				failed = f
			}
		}
		if failed != nil {
			sc.mu.Lock()
			_, _, flog, _ := sc.faults.summary()
			sc.violate("controller-terminated:"+failed.ControllerRole().String()+":"+failed.Stage().String(),
				map[string]any{"error": failed.Err().Error(), "endpoint": failed.EndpointName(), "state": sc.state(), "fault_log": flog})
			sc.mu.Unlock()
			obs.Stalled = true
			break
		}
		// --- bounded progress ---
		p, a, c := sc.progress.Load(), sc.faults.activity.Load(), sc.churnAct.Load()
		// no verdict while no worker is alive or a harness endpoint still has queued work
		busy := sc.prodPID.mailbox.Len() > 0 || len(live) == 0
		for _, w := range live {
			if w.pid.mailbox.Len() > 0 {
				busy = true
			}
		}
		if p != baseProg || a != baseAct || c != baseChurn || busy {
			baseProg, baseAct, baseChurn, baseClean, baseAt = p, a, c, probe.clean.Load(), time.Now()
			for _, w := range live {
				baseW[w.name] = w.ticks.Load()
			}
		} else if probe.clean.Load()-baseClean >= k.StallTicks && time.Since(baseAt) >= time.Duration(k.StallTicks)*c42Tick/2 {
			ticked := true
			for _, w := range live {
				if w.ticks.Load()-baseW[w.name] < k.StallTicks/2 {
					ticked = false
				}
			}
			if ticked {
				sc.mu.Lock()
				what, info := sc.classify()
				_, _, flog, _ := sc.faults.summary()
				sc.violate("no-progress-with-live-worker:"+what, map[string]any{"first_unfinished": info, "ticks_without_progress": k.StallTicks, "state": sc.state(), "fault_log": flog,
					"held_at_stop": sc.heldAtStop})
				sc.mu.Unlock()
				obs.Stalled = true
				break
			}
		}
		if time.Now().After(deadline) {
			sc.mu.Lock()
			obs.Inconclusive = fmt.Sprintf("wall-clock watchdog (%ds) fired without a structural stall: %v", k.WatchdogSecs, sc.state())
			sc.mu.Unlock()
			break
		}
		time.Sleep(2 * time.Millisecond)
	}

	if !obs.Stalled && obs.Inconclusive == "" {
		// settle: a late second confirmation would arrive within a few ticks
		from := sc.pcTicks.Load()
		verifrt.WaitUntil(5*time.Second, func() bool { return sc.pcTicks.Load() >= from+3 })
	}
	_ = sys.Unsubscribe(events)

	sc.mu.Lock()
	if !obs.Stalled && obs.Inconclusive == "" {
		for i := range sc.jobs {
			id := c44JobID(i)
			if len(sc.handed[id]) == 0 {
				sc.violate("job-confirmed-but-never-handed", map[string]any{"job": id})
			}
		}
	}
	obs.Viols = append(obs.Viols, sc.viols...)
	obs.Confirmed, obs.WorkersUsed, obs.DupHanded = sc.pconfN, len(sc.order), sc.dupHand
	for w, held := range sc.heldAtStop {
		obs.HeldAtStop += len(held)
		for _, id := range held {
			for other := range sc.handed[id] {
				if other != w {
					obs.Redelivered++
					break
				}
			}
		}
	}
	obs.Events = append([]string(nil), sc.events...)
	obs.RegBeforeAttach = len(sc.regBeforeAttach)
	sc.mu.Unlock()
	obs.Faults, obs.FaultsByKind, obs.FaultLog, obs.ProtoMsgs = sc.faults.summary()
	obs.PCTicks, obs.CleanTicks = sc.pcTicks.Load(), probe.clean.Load()
	for i := range obs.Viols {
		d := obs.Viols[i].Detail
		d["knobs"], d["seed"] = obs.Knobs, seed
		if _, ok := d["fault_log"]; !ok {
			d["fault_log"] = obs.FaultLog
		}
		if _, ok := d["events"]; !ok {
			d["events"] = obs.Events
		}
	}
	sort.Slice(obs.Viols, func(i, j int) bool { return obs.Viols[i].Sig < obs.Viols[j].Sig })
	obs.Wall = time.Since(start)
	return obs
}
