//go:build verif

package actor

import (
	"fmt"
	"math"
	"math/big"
	"math/rand"
	"testing"
	"time"

	"github.com/tochemey/goakt/v4/internal/verifrt"
	"github.com/tochemey/goakt/v4/supervisor"
)

// C08 — restart backoff and consecutive-fault counting arithmetic.
//
// Part A (pure, differential): backoffDelay(n, init, max) against a math/big
// reference min(init*2^(n-1), max), for (init, max) pairs as the public
// supervisor option produces them, plus a monotonicity sweep along n.
// Part B: recordFault on a bare PID with lastFaultAtNano / consecutiveFaults
// preset; the verdict only uses the bracket [clock before call, clock after
// call], so scheduling delays can never flip the expected side.

// c08RefDelay is the reference: 0 when backoff is disabled (init <= 0) or n < 1,
// otherwise min(init * 2^(n-1), max), computed without any overflow.
func c08RefDelay(n, init, max int64) *big.Int {
	if init <= 0 || n < 1 {
		return big.NewInt(0)
	}
	// 2^(n-1) for n-1 >= 64 already exceeds every int64 maximum with init >= 1
	if n-1 >= 64 {
		return big.NewInt(max)
	}
	v := new(big.Int).Lsh(big.NewInt(init), uint(n-1))
	if v.Cmp(big.NewInt(max)) > 0 {
		return big.NewInt(max)
	}
	return v
}

// c08WrappedPositive recognises one specific defect shape: the true product
// init*2^(n-1) does not fit int64, and got is exactly the wrapped (two's
// complement) result of the shift, which is positive and not above max.
func c08WrappedPositive(n, init, max, got int64) bool {
	if init <= 0 || n < 1 || n-1 >= 64 {
		return false
	}
	full := new(big.Int).Lsh(big.NewInt(init), uint(n-1))
	if full.IsInt64() {
		return false
	}
	wrapped := int64(uint64(init) << uint(n-1))
	return wrapped > 0 && wrapped <= max && got == wrapped
}

// c08ShiftClass separates the shift range the shipped guard lets through (<62)
// from the one it is supposed to cap, so that a weakened guard gets its own signature.
func c08ShiftClass(n int64) string {
	if n-1 < 62 {
		return "shift<62"
	}
	return "shift>=62"
}

// c08Boundary draws a boundary-biased int64.
func c08Boundary(rng *rand.Rand) int64 {
	switch rng.Intn(12) {
	case 0:
		return []int64{0, 1, -1, 2, 3, math.MaxInt64, math.MinInt64, math.MaxInt64 - 1, math.MinInt64 + 1, math.MaxInt32, math.MaxInt32 + 1, math.MaxUint32, math.MaxUint32 + 1}[rng.Intn(13)]
	case 1, 2, 3:
		// power of two +-1
		p := int64(1) << uint(rng.Intn(63))
		return p + int64(rng.Intn(3)-1)
	case 4:
		// negative power of two +-1
		p := int64(1) << uint(rng.Intn(63))
		return -p + int64(rng.Intn(3)-1)
	case 5, 6:
		// realistic durations
		return int64([]time.Duration{time.Nanosecond, time.Microsecond, time.Millisecond, 10 * time.Millisecond, 100 * time.Millisecond, time.Second, 30 * time.Second, time.Minute, time.Hour, 24 * time.Hour, 365 * 24 * time.Hour}[rng.Intn(11)]) * int64(1+rng.Intn(9))
	case 7, 8:
		// random magnitude: uniformly chosen bit length
		bits := uint(1 + rng.Intn(63))
		return rng.Int63() >> (63 - bits)
	case 9:
		return -(rng.Int63() >> uint(rng.Intn(63)))
	default:
		return rng.Int63()
	}
}

// c08FaultCount draws a boundary-biased fault count for a given init so that the
// shift just does / just does not overflow int64.
func c08FaultCount(rng *rand.Rand, init int64) int64 {
	switch rng.Intn(10) {
	case 0:
		return []int64{0, -1, math.MinInt64, 1, 2, 61, 62, 63, 64, 65, 66, 127, 128, 129, 1 << 31, 1<<31 + 1, 1 << 32, 1<<32 + 1, 1 << 62, math.MaxInt64, math.MaxInt64 - 1}[rng.Intn(21)]
	case 1, 2, 3:
		// around the overflow point of init << (n-1): leading zeros of init
		if init > 0 {
			lz := int64(0)
			for v := init; v < (1 << 62); v <<= 1 {
				lz++
			}
			return lz + int64(rng.Intn(5)) - 1 // lz-1 .. lz+3 : n-1 in lz-2..lz+2
		}
		return int64(rng.Intn(70))
	case 4:
		return -int64(rng.Intn(100))
	default:
		return int64(1 + rng.Intn(70))
	}
}

func TestVerif_C08(t *testing.T) {
	r := verifrt.Start(t, "C08")
	defer r.Finish()
	r.Rule("case A = one (faults n, initialDelay, maxDelay) triple, boundary-biased over int64 (powers of two +-1, shift-overflow neighbourhood of init<<(n-1), non-positive values, MaxInt64); the (init,max) pair is passed through supervisor.WithExponentialBackoff (what a user can construct) and backoffDelay is compared with min(init*2^(n-1),max) in math/big, plus >=0, <=max, zero-when-disabled and a monotonicity sweep n=1..130 per pair; raw pairs the option cannot produce (init>0, max<init) are only counted. case B = one recordFault call on a bare PID with preset (consecutiveFaults, lastFaultAtNano, window); the verdict uses the clock bracket around the call. non-trivial A = init>0 and n>=1 (arithmetic really exercised); distinct by the triple / by (side, window, prior count)")
	r.Assume("supervisor.WithExponentialBackoff is the only way to configure (InitialDelay, MaxDelay); handleRestartDirective passes recordFault's count (>=1) to backoffDelay")
	r.Assume("time.Now().UnixNano() does not step backwards by more than the bracket during one recordFault call")

	rng := r.Rand(1)

	// ---------------- Part A: backoffDelay ----------------
	nA := r.N(200000, 20000000)
	var overflowZone, clamped, exact, disabled, unconstructible int64
	judge := func(n, init, max int64, via string) bool {
		got := int64(backoffDelay(n, time.Duration(init), time.Duration(max)))
		want := c08RefDelay(n, init, max)
		if !want.IsInt64() || want.Int64() != got {
			kind := "backoff-mismatch:" + via
			switch {
			case init <= 0 && got != 0:
				kind = "backoff-disabled-nonzero:" + via
			case got < 0:
				kind = "backoff-negative:" + via
			case got > max:
				kind = "backoff-above-max:" + via
			case c08WrappedPositive(n, init, max, got):
				// the specific shape: init<<(n-1) overflowed int64 and the wrapped
				// bits happen to be a positive value <= max, which is returned
				kind = "backoff-shift-wrapped-to-positive-below-max:" + c08ShiftClass(n)
			case n-1 >= 62 && got == max && want.Cmp(big.NewInt(max)) < 0:
				// the specific shape: early cap at shift>=62 although init<<62 fits and is < max
				kind = "backoff-early-cap-shift62-below-max"
			}
			r.Violation(kind, map[string]any{"faults": n, "initial": init, "max": max, "got": got, "want": want.String(), "via": via,
				"initial_dur": time.Duration(init).String(), "max_dur": time.Duration(max).String(), "got_dur": time.Duration(got).String()})
			return false
		}
		if got < 0 {
			r.Violation("backoff-negative:"+via, map[string]any{"faults": n, "initial": init, "max": max, "got": got})
			return false
		}
		return true
	}
	for c := 0; c < nA; c++ {
		rawInit := c08Boundary(rng)
		var rawMax int64
		switch rng.Intn(6) {
		case 0:
			rawMax = rawInit // max == init
		case 1:
			// a small multiple of init (may overflow: then it is just another value)
			rawMax = rawInit * int64(1+rng.Intn(1024))
		default:
			rawMax = c08Boundary(rng)
		}
		n := c08FaultCount(rng, rawInit)

		if rawInit > 0 && rawMax < rawInit {
			unconstructible++ // reported, not judged raw: the option raises max to init
		}
		sup := supervisor.NewSupervisor(supervisor.WithExponentialBackoff(time.Duration(rawInit), time.Duration(rawMax), 0))
		init, max := int64(sup.InitialDelay()), int64(sup.MaxDelay())
		// what the option promises (documented): ignored when init<=0, max raised to init
		if rawInit <= 0 && (init != 0 || max != 0) {
			r.Violation("backoff-option-not-ignored", map[string]any{"raw_initial": rawInit, "raw_max": rawMax, "initial": init, "max": max})
		}
		if rawInit > 0 && (init != rawInit || max < init || (rawMax >= rawInit && max != rawMax)) {
			r.Violation("backoff-option-bounds", map[string]any{"raw_initial": rawInit, "raw_max": rawMax, "initial": init, "max": max})
		}
		ok := judge(n, init, max, "option")
		// the raw pair too when it is one the option could have produced, or when
		// backoff is disabled (init <= 0 must give zero whatever max is)
		if rawInit <= 0 || rawMax >= rawInit {
			ok = judge(n, rawInit, rawMax, "raw") && ok
		}
		nontrivial := init > 0 && n >= 1
		if nontrivial {
			want := c08RefDelay(n, init, max)
			full := new(big.Int)
			if n-1 < 200 {
				full.Lsh(big.NewInt(init), uint(n-1))
			} else {
				full.Lsh(big.NewInt(1), 200)
			}
			switch {
			case !full.IsInt64():
				overflowZone++ // init<<(n-1) does not fit int64: the overflow guard decides
			case want.Cmp(full) == 0:
				exact++
			default:
				clamped++
			}
		} else if init <= 0 {
			disabled++
		}
		r.Case(fmt.Sprintf("A/%d/%d/%d", n, init, max), nontrivial)
		if c < 3 {
			r.Sample(map[string]any{"part": "A", "faults": n, "raw_initial": rawInit, "raw_max": rawMax, "initial": init, "max": max, "delay": int64(backoffDelay(n, time.Duration(init), time.Duration(max))), "ok": ok})
		}
		// monotonicity sweep for one pair in 64 (each sweep = 130 evaluations)
		if c%64 == 0 && init > 0 {
			prev := int64(0)
			for k := int64(1); k <= 130; k++ {
				d := int64(backoffDelay(k, time.Duration(init), time.Duration(max)))
				if d < prev {
					sig := "backoff-decreasing"
					if c08WrappedPositive(k, init, max, d) {
						sig = "backoff-decreasing:shift-wrapped-to-positive-below-max:" + c08ShiftClass(k)
					}
					r.Violation(sig, map[string]any{"initial": init, "max": max, "faults": k, "delay": d, "previous": prev})
					break
				}
				if d < 0 || d > max {
					r.Violation("backoff-out-of-range", map[string]any{"initial": init, "max": max, "faults": k, "delay": d})
					break
				}
				if !judge(k, init, max, "sweep") {
					break
				}
				prev = d
			}
			r.Count("monotonicity_sweeps", 1)
		}
	}
	r.Count("a_shift_overflows_int64", overflowZone)
	r.Count("a_clamped_to_max", clamped)
	r.Count("a_exact_shift", exact)
	r.Count("a_backoff_disabled", disabled)
	r.Count("a_raw_pairs_unconstructible_not_judged", unconstructible)

	// ---------------- Part B: recordFault ----------------
	nB := r.N(20000, 2000000)
	var older, younger, ambiguous, neverReset, firstFault int64
	for c := 0; c < nB; c++ {
		var window int64
		switch rng.Intn(8) {
		case 0:
			window = []int64{0, -1, math.MinInt64, -int64(time.Second)}[rng.Intn(4)] // counter never resets
		case 1:
			window = []int64{1, 2, 1000, int64(time.Millisecond)}[rng.Intn(4)]
		case 2:
			window = int64(1) << uint(rng.Intn(60))
		default:
			window = int64([]time.Duration{10 * time.Millisecond, 100 * time.Millisecond, time.Second, 30 * time.Second, time.Minute, time.Hour, 24 * time.Hour}[rng.Intn(7)]) * int64(1+rng.Intn(5))
		}
		prior := int64(rng.Intn(50))
		if rng.Intn(10) == 0 {
			prior = []int64{0, 1, math.MaxInt32, 1 << 40}[rng.Intn(4)]
		}
		// distance of the previous fault from "now": around the window, on both sides
		var delta int64
		switch rng.Intn(6) {
		case 0:
			delta = int64(1 + rng.Intn(1000)) // ns
		case 1:
			delta = int64(time.Microsecond) * int64(1+rng.Intn(1000))
		case 2:
			delta = int64(time.Millisecond) * int64(1+rng.Intn(1000))
		case 3:
			delta = int64(50 * time.Millisecond)
		default:
			delta = int64(time.Second) * int64(1+rng.Intn(3600))
		}
		side := rng.Intn(3) // 0 older than window, 1 younger, 2 no previous fault
		pid := &PID{}
		pid.consecutiveFaults.Store(prior)
		now0 := time.Now().UnixNano()
		var last int64
		w := window
		if w < 0 {
			w = 0
		}
		switch side {
		case 0:
			last = now0 - w - delta
		case 1:
			last = now0 - w + delta
			if last > now0 {
				last = now0 // a fault cannot be in the future; age 0
			}
		default:
			last = 0
		}
		if last <= 0 && side != 2 {
			// window so large that "older" would precede the epoch: the code treats
			// last<=0 as "no previous fault"; keep it as that class
			side = 2
			last = 0
		}
		pid.lastFaultAtNano.Store(last)
		got := pid.recordFault(time.Duration(window))
		now1 := time.Now().UnixNano()
		stored := pid.lastFaultAtNano.Load()
		after := pid.consecutiveFaults.Load()

		detail := map[string]any{"window_ns": window, "prior_count": prior, "last_fault_age_ns_before": now0 - last, "age_after": now1 - last, "returned": got, "counter_after": after, "had_previous_fault": last > 0}
		// the call's own clock reading lies in [now0, now1]
		switch {
		case window <= 0 || last <= 0:
			// never resets / first fault: plain increment
			if window <= 0 {
				neverReset++
			} else {
				firstFault++
			}
			if got != prior+1 {
				r.Violation("fault-count-reset-without-window", detail)
			}
		case now0-last > window:
			older++
			if got != 1 {
				r.Violation("fault-count-not-restarted-after-window", detail)
			}
		case now1-last <= window:
			younger++
			if got != prior+1 {
				r.Violation("fault-count-reset-inside-window", detail)
			}
		default:
			ambiguous++ // the window boundary fell inside the call bracket: either answer is right
			if got != 1 && got != prior+1 {
				r.Violation("fault-count-garbage", detail)
			}
		}
		if after != got {
			r.Violation("fault-count-return-differs-from-counter", detail)
		}
		if stored < now0 || stored > now1 {
			detail["stored_last_fault"] = stored
			detail["bracket"] = []int64{now0, now1}
			r.Violation("fault-time-not-recorded", detail)
		}
		// a second fault right away must count on top (consecutive), unless the
		// window is shorter than the time the two calls took
		got2 := pid.recordFault(time.Duration(window))
		now2 := time.Now().UnixNano()
		if window <= 0 || now2-stored <= window {
			if got2 != got+1 {
				detail["second_returned"] = got2
				r.Violation("fault-count-consecutive-not-incremented", detail)
			}
		}
		klass := []string{"older", "younger", "none"}[side]
		r.Case(fmt.Sprintf("B/%s/%d/%d/%d", klass, window, prior, delta), window > 0 && last > 0)
		if c < 2 {
			r.Sample(map[string]any{"part": "B", "class": klass, "detail": detail})
		}
	}
	r.Count("b_previous_fault_older_than_window", older)
	r.Count("b_previous_fault_inside_window", younger)
	r.Count("b_boundary_inside_call_bracket_not_judged", ambiguous)
	r.Count("b_non_positive_window", neverReset)
	r.Count("b_first_fault", firstFault)
}
