//go:build verif

package actor

import (
	"context"
	"fmt"
	"math/rand"
	"sync/atomic"
	"testing"
	"time"

	"github.com/tochemey/goakt/v4/internal/verifrt"
)

// C03 stash clause: messages stashed and later unstashed keep their relative
// arrival order, whatever mix of Unstash and UnstashAll releases them. One sender
// sends ids 1..n; the handler stashes a prefix, then releases with a scripted mix
// of Unstash / UnstashAll calls (possibly spread over several later messages); the
// order in which the stashed ids are finally handled must be ascending.

type c03sMsg struct{ id int }

type c03sActor struct {
	stashUntil int   // ids <= stashUntil are stashed on first sight
	script     []int // per later message: 0 nothing, 1 Unstash, 2 UnstashAll, 3 Unstash+UnstashAll
	first      map[int]bool
	handled    []int // ids of stashed messages in the order they were finally handled
	later      int
	inStash    int // messages currently in the stash (Unstash on an empty stash is an error)
	done       atomic.Int64
}

func (a *c03sActor) PreStart(*Context) error { return nil }
func (a *c03sActor) PostStop(*Context) error { return nil }
func (a *c03sActor) Receive(ctx *ReceiveContext) {
	m, ok := ctx.Message().(*c03sMsg)
	if !ok {
		return
	}
	if m.id <= a.stashUntil {
		if !a.first[m.id] {
			a.first[m.id] = true
			a.inStash++
			ctx.Stash()
			return
		}
		a.handled = append(a.handled, m.id)
		a.done.Add(1)
		return
	}
	// a later message: run the next script step
	step := 2
	if a.later < len(a.script) {
		step = a.script[a.later]
	}
	a.later++
	if a.inStash == 0 {
		step = 0
	}
	switch step {
	case 1:
		a.inStash--
		ctx.Unstash()
	case 2:
		a.inStash = 0
		ctx.UnstashAll()
	case 3:
		a.inStash = 0
		ctx.Unstash()
		ctx.UnstashAll()
	}
	a.done.Add(1)
}

func c03RunStashOrder(t *testing.T, r *verifrt.Run, rng *rand.Rand, cases int) {
	sys := vfNewSystem(t)
	defer vfStop(sys)
	ctx := context.Background()
	for c := 0; c < cases; c++ {
		k := 2 + rng.Intn(12)      // stashed prefix
		extra := 2 + rng.Intn(8)   // later messages carrying the release script
		kind := []string{"unbounded", "segmented", "fair", "bounded", "nonblocking"}[rng.Intn(5)]
		script := make([]int, extra)
		for i := range script {
			script[i] = []int{0, 1, 1, 2, 3}[rng.Intn(5)]
		}
		script[extra-1] = 2 // the last one releases whatever is left
		act := &c03sActor{stashUntil: k, script: script, first: map[int]bool{}}
		name := fmt.Sprintf("c03stash%d-%d", r.Batch, c)
		pid, err := sys.Spawn(ctx, name, act, WithStashing(), WithLongLived(), WithMailbox(vfNewMailbox(kind, 4096, nil)))
		if err != nil {
			t.Fatalf("spawn: %v", err)
		}
		total := k + extra
		for id := 1; id <= total; id++ {
			if err := Tell(ctx, pid, &c03sMsg{id: id}); err != nil {
				t.Fatalf("tell: %v", err)
			}
		}
		// everything is handled once: k stashed ids (second sight) + extra later ones
		ok := verifrt.WaitUntil(30*time.Second, func() bool { return act.done.Load() >= int64(total) })
		if !ok {
			// a leftover stash is released by one more message (its script step defaults to UnstashAll)
			_ = Tell(ctx, pid, &c03sMsg{id: total + 1})
			ok = verifrt.WaitUntil(30*time.Second, func() bool { return act.done.Load() >= int64(total+1) })
		}
		key := fmt.Sprintf("stash-order k=%d script=%v mb=%s", k, script, kind)
		if !ok {
			r.Inconclusive("C03 stash case did not finish: %s done=%d", key, act.done.Load())
			continue
		}
		// quiescent: read the actor's private log through a round trip
		_ = pid.Shutdown(ctx)
		order := append([]int(nil), act.handled...)
		for i := 1; i < len(order); i++ {
			if order[i] < order[i-1] {
				r.Violation("stash-order:unstashed-out-of-arrival-order:"+kind, map[string]any{"case": key, "handled_order_of_stashed_ids": order})
				break
			}
		}
		mixed := false
		for _, s := range script {
			if s == 1 || s == 3 {
				mixed = true
			}
		}
		r.Case(key, mixed)
		if c < 1 {
			r.Sample(map[string]any{"case": key, "handled_order_of_stashed_ids": order})
		}
	}
}
