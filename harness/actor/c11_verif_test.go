//go:build verif

package actor

import (
	"testing"

	"github.com/tochemey/goakt/v4/internal/verifrt"
)

// TestVerif_C11: per-name live-instance gauge (PreStart/PostStop), identity of the
// PIDs returned to successful callers, and gauge vs registration vs NumActors at
// settle, over rounds of concurrent same-name spawns.
func TestVerif_C11(t *testing.T) {
	r := verifrt.Start(t, "C11")
	defer r.Finish()
	r.Rule("round = (kind in {Spawn xN, SpawnNamedFromFunc xN, Spawn+SpawnNamedFromFunc mixed, SpawnChild xN under one parent, callers with live/cancelled/soon-cancelled contexts, Kill of the name racing the spawns, spawns issued the moment Kill returned, two names interleaved, a winner whose PreStart honours the spawn context and whose context is cancelled mid-flight while >=2 callers with healthy contexts wait on its flight (Spawn / SpawnNamedFromFunc / SpawnChild flavours)}, 2-8 concurrent callers each with its own actor instance, PreStart dwell, GOMAXPROCS, 0-2 hot noise sites in spawn.go/pid_tree.go/pid.go/death_watch.go) with a fresh name on a per-batch actor system; oracle = per-name gauge of instances between PreStart and PostStop (max must be <= 1), pointer identity of the PIDs returned without error (all callers in rounds without Kill; callers whose call began after Kill returned otherwise) and they must be running, at death-watch quiescence live instances == running registered actor of that name, and NumActors() == running user actors; non-trivial = two calls on one name overlapped in time and (more successful callers than PreStarts, or a Kill overlapped a call, or the round is spawn-after-kill); distinct by knob tuple and seed")
	rng := r.Rand(11)
	n := r.N(160, 5000)
	env := c11NewEnv(t)
	defer func() { vfStop(env.sys) }()
	for i := 0; i < n; i++ {
		if i > 0 && i%40 == 0 {
			vfStop(env.sys)
			env = c11NewEnv(t)
		}
		k := c11GenKnobs(rng, i+r.Batch*3)
		seed := rng.Int63()
		obs := env.runRound(t, k, seed)
		nontrivial := obs.Overlap && (obs.Coalesced || obs.KillRaced || k.Kind == "spawn-after-kill")
		if c11IsAbort(k.Kind) {
			// the winner really was aborted by its own context mid-flight and at least two healthy callers got a PID
			nontrivial = obs.Aborted && obs.OK >= 2
			if nontrivial {
				r.Count("rounds_winner_aborted_with_two_or_more_healthy_callers", 1)
			}
		}
		r.Case(k.String()+"/"+verifrt.Hash64s(seed), nontrivial)
		r.Count("successful_spawn_calls", int64(obs.OK))
		r.Count("prestarts_observed", obs.PreStarts)
		r.Count("noise_delays_injected", obs.Delays)
		if obs.Coalesced {
			r.Count("rounds_with_shared_result", 1)
		}
		if obs.KillRaced {
			r.Count("rounds_kill_overlapped_spawn", 1)
		}
		if obs.Watchdog != "" {
			r.Inconclusive("%s [%s seed=%d]", obs.Watchdog, k.String(), seed)
			vfStop(env.sys)
			env = c11NewEnv(t)
			continue
		}
		seen := map[string]bool{}
		for _, f := range obs.Findings {
			if seen[f.Sig] {
				continue
			}
			seen[f.Sig] = true
			r.Violation(f.Sig, map[string]any{"knobs": k.String(), "seed": seed, "finding": f.Detail, "calls": obs.Calls, "hooks": obs.Notes, "hot_sites": obs.HotSites})
		}
		if i < 3 {
			r.Sample(map[string]any{"knobs": k.String(), "calls": obs.Calls, "hooks": obs.Notes})
		}
	}
}
