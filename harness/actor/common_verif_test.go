//go:build verif

package actor

import (
	"context"
	"fmt"
	"sync"
	"sync/atomic"
	"testing"
	"time"

	"github.com/tochemey/goakt/v4/internal/verifrt"
	"github.com/tochemey/goakt/v4/log"
)

// Shared helpers of the actor-package harnesses. Every identifier starts with
// vf/VF so that it cannot clash with the repository's own tests or with other
// harness files.

var vfSysCounter atomic.Int64

// vfNewSystem starts a local actor system with logging discarded.
func vfNewSystem(t testing.TB, opts ...Option) *actorSystem {
	name := fmt.Sprintf("vfsys%d", vfSysCounter.Add(1))
	all := append([]Option{WithLogger(log.DiscardLogger), WithShutdownTimeout(30 * time.Second)}, opts...)
	sys, err := NewActorSystem(name, all...)
	if err != nil {
		t.Fatalf("NewActorSystem: %v", err)
	}
	if err := sys.Start(context.Background()); err != nil {
		t.Fatalf("system Start: %v", err)
	}
	return sys.(*actorSystem)
}

// vfStop stops a system, ignoring the error (watchdog situations are judged by the caller).
func vfStop(sys ActorSystem) {
	ctx, cancel := context.WithTimeout(context.Background(), 60*time.Second)
	defer cancel()
	_ = sys.Stop(ctx)
}

// vfMailboxKinds lists the nine shipped mailbox kinds.
var vfMailboxKinds = []string{"unbounded", "segmented", "fair", "priority", "stablepriority", "bounded", "nonblocking", "boundedpriority", "boundedstablepriority"}

// vfFIFOKinds are the kinds the per-sender FIFO statement names.
var vfFIFOKinds = []string{"unbounded", "segmented", "fair", "bounded", "nonblocking"}

// vfNewMailbox builds a mailbox of the given kind; capacity only matters for bounded kinds.
func vfNewMailbox(kind string, capacity int, prio PriorityFunc) Mailbox {
	if prio == nil {
		prio = func(a, b any) bool { return false }
	}
	switch kind {
	case "unbounded":
		return NewUnboundedMailbox()
	case "segmented":
		return NewUnboundedSegmentedMailbox()
	case "fair":
		return NewUnboundedFairMailbox()
	case "priority":
		return NewUnboundedPriorityMailBox(prio)
	case "stablepriority":
		return NewUnboundedStablePriorityMailbox(prio)
	case "bounded":
		return NewBoundedMailbox(capacity)
	case "nonblocking":
		return NewNonBlockingBoundedMailbox(capacity)
	case "boundedpriority":
		return NewBoundedPriorityMailbox(capacity, prio)
	case "boundedstablepriority":
		return NewBoundedStablePriorityMailbox(capacity, prio)
	}
	panic("unknown mailbox kind " + kind)
}

// vfTurnMonitor is the H1 observer: per schedulable an atomic in-turn word.
type vfTurnMonitor struct {
	states   sync.Map // schedulable -> *atomic.Int64
	enters   atomic.Int64
	overlaps atomic.Int64
	onBad    func(what string, s any)
}

func (m *vfTurnMonitor) hook(s any, enter bool) {
	v, ok := m.states.Load(s)
	if !ok {
		v, _ = m.states.LoadOrStore(s, &atomic.Int64{})
	}
	w := v.(*atomic.Int64)
	if enter {
		m.enters.Add(1)
		if !w.CompareAndSwap(0, 1) {
			m.overlaps.Add(1)
			if m.onBad != nil {
				m.onBad("turn-enter-while-owned", s)
			}
		}
		return
	}
	if !w.CompareAndSwap(1, 0) {
		if m.onBad != nil {
			m.onBad("turn-exit-while-not-owned", s)
		}
	}
}

// vfInstallTurnMonitor installs the monitor and returns an uninstall function.
func vfInstallTurnMonitor(m *vfTurnMonitor) func() {
	SetVerifTurnHook(m.hook)
	return func() { SetVerifTurnHook(nil) }
}

// vfNoiseFiles are the files whose yield sites are candidates for hot sites in
// actor-runtime workloads.
func vfNoiseSites(files ...string) []int {
	return verifrt.SitesIn(files...)
}

// vfSchedStateName reads an actor's dispatch state.
func vfSchedStateName(pid *PID) string {
	switch pid.schedState.v.Load() {
	case dispatchIdle:
		return "idle"
	case dispatchScheduled:
		return "scheduled"
	case dispatchProcessing:
		return "processing"
	}
	return "?"
}
