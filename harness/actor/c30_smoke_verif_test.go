//go:build verif

package actor

import (
	"context"
	"errors"
	"fmt"
	"os"
	"sync/atomic"
	"testing"
	"time"

	"github.com/tochemey/goakt/v4/internal/cluster"
	"github.com/tochemey/goakt/v4/internal/verifrt"
	"github.com/tochemey/goakt/v4/test/data/testpb"
)

// TestVerif_C30Smoke is not a check: it exercises the parts of the shared cluster harness that
// C30/C36 do not use (cross-node ActorOf + remote Tell, graceful departure + NodeLeft ->
// relocation onto the survivors, schedule-fire claims), so that the usage notes in
// common_cluster_verif_test.go are known to work. Run by hand:
//   VERIF_C30_SMOKE=1 <test binary> -test.run TestVerif_C30Smoke -test.v
type C30SmokeActor struct{}

var c30SmokeGot atomic.Int64

func (*C30SmokeActor) PreStart(*Context) error { return nil }
func (*C30SmokeActor) PostStop(*Context) error { return nil }
func (*C30SmokeActor) Receive(ctx *ReceiveContext) {
	if _, ok := ctx.Message().(*testpb.TestLog); ok {
		c30SmokeGot.Add(1)
	}
}

func TestVerif_C30Smoke(t *testing.T) {
	if os.Getenv("VERIF_C30_SMOKE") == "" {
		t.Skip("harness smoke test; set VERIF_C30_SMOKE=1")
	}
	cl := vfcNewCluster(t, 3, vfcWithKinds(&C30SmokeActor{}))
	defer cl.Stop()
	ctx := context.Background()

	// actors on node 2, looked up and messaged from node 0
	for i := 0; i < 5; i++ {
		if _, err := cl.Nodes[2].Sys.Spawn(ctx, fmt.Sprintf("c30smoke%d", i), &C30SmokeActor{}, WithLongLived()); err != nil {
			t.Fatalf("spawn: %v", err)
		}
	}
	pid, err := cl.Nodes[0].Sys.ActorOf(ctx, "c30smoke3")
	if err != nil || !pid.IsRemote() {
		t.Fatalf("ActorOf across nodes: pid=%v err=%v", pid, err)
	}
	if err := cl.Nodes[0].Sys.NoSender().Tell(ctx, pid, &testpb.TestLog{Text: "x"}); err != nil {
		t.Fatalf("remote tell: %v", err)
	}
	if !verifrt.WaitUntil(30*time.Second, func() bool { return c30SmokeGot.Load() == 1 }) {
		t.Fatalf("remote tell not delivered")
	}
	t.Logf("cross-node ActorOf + Tell ok: %s", pid.ID())

	// schedule-fire claim: NX
	if err := cl.Nodes[0].Fake.ClaimScheduleFire(ctx, "k1", time.Minute); err != nil {
		t.Fatalf("first claim: %v", err)
	}
	if err := cl.Nodes[1].Fake.ClaimScheduleFire(ctx, "k1", time.Minute); !errors.Is(err, cluster.ErrScheduleFireClaimed) {
		t.Fatalf("second claim: %v", err)
	}

	// graceful departure of node 2, NodeLeft delivered (twice to the leader), relocation
	if err := cl.StopNode(2); err != nil {
		t.Fatalf("stop node 2: %v", err)
	}
	cl.EmitNodeLeftAll(2)
	cl.EmitNodeLeft(0, 2)
	ok := verifrt.WaitUntil(60*time.Second, func() bool {
		n := 0
		for i := 0; i < 5; i++ {
			name := fmt.Sprintf("c30smoke%d", i)
			for _, nd := range cl.Nodes[:2] {
				if node, exist := nd.Sys.actors.nodeByName(name); exist && node.value().IsRunning() {
					n++
				}
			}
		}
		return n == 5
	})
	for i := 0; i < 5; i++ {
		name := fmt.Sprintf("c30smoke%d", i)
		rec := cl.Store.Actor(name)
		t.Logf("%s -> registry %v", name, rec.GetAddress())
	}
	if !ok {
		t.Fatalf("relocation did not place the 5 actors on the survivors")
	}
	t.Logf("relocation after graceful departure ok")

	// abrupt departure of node 1 (no peer-state snapshot): registry-derived recovery on the leader
	cl.Crash(1)
	cl.EmitNodeLeftAll(1)
	ok = verifrt.WaitUntil(90*time.Second, func() bool {
		n := 0
		for i := 0; i < 5; i++ {
			if node, exist := cl.Nodes[0].Sys.actors.nodeByName(fmt.Sprintf("c30smoke%d", i)); exist && node.value().IsRunning() {
				n++
			}
		}
		return n == 5
	})
	for i := 0; i < 5; i++ {
		name := fmt.Sprintf("c30smoke%d", i)
		t.Logf("%s -> registry %v", name, cl.Store.Actor(name).GetAddress())
	}
	if !ok {
		t.Fatalf("crash recovery did not place the 5 actors on node 0")
	}
	t.Logf("relocation after crash ok")
}
