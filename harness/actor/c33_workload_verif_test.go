//go:build verif

package actor

import (
	"context"
	"errors"
	"fmt"
	"math/rand"
	"sort"
	"strings"
	"sync"
	"sync/atomic"
	"time"

	"github.com/tochemey/goakt/v4/eventstream"
	"github.com/tochemey/goakt/v4/internal/address"
	"github.com/tochemey/goakt/v4/internal/cluster"
	"github.com/tochemey/goakt/v4/internal/verifrt"
	"github.com/tochemey/goakt/v4/test/data/testpb"
)

// C33 workload. One batch = one cluster of real actor systems on the shared fake registry
// (common_cluster_verif_test.go); one case = one departure of one node under one fault script.
//
// Observation points
//   - harness actor kinds C33Actor / C33Ghost keep a process-wide gauge name -> node -> live
//     instances (PreStart success .. PostStop entry): "running on exactly one survivor";
//   - one event-stream subscriber per node: RelocationFailed / RelocationStarted events, the
//     harness' own barrier markers (a LeaderChanged cluster event with a marker address is only
//     forwarded by the events loop, so seeing it proves every earlier event was fully handled)
//     and relocator probes (an unhandled message to the relocator surfaces as a Deadletter once
//     every earlier Rebalance order was turned into a worker);
//   - the in-repo turn hook: every relocation worker PID that ever got a turn, per node;
//   - the registry hook: holds (gates), injected failures, and "a relocation worker entered
//     relocate()" (Peers operation issued from relocationWorker.relocate).

const (
	c33GateWD    = 20 * time.Second  // waiting for the hold point to be reached
	c33HoldWD    = 25 * time.Second  // a held goroutine is released by this watchdog at the latest (< batch send timeout 30s)
	c33BarrierWD = 60 * time.Second  // marker / probe barrier
	c33QuietWD   = 120 * time.Second // structural quiescence
)

var c33ErrInjected = errors.New("c33: injected registry failure")
var c33ErrPreStart = errors.New("c33: injected PreStart failure")

// ---- harness actor kinds ------------------------------------------------------------

// C33Actor is registered on every node (relocatable by reflection).
type C33Actor struct {
	node    int
	name    string
	counted bool
}

// C33Ghost behaves like C33Actor but its kind is registered on no node: recreating it from
// its wire record fails on every target.
type C33Ghost struct{ C33Actor }

func (a *C33Actor) PreStart(ctx *Context) error {
	mon := c33Current.Load()
	if mon == nil {
		return nil
	}
	a.node = mon.c.NodeOf(ctx.ActorSystem())
	a.name = ctx.ActorName()
	if err := mon.preStart(a.node, a.name); err != nil {
		return err
	}
	a.counted = true
	return nil
}

func (a *C33Actor) Receive(*ReceiveContext) {}

// C33Grain (registered on every node) only makes a peer's share span a second batch: actors and
// grains always travel in separate RelocateBatch requests.
type C33Grain struct{}

func (*C33Grain) OnActivate(context.Context, *GrainProps) error   { return nil }
func (*C33Grain) OnReceive(ctx *GrainContext)                      { ctx.Unhandled() }
func (*C33Grain) OnDeactivate(context.Context, *GrainProps) error { return nil }

func (a *C33Actor) PostStop(*Context) error {
	if !a.counted {
		return nil
	}
	a.counted = false
	if mon := c33Current.Load(); mon != nil {
		mon.postStop(a.node, a.name)
	}
	return nil
}

// ---- monitor ------------------------------------------------------------------------

type c33Fail struct {
	origin int
	left   int // PreStart calls away from origin that still fail; <0 = every one
}

type c33Worker struct {
	node   int
	name   string
	first  int64
	inTurn bool
	pid    *PID
}

type c33Ev struct {
	T          int64
	Kind       string // failed | started | marker | probe
	Addr       string
	Actors     []string // actor names (parsed from the addresses the event carries)
	Raw        []string
	Grains     []string
	BestEffort bool
	Err        string
}

type c33Gate struct {
	kind   string // peers | loads | getactor | prestart
	node   int    // registry gates: the node whose operation is held (-1 any)
	key    string // getactor: key ; prestart: actor name ("" = first relocated case actor)
	prefix string
	gate   *vfcGate
	taken  atomic.Bool
	where  atomic.Int64 // node that was held (+1)
}

type c33Fault struct {
	node   int // -1 any
	ops    map[string]bool
	prefix string          // key prefix ("" = also scans / membership)
	keys   map[string]bool // nil = any key with the prefix
	stack  string          // when set: only when the caller's stack contains it
	hits   atomic.Int64
}

// c33Live is what the registry hook and the actors consult for the running case.
type c33Live struct {
	prefix   string
	leader   int
	departed int
	gate     *c33Gate
	faults   []*c33Fault

	// holdNode >= 0: every registry operation of that node on one of the case's actor names blocks
	// on holdAll until released (a target that stalls inside its first batch)
	holdNode int
	holdAll  *vfcGate
	heldMu   sync.Mutex
	heldKeys map[string]bool

	relocateEntries atomic.Int64 // Peers issued from relocationWorker.relocate, any node
	secondWhileHeld atomic.Int64 // ... while another worker of the same node is held by the harness
	heldNode        atomic.Int64 // node+1 whose worker is currently held at a registry gate
	scansStarted    atomic.Int64
	scansDone       atomic.Int64
}

type c33Mon struct {
	c *vfcCluster

	mu       sync.Mutex
	live     map[string]map[int]int
	hist     map[string][]string
	fail     map[string]*c33Fail
	failHits int
	workers  map[*PID]*c33Worker
	active   map[int]int
	maxAct   int
	subs     map[int]eventstream.Subscriber
	evs      map[int][]c33Ev

	cur atomic.Pointer[c33Live]
	seq atomic.Int64
}

var c33Current atomic.Pointer[c33Mon]

func c33NewMon(c *vfcCluster) *c33Mon {
	return &c33Mon{
		c: c, live: map[string]map[int]int{}, hist: map[string][]string{}, fail: map[string]*c33Fail{},
		workers: map[*PID]*c33Worker{}, active: map[int]int{}, subs: map[int]eventstream.Subscriber{}, evs: map[int][]c33Ev{},
	}
}

func (m *c33Mon) note(name, what string, node int) {
	m.hist[name] = append(m.hist[name], fmt.Sprintf("[%d] n%d %s", vfcTick(), node, what))
}

func (m *c33Mon) preStart(node int, name string) error {
	cs := m.cur.Load()
	m.mu.Lock()
	if f, ok := m.fail[name]; ok && node != f.origin && f.left != 0 {
		if f.left > 0 {
			f.left--
		}
		m.failHits++
		m.note(name, "PreStart fails (injected)", node)
		m.mu.Unlock()
		return c33ErrPreStart
	}
	m.mu.Unlock()
	// hold inside PreStart on a relocation target
	if cs != nil && cs.gate != nil && cs.gate.kind == "prestart" && strings.HasPrefix(name, cs.prefix) {
		g := cs.gate
		if (g.key == "" || g.key == name) && g.node != node && g.taken.CompareAndSwap(false, true) {
			g.where.Store(int64(node) + 1)
			g.gate.Hold(c33HoldWD)
		}
	}
	m.mu.Lock()
	if m.live[name] == nil {
		m.live[name] = map[int]int{}
	}
	m.live[name][node]++
	m.note(name, "PreStart ok", node)
	m.mu.Unlock()
	return nil
}

func (m *c33Mon) postStop(node int, name string) {
	m.mu.Lock()
	if m.live[name] != nil {
		m.live[name][node]--
		if m.live[name][node] <= 0 {
			delete(m.live[name], node)
		}
	}
	m.note(name, "PostStop", node)
	m.mu.Unlock()
}

// runningOn lists the nodes that hold a live instance of name (gauge), restricted to alive.
func (m *c33Mon) runningOn(name string, alive map[int]bool) (nodes []int, instances int) {
	m.mu.Lock()
	defer m.mu.Unlock()
	for n, c := range m.live[name] {
		if c > 0 && alive[n] {
			nodes = append(nodes, n)
			instances += c
		}
	}
	sort.Ints(nodes)
	return nodes, instances
}

func (m *c33Mon) history(name string) []string {
	m.mu.Lock()
	defer m.mu.Unlock()
	return append([]string(nil), m.hist[name]...)
}

func (m *c33Mon) forget(prefix string) {
	m.mu.Lock()
	for k := range m.hist {
		if strings.HasPrefix(k, prefix) {
			delete(m.hist, k)
			delete(m.fail, k)
			if len(m.live[k]) == 0 {
				delete(m.live, k)
			}
		}
	}
	for p, w := range m.workers {
		if !p.IsRunning() {
			delete(m.workers, p)
			_ = w
		}
	}
	m.mu.Unlock()
}

// turnHook observes relocation worker turns (H1).
func (m *c33Mon) turnHook(s any, enter bool) {
	p, ok := s.(*PID)
	if !ok || p == nil {
		return
	}
	if _, ok := p.actor.(*relocationWorker); !ok {
		return
	}
	node := m.c.NodeOf(p.actorSystem)
	m.mu.Lock()
	w := m.workers[p]
	if w == nil {
		w = &c33Worker{node: node, name: p.Name(), first: vfcTick(), pid: p}
		m.workers[p] = w
	}
	if enter && !w.inTurn {
		w.inTurn = true
		m.active[node]++
		if m.active[node] > m.maxAct {
			m.maxAct = m.active[node]
		}
	} else if !enter && w.inTurn {
		w.inTurn = false
		m.active[node]--
	}
	m.mu.Unlock()
}

// workersSince lists the worker PIDs first seen after tick t, per node (turn hook + tree).
func (m *c33Mon) workersSince(t int64, nodes []int) map[int][]string {
	out := map[int][]string{}
	seen := map[*PID]bool{}
	m.mu.Lock()
	for p, w := range m.workers {
		if w.first > t {
			out[w.node] = append(out[w.node], w.name)
			seen[p] = true
		}
	}
	m.mu.Unlock()
	for _, n := range nodes {
		nd := m.c.Nodes[n]
		if nd.Stopped() {
			continue
		}
		rel := nd.Sys.getRelocator()
		if rel == nil {
			continue
		}
		for _, ch := range rel.Children() {
			if _, ok := ch.actor.(*relocationWorker); ok && !seen[ch] {
				m.mu.Lock()
				_, known := m.workers[ch]
				m.mu.Unlock()
				if !known {
					out[n] = append(out[n], ch.Name())
				}
			}
		}
	}
	for n := range out {
		sort.Strings(out[n])
	}
	return out
}

func (m *c33Mon) workersRunning() int {
	m.mu.Lock()
	defer m.mu.Unlock()
	n := 0
	for p := range m.workers {
		if p.IsRunning() {
			n++
		}
	}
	return n
}

// before is the registry before-hook.
func (m *c33Mon) before(node int, op, key string) error {
	cs := m.cur.Load()
	if cs == nil {
		return nil
	}
	fromRelocate := false
	if op == "Peers" || op == "CountActorsByHost" {
		fromRelocate = strings.Contains(verifrt.Stack(), "relocationWorker).relocate")
	}
	if op == "Peers" && fromRelocate {
		cs.relocateEntries.Add(1)
		if cs.heldNode.Load() == int64(node)+1 {
			cs.secondWhileHeld.Add(1)
		}
	}
	if op == "ActorsByHost" {
		cs.scansStarted.Add(1)
	}
	if cs.holdAll != nil && node == cs.holdNode && strings.HasPrefix(key, cs.prefix) {
		cs.heldMu.Lock()
		cs.heldKeys[key] = true
		cs.heldMu.Unlock()
		cs.holdAll.Hold(c33HoldWD)
	}
	if g := cs.gate; g != nil && node != cs.departed && (g.node < 0 || g.node == node) {
		match := false
		switch g.kind {
		case "peers":
			match = op == "Peers" && fromRelocate
		case "loads":
			match = op == "CountActorsByHost" && fromRelocate
		case "getactor":
			match = op == "GetActor" && strings.HasPrefix(key, cs.prefix) && (g.key == "" || g.key == key)
		}
		if match && g.taken.CompareAndSwap(false, true) {
			g.where.Store(int64(node) + 1)
			if g.kind == "peers" || g.kind == "loads" {
				cs.heldNode.Store(int64(node) + 1)
			}
			g.gate.Hold(c33HoldWD)
			cs.heldNode.Store(0)
		}
	}
	for _, f := range cs.faults {
		if f.node >= 0 && f.node != node {
			continue
		}
		if !f.ops[op] {
			continue
		}
		if f.prefix != "" && !strings.HasPrefix(key, f.prefix) {
			continue
		}
		if f.keys != nil && !f.keys[key] {
			continue
		}
		if f.stack != "" && !strings.Contains(verifrt.Stack(), f.stack) {
			continue
		}
		f.hits.Add(1)
		return c33ErrInjected
	}
	return nil
}

func (m *c33Mon) after(node int, op, key string, err error) {
	cs := m.cur.Load()
	if cs == nil {
		return
	}
	if op == "GrainsByHost" {
		cs.scansDone.Add(1)
	}
}

// subscribe makes sure node n has an event-stream subscriber.
func (m *c33Mon) subscribe(n int) error {
	m.mu.Lock()
	_, ok := m.subs[n]
	m.mu.Unlock()
	if ok {
		return nil
	}
	sub, err := m.c.Nodes[n].Sys.Subscribe()
	if err != nil {
		return err
	}
	m.mu.Lock()
	m.subs[n] = sub
	m.mu.Unlock()
	return nil
}

// drain moves what the subscribers buffered into the per-node event lists.
func (m *c33Mon) drain() {
	m.mu.Lock()
	subs := make(map[int]eventstream.Subscriber, len(m.subs))
	for n, s := range m.subs {
		subs[n] = s
	}
	m.mu.Unlock()
	for n, s := range subs {
		var got []c33Ev
		for msg := range s.Iterator() {
			switch ev := msg.Payload().(type) {
			case *RelocationFailed:
				e := c33Ev{T: vfcTick(), Kind: "failed", Addr: ev.Address(), Raw: append([]string(nil), ev.Actors()...), Grains: append([]string(nil), ev.Grains()...)}
				if ev.Error() != nil {
					e.Err = ev.Error().Error()
				}
				for _, a := range ev.Actors() {
					if addr, err := address.Parse(a); err == nil {
						e.Actors = append(e.Actors, addr.Name())
					} else {
						e.Actors = append(e.Actors, a)
					}
				}
				got = append(got, e)
			case *RelocationStarted:
				got = append(got, c33Ev{T: vfcTick(), Kind: "started", Addr: ev.Address(), Actors: append([]string(nil), ev.Actors()...), BestEffort: ev.BestEffort()})
			case *LeaderChanged:
				if strings.HasPrefix(ev.Address(), "c33-marker-") {
					got = append(got, c33Ev{T: vfcTick(), Kind: "marker", Addr: ev.Address()})
				}
			case *Deadletter:
				if tl, ok := ev.Message().(*testpb.TestLog); ok && strings.HasPrefix(tl.GetText(), "c33-probe-") {
					got = append(got, c33Ev{T: vfcTick(), Kind: "probe", Addr: tl.GetText()})
				}
			}
		}
		if len(got) > 0 {
			m.mu.Lock()
			m.evs[n] = append(m.evs[n], got...)
			m.mu.Unlock()
		}
	}
}

func (m *c33Mon) events(n int, kind, addr string, since int64) []c33Ev {
	m.drain()
	m.mu.Lock()
	defer m.mu.Unlock()
	var out []c33Ev
	for _, e := range m.evs[n] {
		if e.Kind == kind && e.T > since && (addr == "" || e.Addr == addr) {
			out = append(out, e)
		}
	}
	return out
}

// marker pushes a barrier marker through node n's cluster events loop and waits until the
// loop forwarded it: every cluster event emitted to n before the call has then been handled.
func (m *c33Mon) marker(n int) bool {
	id := fmt.Sprintf("c33-marker-%d", m.seq.Add(1))
	if !m.c.Nodes[n].Fake.emit(&cluster.Event{Type: cluster.LeaderChanged, Payload: &cluster.LeaderChangedEvent{Address: id, Timestamp: time.Now().UTC()}}) {
		return false
	}
	return verifrt.WaitUntil(c33BarrierWD, func() bool { return len(m.events(n, "marker", id, 0)) > 0 })
}

// probe waits until node n's relocator handled every message it was sent before the call.
func (m *c33Mon) probe(n int) bool {
	sys := m.c.Nodes[n].Sys
	rel := sys.getRelocator()
	if rel == nil {
		return false
	}
	id := fmt.Sprintf("c33-probe-%d", m.seq.Add(1))
	if err := sys.NoSender().Tell(context.Background(), rel, &testpb.TestLog{Text: id}); err != nil {
		return false
	}
	return verifrt.WaitUntil(c33BarrierWD, func() bool { return len(m.events(n, "probe", id, 0)) > 0 })
}

// ---- scripts ------------------------------------------------------------------------

type c33Script struct {
	Name         string
	Crash        bool   // abrupt departure (no snapshot): registry-derived relocation set
	Queued       bool   // duplicates queued back to back with the first notification
	Gate         string // "", peers, loads, getactor, prestart
	Inflight     bool   // duplicates while the worker is held
	Late         bool   // duplicates after the relocation completed
	SurvivorDown bool   // a survivor that the worker already listed is crashed before its batch
	PeerFault    bool   // registry failures at one peer for the case's names
	LeaderFault  string // "" | "abort" (worker cannot list peers) | "items" (leader-side item failures)
	PreStartFail bool
	LeaderChange string // "" | fresh | stale
	Ghosts       bool   // kinds registered nowhere
	Unplaceable  bool   // roles only the departed node advertises
	MidShare     bool   // the departing node also hosts grains (a share = actor batch + grain batch); one target stalls inside its actor batch, dies, answers that batch with per-item failures and refuses the grain batch
	Weight       int
}

var c33Scripts = []c33Script{
	{Name: "plain", Weight: 1},
	{Name: "queued-dups+ghosts+unplaceable", Queued: true, Ghosts: true, Unplaceable: true, Weight: 2},
	{Name: "inflight-dups@peers", Gate: "peers", Inflight: true, Ghosts: true, Weight: 3},
	{Name: "inflight-dups@prestart", Gate: "prestart", Inflight: true, PreStartFail: true, Weight: 3},
	{Name: "inflight-dups@getactor+late", Gate: "getactor", Inflight: true, Late: true, Ghosts: true, Unplaceable: true, Weight: 2},
	{Name: "survivor-down@batch0", Gate: "loads", SurvivorDown: true, Inflight: true, Unplaceable: true, Weight: 3},
	{Name: "peer-registry-fault+ghosts", PeerFault: true, Ghosts: true, Unplaceable: true, Queued: true, Weight: 3},
	{Name: "leader-item-fault", LeaderFault: "items", Ghosts: true, Weight: 2},
	{Name: "abort-no-peers", LeaderFault: "abort", Queued: true, Weight: 2},
	{Name: "prestart-fail+late", PreStartFail: true, Late: true, Unplaceable: true, Weight: 2},
	{Name: "crash-depart", Crash: true, Ghosts: true, Weight: 2},
	{Name: "crash-depart+inflight-dups", Crash: true, Gate: "peers", Inflight: true, Unplaceable: true, Weight: 2},
	{Name: "crash-depart+queued-dups", Crash: true, Queued: true, PreStartFail: true, Weight: 1},
	{Name: "leader-change-fresh", Gate: "peers", LeaderChange: "fresh", Inflight: true, Ghosts: true, Weight: 2},
	{Name: "leader-change-stale", Gate: "peers", LeaderChange: "stale", Inflight: true, Unplaceable: true, Weight: 1},
	{Name: "target-dies-between-its-batches", MidShare: true, Ghosts: true, Weight: 3},
	{Name: "survivor-down+prestart+ghosts", Gate: "loads", SurvivorDown: true, PreStartFail: true, Ghosts: true, Queued: true, Weight: 2},
}

// ---- one case -----------------------------------------------------------------------

type c33Spec struct {
	Name      string
	Tag       string // plain | roleA | roleB | roleX | single | fixed | parent | child | ghost
	Role      string
	Parent    string
	Fail      int  // 0 none, >0 transient PreStart failures on targets, <0 permanent
	Reloc     bool // as the framework reports it on the departing node
	Singleton bool
	OnD       bool
}

type c33Finding struct {
	Sig    string
	Detail any
}

type c33Outcome struct {
	Key        string
	NonTrivial bool
	Findings   []c33Finding
	Stalled    string
	Notes      []string
	Counts     map[string]int64
	Sample     map[string]any
}

func (o *c33Outcome) count(k string, d int64) { o.Counts[k] += d }
func (o *c33Outcome) notef(f string, a ...any) {
	o.Notes = append(o.Notes, fmt.Sprintf(f, a...))
}

const c33SingletonRole = "c33sg"

func c33RolesFor(idx int) []string {
	var r []string
	if idx%2 == 1 {
		r = append(r, "c33a")
	}
	if idx%3 == 0 {
		r = append(r, "c33b")
	}
	if idx >= 1 {
		r = append(r, c33SingletonRole)
	}
	return append(r, fmt.Sprintf("c33x%d", idx))
}

func c33Alive(cl *vfcCluster) []int {
	cl.mu.Lock()
	nodes := append([]*vfcNode(nil), cl.Nodes...)
	cl.mu.Unlock()
	var out []int
	for _, n := range nodes {
		if !n.Stopped() {
			out = append(out, n.Idx)
		}
	}
	return out
}

func c33RunCase(cl *vfcCluster, mon *c33Mon, sc c33Script, seed int64, prefix string) (out c33Outcome) {
	rng := rand.New(rand.NewSource(seed))
	out.Counts = map[string]int64{}
	ctx := context.Background()
	began := time.Now()
	defer func() { out.count("millis:"+sc.Name, time.Since(began).Milliseconds()) }()

	// ---- topology: node 0 leads and never departs; D = the oldest other node -------------
	for len(c33Alive(cl)) < 4 {
		cl.AddNode()
	}
	cl.SetLeader(0)
	alive := c33Alive(cl)
	for _, n := range alive {
		if err := mon.subscribe(n); err != nil {
			out.Stalled = fmt.Sprintf("subscribe node %d: %v", n, err)
			return out
		}
	}
	const L = 0
	D := alive[1]
	survivors := append([]int{L}, alive[2:]...)
	S1 := alive[2] // becomes leader in the leader-change scripts
	addrD := cl.Nodes[D].PeersAddr()
	dsys := cl.Nodes[D].Sys

	// ---- population ----------------------------------------------------------------------
	total := 5 + rng.Intn(36)
	var specs []*c33Spec
	add := func(tag string, n int, fn func(s *c33Spec)) {
		for i := 0; i < n; i++ {
			s := &c33Spec{Name: fmt.Sprintf("%s%s%d", prefix, tag, i), Tag: tag}
			if fn != nil {
				fn(s)
			}
			specs = append(specs, s)
		}
	}
	nGhost, nRoleX, nSingle, nFixed, nParent := 0, 0, rng.Intn(3), 1+rng.Intn(3), 1+rng.Intn(2)
	if sc.Ghosts {
		nGhost = 2 + rng.Intn(3)
	}
	if sc.Unplaceable {
		nRoleX = 1 + rng.Intn(2)
	}
	nRoleA, nRoleB := 1+rng.Intn(3), 1+rng.Intn(3)
	add("ghost", nGhost, nil)
	add("rolex", nRoleX, func(s *c33Spec) { s.Role = fmt.Sprintf("c33x%d", D) })
	add("rolea", nRoleA, func(s *c33Spec) { s.Role = "c33a" })
	add("roleb", nRoleB, func(s *c33Spec) { s.Role = "c33b" })
	add("single", nSingle, func(s *c33Spec) { s.Singleton = true; s.Role = c33SingletonRole })
	add("fixed", nFixed, nil)
	add("parent", nParent, nil)
	for i := 0; i < nParent; i++ {
		p := fmt.Sprintf("%sparent%d", prefix, i)
		add(fmt.Sprintf("child%dx", i), 1+rng.Intn(2), func(s *c33Spec) { s.Parent = p; s.Tag = "child" })
	}
	if rest := total - len(specs); rest > 0 {
		add("plain", rest, nil)
	} else {
		add("plain", 2, nil)
	}
	if sc.PreStartFail {
		k := 0
		for _, s := range specs {
			if s.Tag == "plain" || s.Tag == "rolea" || s.Tag == "child" {
				switch k % 4 {
				case 0:
					s.Fail = -1
				case 1:
					s.Fail = 2
				case 2:
					s.Fail = 7
				}
				k++
			}
		}
	}

	parents := map[string]*PID{}
	for _, s := range specs {
		var (
			pid *PID
			err error
		)
		opts := []SpawnOption{WithLongLived()}
		if s.Role != "" && !s.Singleton {
			opts = append(opts, WithRole(s.Role))
		}
		switch {
		case s.Tag == "ghost":
			pid, err = dsys.Spawn(ctx, s.Name, &C33Ghost{}, opts...)
		case s.Tag == "fixed":
			pid, err = dsys.Spawn(ctx, s.Name, &C33Actor{}, append(opts, WithRelocationDisabled())...)
		case s.Singleton:
			pid, err = dsys.SpawnSingleton(ctx, s.Name, &C33Actor{}, WithSingletonRole(s.Role),
				WithSingletonSpawnTimeout(10*time.Second), WithSingletonSpawnWaitInterval(100*time.Millisecond), WithSingletonSpawnRetries(3))
		case s.Parent != "":
			pid, err = parents[s.Parent].SpawnChild(ctx, s.Name, &C33Actor{}, opts...)
		default:
			pid, err = dsys.Spawn(ctx, s.Name, &C33Actor{}, opts...)
		}
		if err != nil {
			out.Stalled = fmt.Sprintf("populate %s (%s): %v", s.Name, s.Tag, err)
			return out
		}
		if s.Tag == "parent" {
			parents[s.Name] = pid
		}
	}
	nGrains := 0
	if sc.MidShare {
		nGrains = 2*len(survivors) + rng.Intn(4)
		for i := 0; i < nGrains; i++ {
			if _, err := dsys.GrainIdentity(ctx, fmt.Sprintf("%sgrain%d", prefix, i), func(context.Context) (Grain, error) { return &C33Grain{}, nil }, WithLongLivedGrain()); err != nil {
				out.Stalled = fmt.Sprintf("activate grain %d on the departing node: %v", i, err)
				return out
			}
		}
		out.count("grains_on_departing_node", int64(nGrains))
	}
	// what the departing node really hosts, as the framework itself classifies it
	onD := map[string]*PID{}
	for _, p := range dsys.localActors() {
		if strings.HasPrefix(p.Name(), prefix) {
			onD[p.Name()] = p
		}
	}
	reloc := map[string]*c33Spec{}
	fixed := map[string]*c33Spec{}
	tags := map[string]int{}
	for _, s := range specs {
		p, ok := onD[s.Name]
		if !ok {
			out.notef("%s (%s) is not hosted by the departing node; left out", s.Name, s.Tag)
			continue
		}
		s.OnD = true
		s.Reloc = p.IsRelocatable()
		if s.Tag == "fixed" && s.Reloc {
			out.Stalled = fmt.Sprintf("%s spawned with WithRelocationDisabled reports relocatable", s.Name)
			return out
		}
		if s.Reloc {
			reloc[s.Name] = s
			tags[s.Tag]++
		} else {
			fixed[s.Name] = s
		}
		if s.Fail != 0 {
			mon.mu.Lock()
			mon.fail[s.Name] = &c33Fail{origin: D, left: s.Fail}
			mon.mu.Unlock()
		}
	}
	out.count("actors_on_departing_node", int64(len(onD)))
	out.count("relocatable_actors", int64(len(reloc)))
	out.count("non_relocatable_actors", int64(len(fixed)))

	// ---- script wiring -------------------------------------------------------------------
	cs := &c33Live{prefix: prefix, leader: L, departed: D, holdNode: -1, heldKeys: map[string]bool{}}
	midTarget := -1
	if sc.MidShare {
		midTarget = survivors[1+rng.Intn(len(survivors)-1)]
		cs.holdNode = midTarget
		cs.holdAll = vfcNewGate()
	}
	if sc.Gate != "" {
		g := &c33Gate{kind: sc.Gate, node: L, gate: vfcNewGate()}
		switch sc.Gate {
		case "getactor":
			g.node = -1
		case "prestart":
			g.node = D // any node but the origin
		}
		cs.gate = g
	}
	names := func(pred func(*c33Spec) bool) map[string]bool {
		m := map[string]bool{}
		for n, s := range reloc {
			if pred(s) {
				m[n] = true
			}
		}
		return m
	}
	var faultPeer = -1
	if sc.PeerFault {
		faultPeer = survivors[1+rng.Intn(len(survivors)-1)]
		ops := map[string]bool{"GetActor": true}
		if rng.Intn(2) == 0 {
			ops = map[string]bool{"PutActor": true}
		}
		cs.faults = append(cs.faults, &c33Fault{node: faultPeer, ops: ops, prefix: prefix})
	}
	switch sc.LeaderFault {
	case "abort":
		cs.faults = append(cs.faults, &c33Fault{node: L, ops: map[string]bool{"Peers": true}, stack: "relocationWorker).relocate"})
	case "items":
		pick := names(func(s *c33Spec) bool { return s.Tag == "plain" || s.Tag == "roleb" })
		i := 0
		for n := range pick {
			if i%2 == 1 {
				delete(pick, n)
			}
			i++
		}
		cs.faults = append(cs.faults, &c33Fault{node: L, ops: map[string]bool{"GetActor": true, "RemoveActor": true}, prefix: prefix, keys: pick})
	}
	mon.cur.Store(cs)
	defer mon.cur.Store(nil)
	t0 := vfcNow()

	sysDelta := map[int]int{}
	for _, n := range survivors {
		sysDelta[n] = c33SystemActors(cl.Nodes[n].Sys)
	}

	// ---- departure -----------------------------------------------------------------------
	if sc.Crash {
		cl.Crash(D)
	} else if err := cl.StopNode(D); err != nil {
		out.notef("graceful stop of node %d returned: %v", D, err)
	}
	// who holds the departed node's snapshot (graceful departures push it to the oldest peers)
	var snapshotOn []int
	for _, n := range survivors {
		if st := cl.Nodes[n].Sys.getClusterStore(); st != nil {
			if ps, ok := st.GetPeerState(ctx, addrD); ok && ps != nil {
				snapshotOn = append(snapshotOn, n)
			}
		}
	}
	leaderHasSnapshot := len(snapshotOn) > 0 && snapshotOn[0] == L
	if !sc.Crash {
		out.count("graceful_departures", 1)
		if !leaderHasSnapshot {
			out.count("graceful_departures_whose_snapshot_missed_the_leader", 1)
			out.notef("snapshot of the gracefully departed node %d is on %v, not on the leader", D, snapshotOn)
		}
	}
	dups := func() int { return 1 + rng.Intn(3) }
	notified := map[int]int{}
	notify := func(to int, n int) {
		for i := 0; i < n; i++ {
			if cl.EmitNodeLeft(to, D) {
				notified[to]++
			}
		}
	}
	barrier := func(to int) bool {
		if !mon.marker(to) {
			out.Stalled = fmt.Sprintf("marker barrier on node %d did not complete", to)
			return false
		}
		return true
	}
	leaders := map[int]bool{L: true}
	followersNotified := false
	notifyFollowers := func() {
		if followersNotified {
			return
		}
		followersNotified = true
		for _, n := range survivors[1:] {
			if cl.Nodes[n].Stopped() || (sc.LeaderChange == "fresh" && n == S1) {
				continue
			}
			notify(n, 1)
		}
	}
	if rng.Intn(3) == 0 && sc.LeaderChange == "" {
		notifyFollowers()
	}

	// first notification (+ queued duplicates) to the leader
	first := 1
	if sc.Queued {
		first += dups()
	}
	notify(L, first)
	if !barrier(L) {
		return out
	}
	strictSingle := !(sc.Crash && sc.Queued) // see the rule: queued duplicates of a crash notification race asynchronous derivations
	inflightConfirmed := false
	gateReached := false
	var downed = -1

	if sc.Crash {
		// the derivation runs off the events loop; it ends by forgetting the departed node's port
		if !verifrt.WaitUntil(c33BarrierWD, func() bool { _, ok := cl.Nodes[L].Sys.peerRemotingPort(addrD); return !ok }) {
			out.Stalled = "crash recovery goroutine did not finish deriving"
			return out
		}
	}
	if sc.MidShare {
		// the target stalls inside its actor batch (nothing of its share has been spawned yet) ...
		verifrt.WaitUntil(c33GateWD, func() bool {
			if cs.holdAll.Arrived() {
				return true
			}
			_, busy := cl.Nodes[L].Sys.relocationJob(addrD)
			return !busy
		})
		if cs.holdAll.Arrived() {
			// ... dies (registry handle down, clustering off, listener closed; the connection carrying the
			// batch stays up), then answers the batch with per-item failures and refuses the next one
			cl.Crash(midTarget)
			downed = midTarget
			out.count("targets_crashed_inside_their_first_batch", 1)
		} else {
			out.notef("target %d never touched its share", midTarget)
		}
		cs.holdAll.Release()
		if cs.holdAll.TimedOut() {
			out.Stalled = "hold watchdog fired before the target was crashed"
			return out
		}
	}
	if cs.gate != nil {
		// reached, or structurally impossible: no job registered on the leader (nothing is in flight)
		verifrt.WaitUntil(c33GateWD, func() bool {
			if cs.gate.gate.Arrived() {
				return true
			}
			_, busy := cl.Nodes[L].Sys.relocationJob(addrD)
			return !busy
		})
		gateReached = cs.gate.gate.Arrived()
		if !gateReached {
			cs.gate.gate.Release() // a later arrival passes straight through
			out.notef("hold point %s not reached", sc.Gate)
		}
	}
	if gateReached {
		out.count("holds_hit:"+sc.Gate, 1)
		if sc.SurvivorDown {
			// the worker has read the peer list; one listed survivor vanishes before its batch is sent
			cands := []int{}
			for _, n := range survivors[1:] {
				if n != S1 || sc.LeaderChange == "" {
					cands = append(cands, n)
				}
			}
			downed = cands[rng.Intn(len(cands))]
			cl.Crash(downed)
			out.count("survivors_crashed_before_their_batch", 1)
		}
		if sc.Inflight {
			k := dups()
			notify(L, k)
			if !barrier(L) {
				cs.gate.gate.Release()
				return out
			}
			_, jobThere := cl.Nodes[L].Sys.relocationJob(addrD)
			if jobThere && !cs.gate.gate.TimedOut() {
				inflightConfirmed = true
				out.count("duplicates_delivered_while_job_registered", int64(k))
			}
			if !mon.probe(L) {
				out.Stalled = "relocator probe barrier did not complete (leader)"
				cs.gate.gate.Release()
				return out
			}
		}
		if sc.LeaderChange != "" {
			if sc.LeaderChange == "stale" {
				notify(S1, 1) // handled as a follower: snapshot dropped, port forgotten
				if !barrier(S1) {
					cs.gate.gate.Release()
					return out
				}
			}
			cl.SetLeader(S1)
			leaders[S1] = true
			notify(S1, 1+rng.Intn(2))
			notify(L, 1) // the old leader now handles it as a follower while its worker is in flight
			if !barrier(S1) || !barrier(L) || !mon.probe(S1) {
				if out.Stalled == "" {
					out.Stalled = "relocator probe barrier did not complete (new leader)"
				}
				cs.gate.gate.Release()
				return out
			}
			// let the new leader's own relocation (if it started one) run to its end first
			if !verifrt.WaitUntil(c33HoldWD-5*time.Second, func() bool {
				_, busy := cl.Nodes[S1].Sys.relocationJob(addrD)
				return !busy
			}) {
				out.notef("new leader's relocation still in flight when the old leader's worker was released")
			}
			out.count("leader_changes", 1)
		}
		if rng.Intn(2) == 0 {
			notifyFollowers()
		}
		cs.gate.gate.Release()
		if cs.gate.gate.TimedOut() {
			out.Stalled = "hold watchdog fired before the script released the worker"
			return out
		}
	}
	notifyFollowers()
	for n := range notified {
		if !cl.Nodes[n].Stopped() && !barrier(n) {
			return out
		}
	}
	for n := range leaders {
		if !mon.probe(n) {
			out.Stalled = fmt.Sprintf("relocator probe barrier did not complete (node %d)", n)
			return out
		}
	}

	// ---- structural quiescence -----------------------------------------------------------
	aliveNow := func() map[int]bool {
		m := map[int]bool{}
		for _, n := range c33Alive(cl) {
			m[n] = true
		}
		return m
	}
	quiet := func() bool {
		if sc.Crash && cs.scansStarted.Load() != cs.scansDone.Load() {
			return false
		}
		for n := range aliveNow() {
			if _, busy := cl.Nodes[n].Sys.relocationJob(addrD); busy {
				return false
			}
		}
		return mon.workersRunning() == 0 && cl.Store.InFlight() == 0
	}
	if !verifrt.WaitUntil(c33QuietWD, quiet) {
		out.Stalled = "relocation did not reach quiescence (job still registered / worker alive)"
		return out
	}
	if sc.Late {
		k := dups()
		notify(L, k)
		if !barrier(L) || !mon.probe(L) {
			if out.Stalled == "" {
				out.Stalled = "late duplicate barrier did not complete"
			}
			return out
		}
		out.count("duplicates_delivered_after_completion", int64(k))
		if !verifrt.WaitUntil(c33QuietWD, quiet) {
			out.Stalled = "no quiescence after late duplicates"
			return out
		}
	}

	// ---- judgement -----------------------------------------------------------------------
	am := aliveNow()
	var liveSurv []int
	for n := range am {
		liveSurv = append(liveSurv, n)
	}
	sort.Ints(liveSurv)
	listed := map[string][]string{} // name -> "n<node>#<event index>"
	perNode := map[int][]c33Ev{}
	for _, n := range liveSurv {
		evs := mon.events(n, "failed", addrD, t0)
		perNode[n] = evs
		for i, e := range evs {
			for _, a := range e.Actors {
				listed[a] = append(listed[a], fmt.Sprintf("n%d#%d", n, i))
			}
		}
	}
	witness := func(name string) map[string]any {
		s := reloc[name]
		if s == nil {
			s = fixed[name]
		}
		w := map[string]any{"script": sc.Name, "seed": seed, "departed": D, "leader": L, "survivors": liveSurv, "name": name,
			"history": mon.history(name), "registry": cl.Store.OpStrings(name), "listed_in": listed[name], "downed_survivor": downed, "fault_peer": faultPeer}
		if s != nil {
			w["spec"] = *s
		}
		return w
	}
	find := func(sig string, detail any) { out.Findings = append(out.Findings, c33Finding{sig, detail}) }

	relocated, failedListed := 0, 0
	// a graceful departure whose snapshot did not reach the leader is handled as a crash; by then the
	// departing node has withdrawn its registry records, so nothing can be derived: one root-cause finding
	// (observed, not inferred: the leader announced a best-effort, registry-derived relocation for a graceful departure
	// and never one from a snapshot)
	explainedLoss := false
	if !sc.Crash {
		derived, fromSnap := 0, 0
		for _, e := range mon.events(L, "started", addrD, t0) {
			if e.BestEffort {
				derived++
			} else {
				fromSnap++
			}
		}
		explainedLoss = derived > 0 && fromSnap == 0
		if explainedLoss {
			out.count("graceful_departures_the_leader_handled_as_crash", 1)
		}
		if !leaderHasSnapshot && fromSnap > 0 {
			out.count("snapshot_reached_the_leader_after_the_stop_returned", 1)
		}
	}
	var lostExplained []string
	for name, s := range reloc {
		nodes, inst := mon.runningOn(name, am)
		_, isListed := listed[name]
		// second opinion: the survivors' actor trees
		var inTree []int
		for _, n := range liveSurv {
			if nd, ok := cl.Nodes[n].Sys.actors.nodeByName(name); ok && nd.value() != nil && nd.value().IsRunning() {
				inTree = append(inTree, n)
			}
		}
		if fmt.Sprint(inTree) != fmt.Sprint(nodes) {
			out.notef("monitor disagreement for %s: gauge %v vs trees %v", name, nodes, inTree)
			out.count("gauge_tree_disagreements", 1)
		}
		switch {
		case len(nodes) > 1 || inst > 1:
			w := witness(name)
			w["running_on"] = nodes
			find(fmt.Sprintf("running-on-several-survivors:%s", s.Tag), w)
		case len(nodes) == 0 && !isListed && explainedLoss:
			lostExplained = append(lostExplained, name)
		case len(nodes) == 0 && !isListed:
			find(fmt.Sprintf("lost-neither-running-nor-listed:%s", s.Tag), witness(name))
		case len(nodes) == 1 && isListed:
			w := witness(name)
			w["running_on"] = nodes
			find(fmt.Sprintf("running-and-listed-as-failed:%s", s.Tag), w)
		}
		if len(nodes) == 1 {
			relocated++
			out.count("relocated:"+s.Tag, 1)
			if rec := cl.Store.Actor(name); rec == nil || !strings.Contains(rec.GetAddress(), fmt.Sprintf(":%d/", cl.Nodes[nodes[0]].Port)) {
				out.count("relocated_but_registry_names_another_owner", 1)
			}
		}
		if isListed {
			failedListed++
			out.count("listed_failed:"+s.Tag, 1)
		}
	}
	if len(lostExplained) > 0 {
		sort.Strings(lostExplained)
		find("graceful-departure-snapshot-missed-leader:relocatable-actors-lost-silently", map[string]any{"script": sc.Name, "seed": seed,
			"departed": D, "leader": L, "snapshot_on_nodes": snapshotOn, "relocatable": len(reloc), "lost": lostExplained,
			"RelocationStarted_on_leader": mon.events(L, "started", addrD, t0), "RelocationFailed_on_leader": perNode[L],
			"why": "persistPeerStateToPeers returns at a 2-of-3 quorum and cancels the remaining RPC; when the cancelled one is the leader's, the leader finds no snapshot at NodeLeft, takes the crash path and derives from a registry the departing node has already cleaned (cleanupCluster), so every relocatable actor is lost with no RelocationFailed"})
		out.count("relocatable_actors_lost_to_missed_snapshot", int64(len(lostExplained)))
	}
	for name := range fixed {
		if nodes, _ := mon.runningOn(name, am); len(nodes) > 0 {
			w := witness(name)
			w["running_on"] = nodes
			find("non-relocatable-actor-recreated", w)
		}
		if _, ok := listed[name]; ok {
			out.count("non_relocatable_listed_as_failed", 1)
		}
	}
	for name, where := range listed {
		if reloc[name] == nil && fixed[name] == nil {
			find("failed-list-names-a-foreign-actor", map[string]any{"script": sc.Name, "seed": seed, "name": name, "listed_in": where})
		}
	}
	// ---- once per departure (per leader node) ------------------------------------------------
	// certain overlap: every notification of this node was either the first one or delivered while
	// the harness held the worker with the job registered (no queued / late duplicates in the script)
	nEvents, nWorkers := 0, 0
	workers := mon.workersSince(t0, liveSurv)
	for _, n := range liveSurv {
		evs, ws := perNode[n], workers[n]
		nEvents += len(evs)
		nWorkers += len(ws)
		if len(ws) <= 1 && len(evs) <= 1 {
			continue
		}
		started := mon.events(n, "started", addrD, t0)
		fromSnapshot := 0
		for _, e := range started {
			if !e.BestEffort {
				fromSnapshot++
			}
		}
		detail := map[string]any{"script": sc.Name, "seed": seed, "node": n, "workers": ws, "RelocationFailed_events": evs,
			"RelocationStarted_events": started, "relocations_started_from_snapshot": fromSnapshot, "notifications": notified,
			"duplicates_confirmed_in_flight": inflightConfirmed, "relocate_entries": cs.relocateEntries.Load(),
			"second_entered_while_first_held": cs.secondWhileHeld.Load()}
		heldOnly := sc.Gate != "" && gateReached && !sc.Queued && !sc.Late
		switch {
		case len(ws) > 1 && (cs.secondWhileHeld.Load() > 0 || (heldOnly && inflightConfirmed)):
			find("second-relocation-started-while-first-in-flight", detail)
		case len(evs) > 1 && strictSingle:
			kind := "queued"
			if !sc.Queued && sc.Late {
				kind = "late"
			} else if !sc.Queued {
				kind = "held"
			}
			find(fmt.Sprintf("several-RelocationFailed-events-for-one-departure:%s-duplicate:workers=%d", kind, min(len(ws), 2)), detail)
		case len(ws) > 1:
			// a second relocation ran but neither an overlap nor a second event can be proven
			out.count("second_relocation_without_provable_overlap", 1)
			out.notef("node %d ran %d relocations for one departure (%v), overlap not provable", n, len(ws), ws)
		}
	}
	if cs.secondWhileHeld.Load() > 0 && nWorkers <= 1 {
		find("second-relocation-started-while-first-in-flight", map[string]any{"script": sc.Name, "seed": seed, "workers": workers, "notifications": notified, "note": "second relocate() entry observed while the first worker was held; worker PIDs not distinguished"})
	}
	out.count("RelocationFailed_events", int64(nEvents))
	out.count("relocation_workers_started", int64(nWorkers))
	out.count("relocate_entries", cs.relocateEntries.Load())
	mon.mu.Lock()
	out.count("prestart_failures_injected", int64(mon.failHits))
	mon.failHits = 0
	maxAct := mon.maxAct
	mon.maxAct = 0
	mon.mu.Unlock()
	out.Counts["max:concurrent_worker_turns_per_node"] = int64(maxAct)
	var faultHits int64
	for _, f := range cs.faults {
		faultHits += f.hits.Load()
	}
	out.count("registry_faults_injected", faultHits)
	for _, n := range liveSurv {
		if before, ok := sysDelta[n]; ok {
			if d := c33SystemActors(cl.Nodes[n].Sys) - before; d != 0 {
				out.count("system_actor_count_changes", 1)
				out.notef("node %d system actors changed by %d", n, d)
			}
		}
	}
	totalNotes := 0
	for _, k := range notified {
		totalNotes += k
	}
	out.count("notifications_delivered", int64(totalNotes))
	out.count("relocated", int64(relocated))
	out.count("listed_failed", int64(failedListed))

	// non-trivial: a relocation ran, and the script's own interesting thing was measured
	nt := nWorkers >= 1 && len(reloc) > 0
	if sc.Gate != "" {
		nt = nt && gateReached
	}
	if sc.Inflight {
		nt = nt && inflightConfirmed
	}
	if sc.PeerFault || sc.LeaderFault != "" {
		nt = nt && faultHits > 0
	}
	if sc.SurvivorDown {
		nt = nt && downed >= 0
	}
	if sc.MidShare {
		cs.heldMu.Lock()
		reported := 0
		for k := range cs.heldKeys {
			if _, ok := listed[k]; ok {
				reported++
			}
		}
		touched := len(cs.heldKeys)
		cs.heldMu.Unlock()
		out.count("names_the_dying_target_touched", int64(touched))
		out.count("names_the_dying_target_touched_and_listed_failed", int64(reported))
		nt = nt && downed >= 0 && reported > 0
	}
	if sc.Ghosts || sc.Unplaceable || sc.LeaderFault != "" || sc.PeerFault {
		nt = nt && failedListed > 0
	}
	out.NonTrivial = nt
	out.Key = fmt.Sprintf("%s/n=%d/notes=%d/tags=%v/%s", sc.Name, len(reloc), totalNotes, tags, verifrt.Hash64s(seed))
	out.Sample = map[string]any{"script": sc.Name, "departed": D, "survivors": liveSurv, "relocatable": len(reloc), "by_tag": tags,
		"non_relocatable": len(fixed), "relocated": relocated, "listed_failed": failedListed, "RelocationFailed_events": nEvents,
		"workers": workers, "notifications": notified, "snapshot_on": snapshotOn, "nontrivial": nt, "notes": out.Notes}

	// ---- clean up --------------------------------------------------------------------------
	mon.cur.Store(nil)
	cl.SetLeader(0)
	for _, n := range c33Alive(cl) {
		if notified[n] == 0 {
			cl.EmitNodeLeft(n, D)
		}
		if downed >= 0 {
			cl.EmitNodeLeft(n, downed)
		}
	}
	for _, n := range c33Alive(cl) {
		mon.marker(n)
	}
	for _, n := range c33Alive(cl) {
		for _, p := range cl.Nodes[n].Sys.localActors() {
			if strings.HasPrefix(p.Name(), prefix) {
				_ = p.Shutdown(ctx)
			}
		}
	}
	for _, s := range specs {
		_ = cl.Nodes[L].Fake.RemoveActor(ctx, s.Name)
	}
	mon.forget(prefix)
	return out
}

// c33SystemActors counts the reserved-name actors of a system, relocation workers excluded.
func c33SystemActors(sys *actorSystem) int {
	sys.locker.RLock()
	nodes := sys.actors.nodes()
	sys.locker.RUnlock()
	n := 0
	for _, nd := range nodes {
		p := nd.value()
		if p == nil || !isSystemName(p.Name()) {
			continue
		}
		if _, ok := p.actor.(*relocationWorker); ok {
			continue
		}
		n++
	}
	return n
}
