//go:build verif

package actor

import (
	"context"
	"fmt"
	"math/rand"
	"sort"
	"strings"
	"sync"
	"testing"
	"time"

	"github.com/tochemey/goakt/v4/internal/verifrt"
)

// C14 — behaviour switching follows stack semantics.
//
// One case = one generated sequence of messages, each carrying 0..3 behaviour
// switch operations that the handler executes through its ReceiveContext. Every
// behaviour is a closure tagged with an id that it logs on entry and on exit.
// The oracle is a reference stack run over the same sequence:
//
//	Become(b)        => [b]
//	BecomeStacked(b) => push b
//	UnBecomeStacked  => pop when depth > 1
//	UnBecome         => [default]
//
// Popping the last behaviour is left open by the statement (the API doc says "no
// effect if there is no stack"): the model then keeps every reading alive -- no
// effect, default restored, no behaviour at all (messages not handled) -- as a
// *set* of possible stacks that later observations narrow down. A handler that is
// the top of none of the possible stacks is a violation under every reading.

const (
	c14OpBecome = iota
	c14OpBecomeStacked
	c14OpUnBecomeStacked
	c14OpUnBecome
)

var c14OpNames = []string{"Become", "BecomeStacked", "UnBecomeStacked", "UnBecome"}

// c14NBehaviors: id 0 is the actor's default Receive, 1..3 are closures.
const c14NBehaviors = 4

var c14BehaviorNames = []string{"default", "A", "B", "C"}

type c14Op struct {
	Kind int
	B    int
}

func (o c14Op) String() string {
	if o.Kind == c14OpBecome || o.Kind == c14OpBecomeStacked {
		return c14OpNames[o.Kind] + "(" + c14BehaviorNames[o.B] + ")"
	}
	return c14OpNames[o.Kind]
}

// c14Msg is one message of a sequence; ID is unique within the case.
type c14Msg struct {
	ID  int
	Ops []c14Op
}

type c14Seq [][]c14Op

func (s c14Seq) String() string {
	var sb strings.Builder
	for i, ops := range s {
		if i > 0 {
			sb.WriteString(" | ")
		}
		if len(ops) == 0 {
			sb.WriteString("x")
		}
		for j, o := range ops {
			if j > 0 {
				sb.WriteString(",")
			}
			sb.WriteString(o.String())
		}
	}
	return sb.String()
}

// c14Rec is one log entry written by a behaviour.
type c14Rec struct {
	Msg   int
	Beh   int
	Enter bool
}

type c14Log struct {
	mu    sync.Mutex
	recs  []c14Rec
	exits int
}

func (l *c14Log) add(r c14Rec) {
	l.mu.Lock()
	l.recs = append(l.recs, r)
	if !r.Enter {
		l.exits++
	}
	l.mu.Unlock()
}

func (l *c14Log) done() int {
	l.mu.Lock()
	defer l.mu.Unlock()
	return l.exits
}

func (l *c14Log) snapshot() []c14Rec {
	l.mu.Lock()
	defer l.mu.Unlock()
	return append([]c14Rec(nil), l.recs...)
}

type c14Actor struct {
	log  *c14Log
	behs [c14NBehaviors]Behavior
}

func c14NewActor(l *c14Log) *c14Actor {
	a := &c14Actor{log: l}
	a.behs[0] = a.Receive
	for i := 1; i < c14NBehaviors; i++ {
		id := i
		a.behs[i] = func(ctx *ReceiveContext) { a.run(id, ctx) }
	}
	return a
}

func (a *c14Actor) PreStart(*Context) error { return nil }
func (a *c14Actor) PostStop(*Context) error { return nil }
func (a *c14Actor) Receive(ctx *ReceiveContext) {
	a.run(0, ctx)
}

// run is the body shared by all behaviours; beh is the identity of the closure
// the runtime invoked.
func (a *c14Actor) run(beh int, ctx *ReceiveContext) {
	m, ok := ctx.Message().(*c14Msg)
	if !ok {
		return
	}
	a.log.add(c14Rec{Msg: m.ID, Beh: beh, Enter: true})
	for _, op := range m.Ops {
		switch op.Kind {
		case c14OpBecome:
			ctx.Become(a.behs[op.B])
		case c14OpBecomeStacked:
			ctx.BecomeStacked(a.behs[op.B])
		case c14OpUnBecomeStacked:
			ctx.UnBecomeStacked()
		case c14OpUnBecome:
			ctx.UnBecome()
		}
	}
	a.log.add(c14Rec{Msg: m.ID, Beh: beh, Enter: false})
}

// c14Observed: per message the behaviour that handled it (-1 = not handled).
type c14Observed struct {
	Handler []int
	// Structural problems of the log itself (double handling, nested or
	// interleaved enter/exit, exit under another behaviour than entry).
	LogFault string
	Quiesced bool
}

// c14RunSeq runs one sequence on a fresh actor. oneByOne waits for each message
// to be handled (or dropped) before sending the next one.
func c14RunSeq(t *testing.T, sys *actorSystem, name string, seq c14Seq, oneByOne bool) c14Observed {
	ctx := context.Background()
	l := &c14Log{}
	pid, err := sys.Spawn(ctx, name, c14NewActor(l), WithLongLived())
	if err != nil {
		t.Fatalf("c14 spawn: %v", err)
	}
	defer func() { _ = pid.Shutdown(ctx) }()

	quiet := func(sent int) func() bool {
		return func() bool {
			if l.done() >= sent {
				return true
			}
			// every Tell has returned: an empty mailbox with an idle dispatch
			// state means every message was taken and its dispatch finished
			return pid.mailbox.IsEmpty() && pid.schedState.v.Load() == dispatchIdle && pid.mailbox.IsEmpty()
		}
	}
	obs := c14Observed{Handler: make([]int, len(seq)), Quiesced: true}
	for i, ops := range seq {
		if err := Tell(ctx, pid, &c14Msg{ID: i, Ops: ops}); err != nil {
			t.Fatalf("c14 tell: %v", err)
		}
		if oneByOne {
			if !verifrt.WaitUntil(30*time.Second, quiet(i+1)) {
				obs.Quiesced = false
				break
			}
		}
	}
	if obs.Quiesced && !verifrt.WaitUntil(30*time.Second, quiet(len(seq))) {
		obs.Quiesced = false
	}
	for i := range obs.Handler {
		obs.Handler[i] = -1
	}
	recs := l.snapshot()
	open := -1 // index into recs of the currently open enter
	seen := map[int]bool{}
	for i, r := range recs {
		if r.Enter {
			if open >= 0 && obs.LogFault == "" {
				obs.LogFault = fmt.Sprintf("message %d entered behaviour %s while message %d was still inside behaviour %s", r.Msg, c14BehaviorNames[r.Beh], recs[open].Msg, c14BehaviorNames[recs[open].Beh])
			}
			if seen[r.Msg] && obs.LogFault == "" {
				obs.LogFault = fmt.Sprintf("message %d handled more than once (again by %s)", r.Msg, c14BehaviorNames[r.Beh])
			}
			seen[r.Msg] = true
			if r.Msg >= 0 && r.Msg < len(obs.Handler) && obs.Handler[r.Msg] < 0 {
				obs.Handler[r.Msg] = r.Beh
			}
			open = i
			continue
		}
		if (open < 0 || recs[open].Msg != r.Msg || recs[open].Beh != r.Beh) && obs.LogFault == "" {
			obs.LogFault = fmt.Sprintf("message %d finished under behaviour %s without having started under it", r.Msg, c14BehaviorNames[r.Beh])
		}
		open = -1
	}
	return obs
}

// ---- reference model ------------------------------------------------------

type c14Stack []int

func (s c14Stack) key() string {
	var sb strings.Builder
	for _, b := range s {
		sb.WriteByte(byte('0' + b))
	}
	return sb.String()
}

func (s c14Stack) top() int {
	if len(s) == 0 {
		return -1
	}
	return s[len(s)-1]
}

func (s c14Stack) names() string {
	if len(s) == 0 {
		return "[]"
	}
	parts := make([]string, len(s))
	for i, b := range s {
		parts[i] = c14BehaviorNames[b]
	}
	return "[" + strings.Join(parts, ",") + "]"
}

// c14Apply applies one operation to one stack under the statement's model and
// returns every stack the statement allows afterwards.
func c14Apply(s c14Stack, op c14Op) []c14Stack {
	switch op.Kind {
	case c14OpBecome:
		return []c14Stack{{op.B}}
	case c14OpBecomeStacked:
		n := append(append(c14Stack{}, s...), op.B)
		return []c14Stack{n}
	case c14OpUnBecome:
		return []c14Stack{{0}}
	case c14OpUnBecomeStacked:
		if len(s) > 1 {
			return []c14Stack{append(c14Stack{}, s[:len(s)-1]...)}
		}
		if len(s) == 1 {
			// open corner: no effect / default restored / nothing left
			return []c14Stack{append(c14Stack{}, s...), {0}, {}}
		}
		return []c14Stack{{}}
	}
	return []c14Stack{s}
}

// c14ApplyHyp is the *diagnostic* model of one specific wrong implementation:
// UnBecome pushes the default behaviour on top of whatever is stacked instead of
// clearing the stack. It is used only to label a mismatch, never to judge.
func c14ApplyHyp(s c14Stack, op c14Op) c14Stack {
	switch op.Kind {
	case c14OpBecome:
		return c14Stack{op.B}
	case c14OpBecomeStacked:
		return append(append(c14Stack{}, s...), op.B)
	case c14OpUnBecome:
		return append(append(c14Stack{}, s...), 0)
	case c14OpUnBecomeStacked:
		if len(s) > 0 {
			return append(c14Stack{}, s[:len(s)-1]...)
		}
	}
	return s
}

type c14Verdict struct {
	Bad       bool
	At        int    // index of the first message whose handler no reading allows
	Got       int    // observed handler (-1 none)
	Allowed   string // what the model allowed at that point
	LastOp    string // last switch operation executed before that message
	HypMatch  bool   // whole observation equals the "UnBecome pushes" hypothesis
	HypKept   string // what that UnBecome left behind: "stacked" and/or "swapped" behaviours
	Pops      int    // pops at depth > 1 in the model (non-triviality)
	Handlers  int    // distinct behaviours that handled something
	MaxDepth  int
	OpenCorner bool  // the open corner (pop of the last behaviour) was reached
}

func c14Judge(seq c14Seq, handler []int) c14Verdict {
	v := c14Verdict{At: -1}
	set := map[string]c14Stack{"0": {0}}
	lastOp := "none"
	handlers := map[int]bool{}
	for i, ops := range seq {
		got := handler[i]
		if got >= 0 {
			handlers[got] = true
		}
		// narrow to the stacks consistent with the observation
		next := map[string]c14Stack{}
		for k, s := range set {
			if s.top() == got {
				next[k] = s
			}
		}
		if len(next) == 0 {
			v.Bad = true
			v.At = i
			v.Got = got
			var al []string
			for _, s := range set {
				al = append(al, s.names())
			}
			sort.Strings(al)
			v.Allowed = strings.Join(al, " or ")
			v.LastOp = lastOp
			break
		}
		set = next
		if got < 0 {
			continue // not handled: its operations were not executed
		}
		for _, op := range ops {
			after := map[string]c14Stack{}
			for _, s := range set {
				if op.Kind == c14OpUnBecomeStacked {
					if len(s) > 1 {
						v.Pops++
					} else {
						v.OpenCorner = true
					}
				}
				for _, n := range c14Apply(s, op) {
					after[n.key()] = n
					if len(n) > v.MaxDepth {
						v.MaxDepth = len(n)
					}
				}
			}
			set = after
			lastOp = c14OpNames[op.Kind]
		}
	}
	v.Handlers = len(handlers)
	if v.Bad {
		// label: does the single hypothesis "UnBecome keeps what was stacked"
		// reproduce the complete observation, and did an UnBecome hit a stack
		// other than [default] (something the statement says it clears)?
		hs := c14Stack{0}
		match, kept := true, false
		keptKinds := map[string]bool{}
		for i, ops := range seq {
			if hs.top() != handler[i] {
				match = false
				break
			}
			if handler[i] < 0 {
				continue
			}
			for _, op := range ops {
				if op.Kind == c14OpUnBecome && len(hs) > 1 {
					kept = true
					keptKinds["stacked"] = true
				} else if op.Kind == c14OpUnBecome && len(hs) == 1 && hs[0] != 0 {
					kept = true
					keptKinds["swapped"] = true
				}
				hs = c14ApplyHyp(hs, op)
			}
		}
		v.HypMatch = match && kept
		var kk []string
		for k := range keptKinds {
			kk = append(kk, k)
		}
		sort.Strings(kk)
		v.HypKept = strings.Join(kk, "+")
	}
	return v
}

func c14Sig(v c14Verdict) string {
	if v.HypMatch {
		return "behavior-mismatch:unbecome-keeps-stacked"
	}
	got := "none"
	if v.Got >= 0 {
		got = "handled"
	}
	return "behavior-mismatch:after-" + v.LastOp + ":" + got
}

// ---- generator ------------------------------------------------------------

func c14Boundary() []c14Seq {
	bs := func(b int) c14Op { return c14Op{c14OpBecomeStacked, b} }
	be := func(b int) c14Op { return c14Op{c14OpBecome, b} }
	ubs := c14Op{Kind: c14OpUnBecomeStacked}
	ub := c14Op{Kind: c14OpUnBecome}
	one := func(ops ...c14Op) c14Seq {
		var s c14Seq
		for _, o := range ops {
			s = append(s, []c14Op{o})
		}
		return append(s, nil, nil)
	}
	deep := c14Seq{}
	for i := 0; i < 12; i++ {
		deep = append(deep, []c14Op{bs(1 + i%3)})
	}
	for i := 0; i < 11; i++ {
		deep = append(deep, []c14Op{ubs}, nil)
	}
	return []c14Seq{
		one(bs(1), ub, ubs),
		one(be(1), ubs),
		one(bs(1), bs(2), ubs, ubs),
		one(be(1), be(2), ub),
		one(bs(1), be(2), ubs),
		one(bs(1), bs(2), ub, bs(3), ubs),
		one(ubs),
		{{bs(1), bs(2), ubs}, nil, {ubs}, nil},
		{{be(1), bs(2)}, nil, {ub}, nil},
		deep,
	}
}

func c14Gen(rng *rand.Rand) c14Seq {
	n := 1 + rng.Intn(30)
	// per-sequence operation bias
	wPush := 2 + rng.Intn(5)
	wPop := 1 + rng.Intn(5)
	wBecome := rng.Intn(3)
	wUn := rng.Intn(3)
	total := wPush + wPop + wBecome + wUn
	pick := func() c14Op {
		x := rng.Intn(total)
		switch {
		case x < wPush:
			return c14Op{c14OpBecomeStacked, rng.Intn(c14NBehaviors)}
		case x < wPush+wPop:
			return c14Op{Kind: c14OpUnBecomeStacked}
		case x < wPush+wPop+wBecome:
			return c14Op{c14OpBecome, rng.Intn(c14NBehaviors)}
		}
		return c14Op{Kind: c14OpUnBecome}
	}
	seq := make(c14Seq, 0, n+1)
	for i := 0; i < n; i++ {
		var ops []c14Op
		switch rng.Intn(10) {
		case 0, 1:
			// plain message: only observes the current behaviour
		case 2:
			ops = []c14Op{pick(), pick()}
		case 3:
			ops = []c14Op{pick(), pick(), pick()}
		default:
			ops = []c14Op{pick()}
		}
		seq = append(seq, ops)
	}
	return append(seq, nil) // final probe observes the last state
}

// c14Shrink removes messages / operations while the same signature keeps being
// produced by the real code; returns the smallest sequence found.
func c14Shrink(t *testing.T, sys *actorSystem, namer func() string, seq c14Seq, sig string, budget int) (c14Seq, c14Observed, c14Verdict) {
	best := seq
	run := func(s c14Seq) (c14Observed, c14Verdict, bool) {
		o := c14RunSeq(t, sys, namer(), s, false)
		if !o.Quiesced || o.LogFault != "" {
			return o, c14Verdict{}, false
		}
		v := c14Judge(s, o.Handler)
		return o, v, v.Bad && c14Sig(v) == sig
	}
	bestObs, bestV, ok := run(best)
	if !ok {
		return seq, bestObs, bestV
	}
	// cut everything behind the first mismatching message
	if bestV.At+1 < len(best) {
		best = best[:bestV.At+1]
	}
	changed := true
	for changed && budget > 0 {
		changed = false
		for i := 0; i < len(best) && budget > 0; i++ {
			cand := append(append(c14Seq{}, best[:i]...), best[i+1:]...)
			if len(cand) == 0 {
				continue
			}
			budget--
			if o, v, ok := run(cand); ok {
				best, bestObs, bestV, changed = cand[:v.At+1], o, v, true
				i--
			}
		}
		for i := 0; i < len(best) && budget > 0; i++ {
			for j := 0; j < len(best[i]) && budget > 0; j++ {
				cand := append(c14Seq{}, best...)
				ops := append(append([]c14Op{}, best[i][:j]...), best[i][j+1:]...)
				cand[i] = ops
				budget--
				if o, v, ok := run(cand); ok {
					best, bestObs, bestV, changed = cand[:v.At+1], o, v, true
					j--
				}
			}
		}
	}
	return best, bestObs, bestV
}

func c14HandlerNames(h []int) []string {
	out := make([]string, len(h))
	for i, b := range h {
		if b < 0 {
			out[i] = "none"
		} else {
			out[i] = c14BehaviorNames[b]
		}
	}
	return out
}

func TestVerif_C14(t *testing.T) {
	r := verifrt.Start(t, "C14")
	defer r.Finish()
	r.Rule("case = one sequence of 1-31 messages to a fresh actor, each message executing 0-3 of Become/BecomeStacked/UnBecomeStacked/UnBecome over 4 tagged behaviours (boundary shapes first, then seeded random sequences with per-sequence operation bias; messages sent back-to-back or one at a time); oracle = reference stack (set of possible stacks where the statement leaves popping the last behaviour open) vs the behaviour id each message logged on entry and exit, each message handled at most once and finishing under the behaviour that started it; non-trivial = at least one pop at model depth > 1, model depth >= 3 reached and >= 2 distinct behaviours observed handling; distinct by sequence text")
	r.Assume("an empty mailbox with an idle dispatch state after all Tell calls returned means all messages were dispatched (quiescence for sequences that leave the actor without behaviour)")

	sys := vfNewSystem(t)
	defer vfStop(sys)
	rng := r.Rand(1)
	n := r.N(2000, 200000)
	actorNo := 0
	namer := func() string { actorNo++; return fmt.Sprintf("c14-%d", actorNo) }
	shrunk := map[string]int{}

	var seqs []c14Seq
	if r.Batch == 0 {
		seqs = append(seqs, c14Boundary()...)
	}
	for len(seqs) < n {
		seqs = append(seqs, c14Gen(rng))
	}
	for i, seq := range seqs {
		oneByOne := rng.Intn(3) == 0
		obs := c14RunSeq(t, sys, namer(), seq, oneByOne)
		text := seq.String()
		if !obs.Quiesced {
			r.Inconclusive("sequence did not quiesce within 30s: %s", text)
			continue
		}
		handled := 0
		for _, h := range obs.Handler {
			if h >= 0 {
				handled++
			}
		}
		r.Count("messages_sent", int64(len(seq)))
		r.Count("messages_handled", int64(handled))
		if obs.LogFault != "" {
			r.Violation("handler-log:message-not-handled-once-under-one-behavior", map[string]any{"sequence": text, "fault": obs.LogFault, "handlers": c14HandlerNames(obs.Handler)})
		}
		v := c14Judge(seq, obs.Handler)
		r.Case(text, v.Pops > 0 && v.MaxDepth >= 3 && v.Handlers >= 2)
		r.Max("max_model_depth", int64(v.MaxDepth))
		r.Count("pops_at_depth_gt1", int64(v.Pops))
		if v.OpenCorner {
			r.Count("sequences_reaching_open_corner", 1)
		}
		if v.Bad {
			sig := c14Sig(v)
			wseq, wobs, wv := seq, obs, v
			if shrunk[sig] < 3 {
				shrunk[sig]++
				wseq, wobs, wv = c14Shrink(t, sys, namer, seq, sig, 150)
			}
			got := "none"
			if wv.Got >= 0 {
				got = c14BehaviorNames[wv.Got]
			}
			r.Violation(sig, map[string]any{
				"witness_sequence":        wseq.String(),
				"witness_handlers":        c14HandlerNames(wobs.Handler),
				"mismatch_at_message":     wv.At,
				"handled_by":              got,
				"model_allows_stack":      wv.Allowed,
				"last_switch_op":          wv.LastOp,
				"original_sequence":       text,
				"original_handlers":       c14HandlerNames(obs.Handler),
				"original_mismatch_at":    v.At,
				"sent_one_by_one":         oneByOne,
				"matches_unbecome_pushes": wv.HypMatch,
				"unbecome_left_behind":    wv.HypKept,
			})
		}
		if i < 3 {
			r.Sample(map[string]any{"sequence": text, "handlers": c14HandlerNames(obs.Handler)})
		}
	}
}
