//go:build verif

package actor

import (
	"testing"

	"github.com/tochemey/goakt/v4/internal/verifrt"
)

// TestVerif_C06: per-(actor, incarnation) lifecycle automaton over the hook event
// log + online CAS word shared by Receive and PostStop, over every stop path
// issued at a random moment of steady traffic.
func TestVerif_C06(t *testing.T) {
	r := verifrt.Start(t, "C06")
	defer r.Finish()
	r.Rule("case = (stop path in {PoisonPill, ctx.Shutdown from own handler, ActorSystem.Kill from an external goroutine, PID.Stop(child) from an external goroutine, ctx.Stop(child) from the parent's turn, PoisonPill to the parent, Kill of the parent, supervisor Stop directive one-for-one / one-for-all, time-based passivation, message-count passivation, PID.Restart from an external goroutine, ActorSystem.Stop, three concurrent stoppers, Kill racing count passivation, supervisor Restart directive}, child or top-level target, handler dwell, 1-3 sender goroutines, stop after k handled messages, GOMAXPROCS, 0-2 hot noise sites in pid.go/pid_tree.go/death_watch.go/passivation_manager.go) on a fresh actor system; oracle = automaton over the PreStart/Receive/PostStop entry/exit log of every harness actor (target, sibling, parent) per incarnation; non-trivial = the target's PostStop began while senders were still sending; distinct by knob tuple and seed")
	rng := r.Rand(6)
	n := r.N(120, 3000)
	for i := 0; i < n; i++ {
		k := c06GenKnobs(rng, i+r.Batch*5)
		seed := rng.Int63()
		obs := c06RunCase(t, k, seed)
		r.Case(k.String()+"/"+verifrt.Hash64s(seed), obs.Raced || (k.Path == "supervisor-restart" && obs.Stopped && obs.SuspensionSeen))
		r.Count("events_logged", int64(obs.Events))
		r.Count("receives_observed", obs.Receives)
		r.Count("poststops_observed", obs.PostStops)
		r.Count("noise_delays_injected", obs.Delays)
		if obs.Raced {
			r.Count("cases_stop_raced_traffic:"+k.Path, 1)
		}
		if k.Path == "supervisor-restart" {
			if obs.SuspensionSeen {
				r.Count("supervisor_restarts_with_suspension_observed_while_senders_active", 1)
			}
			r.Count("sends_begun_after_suspension_seen_and_accepted", obs.AcceptedAfterSuspension)
		}
		if obs.Busy {
			r.Count("cases_poststop_found_receive_in_progress", 1)
		}
		for _, p := range obs.APIPanics {
			r.Count("framework_api_panics_recovered", 1)
			r.Note("recovered panic in a framework call (owned by C09): %s [%s]", p, k.String())
		}
		if obs.Watchdog != "" {
			r.Inconclusive("%s [%s seed=%d]", obs.Watchdog, k.String(), seed)
		}
		seen := map[string]bool{}
		for _, f := range obs.Findings {
			path := k.Path
			if f.BySystemStop && f.Actor != "target" {
				// a bystander stopped by the final system Stop: name the path that stopped it
				path = "system-stop"
			}
			sig := f.Kind + ":" + path + ":" + f.Actor
			if f.Sub != "" {
				sig += ":" + f.Sub
			}
			if seen[sig] {
				continue
			}
			seen[sig] = true
			var stacks []c06Overlap
			for _, o := range obs.Overlaps {
				twice := len(o.Holder) > 16 && o.Holder[:16] == "poststop-number-"
				if o.Actor == f.Actor && len(stacks) < 2 && twice == (f.Kind == "poststop-twice") {
					stacks = append(stacks, o)
				}
			}
			r.Violation(sig, map[string]any{"knobs": k.String(), "seed": seed, "finding": f.Detail, "log_window": obs.window(f), "online_overlap_witness": stacks, "hot_sites": obs.HotSites, "stop_err": obs.StopErr})
		}
		if i < 3 {
			r.Sample(map[string]any{"knobs": k.String(), "events": obs.Events, "receives": obs.Receives, "poststops": obs.PostStops, "raced": obs.Raced, "findings": len(obs.Findings), "hot_sites": obs.HotSites})
		}
	}
}
