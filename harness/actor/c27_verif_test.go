//go:build verif

package actor

import (
	"context"
	"errors"
	"fmt"
	"math/rand"
	"runtime"
	"sort"
	"strconv"
	"strings"
	"sync"
	"sync/atomic"
	"testing"
	"time"

	"github.com/tochemey/goakt/v4/internal/internalpb"
	"github.com/tochemey/goakt/v4/internal/verifrt"
	"github.com/tochemey/goakt/v4/remote"
	"github.com/tochemey/goakt/v4/test/data/testpb"
)

// C27, actor-system layer: node A sends coalesced remote tells to actors on node B
// through the fault proxy. Oracle: per-(caller,target) order and at-most-once at
// the receiving actors, and conservation accepted ⊆ delivered ∪ deadLettered(A)
// decided after structural barriers (fence message through the same FIFO path,
// barrier entry through the dead-letter hand-off queue, or return of Close/Stop).

type c27Ledger struct {
	tag                         string
	callers, targets, perCaller int
	delivered                   []atomic.Int32 // idx = caller*perCaller+seq
	total                       atomic.Int64
	misrouted, dups             atomic.Int64
	wit                         atomic.Value // string
	fence                       []atomic.Int64 // per target: highest fence number processed
	garbage                     atomic.Int64
	histMu                      sync.Mutex
	hist                        [][]int32 // per target: snapshot of the handling order taken at the last fence
}

func c27NewLedger(tag string, callers, targets, perCaller int) *c27Ledger {
	return &c27Ledger{tag: tag, callers: callers, targets: targets, perCaller: perCaller,
		delivered: make([]atomic.Int32, callers*perCaller), fence: make([]atomic.Int64, targets), hist: make([][]int32, targets)}
}

type c27Sink struct {
	led    *c27Ledger
	target int
	// plain: only touched in Receive; handed to the ledger when a fence is processed
	hist []int32 // handled message indexes (caller*perCaller+seq) in handling order
}

func (s *c27Sink) PreStart(*Context) error { return nil }
func (s *c27Sink) PostStop(*Context) error { return nil }

func (s *c27Sink) Receive(ctx *ReceiveContext) {
	m, ok := ctx.Message().(*testpb.TestLog)
	if !ok {
		return
	}
	led := s.led
	parts := strings.Split(m.GetText(), "|")
	if len(parts) < 2 || parts[0] != led.tag {
		led.garbage.Add(1)
		return
	}
	parts = parts[1:]
	switch parts[0] {
	case "f": // f|n|target
		if len(parts) != 3 {
			led.garbage.Add(1)
			return
		}
		n, _ := strconv.ParseInt(parts[1], 10, 64)
		if tgt, _ := strconv.Atoi(parts[2]); tgt == s.target {
			led.histMu.Lock()
			led.hist[s.target] = append([]int32(nil), s.hist...)
			led.histMu.Unlock()
			for {
				cur := led.fence[s.target].Load()
				if n <= cur || led.fence[s.target].CompareAndSwap(cur, n) {
					break
				}
			}
		}
	case "m": // m|caller|target|seq[|padding]
		if len(parts) != 4 && len(parts) != 5 {
			led.garbage.Add(1)
			return
		}
		caller, e1 := strconv.Atoi(parts[1])
		tgt, e2 := strconv.Atoi(parts[2])
		seq, e3 := strconv.Atoi(parts[3])
		if e1 != nil || e2 != nil || e3 != nil || caller < 0 || caller >= led.callers || seq < 0 || seq >= led.perCaller {
			led.garbage.Add(1)
			led.wit.Store("unparseable or out-of-range message text " + m.GetText())
			return
		}
		if tgt != s.target {
			led.misrouted.Add(1)
			led.wit.Store(fmt.Sprintf("message %q handled by target %d", m.GetText(), s.target))
		}
		if n := led.delivered[caller*led.perCaller+seq].Add(1); n > 1 {
			led.dups.Add(1)
			led.wit.Store(fmt.Sprintf("message %q handled %d times", m.GetText(), n))
		}
		s.hist = append(s.hist, int32(caller*led.perCaller+seq))
		led.total.Add(1)
	}
}

type c27Script struct {
	Kind      string
	Callers   int
	Targets   int
	PerCaller int
	Pace      int              // 0 flat out, 1 Gosched between sends, 2 short sleep every 8 sends
	Faults    map[int64]string // kill scripts
	WinStart  int              // refuse-window / killall: accepted-count thresholds
	WinLen    int
	Pending   int  // close/stop scripts: messages queued behind the stalled first batch
	ActorFrom bool // the sending PID is a spawned actor of A instead of A's NoSender
	BigEvery  int  // > 0: every BigEvery-th message of a caller carries a 70-130 KiB payload
}

func (s c27Script) String() string {
	var fk []string
	for k, v := range s.Faults {
		fk = append(fk, fmt.Sprintf("%s@%d", v, k))
	}
	sort.Strings(fk)
	return fmt.Sprintf("%s callers=%d targets=%d n=%d pace=%d faults=[%s] win=%d+%d pending=%d actorfrom=%v bigevery=%d",
		s.Kind, s.Callers, s.Targets, s.PerCaller, s.Pace, strings.Join(fk, ","), s.WinStart, s.WinLen, s.Pending, s.ActorFrom, s.BigEvery)
}

type c27Obs struct {
	Accepted, Rejected, Delivered, DeadLettered, Ambiguous int
	Missing                                                []string
	MissingN                                               int
	OrderBad, Dups, Misrouted, LateFailed                  int64
	Wit                                                    string
	Frames, Fired, Refused                                 int64
	FiredLog                                               []string
	FanoutFull, BatchFail                                  int64
	Nontrivial                                             bool
	Inconclusive                                           string
	RejectedDelivered                                      int
	PendingAtClose                                         int
	Spoiled                                                bool
	PhaseMs                                                []int64 // set-up, traffic, barriers, verdict
}

type c27Idle struct{}

func (c27Idle) PreStart(*Context) error { return nil }
func (c27Idle) PostStop(*Context) error { return nil }
func (c27Idle) Receive(*ReceiveContext) {}

func c27GenScript(rng *rand.Rand, i int, maxTotal int) c27Script {
	s := c27Script{Callers: 1 + rng.Intn(8), Targets: 1 + rng.Intn(3), Pace: rng.Intn(3), ActorFrom: rng.Intn(3) == 0}
	s.PerCaller = []int{200, 400, 1000, 2500, 5000}[rng.Intn(5)]
	if s.Callers*s.PerCaller > maxTotal {
		s.PerCaller = maxTotal / s.Callers
	}
	kinds := []string{"clean", "kills", "kills", "kills", "refuse-window", "refuse-window", "killall", "client-close-pending", "system-stop-pending", "backpressure-cancel"}
	s.Kind = kinds[i%len(kinds)]
	if rng.Intn(4) == 0 {
		s.Kind = kinds[rng.Intn(len(kinds))]
	}
	if (s.Kind == "clean" || s.Kind == "kills") && rng.Intn(2) == 0 {
		s.BigEvery = []int{5, 11, 37}[rng.Intn(3)]
		if s.PerCaller > 400 {
			s.PerCaller = 400
		}
		for s.Callers*s.PerCaller/s.BigEvery > 100 { // at most ~10 MB of large payloads per case
			s.BigEvery *= 2
		}
	}
	switch s.Kind {
	case "kills":
		s.Faults = map[int64]string{}
		for n := 1 + rng.Intn(3); n > 0; n-- {
			k := int64(rng.Intn(6))
			if rng.Intn(3) == 0 {
				k = int64(rng.Intn(30))
			}
			s.Faults[k] = c27FaultKinds[rng.Intn(len(c27FaultKinds))]
		}
		if s.Pace == 0 {
			s.Pace = 1 + rng.Intn(2) // more, smaller batches so that frame numbers up to 30 exist
		}
	case "refuse-window", "killall":
		tot := s.Callers * s.PerCaller
		s.WinStart = rng.Intn(tot/2 + 1)
		s.WinLen = 1 + rng.Intn(tot/2+1)
	case "client-close-pending", "system-stop-pending":
		s.Callers = 1 + rng.Intn(3)
		s.Pending = []int{257, 300, 513, 700, 1000, 1024}[rng.Intn(6)]
		s.PerCaller = (s.Pending + s.Callers - 1) / s.Callers
		s.Pace = 0
	case "backpressure-cancel":
		s.Callers = 2 + rng.Intn(6)
		s.PerCaller = 1300/s.Callers + 20 // queue capacity 1024 + one batch in flight; ~20 blocked sends per caller
		s.Pace = 0
	}
	return s
}

func c27Text(tag string, caller, target, seq, pad int) string {
	t := tag + "|m|" + strconv.Itoa(caller) + "|" + strconv.Itoa(target) + "|" + strconv.Itoa(seq)
	if pad > 0 {
		t += "|" + strings.Repeat("x", pad)
	}
	return t
}

// padFor makes some messages of a caller's sequence large (70-130 KiB): a transport
// that treats payload sizes differently must still keep one sender's order.
func (s c27Script) padFor(caller, seq int) int {
	if s.BigEvery <= 0 || seq == 0 || (seq+caller)%s.BigEvery != 0 {
		return 0
	}
	return 70*1024 + ((seq*7919+caller*104729)%60)*1024
}

// c27Env is the pair of nodes a batch reuses across its cases: node B (behind the
// proxy) lives for the whole batch; node A is replaced after a script closed its
// client or stopped it. (Every remoting server allocates a 20 MiB ballast, so fresh
// systems per case would dominate the budget.)
type c27Env struct {
	t     *testing.T
	a, b  *c27Node
	cases int
	cfg   func() []remote.Option // remote config options of both nodes (nil: none)
}

func (e *c27Env) nodes() (*c27Node, *c27Node) {
	var opts []remote.Option
	if e.cfg != nil {
		opts = e.cfg()
	}
	if e.b == nil {
		e.b = c27StartNode(e.t, true, opts)
	}
	if e.a == nil {
		e.a = c27StartNode(e.t, false, opts)
	}
	return e.a, e.b
}

func (e *c27Env) dropA(stopped bool) {
	if e.a != nil && !stopped {
		e.a.Stop()
	}
	e.a = nil
}

func (e *c27Env) Close() {
	e.dropA(false)
	if e.b != nil {
		e.b.Stop()
		e.b = nil
	}
}

// c27RunCase runs one script.
func c27RunCase(e *c27Env, s c27Script) (obs c27Obs) {
	t := e.t
	ctx := context.Background()
	t0 := time.Now()
	phase := func() {
		obs.PhaseMs = append(obs.PhaseMs, time.Since(t0).Milliseconds())
		t0 = time.Now()
	}
	a, b := e.nodes()
	e.cases++
	tag := strconv.Itoa(e.cases)
	aStopped := false
	destroyA := false
	defer func() {
		if destroyA || obs.Inconclusive != "" {
			e.dropA(aStopped)
		}
	}()
	led := c27NewLedger(tag, s.Callers, s.Targets, s.PerCaller)
	sinks := make([]*PID, s.Targets)
	remotes := make([]*PID, s.Targets)
	for i := range sinks {
		pid, err := b.Sys.Spawn(ctx, fmt.Sprintf("c27sink-%s-%d", tag, i), &c27Sink{led: led, target: i})
		if err != nil {
			t.Fatalf("c27: spawn sink: %v", err)
		}
		sinks[i] = pid
		remotes[i] = newRemotePID(pid.getAddress(), a.Sys.getRemoting())
	}
	defer func() {
		for _, p := range sinks {
			_ = p.Shutdown(ctx)
		}
	}()
	dls := c27CollectDeadLetters(t, a.Sys)
	defer dls.Close()
	from := a.Sys.NoSender()
	if s.ActorFrom {
		pid, err := a.Sys.Spawn(ctx, "c27from-"+tag, c27Idle{})
		if err != nil {
			t.Fatalf("c27: spawn sender: %v", err)
		}
		from = pid
	}
	frames0, fired0, refused0 := b.Proxy.ReqFwd.Load(), b.Proxy.Fired.Load(), b.Proxy.Refused.Load()
	full0, fail0 := a.Log.FanoutFull.Load(), a.Log.BatchFail.Load()

	accepted := make([]atomic.Bool, s.Callers*s.PerCaller)
	rejected := make([]atomic.Bool, s.Callers*s.PerCaller)
	var acceptedN atomic.Int64
	textOf := func(i int) string {
		caller, seq := i/s.PerCaller, i%s.PerCaller
		return c27Text(tag, caller, rng0(caller, s.Targets)(seq), seq, s.padFor(caller, seq))
	}

	send := func(caller int, cctx func() (context.Context, context.CancelFunc)) {
		tgt := rng0(caller, s.Targets)
		for seq := 0; seq < s.PerCaller; seq++ {
			target := tgt(seq)
			msg := &testpb.TestLog{Text: c27Text(tag, caller, target, seq, s.padFor(caller, seq))}
			sctx, cancel := cctx()
			err := from.Tell(sctx, remotes[target], msg)
			cancel()
			if err == nil {
				accepted[caller*s.PerCaller+seq].Store(true)
				acceptedN.Add(1)
			} else {
				rejected[caller*s.PerCaller+seq].Store(true)
			}
			switch s.Pace {
			case 1:
				runtime.Gosched()
			case 2:
				if seq%8 == 7 {
					time.Sleep(30 * time.Microsecond)
				}
			}
		}
	}
	bg := func() (context.Context, context.CancelFunc) { return ctx, func() {} }
	runCallers := func(cctx func() (context.Context, context.CancelFunc)) *sync.WaitGroup {
		var wg sync.WaitGroup
		for c := 0; c < s.Callers; c++ {
			wg.Add(1)
			go func(c int) {
				defer wg.Done()
				send(c, cctx)
			}(c)
		}
		return &wg
	}

	phase()
	closedEarly := false // A's client closed / A stopped: no fence through A possible
	switch s.Kind {
	case "clean":
		b.Proxy.Arm(nil)
		runCallers(bg).Wait()
	case "kills":
		b.Proxy.Arm(s.Faults)
		runCallers(bg).Wait()
	case "refuse-window", "killall":
		b.Proxy.Arm(nil)
		stopCtl := make(chan struct{})
		var ctl sync.WaitGroup
		ctl.Add(1)
		go func() {
			defer ctl.Done()
			phase := 0
			for {
				select {
				case <-stopCtl:
					return
				default:
				}
				n := int(acceptedN.Load())
				if phase == 0 && n >= s.WinStart {
					b.Proxy.SetRefuse(true)
					if s.Kind == "killall" {
						b.Proxy.KillAll()
					}
					phase = 1
				}
				if phase == 1 && n >= s.WinStart+s.WinLen {
					b.Proxy.SetRefuse(false)
					return
				}
				time.Sleep(20 * time.Microsecond)
			}
		}()
		runCallers(bg).Wait()
		close(stopCtl)
		ctl.Wait()
	case "backpressure-cancel":
		// the peer stalls: the first batch hangs in its RPC, the queue fills, later callers
		// block on back-pressure until their context expires
		b.Proxy.Arm(nil)
		b.Proxy.Stall()
		wg := runCallers(func() (context.Context, context.CancelFunc) {
			return context.WithTimeout(ctx, 10*time.Millisecond)
		})
		wg.Wait()
		b.Proxy.Resume()
	case "client-close-pending", "system-stop-pending":
		destroyA = true
		b.Proxy.Arm(nil)
		b.Proxy.Stall()
		runCallers(bg).Wait() // at most 1024+1 messages: nobody blocks
		obs.PendingAtClose = int(acceptedN.Load()) - int(led.total.Load())
		closed := make(chan struct{})
		go func() {
			defer close(closed)
			if s.Kind == "client-close-pending" {
				a.Sys.getRemoting().Close()
			} else {
				a.Stop()
			}
		}()
		// set-up only: give Close the time to reach the coalescer while the writer is still
		// held in its RPC by the stalled proxy; then let the RPC complete
		if s.Kind == "system-stop-pending" {
			verifrt.WaitUntil(5*time.Second, func() bool { return a.Sys.shuttingDown.Load() })
		}
		time.Sleep(150 * time.Millisecond)
		b.Proxy.Resume()
		select {
		case <-closed:
		case <-time.After(90 * time.Second):
			obs.Inconclusive = "Close/Stop of node A did not return within 90s"
			return obs
		}
		closedEarly = true
		aStopped = s.Kind == "system-stop-pending"
	}
	b.Proxy.Heal()
	phase()

	// ---- barriers -------------------------------------------------------------
	if !closedEarly {
		// fence through the same coalescer: FIFO behind every caller's message
		for tgt := 0; tgt < s.Targets; tgt++ {
			ok := false
			for n := int64(1); n <= 200 && !ok; n++ {
				text := tag + "|f|" + strconv.FormatInt(n, 10) + "|" + strconv.Itoa(tgt)
				if err := from.Tell(ctx, remotes[tgt], &testpb.TestLog{Text: text}); err != nil {
					continue
				}
				// watchdog on progress, not on the clock: the fence sits behind whatever
				// is still in flight (large payloads drain slowly on a loaded machine)
				lastTotal, lastChange := led.total.Load(), time.Now()
				for !(led.fence[tgt].Load() >= n || dls.Has(text)) {
					if cur := led.total.Load(); cur != lastTotal {
						lastTotal, lastChange = cur, time.Now()
					}
					if time.Since(lastChange) > 60*time.Second {
						break
					}
					time.Sleep(time.Millisecond)
				}
				ok = led.fence[tgt].Load() >= n
				if !ok && !dls.Has(text) {
					obs.Inconclusive = fmt.Sprintf("fence %q neither delivered nor dead-lettered within 60s without any delivery progress", text)
					return obs
				}
			}
			if !ok {
				obs.Inconclusive = "200 fences in a row were dead-lettered over a healed proxy"
				return obs
			}
		}
	} else {
		// Close/Stop returned: every flush RPC was answered after node B had enqueued the
		// batch in the sinks' mailboxes; a local fence is FIFO behind them
		for tgt := 0; tgt < s.Targets; tgt++ {
			text := tag + "|f|1|" + strconv.Itoa(tgt)
			if err := b.Sys.NoSender().Tell(ctx, sinks[tgt], &testpb.TestLog{Text: text}); err != nil {
				t.Fatalf("c27: local fence: %v", err)
			}
			if !verifrt.WaitUntil(60*time.Second, func() bool { return led.fence[tgt].Load() >= 1 }) {
				obs.Inconclusive = "local fence not processed within 60s"
				return obs
			}
		}
	}
	if !aStopped {
		// barrier entry through the failure hand-off queue: FIFO behind every failed batch
		ser := a.Sys.getRemoting().Serializer(&testpb.TestLog{})
		ok := false
		for n := 1; n <= 100 && !ok; n++ {
			text := tag + "|p|" + strconv.Itoa(n)
			raw, err := ser.Serialize(&testpb.TestLog{Text: text})
			if err != nil {
				t.Fatalf("c27: serialize barrier: %v", err)
			}
			a.Sys.enqueueCoalescedFailure("c27-barrier", []*internalpb.RemoteMessage{{
				Sender: from.getAddress().String(), Receiver: sinks[0].getAddress().String(), Message: raw,
			}}, errors.New("c27 barrier"))
			ok = verifrt.WaitUntil(2*time.Second, func() bool { return dls.Has(text) })
		}
		if !ok {
			obs.Inconclusive = "dead-letter barrier entry never published"
			return obs
		}
	}

	phase()
	// ---- verdict --------------------------------------------------------------
	failedAtA := func(i int) bool { return !aStopped && dls.Has(textOf(i)) }
	missing := func() []int {
		var out []int
		for i := range accepted {
			if accepted[i].Load() && led.delivered[i].Load() == 0 && !failedAtA(i) {
				out = append(out, i)
			}
		}
		return out
	}
	miss := missing()
	if len(miss) > 0 {
		// grace against harmless lateness (a reordering is judged by the order oracle)
		verifrt.WaitUntil(1500*time.Millisecond, func() bool { return len(missing()) == 0 })
		miss = missing()
	}
	for i := range accepted {
		del := led.delivered[i].Load() > 0
		dl := failedAtA(i)
		if accepted[i].Load() {
			obs.Accepted++
			if del && dl {
				obs.Ambiguous++
			}
		}
		if rejected[i].Load() {
			obs.Rejected++
			if del {
				obs.RejectedDelivered++
			}
		}
		if del {
			obs.Delivered++
		}
		if dl {
			obs.DeadLettered++
		}
	}
	obs.MissingN = len(miss)
	for _, i := range miss {
		if len(obs.Missing) < 12 {
			obs.Missing = append(obs.Missing, textOf(i))
		}
	}
	obs.Dups, obs.Misrouted = led.dups.Load(), led.misrouted.Load()
	if w, ok := led.wit.Load().(string); ok {
		obs.Wit = w
	}
	// order, judged offline over each target's handling history. A batch whose RPC failed
	// at A (timeout, reset) is published as dead letters and may still be processed by B
	// later than its successors; such messages were reported failed to the sender and are
	// left out of the order verdict (counted as late_deliveries_of_failed_batches).
	led.histMu.Lock()
	for tgt, h := range led.hist {
		lastAll := map[int]int{}
		lastOK := map[int]int{}
		for _, idx := range h {
			caller, seq := int(idx)/s.PerCaller, int(idx)%s.PerCaller
			failed := failedAtA(int(idx))
			if l, seen := lastAll[caller]; seen && seq <= l && failed {
				obs.LateFailed++
			}
			if l, seen := lastAll[caller]; !seen || seq > l {
				lastAll[caller] = seq
			}
			if failed {
				continue
			}
			if l, seen := lastOK[caller]; seen && seq <= l {
				obs.OrderBad++
				if !strings.HasPrefix(obs.Wit, "target") {
					obs.Wit = fmt.Sprintf("target %d: caller %d seq %d handled after seq %d (neither was dead-lettered)", tgt, caller, seq, l)
				}
			} else {
				lastOK[caller] = seq
			}
		}
	}
	led.histMu.Unlock()
	phase()
	obs.Frames = b.Proxy.ReqFwd.Load() - frames0
	obs.Fired = b.Proxy.Fired.Load() - fired0
	obs.Refused = b.Proxy.Refused.Load() - refused0
	obs.FiredLog = b.Proxy.FiredLog()
	obs.FanoutFull = a.Log.FanoutFull.Load() - full0
	obs.BatchFail = a.Log.BatchFail.Load() - fail0
	switch s.Kind {
	case "clean":
		obs.Nontrivial = s.Callers > 1 && obs.Frames >= 2
	case "kills":
		obs.Nontrivial = obs.Fired > 0
	case "refuse-window", "killall":
		obs.Nontrivial = obs.BatchFail > 0
	case "backpressure-cancel":
		obs.Nontrivial = obs.Rejected > 0 && obs.Accepted > 0
	case "client-close-pending", "system-stop-pending":
		obs.Nontrivial = obs.PendingAtClose > 256
	}
	if s.Kind == "system-stop-pending" && obs.BatchFail > 0 {
		// the stall outlasted the coalescer's fixed 5 s flush timeout (slow machine): batches
		// failed while the system was stopping, where the dead-letter hand-off is switched
		// off by design and A's dead letters cannot be observed any more. The case did not
		// exercise what it was built for; no verdict from it.
		obs.Spoiled = true
		obs.Nontrivial = false
		obs.OrderBad, obs.MissingN, obs.Missing = 0, 0, nil
	}
	return obs
}

// rng0 is the deterministic target choice of a caller: caller c sends message seq to
// target (c+seq/7) mod targets, so that one caller interleaves its targets.
func rng0(caller, targets int) func(seq int) int {
	return func(seq int) int { return (caller + seq/7) % targets }
}

func c27DropKind(kind string) string {
	switch kind {
	case "client-close-pending":
		return "close-with-pending"
	case "system-stop-pending":
		return "system-stop-with-pending"
	}
	return kind
}

// TestVerif_C27: fault scripts through the proxy and Close/Stop with pending messages.
func TestVerif_C27(t *testing.T) {
	r := verifrt.Start(t, "C27")
	defer r.Finish()
	r.Rule("case = one fault script (clean | kills at request-frame k before/mid/after request or mid response | refusal window | all connections reset + refusal window | peer stall with callers cancelled on back-pressure | client Close with >256 pending | system Stop with >256 pending) x 1-8 caller goroutines x 1-3 target actors x 200-5000 messages on a fresh pair of actor systems; oracle = per-(caller,target) increasing sequence and at-most-once at the receiving actors, and accepted ⊆ delivered ∪ deadLettered(A) after a fence through the same path and a barrier entry through the dead-letter hand-off; non-trivial = the script's fault actually fired (frames killed / batches failed / callers rejected / >256 pending at close); distinct by script text and seed")
	r.Assume("a message counts as accepted when Tell to the remote PID returned nil; a batch whose RPC failed after node B processed it may be both delivered and dead-lettered (counted as ambiguous_acks)")
	rng := r.Rand(27)
	n := r.N(40, 1000)
	env := &c27Env{t: t}
	defer env.Close()
	for i := 0; i < n; i++ {
		s := c27GenScript(rng, i+r.Batch, r.Pick(4000, 20000))
		seed := rng.Int63()
		var hot []string
		if !r.Quick() {
			hot = verifrt.StartNoise(verifrt.NoiseConfig{Seed: seed, GoschedPerMille: 20, HotSites: 2,
				Candidates: verifrt.SitesIn("remoteclient/coalescer.go"), HotPerMille: 300,
				MinDelay: 20 * time.Microsecond, MaxDelay: time.Millisecond, Budget: 100})
		}
		obs := c27RunCase(env, s)
		if !r.Quick() {
			verifrt.StopNoise()
		}
		_ = hot
		key := s.String()
		if obs.Inconclusive != "" {
			r.Inconclusive("%s: %s", key, obs.Inconclusive)
			continue
		}
		r.Case(key+"/"+verifrt.Hash64s(seed), obs.Nontrivial)
		r.Count("accepted", int64(obs.Accepted))
		r.Count("rejected_by_backpressure", int64(obs.Rejected))
		r.Count("delivered", int64(obs.Delivered))
		r.Count("dead_lettered", int64(obs.DeadLettered))
		r.Count("ambiguous_acks", int64(obs.Ambiguous))
		r.Count("request_frames_forwarded", obs.Frames)
		r.Count("proxy_faults_fired", obs.Fired)
		r.Count("connections_refused", obs.Refused)
		r.Count("failed_batches_logged", obs.BatchFail)
		r.Count("handoff_drops_logged", obs.FanoutFull)
		r.Count("rejected_but_delivered", int64(obs.RejectedDelivered))
		r.Count("late_deliveries_of_failed_batches", obs.LateFailed)
		r.Count("kind_"+s.Kind, 1)
		if obs.Spoiled {
			r.Count("stop_cases_spoiled_by_flush_timeout", 1)
		}
		r.Max("max_pending_at_close", int64(obs.PendingAtClose))
		detail := map[string]any{"script": key, "seed": seed, "obs": obs}
		if obs.OrderBad > 0 {
			r.Violation("order:"+s.Kind, detail)
		}
		if obs.Dups > 0 {
			r.Violation("duplicate-delivery:"+s.Kind, detail)
		}
		if obs.Misrouted > 0 {
			r.Violation("misrouted:"+s.Kind, detail)
		}
		if obs.MissingN > 0 {
			sig := "silent-drop:" + c27DropKind(s.Kind)
			if obs.FanoutFull > 0 {
				sig += ":handoff-queue-full"
			}
			r.Violation(sig, detail)
		}
		if i < 3 {
			r.Sample(detail)
		}
	}
}
