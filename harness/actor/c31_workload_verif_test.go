//go:build verif

package actor

import (
	"context"
	"errors"
	"fmt"
	"math/rand"
	"runtime"
	"sort"
	"strings"
	"sync"
	"sync/atomic"
	"testing"
	"time"

	"github.com/tochemey/goakt/v4/internal/verifrt"
	"github.com/tochemey/goakt/v4/reentrancy"
)

// C31 workload and monitors: grain activations are ordered and single-threaded.
//
// The harness grain is constructed by the framework as a zero value, so every
// instance finds the monitor of the running case through c31Cur and its identity
// name. Every hook stamps a case-wide atomic sequence; an activation is one
// OnActivate call on one instance. Per activation: an automaton state word
// (new -> activating -> active -> deactivating -> dead) and a CAS "hook in
// progress" word decide ordering and overlap online; plain fields touched only in
// hooks let the race detector witness missing happens-before edges.

type c31Msg struct {
	ID    int64
	Ask   bool
	Start int64 // the sender's call-start stamp
}

type c31Reply struct {
	ID  int64
	Act int
}

type c31Tick struct{}

const (
	c31New int32 = iota
	c31Activating
	c31Active
	c31Deactivating
	c31Dead
)

type c31Act struct {
	No      int
	Name    string
	Inst    string
	state   atomic.Int32
	busy    atomic.Int64 // 0 = no hook in progress, else seq<<2|kind (1 receive, 2 deactivate)
	busyGo  atomic.Int64
	actEnter, actExit     atomic.Int64
	deactEnter, deactExit atomic.Int64
	deactCalls            atomic.Int32
	recvs, ticks          atomic.Int64
	lastRecvEnter         atomic.Int64
	lastRecvExit          atomic.Int64
	failed                atomic.Bool // OnDeactivate returned an injected error: the framework keeps the process and re-activates it in place
	trigMu                sync.Mutex
	trigs                 []string // every OnDeactivate call's trigger, in call order
}

// trig labels how the activation was deactivated: the trigger of its OnDeactivate
// call, or all of them (sorted, joined by +) when OnDeactivate ran more than once.
func (a *c31Act) trig() string {
	a.trigMu.Lock()
	all := append([]string(nil), a.trigs...)
	a.trigMu.Unlock()
	if len(all) == 0 {
		return "none"
	}
	sort.Strings(all)
	return strings.Join(all, "+")
}

type c31Track struct {
	name       string
	reentrant  bool
	mu         sync.Mutex
	acts       []*c31Act
	deactDone  atomic.Int64 // completed OnDeactivate calls
	lastDeact  atomic.Int64 // seq stamp of the latest OnDeactivate exit
	dwellRecv  int
	dwellDeact int
	dwellAct   int
	longRecv   time.Duration // rare long handler (sleep), 0 = never
	tick       time.Duration // >0: OnActivate registers an interval timer
	deactErr   int           // >0: OnDeactivate of every deactErr-th activation returns an error
}

type c31Handled struct {
	count atomic.Int32
	act   atomic.Int64
	seq   atomic.Int64
}

type c31Viol struct {
	Sig    string
	Count  int
	Detail map[string]any
}

type c31Mon struct {
	mode     string
	seq      atomic.Int64
	sys      atomic.Pointer[actorSystem]
	stopSeq  atomic.Int64 // stamp taken right before system Stop is called (0 = not yet)
	tracks   sync.Map     // name -> *c31Track
	handled  sync.Map     // msg id -> *c31Handled
	mu       sync.Mutex
	viols    map[string]*c31Viol
	order    []string
	recvN    atomic.Int64
	tickN    atomic.Int64
	actN     atomic.Int64
	deactN   atomic.Int64
	liveOver atomic.Int64 // OnActivate while a previous activation of the identity was not dead
}

var c31Cur atomic.Pointer[c31Mon]

func (m *c31Mon) viol(sig string, detail map[string]any) {
	m.mu.Lock()
	defer m.mu.Unlock()
	if m.viols == nil {
		m.viols = map[string]*c31Viol{}
	}
	if v, ok := m.viols[sig]; ok {
		v.Count++
		return
	}
	m.viols[sig] = &c31Viol{Sig: sig, Count: 1, Detail: detail}
	m.order = append(m.order, sig)
}

func (m *c31Mon) track(name string) *c31Track {
	if v, ok := m.tracks.Load(name); ok {
		return v.(*c31Track)
	}
	return nil
}

func c31Dwell(kind int) {
	switch kind {
	case 1:
		runtime.Gosched()
	case 2:
		t0 := time.Now()
		for time.Since(t0) < 50*time.Microsecond {
		}
	case 3:
		time.Sleep(200 * time.Microsecond)
	case 4:
		time.Sleep(2 * time.Millisecond)
	}
}

func c31Trigger(m *c31Mon) string {
	st := verifrt.Stack()
	switch {
	case strings.Contains(st, "handlePassivationPill"):
		return "passivation-pill"
	case strings.Contains(st, "passivationTry"):
		return "passivation-offturn"
	case strings.Contains(st, "handlePoisonPill"):
		if s := m.sys.Load(); s != nil && s.isStopping() {
			return "shutdown"
		}
		return "poison"
	case strings.Contains(st, "poisonAllGrains"):
		return "shutdown-offturn"
	case strings.Contains(st, "finalizeGrainActivation"):
		return "activation-rollback"
	}
	return "other"
}

// c31Grain is the harness grain. Plain fields: touched only inside hooks.
type c31Grain struct {
	act   *c31Act
	tr    *c31Track
	mon   *c31Mon // the case that activated this instance (a straggling hook must not report into a later case)
	plain int
}

func (g *c31Grain) OnActivate(_ context.Context, props *GrainProps) error {
	m := c31Cur.Load()
	if m == nil {
		return nil
	}
	tr := m.track(props.Identity().Name())
	if tr == nil {
		return nil
	}
	s := m.seq.Add(1)
	m.actN.Add(1)
	if old := g.act; old != nil && old.deactExit.Load() != 0 && !old.failed.Load() {
		m.viol("instance-reused:"+old.trig(), map[string]any{"grain": tr.name, "previous_activation": old.No, "instance": old.Inst, "stack": verifrt.Stack()})
	}
	a := &c31Act{Name: tr.name, Inst: fmt.Sprintf("%p", g)}
	a.actEnter.Store(s)
	a.state.Store(c31Activating)
	tr.mu.Lock()
	a.No = len(tr.acts) + 1
	if n := len(tr.acts); n > 0 && tr.acts[n-1].state.Load() != c31Dead {
		m.liveOver.Add(1)
	}
	tr.acts = append(tr.acts, a)
	tr.mu.Unlock()
	g.act, g.tr, g.mon = a, tr, m
	g.plain++
	if tr.tick > 0 {
		_, _ = props.Schedule(&c31Tick{}, tr.tick)
	}
	c31Dwell(tr.dwellAct)
	a.actExit.Store(m.seq.Add(1))
	a.state.Store(c31Active)
	return nil
}

func (g *c31Grain) OnReceive(gctx *GrainContext) {
	m := g.mon
	if m == nil {
		m = c31Cur.Load()
	}
	msg, _ := gctx.Message().(*c31Msg)
	respond := func(act int) {
		switch {
		case msg == nil:
		case msg.Ask:
			gctx.Response(&c31Reply{ID: msg.ID, Act: act})
		default:
			gctx.NoErr()
		}
	}
	if m == nil {
		respond(0)
		return
	}
	a := g.act
	s := m.seq.Add(1)
	m.recvN.Add(1)
	if a == nil {
		m.viol("receive-on-never-activated-instance", map[string]any{"grain": gctx.Self().Name(), "stack": verifrt.Stack()})
		respond(0)
		return
	}
	what := "message"
	if msg == nil {
		what = fmt.Sprintf("%T", gctx.Message())
	}
	wit := func() map[string]any {
		return map[string]any{"observed_from": "OnReceive", "grain": a.Name, "activation": a.No, "instance": a.Inst, "what": what, "seq": s,
			"activate_enter": a.actEnter.Load(), "activate_exit": a.actExit.Load(), "deactivate_enter": a.deactEnter.Load(), "deactivate_exit": a.deactExit.Load(),
			"deactivate_trigger": a.trig(), "goroutine": verifrt.GoID(), "other_goroutine": a.busyGo.Load(), "stack": verifrt.Stack()}
	}
	switch a.state.Load() {
	case c31Activating:
		// how the message got there: a call that started after this OnActivate
		// began was let through while the activation was still in progress; an
		// older one was left in the mailbox of a process that is re-activated in place
		how := "timer-tick"
		if msg != nil {
			how = "queued-before-activation"
			if msg.Start > a.actEnter.Load() {
				how = "sent-during-activation"
			}
		}
		m.viol("receive-before-activate-exit:"+how, wit())
	case c31Deactivating:
		m.viol("deactivate-overlaps-receive:"+a.trig(), wit())
	case c31Dead:
		m.viol("receive-after-deactivate:"+a.trig(), wit())
	}
	tok := s<<2 | 1
	owned := a.busy.CompareAndSwap(0, tok)
	if !owned {
		if h := a.busy.Load(); h&3 == 2 {
			m.viol("deactivate-overlaps-receive:"+a.trig(), wit())
		} else if h != 0 {
			m.viol("receive-overlaps-receive", wit())
		}
	} else {
		a.busyGo.Store(verifrt.GoID())
	}
	a.recvs.Add(1)
	a.lastRecvEnter.Store(s)
	g.plain++
	if msg != nil {
		v, _ := m.handled.LoadOrStore(msg.ID, &c31Handled{})
		h := v.(*c31Handled)
		if h.count.Add(1) == 1 {
			h.act.Store(int64(a.No))
			h.seq.Store(s)
		}
		if g.tr != nil {
			if g.tr.longRecv > 0 && msg.ID%17 == 3 {
				time.Sleep(g.tr.longRecv)
			} else {
				c31Dwell(g.tr.dwellRecv)
			}
		}
	} else {
		a.ticks.Add(1)
		m.tickN.Add(1)
	}
	a.lastRecvExit.Store(m.seq.Add(1))
	if owned {
		a.busy.CompareAndSwap(tok, 0)
	}
	respond(a.No)
}

func (g *c31Grain) OnDeactivate(_ context.Context, _ *GrainProps) error {
	m := g.mon
	if m == nil {
		m = c31Cur.Load()
	}
	if m == nil {
		return nil
	}
	a := g.act
	s := m.seq.Add(1)
	m.deactN.Add(1)
	if a == nil {
		m.viol("deactivate-on-never-activated-instance", map[string]any{"stack": verifrt.Stack()})
		return nil
	}
	trig := c31Trigger(m)
	if trig == "passivation-offturn" && g.tr != nil && g.tr.reentrant {
		trig += "/reentrant-grain"
	}
	a.trigMu.Lock()
	a.trigs = append(a.trigs, trig)
	all := append([]string(nil), a.trigs...)
	a.trigMu.Unlock()
	wit := func() map[string]any {
		return map[string]any{"observed_from": "OnDeactivate", "deactivate_calls": fmt.Sprint(all), "grain": a.Name, "activation": a.No, "instance": a.Inst, "seq": s, "trigger": trig,
			"activate_exit": a.actExit.Load(), "last_receive_enter": a.lastRecvEnter.Load(), "last_receive_exit": a.lastRecvExit.Load(),
			"previous_deactivate_enter": a.deactEnter.Load(), "goroutine": verifrt.GoID(), "other_goroutine": a.busyGo.Load(), "stack": verifrt.Stack()}
	}
	if n := a.deactCalls.Add(1); n > 1 || len(all) > 1 {
		// every caller appends its trigger before counting itself, so this
		// snapshot names all calls that made the count exceed one
		a.trigMu.Lock()
		all = append([]string(nil), a.trigs...)
		a.trigMu.Unlock()
		m.viol("deactivate-twice:"+a.trig(), wit())
	}
	if a.state.Load() == c31Activating {
		m.viol("deactivate-before-activate-exit:"+trig, wit())
	}
	if len(all) > 1 {
		cp := append([]string(nil), all...)
		sort.Strings(cp)
		trig = strings.Join(cp, "+")
	}
	tok := s<<2 | 2
	owned := a.busy.CompareAndSwap(0, tok)
	if !owned {
		if h := a.busy.Load(); h&3 == 1 {
			m.viol("deactivate-overlaps-receive:"+trig, wit())
		}
	} else {
		a.busyGo.Store(verifrt.GoID())
	}
	a.deactEnter.Store(s)
	a.state.Store(c31Deactivating)
	g.plain++
	if g.tr != nil {
		c31Dwell(g.tr.dwellDeact)
	}
	a.state.Store(c31Dead)
	x := m.seq.Add(1)
	a.deactExit.Store(x)
	if owned {
		a.busy.CompareAndSwap(tok, 0)
	}
	if g.tr != nil {
		g.tr.lastDeact.Store(x)
		g.tr.deactDone.Add(1)
		if g.tr.deactErr > 0 && a.No%g.tr.deactErr == 0 {
			a.failed.Store(true)
			return errors.New("c31 injected OnDeactivate failure")
		}
	}
	return nil
}

type c31Knobs struct {
	Mode      string // passivate | poison | shutdown | mixed
	Grains    int
	Senders   int
	PerSender int
	AskPct    int
	DwellRecv int
	DwellDeact int
	DwellAct  int
	LongRecv  bool
	Passivate time.Duration
	Reentrant bool
	Tick      time.Duration
	DeactErr  int
	Budget    int
	Procs     int
	Noise     int
}

func (k c31Knobs) String() string {
	return fmt.Sprintf("mode=%s grains=%d s=%d n=%d ask%%=%d dwell=%d/%d/%d long=%v passivate=%v reentrant=%v tick=%v deacterr=%d budget=%d procs=%d noise=%d",
		k.Mode, k.Grains, k.Senders, k.PerSender, k.AskPct, k.DwellRecv, k.DwellDeact, k.DwellAct, k.LongRecv, k.Passivate, k.Reentrant, k.Tick, k.DeactErr, k.Budget, k.Procs, k.Noise)
}

func c31GenKnobs(rng *rand.Rand) c31Knobs {
	k := c31Knobs{
		Mode:       []string{"passivate", "passivate", "poison", "poison", "shutdown", "mixed", "mixed"}[rng.Intn(7)],
		Grains:     1 + rng.Intn(2),
		Senders:    []int{1, 2, 4, 8}[rng.Intn(4)],
		PerSender:  []int{12, 40, 100}[rng.Intn(3)],
		AskPct:     []int{0, 30, 50, 100}[rng.Intn(4)],
		DwellRecv:  rng.Intn(4),
		DwellDeact: rng.Intn(5),
		DwellAct:   []int{0, 0, 1, 3, 4}[rng.Intn(5)],
		LongRecv:   rng.Intn(3) == 0,
		Passivate:  []time.Duration{5 * time.Millisecond, 10 * time.Millisecond, 30 * time.Millisecond}[rng.Intn(3)],
		Reentrant:  rng.Intn(3) == 0,
		Budget:     []int{1, 2, 32, 0}[rng.Intn(4)],
		Procs:      []int{2, 4, 8, 16}[rng.Intn(4)],
		Noise:      rng.Intn(4),
	}
	if rng.Intn(3) == 0 {
		k.Tick = time.Duration(1+rng.Intn(3)) * time.Millisecond
	}
	if rng.Intn(4) == 0 {
		k.DeactErr = 2 + rng.Intn(2)
	}
	return k
}

type c31Send struct {
	ID       int64
	Grain    string
	Ask      bool
	Start    int64
	End      int64
	Err      string
	ReplyID  int64
	ReplyAct int
	Probe    bool // issued right after an observed OnDeactivate exit
	DeadAt   bool // every activation of the identity known at call start had completed OnDeactivate
	ActsAt   int  // number of activations of the identity known at call start
	Stopping bool // sys.isStopping() read true immediately before the call was issued
}

type c31Obs struct {
	Knobs        c31Knobs
	Viols        []*c31Viol
	Activations  int64
	Deactivations int64
	Receives     int64
	Ticks        int64
	Sends        int
	SendsOK      int
	SendsErr     int
	Probes       int
	AfterStopping int // sends issued after isStopping() was observed true
	FreshHandled int // nil-error sends started after an OnDeactivate exit and handled by a later activation
	RacedLoss    int // nil-error sends not handled whose call interval overlapped a deactivation (tolerated)
	ReplyMismatch int
	LiveOverlap  int64
	Triggers     map[string]int
	ErrKinds     map[string]int
	StopErr      string
	OtherErr     string
	Inconclusive string
	HotSites     []string
	Yields       int64
	Delays       int64
	NonTrivial   bool
}

func c31RunCase(t *testing.T, caseNo int, k c31Knobs, seed int64) c31Obs {
	obs := c31Obs{Knobs: k, Triggers: map[string]int{}, ErrKinds: map[string]int{}}
	rng := rand.New(rand.NewSource(seed))
	prev := runtime.GOMAXPROCS(k.Procs)
	defer runtime.GOMAXPROCS(prev)

	m := &c31Mon{mode: k.Mode}
	var names []string
	for g := 0; g < k.Grains; g++ {
		name := fmt.Sprintf("c31g%dx%d", caseNo, g)
		tr := &c31Track{name: name, reentrant: k.Reentrant, deactErr: k.DeactErr, dwellRecv: k.DwellRecv, dwellDeact: k.DwellDeact, dwellAct: k.DwellAct, tick: k.Tick}
		if k.LongRecv {
			tr.longRecv = 2 * k.Passivate
		}
		m.tracks.Store(name, tr)
		names = append(names, name)
	}
	c31Cur.Store(m)
	defer c31Cur.Store(nil)

	var opts []Option
	if k.Budget > 0 {
		opts = append(opts, WithThroughputBudget(k.Budget))
	}
	sys := vfNewSystem(t, opts...)
	m.sys.Store(sys)
	stopped := false
	defer func() {
		if !stopped {
			vfStop(sys)
		}
	}()
	bg := context.Background()

	passivating := k.Mode == "passivate" || k.Mode == "mixed"
	grainOpts := func() []GrainOption {
		var o []GrainOption
		if passivating {
			o = append(o, WithGrainDeactivateAfter(k.Passivate))
		} else {
			o = append(o, WithLongLivedGrain())
		}
		if k.Reentrant {
			o = append(o, WithGrainReentrancy(reentrancy.New(reentrancy.WithMode(reentrancy.AllowAll))))
		}
		return o
	}
	idents := make([]*GrainIdentity, k.Grains)
	for g, name := range names {
		id, err := GrainOf[*c31Grain](bg, sys, name, grainOpts()...)
		if err != nil {
			t.Fatalf("GrainOf: %v", err)
		}
		idents[g] = id
	}

	if k.Noise > 0 {
		obs.HotSites = verifrt.StartNoise(verifrt.NoiseConfig{
			Seed: seed, GoschedPerMille: 20, HotSites: k.Noise,
			Candidates:  vfNoiseSites("grain_pid.go", "grain_engine.go", "passivation_manager.go", "grain_mailbox.go", "dispatch_state.go"),
			HotPerMille: 400, MinDelay: 20 * time.Microsecond, MaxDelay: 2 * time.Millisecond, Budget: 120,
		})
	}

	const callTimeout = 1500 * time.Millisecond
	var idGen atomic.Int64
	var sendMu sync.Mutex
	var sends []*c31Send
	doSend := func(g int, ask bool, probe bool) {
		tr := m.track(names[g])
		rec := &c31Send{ID: idGen.Add(1), Grain: names[g], Ask: ask, Probe: probe}
		// "dead at start": computed from stamps taken before the start stamp
		tr.mu.Lock()
		n := len(tr.acts)
		dead := n > 0
		for _, a := range tr.acts {
			if a.deactExit.Load() == 0 {
				dead = false
			}
		}
		tr.mu.Unlock()
		rec.DeadAt, rec.ActsAt = dead, n
		rec.Start = m.seq.Add(1)
		// the system never restarts in a case and shutdown clears "started" before
		// it clears "stopping": once this reads true the entry gate of
		// TellGrain/AskGrain must reject the call
		rec.Stopping = sys.isStopping()
		var err error
		func() {
			defer func() {
				if r := recover(); r != nil {
					err = fmt.Errorf("panic in send: %v", r)
				}
			}()
			if ask {
				var resp any
				resp, err = sys.AskGrain(bg, idents[g], &c31Msg{ID: rec.ID, Ask: true, Start: rec.Start}, callTimeout)
				if err == nil {
					if rp, ok := resp.(*c31Reply); ok {
						rec.ReplyID, rec.ReplyAct = rp.ID, rp.Act
					} else {
						rec.ReplyID = -1
					}
				}
			} else {
				cctx, cancel := context.WithTimeout(bg, callTimeout)
				err = sys.TellGrain(cctx, idents[g], &c31Msg{ID: rec.ID, Start: rec.Start})
				cancel()
			}
		}()
		rec.End = m.seq.Add(1)
		if err != nil {
			rec.Err = err.Error()
		}
		sendMu.Lock()
		sends = append(sends, rec)
		sendMu.Unlock()
	}

	stopAll := make(chan struct{})
	var dwg sync.WaitGroup
	if passivating {
		// keeper: re-activates with the short passivation timeout (a send alone
		// re-activates with the default configuration)
		dwg.Add(1)
		krng := rand.New(rand.NewSource(seed ^ 0x5151))
		go func() {
			defer dwg.Done()
			for {
				select {
				case <-stopAll:
					return
				default:
				}
				for _, name := range names {
					cctx, cancel := context.WithTimeout(bg, callTimeout)
					_, _ = GrainOf[*c31Grain](cctx, sys, name, grainOpts()...)
					cancel()
				}
				time.Sleep(time.Duration(krng.Int63n(int64(2*k.Passivate) + 1)))
			}
		}()
	}
	if k.Mode == "poison" || k.Mode == "mixed" {
		dwg.Add(1)
		prng := rand.New(rand.NewSource(seed ^ 0x7070))
		go func() {
			defer dwg.Done()
			for {
				select {
				case <-stopAll:
					return
				default:
				}
				time.Sleep(time.Duration(500+prng.Intn(9000)) * time.Microsecond)
				g := prng.Intn(k.Grains)
				cctx, cancel := context.WithTimeout(bg, callTimeout)
				_ = sys.TellGrain(cctx, idents[g], new(PoisonPill))
				cancel()
			}
		}()
	}

	var swg sync.WaitGroup
	var sentSoFar atomic.Int64
	for s := 0; s < k.Senders; s++ {
		swg.Add(1)
		srng := rand.New(rand.NewSource(seed + int64(s)*7919))
		go func() {
			defer swg.Done()
			for i := 0; i < k.PerSender; i++ {
				if m.stopSeq.Load() != 0 && sys.isStopping() && i > 3 && srng.Intn(2) != 0 {
					// after shutdown started every call fails fast; a few are kept
					continue
				}
				g := srng.Intn(k.Grains)
				tr := m.track(names[g])
				ask := srng.Intn(100) < k.AskPct
				probe := false
				switch srng.Intn(8) {
				case 0:
					// wait for the next completed deactivation, then send at once
					seen := tr.deactDone.Load()
					probe = verifrt.WaitUntil(time.Duration(3)*k.Passivate+20*time.Millisecond, func() bool { return tr.deactDone.Load() > seen })
				case 1:
					time.Sleep(time.Duration(srng.Int63n(int64(k.Passivate) + 1)))
				case 2:
					time.Sleep(k.Passivate - time.Duration(srng.Intn(400))*time.Microsecond)
				case 3, 4:
					runtime.Gosched()
				}
				doSend(g, ask, probe)
				sentSoFar.Add(1)
			}
		}()
	}

	total := int64(k.Senders * k.PerSender)
	if k.Mode == "shutdown" || k.Mode == "mixed" {
		// stop the system while senders are running
		at := total / int64(2+rng.Intn(3))
		verifrt.WaitUntil(60*time.Second, func() bool { return sentSoFar.Load() >= at })
		m.stopSeq.Store(m.seq.Add(1))
		ctx, cancel := context.WithTimeout(bg, 90*time.Second)
		if err := sys.Stop(ctx); err != nil {
			obs.StopErr = err.Error()
		}
		cancel()
		stopped = true
	}
	done := make(chan struct{})
	go func() { swg.Wait(); close(done) }()
	select {
	case <-done:
	case <-time.After(180 * time.Second):
		obs.Inconclusive = "senders did not finish within 180s"
	}
	close(stopAll)
	dwg.Wait()

	if !stopped && obs.Inconclusive == "" {
		// final probes on a quiet system: deactivate explicitly, then a send must
		// be received by a fresh instance
		for g := range names {
			tr := m.track(names[g])
			seen := tr.deactDone.Load()
			cctx, cancel := context.WithTimeout(bg, 20*time.Second)
			perr := sys.TellGrain(cctx, idents[g], new(PoisonPill))
			cancel()
			if perr == nil {
				verifrt.WaitUntil(20*time.Second, func() bool { return tr.deactDone.Load() > seen })
			}
			doSend(g, false, true)
			doSend(g, true, false)
		}
		m.stopSeq.Store(m.seq.Add(1))
		ctx, cancel := context.WithTimeout(bg, 90*time.Second)
		if err := sys.Stop(ctx); err != nil {
			obs.StopErr = err.Error()
		}
		cancel()
		stopped = true
	}
	if k.Noise > 0 {
		obs.Yields, obs.Delays = verifrt.StopNoise()
	}
	// let a turn that is still draining an abandoned mailbox finish
	time.Sleep(5 * time.Millisecond)

	// ---- audit ----
	stopSeq := m.stopSeq.Load()
	type window struct{ enter, exit int64 }
	wins := map[string][]window{}
	m.tracks.Range(func(_, v any) bool {
		tr := v.(*c31Track)
		tr.mu.Lock()
		acts := append([]*c31Act(nil), tr.acts...)
		tr.mu.Unlock()
		for _, a := range acts {
			calls := a.deactCalls.Load()
			if calls > 0 {
				obs.Triggers[a.trig()]++
				wins[tr.name] = append(wins[tr.name], window{a.deactEnter.Load(), a.deactExit.Load()})
			}
			if a.actExit.Load() != 0 && calls == 0 && obs.StopErr == "" && obs.Inconclusive == "" {
				when := k.Mode
				if stopSeq != 0 && a.actEnter.Load() > stopSeq {
					when = "activated-during-shutdown"
				}
				m.viol("deactivate-missing:"+when, map[string]any{"grain": a.Name, "activation": a.No, "activate_enter": a.actEnter.Load(), "activate_exit": a.actExit.Load(), "stop_called_at": stopSeq, "receives": a.recvs.Load(), "mode": k.Mode})
			}
		}
		return true
	})
	for _, rec := range sends {
		if rec.Stopping {
			obs.AfterStopping++
			_, reached := m.handled.Load(rec.ID)
			if rec.Err == "" || reached {
				api := "tell"
				if rec.Ask {
					api = "ask"
				}
				m.viol("send-accepted-after-stopping-observed:"+api, map[string]any{"send": rec, "reached_a_grain_instance": reached, "stop_called_at": stopSeq,
					"note": "isStopping() was true before the call was issued, yet the call returned nil or its message reached OnReceive"})
			}
		}
		if v, ok := m.handled.Load(rec.ID); ok && rec.Err != "" {
			c31AuditLateSend(m, rec, v.(*c31Handled))
		}
		obs.Sends++
		if rec.Probe {
			obs.Probes++
		}
		if rec.Err != "" {
			obs.SendsErr++
			switch {
			case strings.Contains(rec.Err, "not started"):
				obs.ErrKinds["system_not_started"]++
			case strings.Contains(rec.Err, "timeout") || strings.Contains(rec.Err, "deadline"):
				obs.ErrKinds["timeout"]++
			default:
				obs.ErrKinds["other"]++
				if obs.OtherErr == "" {
					obs.OtherErr = rec.Err
				}
			}
			continue
		}
		obs.SendsOK++
		var h *c31Handled
		if v, ok := m.handled.Load(rec.ID); ok {
			h = v.(*c31Handled)
		}
		if rec.Ask && rec.ReplyID != rec.ID {
			obs.ReplyMismatch++
		}
		if h == nil || h.count.Load() == 0 {
			raced := false
			for _, w := range wins[rec.Grain] {
				if w.enter <= rec.End && (w.exit == 0 || w.exit >= rec.Start) {
					raced = true
				}
			}
			if stopSeq != 0 && rec.End >= stopSeq {
				raced = true // the call overlapped system shutdown
			}
			if raced {
				obs.RacedLoss++
				continue
			}
			m.viol("silent-loss:"+k.Mode, map[string]any{"send": rec, "deactivation_windows": fmt.Sprint(wins[rec.Grain]), "note": "nil error, never handled, call interval overlaps no deactivation"})
			continue
		}
		if rec.DeadAt && h.act.Load() > int64(rec.ActsAt) {
			obs.FreshHandled++
		}
		c31AuditLateSend(m, rec, h)
	}
	obs.Activations, obs.Deactivations = m.actN.Load(), m.deactN.Load()
	obs.Receives, obs.Ticks = m.recvN.Load(), m.tickN.Load()
	obs.LiveOverlap = m.liveOver.Load()
	m.mu.Lock()
	for _, sig := range m.order {
		cp := *m.viols[sig] // a straggling hook may still bump the original's counter
		obs.Viols = append(obs.Viols, &cp)
	}
	m.mu.Unlock()
	if obs.StopErr != "" && obs.Inconclusive == "" {
		obs.Inconclusive = "system Stop failed: " + obs.StopErr
	}
	obs.NonTrivial = obs.Deactivations >= 1 && obs.Activations >= 2 && obs.FreshHandled >= 1
	return obs
}

// c31AuditLateSend: a call that started after OnDeactivate of activation k had
// returned must not be received by activation k (last clause of the statement).
func c31AuditLateSend(m *c31Mon, rec *c31Send, h *c31Handled) {
	tr := m.track(rec.Grain)
	no := int(h.act.Load())
	if tr == nil || no < 1 {
		return
	}
	tr.mu.Lock()
	var a *c31Act
	if no <= len(tr.acts) {
		a = tr.acts[no-1]
	}
	tr.mu.Unlock()
	if a == nil {
		return
	}
	if x := a.deactExit.Load(); x != 0 && x < rec.Start {
		m.viol("send-after-deactivation-received-by-dead-activation:"+a.trig(), map[string]any{"send": rec, "activation": a.No, "instance": a.Inst,
			"deactivate_enter": a.deactEnter.Load(), "deactivate_exit": x, "handled_at": h.seq.Load()})
	}
}
