//go:build verif

package actor

import (
	"fmt"
	"testing"

	"github.com/tochemey/goakt/v4/internal/verifrt"
)

// c42Placements enumerates single- and double-fault placements over the first
// 12 protocol messages (thorough tier): case i selects one placement.
func c42Placement(i int) (map[int64]c42FaultKind, string) {
	kinds := []c42FaultKind{c42FDrop, c42FDup, c42FDelay, c42FDupLate}
	singles := 12 * len(kinds)
	if i < singles {
		pos, kind := int64(i/len(kinds))+1, kinds[i%len(kinds)]
		return map[int64]c42FaultKind{pos: kind}, fmt.Sprintf("%d:%s", pos, kind)
	}
	i -= singles
	// doubles: positions a<b in 1..12, kinds from {drop, delay, duplate} x same
	dk := []c42FaultKind{c42FDrop, c42FDelay, c42FDupLate}
	n := 0
	for a := int64(1); a <= 12; a++ {
		for b := a + 1; b <= 12; b++ {
			for _, ka := range dk {
				for _, kb := range dk {
					if n == i {
						return map[int64]c42FaultKind{a: ka, b: kb}, fmt.Sprintf("%d:%s,%d:%s", a, ka, b, kb)
					}
					n++
				}
			}
		}
	}
	return nil, ""
}

const c42PlacementCount = 12*4 + 66*9

func c42Report(r *verifrt.Run, prop string, o *c42Obs, sampleBudget *int) {
	if o.Inconclusive != "" {
		r.Inconclusive("%s [%s seed=%d]", o.Inconclusive, o.Knobs, o.Seed)
	}
	for _, v := range o.Viols {
		if v.Prop == prop {
			r.Violation(v.Sig, v.Detail)
		}
	}
	r.Count("protocol_messages_judged", o.ProtoMsgs)
	r.Count("faults_applied", o.Faults)
	for k, n := range o.FaultsByKind {
		r.Count("faults_"+k, n)
	}
	r.Count("messages_produced", int64(o.Produced))
	r.Count("messages_delivered", int64(o.Delivered))
	r.Count("re_presentations", int64(o.Represent))
	r.Count("messages_confirmed_to_producer", int64(o.Confirmed))
	r.Count("duplicate_confirmations_to_producer", int64(o.ConfirmDups))
	r.Count("sequenced_messages_sent", o.SeqSeen)
	r.Count("consumer_ticks", o.CCTicks)
	r.Count("consumer_ticks_clean", o.CleanTicks)
	r.Count("producer_found_demand_limited", o.DemandLimited)
	r.Count("producer_demand_above_requested_states", o.DemandAbove)
	r.Count("sequenced_at_demand_edge", o.AtDemandEdge)
	r.Max("max_consumer_buffer", int64(o.MaxBuf))
	if o.Stalled {
		r.Count("cases_stalled", 1)
	}
	if *sampleBudget > 0 {
		*sampleBudget--
		r.Sample(map[string]any{"knobs": o.Knobs, "seed": o.Seed, "faults": o.FaultsByKind, "first_faults": c42Head(o.FaultLog, 6),
			"produced": o.Produced, "delivered": o.Delivered, "confirmed": o.Confirmed, "re_presentations": o.Represent,
			"max_buffer": o.MaxBuf, "wall_ms": o.Wall.Milliseconds()})
	}
}

func c42Head(l []c42FaultRec, n int) []c42FaultRec {
	if len(l) > n {
		return l[:n]
	}
	return l
}

// TestVerif_C42: reliable point-to-point delivery is ordered, gap-free, eventually
// confirmed, and re-presents only the unconfirmed in-flight message, under
// drop/duplicate/delay/late-duplicate faults on controller-to-controller traffic.
func TestVerif_C42(t *testing.T) {
	r := verifrt.Start(t, "C42")
	defer r.Finish()
	r.Rule("case = one producer endpoint + one consumer endpoint (real controllers, 20 ms resend/retry ticks) on a fresh system, 30-200 uniquely identified messages (optionally split into 2-5 chunks), window in {1,2,3,4,8,50}, producer pace / StoredAck dwell / consumer dwell / confirm-on-k-th-presentation knobs, and a seeded fault script (budget 0-25; drop, duplicate, delay = reorder, late duplicate) applied by the intercept hook to SequencedMessage, Request, Ack, RegisterConsumer, RegistrationAck; thorough adds exhaustive single/double fault placement over the first 12 protocol messages. Oracle: first presentations = production order without holes and with the produced payload; a re-presentation only of the latest presented message and never after the controller accepted its confirmation (observed at the consumer mailbox on the controller's turn); DeliveryConfirmed only after the consumer confirmed; bounded progress: no window of 75 clean ticks (ticks during which a 2-hop probe ping-pong in the same system completed within a quarter tick) without fault activity and without progress; no controller self-termination. non-trivial = at least one fault actually applied; distinct by knobs+seed")
	r.Assume("the harness endpoints follow the documented contract (same Produced for a retried RequestNext token, StoredAck for every Stored, Confirmed for the presented Delivery)")
	defer c42InstallHook()()
	rng := r.Rand(42)
	n := r.N(64, 3000)
	type cs struct {
		k    c42Knobs
		seed int64
	}
	cases := make([]cs, n)
	for i := range cases {
		k := c42GenKnobs(rng, "c42", !r.Quick())
		if !r.Quick() && i%4 == 3 {
			// exhaustive placement share: every batch walks its own slice
			pi := (i/4*r.NBatch + r.Batch) % c42PlacementCount
			k.Place, k.PlaceName = c42Placement(pi)
			k.Budget, k.N = 0, 30+rng.Intn(30)
		}
		cases[i] = cs{k, rng.Int63()}
	}
	samples := 3
	c42RunParallel(2, n, func(i int) *c42Obs {
		return c42RunCase(t, cases[i].k, cases[i].seed)
	}, func(i int, o *c42Obs) {
		r.Case(o.Knobs+"/"+verifrt.Hash64s(o.Seed), o.Faults > 0)
		c42Report(r, "C42", o, &samples)
	})
	if c42HookPanics.Load() > 0 {
		r.Inconclusive("harness intercept hook panicked %d times: %v", c42HookPanics.Load(), c42HookPanic.Load())
	}
}
