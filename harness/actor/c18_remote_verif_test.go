//go:build verif

package actor

import (
	"context"
	"errors"
	"fmt"
	"math/rand"
	"runtime"
	"sort"
	"strconv"
	"strings"
	"sync"
	"sync/atomic"
	"testing"
	"time"

	"github.com/tochemey/goakt/v4/eventstream"
	"github.com/tochemey/goakt/v4/internal/internalpb"
	"github.com/tochemey/goakt/v4/internal/verifrt"
	"github.com/tochemey/goakt/v4/test/data/testpb"
)

// C18, remote drop causes (uses the c27 two-node / fault-proxy helpers: run with
// VERIF_ONLY=c18,c27). Sender actors of node A (and goroutines using A's NoSender)
// tell uniquely numbered messages to actors of node B and to a name that was stopped
// on B just before, while the proxy makes coalesced batches fail as a whole. Every
// Deadletter event of both nodes is recorded; the ledger is judged per message id.

type c18rDL struct{ sender, receiver, reason string }

// c18rTap records every Deadletter event of one node.
type c18rTap struct {
	sub    eventstream.Subscriber
	mu     sync.Mutex
	events int64               // all Deadletter events, whatever the payload
	byText map[string][]c18rDL // *testpb.TestLog payloads by text
}

func c18rNewTap(t testing.TB, sys *actorSystem) *c18rTap {
	sub, err := sys.Subscribe()
	if err != nil {
		t.Fatalf("c18r: subscribe: %v", err)
	}
	return &c18rTap{sub: sub, byText: map[string][]c18rDL{}}
}

func (p *c18rTap) drain() {
	p.mu.Lock()
	defer p.mu.Unlock()
	for m := range p.sub.Iterator() {
		dl, ok := m.Payload().(*Deadletter)
		if !ok {
			continue
		}
		p.events++
		if tl, ok := dl.Message().(*testpb.TestLog); ok {
			e := c18rDL{reason: dl.Reason()}
			if dl.Sender() != nil {
				e.sender = dl.Sender().String()
			}
			if dl.Receiver() != nil {
				e.receiver = dl.Receiver().String()
			}
			p.byText[tl.GetText()] = append(p.byText[tl.GetText()], e)
		}
	}
}

func (p *c18rTap) has(text string) bool {
	p.drain()
	p.mu.Lock()
	defer p.mu.Unlock()
	return len(p.byText[text]) > 0
}

func (p *c18rTap) get(text string) []c18rDL {
	p.mu.Lock()
	defer p.mu.Unlock()
	return p.byText[text]
}

func (p *c18rTap) count() int64 {
	p.mu.Lock()
	defer p.mu.Unlock()
	return p.events
}

// ---- receivers on B ----------------------------------------------------------

type c18rLedger struct {
	tag     string
	mu      sync.Mutex
	handled map[string]int
	fence   []atomic.Int64
}

type c18rSink struct {
	led    *c18rLedger
	target int
}

func (c18rSink) PreStart(*Context) error { return nil }
func (c18rSink) PostStop(*Context) error { return nil }
func (s c18rSink) Receive(ctx *ReceiveContext) {
	m, ok := ctx.Message().(*testpb.TestLog)
	if !ok {
		return
	}
	text := m.GetText()
	if !strings.HasPrefix(text, s.led.tag+"|") {
		return
	}
	if strings.HasPrefix(text, s.led.tag+"|f|") { // tag|f|n|target
		p := strings.Split(text, "|")
		if n, err := strconv.ParseInt(p[2], 10, 64); err == nil && len(p) == 4 {
			for {
				cur := s.led.fence[s.target].Load()
				if n <= cur || s.led.fence[s.target].CompareAndSwap(cur, n) {
					break
				}
			}
		}
		return
	}
	s.led.mu.Lock()
	s.led.handled[text]++
	s.led.mu.Unlock()
}

// ---- senders on A ------------------------------------------------------------

type c18rGo struct {
	texts   []string
	targets []*PID
	timeout time.Duration // >0: per-send context deadline (stall + cancel)
	pace    int
	out     *c18rSent
	done    *sync.WaitGroup
}

type c18rSent struct {
	mu       sync.Mutex
	accepted map[string]bool
	rejected int
	n        atomic.Int64
}

func (o *c18rSent) note(text string, err error) {
	o.mu.Lock()
	if err == nil {
		o.accepted[text] = true
	} else {
		o.rejected++
	}
	o.mu.Unlock()
	if err == nil {
		o.n.Add(1)
	}
}

type c18rSender struct{}

func (c18rSender) PreStart(*Context) error { return nil }
func (c18rSender) PostStop(*Context) error { return nil }
func (c18rSender) Receive(ctx *ReceiveContext) {
	g, ok := ctx.Message().(*c18rGo)
	if !ok {
		return
	}
	defer g.done.Done()
	c18rSendAll(ctx.Self(), g)
}

func c18rSendAll(from *PID, g *c18rGo) {
	for i, text := range g.texts {
		sctx, cancel := context.Background(), context.CancelFunc(func() {})
		if g.timeout > 0 {
			sctx, cancel = context.WithTimeout(sctx, g.timeout)
		}
		err := from.Tell(sctx, g.targets[i], &testpb.TestLog{Text: text})
		cancel()
		g.out.note(text, err)
		if g.pace == 1 || (g.pace == 2 && i%8 == 7) {
			runtime.Gosched()
		}
	}
}

// ---- script ------------------------------------------------------------------

type c18rScript struct {
	Kind      string // clean | refuse-window | kills | stall-cancel
	Actors    int    // sender actors on A
	Anon      int    // goroutines sending as A's NoSender
	Targets   int
	PerSender int
	GonePct   int // share of messages addressed to the stopped name
	Faults    map[int64]string
	WinStart  int
	WinLen    int
	Pace      int
}

func (s c18rScript) String() string {
	var fk []string
	for k, v := range s.Faults {
		fk = append(fk, fmt.Sprintf("%s@%d", v, k))
	}
	sort.Strings(fk)
	return fmt.Sprintf("remote:%s actors=%d anon=%d targets=%d n=%d gone%%=%d pace=%d faults=[%s] win=%d+%d",
		s.Kind, s.Actors, s.Anon, s.Targets, s.PerSender, s.GonePct, s.Pace, strings.Join(fk, ","), s.WinStart, s.WinLen)
}

func c18rGen(rng *rand.Rand, i int) c18rScript {
	s := c18rScript{Actors: 2 + rng.Intn(5), Anon: rng.Intn(3), Targets: 1 + rng.Intn(3),
		PerSender: []int{100, 200, 400}[rng.Intn(3)], GonePct: []int{0, 10, 30}[rng.Intn(3)], Pace: rng.Intn(3)}
	s.Kind = []string{"refuse-window", "kills", "stall-cancel", "refuse-window", "kills", "clean"}[i%6]
	tot := (s.Actors + s.Anon) * s.PerSender
	switch s.Kind {
	case "clean":
		s.GonePct = 30
	case "refuse-window":
		s.WinStart = rng.Intn(tot/2 + 1)
		s.WinLen = 1 + rng.Intn(tot/2+1)
	case "kills":
		s.Faults = map[int64]string{}
		for n := 2 + rng.Intn(4); n > 0; n-- {
			s.Faults[int64(rng.Intn(8))] = []string{c27KillBeforeReq, c27KillMidReq, c27KillBeforeReq, c27KillAfterReq}[rng.Intn(4)]
		}
		if s.Pace == 0 {
			s.Pace = 1
		}
	case "stall-cancel":
		s.PerSender = 1400/(s.Actors+s.Anon) + 15 // queue capacity 1024 + a batch in flight, then blocked sends
		s.Pace = 0
	}
	return s
}

type c18rObs struct {
	Accepted, Rejected, Handled          int
	DeadA, DeadB, Ambiguous              int
	GoneAccepted                         int
	MixedFailedBatches                   bool
	SendersInDeadLetters                 int
	NoDeadLetter, DupDeadLetter          int
	WrongSender, WrongReceiver           int
	DeadForHandled, Unknown              int
	MetricA, EventsA, MetricB, EventsB   int64
	Wit                                  []string
	BatchFail, Fired, Refused            int64
	Nontrivial                           bool
	Inconclusive                         string
}

type c18rEnv struct {
	env      *c27Env
	tapA     *c18rTap
	tapB     *c18rTap
	tapAOf   *c27Node
	tapBOf   *c27Node
	mA0, eA0 int64
	mB0, eB0 int64
}

func (e *c18rEnv) nodes(t *testing.T) (*c27Node, *c27Node) {
	a, b := e.env.nodes()
	ctx := context.Background()
	if e.tapAOf != a {
		e.tapA, e.tapAOf = c18rNewTap(t, a.Sys), a
		e.mA0 = a.Sys.Metric(ctx).DeadlettersCount() // FIFO behind everything published so far
		e.tapA.drain()
		e.eA0 = e.tapA.count()
	}
	if e.tapBOf != b {
		e.tapB, e.tapBOf = c18rNewTap(t, b.Sys), b
		e.mB0 = b.Sys.Metric(ctx).DeadlettersCount()
		e.tapB.drain()
		e.eB0 = e.tapB.count()
	}
	return a, b
}

func c18rRun(t *testing.T, e *c18rEnv, s c18rScript, seed int64) (obs c18rObs) {
	ctx := context.Background()
	a, b := e.nodes(t)
	e.env.cases++
	tag := "r" + strconv.Itoa(e.env.cases)
	led := &c18rLedger{tag: tag, handled: map[string]int{}, fence: make([]atomic.Int64, s.Targets)}
	var spawned []*PID
	defer func() {
		for _, p := range spawned {
			_ = p.Shutdown(ctx)
		}
	}()
	sinks := make([]*PID, s.Targets)
	remotes := make([]*PID, s.Targets)
	recvPath := map[string]string{} // target key -> expected receiver path
	for i := range sinks {
		pid, err := b.Sys.Spawn(ctx, fmt.Sprintf("c18rsink-%s-%d", tag, i), c18rSink{led: led, target: i})
		if err != nil {
			t.Fatalf("c18r: spawn sink: %v", err)
		}
		sinks[i], remotes[i] = pid, newRemotePID(pid.getAddress(), a.Sys.getRemoting())
		recvPath[strconv.Itoa(i)] = pid.Path().String()
		spawned = append(spawned, pid)
	}
	// the name that is gone when the remote tell arrives
	gone, err := b.Sys.Spawn(ctx, "c18rgone-"+tag, c18rSink{led: led, target: 0})
	if err != nil {
		t.Fatalf("c18r: spawn: %v", err)
	}
	goneRemote := newRemotePID(gone.getAddress(), a.Sys.getRemoting())
	recvPath["g"] = gone.Path().String()
	if err := gone.Shutdown(ctx); err != nil {
		t.Fatalf("c18r: stop: %v", err)
	}
	if !verifrt.WaitUntil(30*time.Second, func() bool { _, ok := b.Sys.actors.node(gone.getAddress().String()); return !ok }) {
		obs.Inconclusive = "stopped actor still in B's tree after 30s"
		return obs
	}

	// senders
	nSenders := s.Actors + s.Anon
	senderPID := make([]*PID, nSenders)
	senderPath := make([]string, nSenders)
	for i := 0; i < s.Actors; i++ {
		pid, err := a.Sys.Spawn(ctx, fmt.Sprintf("c18rsender-%s-%d", tag, i), c18rSender{})
		if err != nil {
			t.Fatalf("c18r: spawn sender: %v", err)
		}
		senderPID[i], senderPath[i] = pid, pid.Path().String()
		spawned = append(spawned, pid)
	}
	for i := s.Actors; i < nSenders; i++ {
		senderPID[i], senderPath[i] = a.Sys.NoSender(), a.Sys.NoSender().Path().String()
	}
	sent := &c18rSent{accepted: map[string]bool{}}
	rng := rand.New(rand.NewSource(seed))
	plans := make([]*c18rGo, nSenders)
	var wg sync.WaitGroup
	for i := range plans {
		g := &c18rGo{out: sent, done: &wg, pace: s.Pace}
		if s.Kind == "stall-cancel" {
			g.timeout = 10 * time.Millisecond
		}
		for q := 0; q < s.PerSender; q++ {
			key, target := strconv.Itoa(rng.Intn(s.Targets)), (*PID)(nil)
			if rng.Intn(100) < s.GonePct {
				key, target = "g", goneRemote
			} else {
				k, _ := strconv.Atoi(key)
				target = remotes[k]
			}
			// tag|m|sender|targetKey|seq
			g.texts = append(g.texts, tag+"|m|"+strconv.Itoa(i)+"|"+key+"|"+strconv.Itoa(q))
			g.targets = append(g.targets, target)
		}
		plans[i] = g
	}
	fail0, fired0, refused0 := a.Log.BatchFail.Load(), b.Proxy.Fired.Load(), b.Proxy.Refused.Load()
	b.Proxy.Arm(s.Faults)
	stopCtl := make(chan struct{})
	var ctl sync.WaitGroup
	switch s.Kind {
	case "stall-cancel":
		b.Proxy.Stall()
	case "refuse-window":
		ctl.Add(1)
		go func() {
			defer ctl.Done()
			phase := 0
			for {
				select {
				case <-stopCtl:
					return
				default:
				}
				n := int(sent.n.Load())
				if phase == 0 && n >= s.WinStart {
					b.Proxy.SetRefuse(true)
					phase = 1
				}
				if phase == 1 && n >= s.WinStart+s.WinLen {
					b.Proxy.SetRefuse(false)
					return
				}
				time.Sleep(20 * time.Microsecond)
			}
		}()
	}
	wg.Add(nSenders)
	for i, g := range plans {
		if i < s.Actors {
			if err := a.Sys.NoSender().Tell(ctx, senderPID[i], g); err != nil { // the actor sends from its Receive
				t.Fatalf("c18r: start sender: %v", err)
			}
		} else {
			go func(g *c18rGo) { defer g.done.Done(); c18rSendAll(a.Sys.NoSender(), g) }(g)
		}
	}
	wg.Wait()
	close(stopCtl)
	ctl.Wait()
	if s.Kind == "stall-cancel" {
		// the queue is full of several senders' messages behind the stalled RPC: reset the
		// stalled connection and refuse reconnects until a few batches have failed
		b.Proxy.SetRefuse(true)
		b.Proxy.KillAll()
		b.Proxy.Resume()
		verifrt.WaitUntil(3*time.Second, func() bool { return a.Log.BatchFail.Load()-fail0 >= 3 })
	}
	b.Proxy.Heal()

	// ---- barriers (as in C27): fence through the same coalescer, then a barrier entry
	// through A's failure hand-off queue
	from := a.Sys.NoSender()
	for tgt := 0; tgt < s.Targets; tgt++ {
		ok := false
		for n := int64(1); n <= 200 && !ok; n++ {
			text := tag + "|f|" + strconv.FormatInt(n, 10) + "|" + strconv.Itoa(tgt)
			if err := from.Tell(ctx, remotes[tgt], &testpb.TestLog{Text: text}); err != nil {
				continue
			}
			verifrt.WaitUntil(60*time.Second, func() bool { return led.fence[tgt].Load() >= n || e.tapA.has(text) })
			ok = led.fence[tgt].Load() >= n
			if !ok && !e.tapA.has(text) {
				obs.Inconclusive = "fence neither delivered nor dead-lettered within 60s"
				return obs
			}
		}
		if !ok {
			obs.Inconclusive = "200 fences in a row were dead-lettered over a healed proxy"
			return obs
		}
	}
	{
		ser := a.Sys.getRemoting().Serializer(&testpb.TestLog{})
		ok := false
		for n := 1; n <= 100 && !ok; n++ {
			text := tag + "|p|" + strconv.Itoa(n)
			raw, err := ser.Serialize(&testpb.TestLog{Text: text})
			if err != nil {
				t.Fatalf("c18r: serialize: %v", err)
			}
			a.Sys.enqueueCoalescedFailure("c18r-barrier", []*internalpb.RemoteMessage{{
				Sender: from.getAddress().String(), Receiver: sinks[0].getAddress().String(), Message: raw}}, errors.New("c18r barrier"))
			ok = verifrt.WaitUntil(2*time.Second, func() bool { return e.tapA.has(text) })
		}
		if !ok {
			obs.Inconclusive = "dead-letter barrier entry never published"
			return obs
		}
	}
	// the count request is FIFO behind every dead letter handed to the dead-letter actor so far
	obs.MetricA = a.Sys.Metric(ctx).DeadlettersCount() - e.mA0
	obs.MetricB = b.Sys.Metric(ctx).DeadlettersCount() - e.mB0
	e.tapA.drain()
	e.tapB.drain()
	obs.EventsA, obs.EventsB = e.tapA.count()-e.eA0, e.tapB.count()-e.eB0

	// ---- verdict per message id ------------------------------------------------
	wit := func(format string, args ...any) {
		if len(obs.Wit) < 8 {
			obs.Wit = append(obs.Wit, fmt.Sprintf(format, args...))
		}
	}
	led.mu.Lock()
	handled := led.handled
	led.mu.Unlock()
	sent.mu.Lock()
	obs.Rejected = sent.rejected
	failedSenders := map[string]bool{}
	for text := range sent.accepted {
		obs.Accepted++
		p := strings.Split(text, "|") // tag m sender key seq
		si, _ := strconv.Atoi(p[2])
		if p[3] == "g" {
			obs.GoneAccepted++
		}
		h := handled[text]
		da, db := e.tapA.get(text), e.tapB.get(text)
		obs.Handled += h
		obs.DeadA += len(da)
		obs.DeadB += len(db)
		for _, d := range da {
			failedSenders[d.sender] = true
		}
		check := func(d c18rDL, where string) {
			if d.sender != senderPath[si] {
				obs.WrongSender++
				wit("%s: dead letter of %q names sender %s, sent by %s (reason %.60q)", where, text, d.sender, senderPath[si], d.reason)
			}
			if d.receiver != recvPath[p[3]] {
				obs.WrongReceiver++
				wit("%s: dead letter of %q names receiver %s, addressed to %s", where, text, d.receiver, recvPath[p[3]])
			}
		}
		for _, d := range da {
			check(d, "node A (failed coalesced batch)")
		}
		for _, d := range db {
			check(d, "node B (actor gone)")
		}
		switch {
		case len(da) > 1 || len(db) > 1:
			obs.DupDeadLetter++
			wit("%q: %d dead letters on A, %d on B", text, len(da), len(db))
		case h > 0 && len(db) > 0:
			obs.DeadForHandled++
			wit("%q handled on B and dead-lettered on B", text)
		case len(da) == 1 && (h > 0 || len(db) == 1):
			obs.Ambiguous++ // the batch's RPC failed at A after B had processed it
		case h == 0 && len(da)+len(db) == 0:
			obs.NoDeadLetter++
			wit("%q accepted, never handled, no dead letter on either node", text)
		}
	}
	sent.mu.Unlock()
	obs.SendersInDeadLetters = len(failedSenders)
	obs.BatchFail = a.Log.BatchFail.Load() - fail0
	obs.Fired, obs.Refused = b.Proxy.Fired.Load()-fired0, b.Proxy.Refused.Load()-refused0
	// dead letters of this case's tag that name no message that was sent
	for _, tap := range []*c18rTap{e.tapA, e.tapB} {
		tap.mu.Lock()
		for text := range tap.byText {
			if strings.HasPrefix(text, tag+"|m|") && !sent.accepted[text] {
				// a rejected send may still have been enqueued? no: submit did not take it
				obs.Unknown++
				wit("dead letter for %q, which no sender had accepted", text)
			}
		}
		tap.mu.Unlock()
	}
	switch s.Kind {
	case "clean":
		obs.Nontrivial = obs.DeadB > 0
	default:
		obs.Nontrivial = obs.DeadA > 0 && obs.SendersInDeadLetters >= 2
	}
	return obs
}

// TestVerif_C18Remote: remote drop causes of C18.
func TestVerif_C18Remote(t *testing.T) {
	r := verifrt.Start(t, "C18")
	defer r.Finish()
	r.Rule("remote unit: case = 2-6 sender actors of node A (sending from their Receive) plus 0-2 goroutines using A's NoSender, each telling 100-400 uniquely numbered messages to 1-3 actors of node B and (0-30%) to a name stopped on B just before, through the fault proxy: refusal window | connection reset before/inside/after request frame k<8 | peer stall with senders cancelled on back-pressure | no fault. Oracle per accepted message id: handled once => no dead letter; not handled => exactly one Deadletter event on the node that dropped it (A: failed coalesced batch, B: actor gone) whose message text, sender path and receiver path are the original's; delivered-and-dead-lettered-on-A is an ambiguous ack (counted); Metric().DeadlettersCount() delta == Deadletter events seen on that node. Quiescence: fence through the same coalescer, barrier entry through A's hand-off queue, count request FIFO behind the dead-letter actor's mailbox. non-trivial = dead letters of at least two different senders came out of failed batches (clean script: at least one actor-gone dead letter on B)")
	rng := r.Rand(1801)
	n := r.N(24, 400)
	e := &c18rEnv{env: &c27Env{t: t}}
	defer e.env.Close()
	for i := 0; i < n; i++ {
		s := c18rGen(rng, i+r.Batch)
		seed := rng.Int63()
		obs := c18rRun(t, e, s, seed)
		key := s.String()
		if obs.Inconclusive != "" {
			r.Inconclusive("%s: %s", key, obs.Inconclusive)
			e.env.dropA(false)
			continue
		}
		r.Case(key+"/"+verifrt.Hash64s(seed), obs.Nontrivial)
		r.Count("remote_accepted", int64(obs.Accepted))
		r.Count("remote_rejected_by_backpressure", int64(obs.Rejected))
		r.Count("remote_handled", int64(obs.Handled))
		r.Count("remote_dead_letters_sender_node", int64(obs.DeadA))
		r.Count("remote_dead_letters_receiver_node", int64(obs.DeadB))
		r.Count("remote_ambiguous_acks", int64(obs.Ambiguous))
		r.Count("remote_failed_batches", obs.BatchFail)
		r.Count("remote_tells_to_stopped_actor", int64(obs.GoneAccepted))
		r.Max("max_remote_senders_in_failed_batches", int64(obs.SendersInDeadLetters))
		detail := map[string]any{"script": key, "seed": seed, "obs": obs}
		if obs.WrongSender > 0 {
			r.Violation("remote-dead-letter-wrong-sender", detail)
		}
		if obs.WrongReceiver > 0 {
			r.Violation("remote-dead-letter-wrong-receiver", detail)
		}
		if obs.DupDeadLetter > 0 {
			r.Violation("remote-dead-letter-duplicate", detail)
		}
		if obs.DeadForHandled > 0 {
			r.Violation("remote-dead-letter-for-handled-message", detail)
		}
		if obs.NoDeadLetter > 0 {
			r.Violation("remote-drop-without-dead-letter:"+s.Kind, detail)
		}
		if obs.Unknown > 0 {
			r.Violation("remote-dead-letter-unknown-message", detail)
		}
		if obs.MetricA != obs.EventsA {
			r.Violation("remote-dead-letter-count-mismatch:sender-node", detail)
		}
		if obs.MetricB != obs.EventsB {
			r.Violation("remote-dead-letter-count-mismatch:receiver-node", detail)
		}
		if i < 2 {
			r.Sample(detail)
		}
	}
}
