//go:build verif

package actor

// Harness "network" for real replicatorActors (C41; mechanical copy of c39b_net_verif_test.go
// with the identifier prefix changed, so that each check builds on its own with VERIF_ONLY). Several replicators are spawned in one
// local actor system whose TopicActor reference points at a harness actor: everything a
// replicator publishes (deltas, tombstones) and every full state it sends in answer to a
// digest is captured there instead of being disseminated. The harness then delivers the
// captured protobuf messages (re-encoded through proto.Marshal/Unmarshal, as remoting would)
// to the other replicators in whatever order / multiplicity a script says.

import (
	"context"
	"fmt"
	"sync"
	"sync/atomic"
	"testing"
	"time"

	"google.golang.org/protobuf/proto"

	"github.com/tochemey/goakt/v4/crdt"
	"github.com/tochemey/goakt/v4/internal/internalpb"
)

// c41Sync is the barrier message answered by the network actor.
type c41Sync struct{}

// c41Captured is one message captured at the network actor.
type c41Captured struct {
	From  string // sender PID id
	PubID string
	Delta *internalpb.CRDTDelta
	Tomb  *internalpb.CRDTTombstone
	Full  *internalpb.CRDTFullState
}

type c41Net struct {
	mu      sync.Mutex
	log     []c41Captured
	subs    map[string]int
	unknown []string
}

func (n *c41Net) add(c c41Captured) {
	n.mu.Lock()
	n.log = append(n.log, c)
	n.mu.Unlock()
}

// take removes and returns everything captured from the given sender, in capture order.
func (n *c41Net) take(from string) []c41Captured {
	n.mu.Lock()
	defer n.mu.Unlock()
	var out, rest []c41Captured
	for _, c := range n.log {
		if c.From == from {
			out = append(out, c)
		} else {
			rest = append(rest, c)
		}
	}
	n.log = rest
	return out
}

func (n *c41Net) subscribed(id string) int {
	n.mu.Lock()
	defer n.mu.Unlock()
	return n.subs[id]
}

type c41NetActor struct{ net *c41Net }

func (a *c41NetActor) PreStart(*Context) error { return nil }
func (a *c41NetActor) PostStop(*Context) error { return nil }

func (a *c41NetActor) Receive(ctx *ReceiveContext) {
	from := ""
	if s := ctx.Sender(); s != nil {
		from = s.ID()
	}
	switch m := ctx.Message().(type) {
	case *PostStart:
	case *c41Sync:
		ctx.Response(&c41Sync{})
	case *Subscribe:
		a.net.mu.Lock()
		a.net.subs[from]++
		a.net.mu.Unlock()
	case *Publish:
		c := c41Captured{From: from, PubID: m.ID()}
		switch p := m.Message().(type) {
		case *internalpb.CRDTDelta:
			c.Delta = p
		case *internalpb.CRDTTombstone:
			c.Tomb = p
		default:
			a.net.mu.Lock()
			a.net.unknown = append(a.net.unknown, fmt.Sprintf("publish payload %T", p))
			a.net.mu.Unlock()
			return
		}
		if m.Topic() != crdtTopic {
			a.net.mu.Lock()
			a.net.unknown = append(a.net.unknown, "publish topic "+m.Topic())
			a.net.mu.Unlock()
		}
		a.net.add(c)
	case *internalpb.CRDTFullState:
		a.net.add(c41Captured{From: from, Full: m})
	default:
		a.net.mu.Lock()
		a.net.unknown = append(a.net.unknown, fmt.Sprintf("%T", m))
		a.net.mu.Unlock()
	}
}

// c41World is one actor system with the harness network installed as its topic actor.
type c41World struct {
	sys    *actorSystem
	net    *c41Net
	netPID *PID
	seq    atomic.Int64
}

func c41NewWorld(t *testing.T) *c41World {
	sys := vfNewSystem(t)
	w := &c41World{sys: sys, net: &c41Net{subs: map[string]int{}}}
	pid, err := sys.Spawn(context.Background(), "c41-net", &c41NetActor{net: w.net}, WithLongLived())
	if err != nil {
		t.Fatalf("spawn network actor: %v", err)
	}
	w.netPID = pid
	sys.locker.Lock()
	sys.topicActor = pid
	sys.locker.Unlock()
	return w
}

func (w *c41World) close() { vfStop(w.sys) }

// c41Cluster is a set of replicators of one case.
type c41Cluster struct {
	w       *c41World
	reps    []*PID
	ids     []string
	timeout time.Duration
	fail    string // first harness-level failure (watchdog / unexpected reply); the case is abandoned
	asks    int64
}

// c41NewCluster spawns n replicators reading cfg. Schedules are disabled by the caller
// through zero intervals; the harness sends ticks itself.
func c41NewCluster(t *testing.T, w *c41World, n int, cfg *crdt.Config) *c41Cluster {
	c := &c41Cluster{w: w, timeout: 60 * time.Second}
	w.sys.extensions.Set(crdtConfigExtensionID, &crdtConfigExtension{config: cfg})
	tag := w.seq.Add(1)
	for i := 0; i < n; i++ {
		pid, err := w.sys.Spawn(context.Background(), fmt.Sprintf("c41-rep-%d-%d", tag, i), newReplicatorActor(), WithLongLived())
		if err != nil {
			t.Fatalf("spawn replicator: %v", err)
		}
		c.reps = append(c.reps, pid)
		c.ids = append(c.ids, pid.ID())
	}
	// PostStart is the first message of every replicator; a round trip orders us after it.
	for i := range c.reps {
		c.ask(i, &crdt.Get{Key: crdt.FlagKey("c41-warmup")})
	}
	c.netSync()
	for i, id := range c.ids {
		if c.fail == "" && w.net.subscribed(id) != 1 {
			c.fail = fmt.Sprintf("replicator %d did not subscribe to the harness network exactly once (%d)", i, w.net.subscribed(id))
		}
	}
	return c
}

func (c *c41Cluster) stop() {
	for _, p := range c.reps {
		ctx, cancel := context.WithTimeout(context.Background(), 30*time.Second)
		_ = p.Shutdown(ctx)
		cancel()
	}
	for _, id := range c.ids {
		c.w.net.take(id)
	}
}

func (c *c41Cluster) ask(i int, msg any) any {
	if c.fail != "" {
		return nil
	}
	c.asks++
	resp, err := Ask(context.Background(), c.reps[i], msg, c.timeout)
	if err != nil {
		c.fail = fmt.Sprintf("ask %T to replica %d: %v", msg, i, err)
		return nil
	}
	return resp
}

func (c *c41Cluster) netSync() {
	if c.fail != "" {
		return
	}
	if _, err := Ask(context.Background(), c.w.netPID, &c41Sync{}, c.timeout); err != nil {
		c.fail = fmt.Sprintf("network barrier: %v", err)
	}
}

// command sends a local command (Update/Delete) to replica i and returns what it published.
func (c *c41Cluster) command(i int, msg any) []c41Captured {
	if c.ask(i, msg) == nil {
		return nil
	}
	c.netSync()
	return c.w.net.take(c.ids[i])
}

// get reads a key through the replicator's Get path. ok=false on harness failure.
func (c *c41Cluster) get(i int, key crdt.Key) (crdt.ReplicatedData, bool) {
	resp := c.ask(i, &crdt.Get{Key: key})
	if resp == nil {
		return nil, false
	}
	gr, isGet := resp.(*crdt.GetResponse)
	if !isGet {
		c.fail = fmt.Sprintf("get reply %T", resp)
		return nil, false
	}
	return gr.Data, true
}

// c41Wire re-encodes a protobuf message the way a remoting hop would.
func c41Wire[T proto.Message](m T) T {
	b, err := proto.Marshal(m)
	if err != nil {
		panic(err)
	}
	out := m.ProtoReflect().New().Interface().(T)
	if err := proto.Unmarshal(b, out); err != nil {
		panic(err)
	}
	return out
}

// tell delivers msg to replica i with the network actor as sender (no waiting).
func (c *c41Cluster) tell(i int, msg any) {
	if c.fail != "" {
		return
	}
	if err := c.w.netPID.Tell(context.Background(), c.reps[i], msg); err != nil {
		c.fail = fmt.Sprintf("tell %T to replica %d: %v", msg, i, err)
	}
}

// digest returns replica i's own anti-entropy digest (buildDigest) through the
// dataCenterDigestRequest path.
func (c *c41Cluster) digest(i int) *internalpb.CRDTDigest {
	resp := c.ask(i, &dataCenterDigestRequest{})
	if resp == nil {
		return nil
	}
	d, ok := resp.(*internalpb.CRDTDigest)
	if !ok {
		c.fail = fmt.Sprintf("digest reply %T", resp)
		return nil
	}
	return d
}

// fullStateFor sends digest dg to replica j and returns the full state j answers with
// (nil when j sends nothing). barrierKey is read at j to order us after the digest.
func (c *c41Cluster) fullStateFor(j int, dg *internalpb.CRDTDigest, barrierKey crdt.Key) *internalpb.CRDTFullState {
	c.tell(j, c41Wire(dg))
	if _, ok := c.get(j, barrierKey); !ok {
		return nil
	}
	c.netSync()
	var fs *internalpb.CRDTFullState
	for _, cap := range c.w.net.take(c.ids[j]) {
		if cap.Full != nil {
			if fs != nil {
				c.fail = "more than one full state for one digest"
			}
			fs = cap.Full
		} else if c.fail == "" {
			c.fail = "unexpected publish while handling a digest"
		}
	}
	return fs
}
