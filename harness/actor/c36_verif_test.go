//go:build verif

package actor

import (
	"fmt"
	"testing"
	"time"

	"github.com/tochemey/goakt/v4/internal/verifrt"
)

// TestVerif_C36: a cluster singleton runs at most once cluster-wide.
func TestVerif_C36(t *testing.T) {
	r := verifrt.Start(t, "C36")
	defer r.Finish()
	r.Rule("case = one fresh singleton name on 3 real actor systems (real remoting, shared linearizable fake registry, harness-controlled leader view) x one scenario drawn from: stable-burst (2-8 simultaneous SpawnSingleton calls from all nodes, one leader), stable-burst-role (role-pinned), sequential-flip (spawn, leader change, spawn again), respawn (stop racing re-spawn), held-after-absent-check (stable leader; the first caller is held right after its registry name check said absent, more callers arrive locally and through RemoteSpawn, any caller whose own check also says absent is held until the first caller's SpawnSingleton has returned), publish-fail / precheck-fail (registry failure at the leader's record publication / name check; re-spawn after the rolled-back instance is gone), publish-fail-racing-respawn (re-spawn while the leader's busy death watch has not yet removed the rolled-back instance), flip-between-check-and-publish, flip-after-members, flip-random (leader changes while calls are in flight), split-view (two nodes each see themselves as leader); logical nodes A,B,C are a seeded permutation. oracle = process-wide live-instance gauge per name kept by the harness actor (PreStart success .. PostStop entry) must never exceed 1; the settled registry-vs-host comparison is recorded as evidence only. non-trivial = the scenario's interleaving was reached (hold point hit / fault fired / flip applied / >=1 successful spawn under contention), measured; distinct by scenario, permutation and seed")
	r.Assume("the registry (olric DMap) is linearizable per key and its NX put is atomic; the fake registry implements exactly that with one mutex")
	r.Assume("a leader change is modelled as the coordinator flag moving in the member list every node reads (all views at once, or one node's view for split-view); real membership convergence is not modelled beyond that")

	rng := r.Rand(36)
	n := r.N(120, 3000)

	t0 := time.Now()
	cl := vfcNewCluster(t, 3, vfcWithKinds(&C36Singleton{}), vfcWithRoles(1, "c36role"), vfcWithRoles(2, "c36role"))
	defer cl.Stop()
	r.Count("millis:cluster-start", time.Since(t0).Milliseconds())
	mon := &c36Mon{c: cl, names: map[string]*c36NameState{}}
	c36Current.Store(mon)
	defer c36Current.Store(nil)
	cl.SetHook(c36Before)
	cl.SetAfterHook(c36After)

	total := 0
	for _, s := range c36Scenarios {
		total += s.Weight
	}
	for i := 0; i < n; i++ {
		var scen c36Scenario
		if i < len(c36Scenarios) {
			scen = c36Scenarios[(i+r.Batch)%len(c36Scenarios)]
		} else {
			w := rng.Intn(total)
			for _, s := range c36Scenarios {
				if w < s.Weight {
					scen = s
					break
				}
				w -= s.Weight
			}
		}
		seed := rng.Int63()
		out := c36RunRound(cl, mon, scen, seed)
		r.Case(fmt.Sprintf("%s/%s", scen.Name, verifrt.Hash64s(seed)), out.Achieved)
		r.Count("rounds:"+scen.Name, 1)
		r.Count("millis:"+scen.Name, out.Millis)
		if out.Achieved {
			r.Count("achieved:"+scen.Name, 1)
		}
		r.Count("instances_started", int64(out.Starts))
		r.Count("instances_stopped", int64(out.Stops))
		r.Count("leader_flips_during_calls", out.Flips)
		r.Count("registry_faults_injected", out.Injected)
		r.Count("holds_hit", out.GatesHit)
		r.Count("callers_held_after_a_second_absent_name_check", out.HeldLate)
		r.Count("delays_injected", out.Delays)
		r.Count("spawn_calls_ok", int64(out.CallOK))
		r.Count("spawn_calls_failed", int64(out.CallErr))
		r.Count("registry_ops_on_round_names", int64(out.RegOps))
		if out.RegNames != "" {
			r.Count("settled_registry:"+out.RegNames, 1)
		}
		if out.LeakedDup {
			r.Count("instances_left_unmanaged", 1)
		}
		r.Max("max_live_instances", int64(out.MaxLive))
		for _, f := range out.Findings {
			r.Violation(f.Sig, f.Detail)
		}
		if out.Stalled != "" {
			r.Inconclusive("round %d (%s): %s", i, scen.Name, out.Stalled)
			break
		}
		if i < 4 {
			r.Sample(map[string]any{"scenario": scen.Name, "achieved": out.Achieved, "calls": out.Calls, "max_live": out.MaxLive, "registry_ops": out.RegOps, "notes": out.Notes})
		}
	}
}
