//go:build verif

package actor

import (
	"testing"

	"github.com/tochemey/goakt/v4/internal/verifrt"
)

// TestVerif_C31: per-activation automaton + CAS overlap word + send ledger over
// tell/ask senders x passivation x explicit deactivation x shutdown with noise.
func TestVerif_C31(t *testing.T) {
	r := verifrt.Start(t, "C31")
	defer r.Finish()
	r.Rule("case = (mode in {time passivation, explicit PoisonPill, shutdown under traffic, mixed}, 1-2 grain identities, senders, messages/sender, ask share, dwell in OnReceive/OnDeactivate/OnActivate, occasional handler longer than the passivation timeout, passivation timeout, reentrancy on/off, grain interval timer, throughput budget, GOMAXPROCS, k hot noise sites) on a fresh local actor system; senders pace themselves around observed deactivations (send right after an OnDeactivate exit, sleep about one passivation timeout); oracle = per-activation automaton (OnActivate exit before any OnReceive, no OnReceive once OnDeactivate has begun, OnDeactivate exactly once per completed activation after the system has stopped) + CAS hook-in-progress word per activation + race detector on plain grain fields + send ledger (nil error => handled, unless the call interval overlapped a deactivation or shutdown; a call started after OnDeactivate returned must be handled by a later activation on a fresh instance; a call issued after isStopping() was read true must be rejected); non-trivial = at least one deactivation under traffic and at least one send that started after an OnDeactivate exit and was handled by a later activation; distinct by knob tuple and seed")
	rng := r.Rand(31)
	n := r.N(64, 1500)
	for i := 0; i < n; i++ {
		k := c31GenKnobs(rng)
		seed := rng.Int63()
		obs := c31RunCase(t, r.Batch*100000+i, k, seed)
		r.Case(k.String()+"/"+verifrt.Hash64s(seed), obs.NonTrivial)
		r.Count("activations", obs.Activations)
		r.Count("deactivations", obs.Deactivations)
		r.Count("receives", obs.Receives)
		r.Count("timer_ticks_received", obs.Ticks)
		r.Count("sends", int64(obs.Sends))
		r.Count("sends_nil_error", int64(obs.SendsOK))
		r.Count("sends_error_accepted", int64(obs.SendsErr))
		r.Count("sends_right_after_deactivation", int64(obs.Probes))
		r.Count("sends_issued_after_stopping_observed", int64(obs.AfterStopping))
		r.Count("sends_after_deactivation_handled_by_fresh_activation", int64(obs.FreshHandled))
		r.Count("nil_error_unhandled_racing_deactivation_tolerated", int64(obs.RacedLoss))
		r.Count("ask_reply_id_mismatch", int64(obs.ReplyMismatch))
		r.Count("activate_while_previous_activation_not_dead", obs.LiveOverlap)
		r.Count("noise_delays_injected", obs.Delays)
		for trig, c := range obs.Triggers {
			r.Count("deactivated_by_"+trig, int64(c))
		}
		for kind, c := range obs.ErrKinds {
			r.Count("send_errors_"+kind, int64(c))
		}
		if obs.OtherErr != "" {
			r.Note("other send error: %s", obs.OtherErr)
		}
		if obs.Inconclusive != "" {
			r.Inconclusive("%s (%s)", obs.Inconclusive, k.String())
		}
		for _, v := range obs.Viols {
			d := map[string]any{"knobs": k.String(), "seed": seed, "count_in_case": v.Count, "hot_sites": obs.HotSites}
			for kk, vv := range v.Detail {
				d[kk] = vv
			}
			r.Violation(v.Sig, d)
		}
		if i < 3 {
			r.Sample(map[string]any{"knobs": k.String(), "activations": obs.Activations, "deactivations": obs.Deactivations, "receives": obs.Receives, "sends": obs.Sends, "sends_ok": obs.SendsOK, "fresh_handled": obs.FreshHandled, "triggers": obs.Triggers, "hot_sites": obs.HotSites})
		}
	}
}
