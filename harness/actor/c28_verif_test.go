//go:build verif

package actor

import (
	"context"
	"fmt"
	"math/rand"
	"sort"
	"strconv"
	"strings"
	"sync"
	"sync/atomic"
	"testing"
	"time"

	"github.com/tochemey/goakt/v4/internal/verifrt"
	"github.com/tochemey/goakt/v4/test/data/testpb"
)

// C28, actor-system layer: concurrent asks from node A to echo actors on node B
// through the fault proxy. Every request carries a unique token and the delay the
// responder must wait before echoing it; delays are placed around the callers'
// timeouts, some callers carry a context deadline shorter than the ask timeout, the
// proxy resets connections before / inside requests and responses, and (optionally)
// schedule noise sits between the late-reply guard and the reply send in
// ReceiveContext.Response. Oracle: a reply's token equals its request's token;
// batch replies are in request order. Timeouts and transport errors are outcomes
// the property allows; they are only counted.

type c28Echo struct{}

func (c28Echo) PreStart(*Context) error { return nil }
func (c28Echo) PostStop(*Context) error { return nil }

func (c28Echo) Receive(ctx *ReceiveContext) {
	m, ok := ctx.Message().(*testpb.TestLog)
	if !ok {
		return
	}
	// text = tag|a|asker|seq|delayMicros
	text := m.GetText()
	if i := strings.LastIndexByte(text, '|'); i >= 0 {
		if us, err := strconv.Atoi(text[i+1:]); err == nil && us > 0 {
			time.Sleep(time.Duration(us) * time.Microsecond)
		}
	}
	ctx.Response(&testpb.Reply{Content: text})
}

type c28Script struct {
	Askers     int
	PerAsker   int
	Responders int
	TimeoutMs  int
	Faults     map[int64]string
	BatchPct   int // share of operations that are batch asks
	ShortCtx   int // percent of asks whose context deadline is half the ask timeout
	Noise      bool
}

func (s c28Script) String() string {
	var fk []string
	for k, v := range s.Faults {
		fk = append(fk, fmt.Sprintf("%s@%d", v, k))
	}
	sort.Strings(fk)
	return fmt.Sprintf("askers=%d n=%d responders=%d timeout=%dms batch%%=%d shortctx%%=%d noise=%v faults=[%s]",
		s.Askers, s.PerAsker, s.Responders, s.TimeoutMs, s.BatchPct, s.ShortCtx, s.Noise, strings.Join(fk, ","))
}

type c28Obs struct {
	OK, Timeouts, OtherErrors      int64
	BatchOK, BatchErr              int64
	WrongReply, BatchOrder         int64
	WrongBatchReply                int64
	WrongBatchLen                  int64
	Wit                            []string
	Fired                          int64
	FiredLog                       []string
	ClientGaveUpBeforeServerReply  int64 // asks designed so that the server replies after the client's deadline
	LateReplies                    int64 // responder delay >= ask timeout
	Yields, Delays                 int64
	TimeoutUsedMs                  int64
	MaxOverheadUs, AvgOverheadUs   int64 // successful asks: round trip minus responder delay
	HotSites                       []string
	Nontrivial                     bool
}

func c28Gen(rng *rand.Rand) c28Script {
	s := c28Script{
		Askers:     8 + rng.Intn(57),
		PerAsker:   6 + rng.Intn(7),
		Responders: 1 + rng.Intn(8),
		TimeoutMs:  []int{30, 60}[rng.Intn(2)],
		BatchPct:   []int{0, 10, 30}[rng.Intn(3)],
		ShortCtx:   []int{0, 10, 25}[rng.Intn(3)],
		Noise:      rng.Intn(2) == 0,
		Faults:     map[int64]string{},
	}
	if s.Responders < s.Askers/3 {
		s.Responders = s.Askers / 3 // keep queueing delay at the responders below the timeout most of the time
	}
	total := s.Askers * s.PerAsker
	for n := rng.Intn(7); n > 0; n-- {
		s.Faults[int64(rng.Intn(total))] = c27FaultKinds[rng.Intn(len(c27FaultKinds))]
	}
	return s
}

func c28RunCase(e *c27Env, s c28Script, seed int64) (obs c28Obs) {
	t := e.t
	ctx := context.Background()
	a, b := e.nodes()
	e.cases++
	tag := "k" + strconv.Itoa(e.cases)
	echoes := make([]*PID, s.Responders)
	remotes := make([]*PID, s.Responders)
	for i := range echoes {
		pid, err := b.Sys.Spawn(ctx, fmt.Sprintf("c28echo-%s-%d", tag, i), c28Echo{})
		if err != nil {
			t.Fatalf("c28: spawn echo: %v", err)
		}
		echoes[i] = pid
		remotes[i] = newRemotePID(pid.getAddress(), a.Sys.getRemoting())
	}
	defer func() {
		for _, p := range echoes {
			_ = p.Shutdown(ctx)
		}
	}()
	from := a.Sys.NoSender()
	fired0 := b.Proxy.Fired.Load()
	b.Proxy.Arm(s.Faults)
	if s.Noise {
		obs.HotSites = verifrt.StartNoise(verifrt.NoiseConfig{Seed: seed, GoschedPerMille: 10, HotSites: 2,
			Candidates: verifrt.SitesIn("actor/receive_context.go:16"), HotPerMille: 500,
			MinDelay: 50 * time.Microsecond, MaxDelay: 3 * time.Millisecond, Budget: 400})
	}
	timeout := time.Duration(s.TimeoutMs) * time.Millisecond
	// Workload shaping only (never a verdict): on a slow or loaded machine a remote round
	// trip alone can exceed the nominal timeout and every ask would time out. Measure the
	// round trip of undelayed asks at the workload's concurrency and stretch the timeout to 3x its upper quartile.
	{
		var rtts []time.Duration
		var rmu sync.Mutex
		var pw sync.WaitGroup
		for a := 0; a < s.Askers; a++ { // same concurrency as the workload
			pw.Add(1)
			go func(a int) {
				defer pw.Done()
				for i := 0; i < 3; i++ {
					t0 := time.Now()
					if _, err := from.Ask(ctx, remotes[(a+i)%len(remotes)], &testpb.TestLog{Text: tag + "|p|" + strconv.Itoa(a) + "|" + strconv.Itoa(i) + "|0"}, 20*time.Second); err == nil {
						rmu.Lock()
						rtts = append(rtts, time.Since(t0))
						rmu.Unlock()
					}
				}
			}(a)
		}
		pw.Wait()
		if len(rtts) > 0 {
			sort.Slice(rtts, func(i, j int) bool { return rtts[i] < rtts[j] })
			if t := 3 * rtts[len(rtts)*3/4]; t > timeout {
				timeout = t
			}
		}
		if timeout > 600*time.Millisecond {
			timeout = 600 * time.Millisecond
		}
		obs.TimeoutUsedMs = timeout.Milliseconds()
	}
	var witMu sync.Mutex
	wit := func(format string, args ...any) {
		witMu.Lock()
		if len(obs.Wit) < 8 {
			obs.Wit = append(obs.Wit, fmt.Sprintf(format, args...))
		}
		witMu.Unlock()
	}
	var maxOver, sumOver atomic.Int64
	var ok, timeouts, other, batchOK, batchErr, wrong, wrongBatch, border, blen, gaveUp, late atomic.Int64
	var wg sync.WaitGroup
	for ask := 0; ask < s.Askers; ask++ {
		wg.Add(1)
		go func(ask int) {
			defer wg.Done()
			rng := rand.New(rand.NewSource(seed ^ int64(ask+1)*7919))
			for seq := 0; seq < s.PerAsker; seq++ {
				target := remotes[rng.Intn(len(remotes))]
				if rng.Intn(100) < s.BatchPct {
					// batch ask: 1-20 messages, small delays, generous timeout
					n := 1 + rng.Intn(20)
					msgs := make([]any, n)
					texts := make([]string, n)
					for i := range msgs {
						texts[i] = fmt.Sprintf("%s|b|%d|%d.%d|%d", tag, ask, seq, i, rng.Intn(300))
						msgs[i] = &testpb.TestLog{Text: texts[i]}
					}
					var got []string
					var err error
					if rng.Intn(2) == 0 {
						var resp []any
						resp, err = a.Sys.getRemoting().RemoteBatchAsk(ctx, from.getAddress(), target.getAddress(), msgs, 2*time.Second)
						for _, r := range resp {
							if rp, ok := r.(*testpb.Reply); ok {
								got = append(got, rp.GetContent())
							} else {
								got = append(got, fmt.Sprintf("%T", r))
							}
						}
					} else {
						var ch chan any
						ch, err = from.BatchAsk(ctx, target, msgs, 2*time.Second)
						if err == nil {
							for r := range ch {
								if rp, ok := r.(*testpb.Reply); ok {
									got = append(got, rp.GetContent())
								} else {
									got = append(got, fmt.Sprintf("%T", r))
								}
							}
						}
					}
					if err != nil {
						batchErr.Add(1)
						continue
					}
					batchOK.Add(1)
					if len(got) != n {
						blen.Add(1)
						wit("batch of %d requests %v returned %d replies %v", n, texts, len(got), got)
						continue
					}
					same := true
					for i := range got {
						if got[i] != texts[i] {
							same = false
						}
					}
					if !same {
						g2 := append([]string(nil), got...)
						t2 := append([]string(nil), texts...)
						sort.Strings(g2)
						sort.Strings(t2)
						if strings.Join(g2, ",") == strings.Join(t2, ",") {
							border.Add(1)
							wit("batch replies permuted: requests %v replies %v", texts, got)
						} else {
							wrongBatch.Add(1)
							wit("batch got foreign replies: requests %v replies %v", texts, got)
						}
					}
					continue
				}
				// single ask: delay around the timeout
				var delay time.Duration
				switch x := rng.Intn(80); {
				case x < 70:
					delay = time.Duration(rng.Intn(300)) * time.Microsecond
				case x < 72:
					delay = timeout*3/4 + time.Duration(rng.Intn(2000))*time.Microsecond
				case x < 74:
					delay = timeout - time.Duration(rng.Intn(1500))*time.Microsecond
				case x < 76:
					delay = timeout + time.Duration(rng.Intn(1500))*time.Microsecond
				case x < 77:
					delay = timeout + 5*time.Millisecond
				default:
					delay = time.Duration(rng.Int63n(int64(timeout)))
				}
				text := fmt.Sprintf("%s|a|%d|%d|%d", tag, ask, seq, delay.Microseconds())
				actx, cancel := ctx, context.CancelFunc(func() {})
				if rng.Intn(100) < s.ShortCtx {
					actx, cancel = context.WithTimeout(ctx, timeout/2)
					if delay > timeout/2 && delay < timeout {
						gaveUp.Add(1)
					}
				}
				if delay >= timeout {
					late.Add(1)
				}
				t0 := time.Now()
				resp, err := from.Ask(actx, target, &testpb.TestLog{Text: text}, timeout)
				cancel()
				if err == nil {
					if over := (time.Since(t0) - delay).Microseconds(); over > maxOver.Load() {
						maxOver.Store(over)
					}
					sumOver.Add((time.Since(t0) - delay).Microseconds())
				}
				if err != nil {
					es := err.Error()
					if strings.Contains(es, "timeout") || strings.Contains(es, "deadline") || strings.Contains(es, "timed out") {
						timeouts.Add(1)
					} else {
						other.Add(1)
					}
					continue
				}
				rp, isReply := resp.(*testpb.Reply)
				if !isReply {
					wrong.Add(1)
					wit("request %q got a %T", text, resp)
					continue
				}
				if rp.GetContent() != text {
					wrong.Add(1)
					wit("request %q got the reply of %q", text, rp.GetContent())
					continue
				}
				ok.Add(1)
			}
		}(ask)
	}
	wg.Wait()
	if s.Noise {
		obs.Yields, obs.Delays = verifrt.StopNoise()
	}
	b.Proxy.Heal()
	obs.OK, obs.Timeouts, obs.OtherErrors = ok.Load(), timeouts.Load(), other.Load()
	obs.BatchOK, obs.BatchErr = batchOK.Load(), batchErr.Load()
	obs.WrongReply, obs.BatchOrder, obs.WrongBatchLen = wrong.Load(), border.Load(), blen.Load()
	obs.WrongBatchReply = wrongBatch.Load()
	obs.ClientGaveUpBeforeServerReply, obs.LateReplies = gaveUp.Load(), late.Load()
	obs.MaxOverheadUs = maxOver.Load()
	if obs.OK > 0 {
		obs.AvgOverheadUs = sumOver.Load() / obs.OK
	}
	obs.Fired = b.Proxy.Fired.Load() - fired0
	obs.FiredLog = b.Proxy.FiredLog()
	obs.Nontrivial = obs.OK > 0 && (obs.Timeouts+obs.OtherErrors) > 0
	return obs
}

// TestVerif_C28 (actor-system layer).
func TestVerif_C28(t *testing.T) {
	r := verifrt.Start(t, "C28")
	defer r.Finish()
	r.Rule("case = 8-64 concurrent askers x 8-17 operations (single asks with responder delays around the ask timeout, a share with a context deadline of half the timeout; batch asks of 1-20 messages through RemoteBatchAsk and PID.BatchAsk) against 1-21 echo actors on a second actor system through the fault proxy (0-6 connection resets before/inside a request or response), optionally with schedule noise between the late-reply guard and the reply send of ReceiveContext.Response; oracle = reply token == request token, batch replies in request order; non-trivial = at least one ask succeeded and at least one timed out or failed in the same case; distinct by script and seed")
	r.Assume("a timeout or transport error is an allowed outcome; only a reply carrying a different request's token, or batch replies out of request order, refute")
	rng := r.Rand(28)
	n := r.N(24, 800)
	env := &c27Env{t: t}
	defer env.Close()
	for i := 0; i < n; i++ {
		s := c28Gen(rng)
		seed := rng.Int63()
		obs := c28RunCase(env, s, seed)
		key := s.String()
		r.Case(key+"/"+verifrt.Hash64s(seed), obs.Nontrivial)
		r.Count("asks_ok", obs.OK)
		r.Count("asks_timed_out", obs.Timeouts)
		r.Count("asks_other_error", obs.OtherErrors)
		r.Count("batch_asks_ok", obs.BatchOK)
		r.Count("batch_asks_error", obs.BatchErr)
		r.Count("proxy_faults_fired", obs.Fired)
		r.Count("asks_with_server_reply_after_client_deadline", obs.ClientGaveUpBeforeServerReply)
		r.Count("asks_with_responder_delay_beyond_timeout", obs.LateReplies)
		r.Count("noise_delays_injected", obs.Delays)
		r.Max("max_ok_ask_overhead_us", obs.MaxOverheadUs)
		r.Max("max_ask_timeout_used_ms", obs.TimeoutUsedMs)
		detail := map[string]any{"script": key, "seed": seed, "obs": obs}
		if obs.WrongReply > 0 {
			r.Violation("wrong-reply:ask", detail)
		}
		if obs.WrongBatchReply > 0 {
			r.Violation("wrong-reply:batch", detail)
		}
		if obs.BatchOrder > 0 {
			r.Violation("batch-order:permuted", detail)
		}
		if obs.WrongBatchLen > 0 {
			r.Violation("batch-reply-count", detail)
		}
		if i < 3 {
			r.Sample(detail)
		}
	}
}
