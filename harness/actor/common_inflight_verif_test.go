//go:build verif

package actor

import (
	"runtime"
	"strings"
	"time"
)

// vfDispatchInFlight returns how many goroutines are inside the dispatch path at
// one stop-the-world snapshot: a worker running a turn or the end-of-turn reclaim
// (runTurn / finishOrReclaim), or a sender still inside the enqueue-and-schedule
// pair (doReceive and the grain equivalents). A "no progress" verdict is only
// structural when this is zero: with the dispatch state Idle, every sender
// returned and no worker in a turn, nobody is left who could schedule the actor.
func vfDispatchInFlight() (int, string) {
	buf := make([]byte, 16<<20)
	n := runtime.Stack(buf, true)
	cnt := 0
	first := ""
	for _, g := range strings.Split(string(buf[:n]), "\n\n") {
		if strings.Contains(g, ").runTurn(") || strings.Contains(g, ").finishOrReclaim(") || strings.Contains(g, ").doReceive(") || strings.Contains(g, ").scheduleTurn(") {
			cnt++
			if first == "" {
				first = g
				if len(first) > 1500 {
					first = first[:1500]
				}
			}
		}
	}
	return cnt, first
}

// vfStructurallyStuck decides a frozen-state predicate without trusting wall
// clock: pred must hold before and after a snapshot that shows no goroutine in
// the dispatch path. Returns (true, "") when the state is frozen, (false, "")
// when pred stopped holding, and (false, reason) when workers stayed in flight
// for the whole (generous) watchdog, which is inconclusive.
func vfStructurallyStuck(pred func() bool, watchdog time.Duration) (bool, string) {
	deadline := time.Now().Add(watchdog)
	for {
		if !pred() {
			return false, ""
		}
		n, g := vfDispatchInFlight()
		if n == 0 {
			if pred() {
				return true, ""
			}
			return false, ""
		}
		if time.Now().After(deadline) {
			return false, "a goroutine stayed inside the dispatch path: " + g
		}
		time.Sleep(5 * time.Millisecond)
	}
}
