//go:build verif

package actor

import (
	"fmt"
	"testing"
	"time"

	"github.com/tochemey/goakt/v4/internal/verifrt"
)

// TestVerif_C30: a grain is active on at most one node at a time; the settled registry names
// the node that holds it.
func TestVerif_C30(t *testing.T) {
	r := verifrt.Start(t, "C30")
	defer r.Finish()
	r.Rule("case = one fresh grain identity on 3 real actor systems (real remoting, shared linearizable fake registry with atomic NX claim) x one scenario drawn from: random-burst, same-node-burst, exists-then-claim, first-lookup-then-claim, claim-then-hold, activation-failure (error/panic), send-time-owner-then-rollback (a second sender on the claiming node is held after its send-time owner lookup while the first sender's failed activation is rolled back and another node claims and activates), publish-fail-after-claim, rollback-remove-fail, republish-fail-on-active-owner, deactivate-vs-send, stale-owner-remote-activate, lost-claim-owner-vanishes, owner-republish-fails-remote-caller, random-churn; logical nodes A,B,C are a seeded permutation of the systems; callers are TellGrain / AskGrain / GrainIdentity. oracle = process-wide live-instance gauge per identity (OnActivate success .. OnDeactivate entry) must never exceed 1, and at quiescence the registry record must name the node holding the live instance. non-trivial = the scenario's interleaving was actually reached (its hold points were hit / its injected fault fired / claims from >=2 nodes contended), measured; distinct by scenario, permutation and seed")
	r.Assume("the registry's per-key NX put (olric Put with NX) is atomic and the registry is linearizable per key; the fake registry implements exactly that with one mutex")
	r.Assume("a registry operation the harness makes fail does not touch the store (the failure is a lost request, not a lost reply)")

	rng := r.Rand(30)
	n := r.N(176, 5000)

	t0 := time.Now()
	cl := vfcNewCluster(t, 3, vfcWithGrains(&C30Grain{}))
	r.Count("millis:cluster-start", time.Since(t0).Milliseconds())
	defer cl.Stop()
	mon := &c30Mon{c: cl, ids: map[string]*c30IdState{}}
	c30Current.Store(mon)
	defer c30Current.Store(nil)
	cl.SetHook(c30Before)
	cl.SetAfterHook(c30After)

	total := 0
	for _, s := range c30Scenarios {
		total += s.Weight
	}
	for i := 0; i < n; i++ {
		// every scenario at least once per batch, then weighted draws
		var scen c30Scenario
		if i < len(c30Scenarios) {
			scen = c30Scenarios[(i+r.Batch)%len(c30Scenarios)]
		} else {
			w := rng.Intn(total)
			for _, s := range c30Scenarios {
				if w < s.Weight {
					scen = s
					break
				}
				w -= s.Weight
			}
		}
		seed := rng.Int63()
		out := c30RunRound(cl, mon, scen, seed)
		r.Case(fmt.Sprintf("%s/%s", scen.Name, verifrt.Hash64s(seed)), out.Achieved)
		r.Count("rounds:"+scen.Name, 1)
		r.Count("millis:"+scen.Name, out.Millis)
		if out.Achieved {
			r.Count("achieved:"+scen.Name, 1)
		} else if len(out.Notes) > 0 {
			r.Count("not-achieved:"+scen.Name+": "+out.Notes[0], 1)
		}
		r.Count("activations_ok", int64(out.Activated))
		r.Count("activations_failed_injected", int64(out.Failed))
		r.Count("deactivations", int64(out.Deacts))
		r.Count("registry_ops_on_round_keys", int64(out.RegOps))
		r.Count("registry_history_ops_replayed_against_nx_register", int64(out.Replayed))
		if out.ReplayBad != "" {
			r.Inconclusive("round %d (%s): the fake registry's recorded history is not a legal sequential history: %s", i, scen.Name, out.ReplayBad)
		}
		r.Count("registry_faults_injected", out.Injected)
		r.Count("holds_hit", out.GatesHit)
		r.Count("delays_injected", out.Delays)
		r.Count("claims_lost", out.Contended)
		r.Count("caller_errors", int64(out.CallErrs))
		if out.StaleRec {
			r.Count("settled_stale_record_without_instance", 1)
		}
		if out.Unsettled {
			r.Count("rounds_not_settled_audit_skipped", 1)
		}
		r.Max("max_live_instances", int64(out.MaxLive))
		for _, f := range out.Findings {
			r.Violation(f.Sig, f.Detail)
		}
		if out.Stalled != "" {
			r.Inconclusive("round %d (%s): %s", i, scen.Name, out.Stalled)
			break
		}
		if i < 4 {
			r.Sample(map[string]any{"scenario": scen.Name, "achieved": out.Achieved, "calls": out.Calls, "max_live": out.MaxLive, "registry_ops": out.RegOps, "notes": out.Notes})
		}
	}
}
