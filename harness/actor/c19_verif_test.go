//go:build verif

package actor

import (
	"context"
	"errors"
	"fmt"
	"math/rand"
	"runtime"
	"sync"
	"sync/atomic"
	"testing"
	"time"

	"github.com/reugn/go-quartz/quartz"

	"github.com/tochemey/goakt/v4/internal/cluster"
	"github.com/tochemey/goakt/v4/internal/verifrt"
)

// C19: scheduled messages are delivered as scheduled, and cancelled ones stop.
//
// Single-system part: every reference runs a random script of ScheduleOnce /
// Schedule / PauseSchedule / ResumeSchedule / CancelSchedule calls. Each
// successful (Schedule|ScheduleOnce) call is a generation with its own message
// identity. The harness stamps the start and the return of every API call and the
// handler entry of every delivery. The model turns the call stamps into windows in
// which ticks can have fired; the k-th delivery of a generation must not be earlier
// than the earliest instant a k-th tick can exist, and there must be no more
// deliveries than ticks that can exist. All of it is lower-bound arithmetic: load
// only delays deliveries.

const c19Tol = int64(2 * time.Millisecond) // wall clock (quartz) vs monotonic clock (harness) tolerance

type c19Msg struct {
	Ref string
	Gen int
}

type c19Delivery struct {
	Ref string
	Gen int
	At  int64
}

type c19Target struct {
	base time.Time
	mu   sync.Mutex
	log  []c19Delivery
	n    atomic.Int64
}

func (a *c19Target) PreStart(*Context) error { return nil }
func (a *c19Target) PostStop(*Context) error { return nil }
func (a *c19Target) Receive(ctx *ReceiveContext) {
	m, ok := ctx.Message().(*c19Msg)
	if !ok {
		return
	}
	at := int64(time.Since(a.base))
	a.mu.Lock()
	a.log = append(a.log, c19Delivery{Ref: m.Ref, Gen: m.Gen, At: at})
	a.mu.Unlock()
	a.n.Add(1)
}

func (a *c19Target) deliveries(ref string, gen int) []int64 {
	a.mu.Lock()
	defer a.mu.Unlock()
	var out []int64
	for _, d := range a.log {
		if d.Ref == ref && d.Gen == gen {
			out = append(out, d.At)
		}
	}
	return out
}

type c19Window struct {
	Start int64 // call-start stamp of Schedule / Resume
	End   int64 // return stamp of Pause / Cancel; -1 = still open
}

type c19Gen struct {
	Gen      int
	Once     bool
	Period   int64 // delay or interval
	Windows  []c19Window
	Paused   bool
	Resumed  bool // a resume was attempted after a pause
	ResumeOK bool
	Closed   bool // cancelled
}

type c19Op struct {
	Op     string
	Gen    int
	Period string
	Start  int64
	Ret    int64
	Err    string
}

// c19Capacity returns the earliest possible instant of the k-th tick (1-based) of g,
// or ok=false when no k-th tick can exist given the windows (open windows extend to
// limit).
func c19Earliest(g *c19Gen, k int, limit int64) (int64, bool) {
	left := k
	for _, w := range g.Windows {
		end := w.End
		if end < 0 {
			end = limit
		}
		if end < w.Start {
			continue
		}
		capacity := int((end - w.Start + c19Tol) / g.Period)
		if g.Once && capacity > 1 {
			capacity = 1
		}
		if left <= capacity {
			return w.Start + int64(left)*g.Period, true
		}
		left -= capacity
		if g.Once && capacity == 1 {
			return 0, false
		}
	}
	return 0, false
}

type c19RefResult struct {
	Ref        string
	Ops        []c19Op
	Gens       []*c19Gen
	Delivered  int
	NonTrivial bool
	Viol       []verifrt.Violation
	Inconc     string
}

type c19Script struct {
	Ref   string
	Seed  int64
	Shape string
}

var c19Shapes = []string{"once", "once-cancel-early", "once-cancel-late", "once-pause-resume", "interval-cancel", "interval-pause-resume", "interval-reschedule", "live-rereg-pause", "once-live-rereg", "random", "random", "unknown-ref"}

// c19RunRef plays one reference's script on sys against target.
func c19RunRef(sys *actorSystem, pid *PID, tgt *c19Target, sc c19Script) (res c19RefResult) {
	res.Ref = sc.Ref
	ctx := context.Background()
	rng := rand.New(rand.NewSource(sc.Seed))
	now := func() int64 { return int64(time.Since(tgt.base)) }
	var cur *c19Gen // generation currently registered under the reference (nil: unknown / cancelled)
	gen := 0
	period := func() time.Duration { return time.Duration(20+rng.Intn(81)) * time.Millisecond }
	viol := func(sig string, detail map[string]any) {
		detail["ref"] = sc.Ref
		detail["shape"] = sc.Shape
		detail["ops"] = res.Ops
		res.Viol = append(res.Viol, verifrt.Violation{Sig: sig, Detail: detail})
	}
	record := func(op string, g int, p time.Duration, s, e int64, err error) {
		o := c19Op{Op: op, Gen: g, Start: s, Ret: e}
		if p > 0 {
			o.Period = p.String()
		}
		if err != nil {
			o.Err = err.Error()
		}
		res.Ops = append(res.Ops, o)
	}
	schedule := func(once bool, p time.Duration) {
		gen++
		msg := &c19Msg{Ref: sc.Ref, Gen: gen}
		s := now()
		var err error
		if once {
			err = sys.ScheduleOnce(ctx, msg, pid, p, WithReference(sc.Ref))
		} else {
			err = sys.Schedule(ctx, msg, pid, p, WithReference(sc.Ref))
		}
		e := now()
		name := "schedule"
		if once {
			name = "once"
		}
		record(name, gen, p, s, e, err)
		g := &c19Gen{Gen: gen, Once: once, Period: int64(p)}
		if err == nil {
			g.Windows = []c19Window{{Start: s, End: -1}}
			cur = g
		}
		// a rejected call must never deliver: no window at all
		res.Gens = append(res.Gens, g)
	}
	mustErr := func(op string, err error) {
		if cur == nil && err == nil {
			viol("nil-error-on-unknown-or-cancelled-reference:"+op, map[string]any{})
		}
	}
	// live: the generation registered under the reference is certainly still in the
	// scheduler's queue at stamp e: a recurring one always is (until cancelled), a one-shot
	// is while it is paused or while its delay cannot have elapsed yet.
	live := func(e int64) bool {
		if cur == nil || cur.Closed || len(cur.Windows) == 0 {
			return false
		}
		if !cur.Once {
			return true
		}
		if cur.Resumed {
			return false
		}
		return cur.Paused || e-cur.Windows[0].Start+c19Tol < cur.Period
	}
	// mustSucceed: an operation on a live reference whose state admits it (pause of a
	// running one, resume of a paused recurring one, cancel of any) must not report an error
	mustSucceed := func(op string, e int64, err error) {
		if err == nil || !live(e) {
			return
		}
		switch op {
		case "pause":
			if cur.Paused {
				return
			}
		case "resume":
			if !cur.Paused || cur.Once {
				return
			}
		}
		viol("error-on-live-reference:"+op, map[string]any{"gen": cur.Gen, "error": err.Error(), "once": cur.Once, "paused": cur.Paused, "windows": cur.Windows, "period": time.Duration(cur.Period).String()})
	}
	mustBeListed := func(when string) {
		e := now()
		if !live(e) {
			return
		}
		for _, info := range sys.ListSchedules() {
			if info.Reference == sc.Ref {
				return
			}
		}
		// a one-shot may have fired between the stamp and the listing
		if cur.Once && !cur.Paused && now()-cur.Windows[0].Start+c19Tol >= cur.Period {
			return
		}
		viol("live-reference-not-listed", map[string]any{"gen": cur.Gen, "when": when, "once": cur.Once})
	}
	pause := func() {
		s := now()
		err := sys.PauseSchedule(sc.Ref)
		e := now()
		g := 0
		if cur != nil {
			g = cur.Gen
		}
		record("pause", g, 0, s, e, err)
		mustErr("pause", err)
		mustSucceed("pause", e, err)
		if cur != nil && err == nil && !cur.Paused {
			cur.Paused = true
			w := &cur.Windows[len(cur.Windows)-1]
			if w.End < 0 {
				w.End = e
			}
		}
	}
	resume := func() {
		s := now()
		err := sys.ResumeSchedule(sc.Ref)
		e := now()
		g := 0
		if cur != nil {
			g = cur.Gen
		}
		record("resume", g, 0, s, e, err)
		mustErr("resume", err)
		mustSucceed("resume", e, err)
		if cur != nil && cur.Paused {
			cur.Resumed = true
			if err == nil {
				cur.ResumeOK = true
				cur.Paused = false
				cur.Windows = append(cur.Windows, c19Window{Start: s, End: -1})
			}
		}
	}
	cancel := func() {
		s := now()
		err := sys.CancelSchedule(sc.Ref)
		e := now()
		g := 0
		if cur != nil {
			g = cur.Gen
		}
		record("cancel", g, 0, s, e, err)
		mustErr("cancel", err)
		mustSucceed("cancel", e, err)
		if cur != nil {
			// whatever it returned, the reference is forgotten by the scheduler; when it
			// returned nil the job is gone as well. When it returned an error for a job that
			// is still queued, later ticks are not promised to stop: leave the window open.
			if err == nil {
				w := &cur.Windows[len(cur.Windows)-1]
				if w.End < 0 {
					w.End = e
				}
				cur.Closed = true
			}
			cur = nil
		}
	}
	sleep := func(d time.Duration) { time.Sleep(d) }
	waitDeliveries := func(g *c19Gen, n int) bool {
		return verifrt.WaitUntil(20*time.Second, func() bool { return len(tgt.deliveries(sc.Ref, g.Gen)) >= n })
	}

	switch sc.Shape {
	case "once":
		schedule(true, period())
	case "once-cancel-early":
		p := 60*time.Millisecond + period()
		schedule(true, p)
		sleep(time.Duration(rng.Intn(20)) * time.Millisecond)
		cancel()
		if rng.Intn(2) == 0 {
			cancel() // second cancel: unknown reference
		}
	case "once-cancel-late":
		schedule(true, period())
		g := cur
		if !waitDeliveries(g, 1) {
			res.Inconc = "once message not delivered within 20s"
			return res
		}
		cancel() // already delivered: any result is allowed, but it forgets the reference
		pause()
	case "once-pause-resume":
		p := 80*time.Millisecond + period()
		schedule(true, p)
		sleep(time.Duration(rng.Intn(30)) * time.Millisecond)
		pause()
		sleep(time.Duration(rng.Intn(150)) * time.Millisecond)
		resume()
	case "interval-cancel":
		schedule(false, period())
		g := cur
		if !waitDeliveries(g, 1+rng.Intn(4)) {
			res.Inconc = "interval message not delivered within 20s"
			return res
		}
		sleep(time.Duration(rng.Intn(int(g.Period))))
		cancel()
		switch rng.Intn(3) {
		case 0:
			resume()
		case 1:
			cancel()
		}
	case "interval-pause-resume":
		schedule(false, period())
		g := cur
		if !waitDeliveries(g, 1+rng.Intn(3)) {
			res.Inconc = "interval message not delivered within 20s"
			return res
		}
		sleep(time.Duration(rng.Intn(int(g.Period))))
		pause()
		sleep(time.Duration(3*g.Period) + time.Duration(rng.Intn(100))*time.Millisecond)
		resume()
		have := len(tgt.deliveries(sc.Ref, g.Gen))
		if !waitDeliveries(g, have+1+rng.Intn(2)) {
			res.Inconc = "interval message not delivered within 20s after resume"
			return res
		}
		cancel()
	case "interval-reschedule":
		schedule(false, period())
		g := cur
		waitDeliveries(g, 1)
		// same reference while active: the call is rejected or accepted, the model follows
		// the returned error
		prev := cur
		schedule(rng.Intn(2) == 0, period())
		if cur != prev && prev != nil {
			// accepted although a job with that key was active: the old job's fate is not
			// specified; keep its window open so that it is not judged
			res.Ops = append(res.Ops, c19Op{Op: "note: re-schedule accepted over an active reference"})
		}
		mustBeListed("after a rejected re-registration of the live reference")
		sleep(time.Duration(2 * g.Period))
		cancel()
		schedule(false, period())
		g2 := cur
		if g2 != nil {
			waitDeliveries(g2, 2)
		}
		cancel()
	case "live-rereg-pause":
		// recurring schedule, a second registration of the live reference (rejected), then
		// pause / resume / cancel of the first one
		schedule(false, period())
		g := cur
		if !waitDeliveries(g, 1) {
			res.Inconc = "interval message not delivered within 20s"
			return res
		}
		schedule(rng.Intn(2) == 0, period())
		mustBeListed("after a rejected re-registration of the live reference")
		if cur == g {
			pause()
			sleep(time.Duration(2*g.Period) + time.Duration(rng.Intn(40))*time.Millisecond)
			resume()
			have := len(tgt.deliveries(sc.Ref, g.Gen))
			waitDeliveries(g, have+1)
		}
		cancel()
	case "once-live-rereg":
		// one-shot that has not fired, a second registration of its reference (rejected),
		// then pause or cancel well before the delay
		p := 400*time.Millisecond + period()
		schedule(true, p)
		g := cur
		sleep(time.Duration(rng.Intn(30)) * time.Millisecond)
		schedule(rng.Intn(2) == 0, period())
		mustBeListed("after a rejected re-registration of the live reference")
		if cur == g {
			if rng.Intn(2) == 0 {
				pause()
			}
			cancel()
		}
	case "unknown-ref":
		switch rng.Intn(3) {
		case 0:
			cancel()
		case 1:
			pause()
		default:
			resume()
		}
		schedule(true, period())
	default: // random
		steps := 4 + rng.Intn(6)
		for i := 0; i < steps; i++ {
			switch rng.Intn(8) {
			case 0:
				schedule(true, period())
			case 1, 2:
				schedule(false, period())
			case 3:
				pause()
			case 4:
				resume()
			case 5:
				cancel()
			default:
				sleep(time.Duration(rng.Intn(160)) * time.Millisecond)
			}
			if rng.Intn(3) == 0 {
				sleep(time.Duration(rng.Intn(60)) * time.Millisecond)
			}
		}
	}

	// let once-generations that are still due fire, then cancel what is left
	for _, g := range res.Gens {
		if g.Once && len(g.Windows) > 0 && !g.Closed && !g.Paused && !g.Resumed && cur == g {
			if !waitDeliveries(g, 1) {
				listed := false
				for _, info := range sys.ListSchedules() {
					if info.Reference == sc.Ref {
						listed = true
					}
				}
				if listed {
					res.Inconc = fmt.Sprintf("once message of %s gen %d still queued after 20s", sc.Ref, g.Gen)
					return res
				}
				viol("once-not-delivered", map[string]any{"gen": g.Gen, "listed": listed, "target_running": pid.IsRunning()})
			}
		}
	}
	var lost *c19Gen
	if cur != nil && cur.Once && cur.Resumed && !cur.Closed {
		// ScheduleOnce, paused before it could fire, resumed, never cancelled: still owed
		w0 := cur.Windows[0]
		if w0.End >= 0 && w0.End-w0.Start+c19Tol < cur.Period {
			lost = cur
		}
	}
	if lost != nil {
		// owed, but the job may have left the scheduler: wait for the delivery only while the
		// job is still listed (watchdog 20s), and 40 periods (>= 3s) once it is not
		listedNow := func() bool {
			for _, info := range sys.ListSchedules() {
				if info.Reference == sc.Ref {
					return true
				}
			}
			return false
		}
		deadline := time.Now().Add(20 * time.Second)
		var goneSince time.Time
		for time.Now().Before(deadline) && len(tgt.deliveries(sc.Ref, lost.Gen)) == 0 {
			if listedNow() {
				goneSince = time.Time{}
			} else if goneSince.IsZero() {
				goneSince = time.Now()
			} else if w := time.Duration(40 * lost.Period); time.Since(goneSince) > w && time.Since(goneSince) > 3*time.Second {
				break
			}
			time.Sleep(10 * time.Millisecond)
		}
		if len(tgt.deliveries(sc.Ref, lost.Gen)) == 0 && listedNow() {
			res.Inconc = fmt.Sprintf("resumed once message of %s still queued after 20s", sc.Ref)
			return res
		}
	}
	if cur != nil {
		cancel()
	}

	// quiescence: no new delivery for 5 x the largest period (ticks of a job that was not
	// removed would keep coming)
	var maxP int64 = int64(100 * time.Millisecond)
	time.Sleep(time.Duration(5 * maxP))
	limit := now()

	for _, g := range res.Gens {
		ds := tgt.deliveries(sc.Ref, g.Gen)
		res.Delivered += len(ds)
		for k, at := range ds {
			earliest, ok := c19Earliest(g, k+1, limit)
			if !ok {
				kind := "interval"
				if g.Once {
					kind = "once"
				}
				what := "more-deliveries-than-ticks"
				if len(g.Windows) == 0 {
					what = "delivery-of-rejected-schedule"
				} else if g.Closed || g.Paused {
					what = "delivery-after-cancel-or-pause"
				}
				viol(what+":"+kind, map[string]any{"gen": g.Gen, "delivery_index": k + 1, "deliveries_ns": ds, "windows": g.Windows, "period": time.Duration(g.Period).String()})
				break
			}
			if at+c19Tol < earliest {
				kind := "interval"
				if g.Once {
					kind = "once"
				}
				viol("delivered-too-early:"+kind, map[string]any{"gen": g.Gen, "delivery_index": k + 1, "at_ns": at, "earliest_ns": earliest, "windows": g.Windows, "period": time.Duration(g.Period).String()})
				break
			}
		}
		if g == lost && len(ds) == 0 {
			viol("once-lost:pause-resume", map[string]any{"gen": g.Gen, "windows": g.Windows, "period": time.Duration(g.Period).String(), "resume_ok": g.ResumeOK})
		}
		if len(ds) > 0 && (g.Closed || g.Paused || g.Once) {
			res.NonTrivial = true
		}
	}
	if sc.Shape == "unknown-ref" || sc.Shape == "once-cancel-early" || sc.Shape == "once-live-rereg" {
		res.NonTrivial = true
	}
	return res
}

// ---------------------------------------------------------------- cluster cron part

var c19ErrRegistry = errors.New("c19 registry unavailable")

// c19Registry is the shared in-memory stand-in for the cluster's NX+EX claim table.
type c19Registry struct {
	mu     sync.Mutex
	claims map[string]int // key -> number of nil answers
	calls  map[string]int
	wins   int // total nil answers
	asked  int // total calls that reached the table
	keys   []string
	failN  atomic.Int64 // every failN-th call fails with a non-claim error (0 = never)
	ncalls atomic.Int64
}

type c19Cluster struct {
	cluster.Cluster // nil: any other method panics (none is reached on a non-cluster system)
	reg             *c19Registry
	rng             *rand.Rand
	rmu             sync.Mutex
}

func (c *c19Cluster) ClaimScheduleFire(_ context.Context, key string, _ time.Duration) error {
	c.rmu.Lock()
	noise := c.rng.Intn(4)
	c.rmu.Unlock()
	switch noise {
	case 0:
		runtime.Gosched()
	case 1:
		time.Sleep(time.Duration(50) * time.Microsecond)
	}
	n := c.reg.ncalls.Add(1)
	if f := c.reg.failN.Load(); f > 0 && n%f == 0 {
		return c19ErrRegistry
	}
	c.reg.mu.Lock()
	defer c.reg.mu.Unlock()
	c.reg.calls[key]++
	c.reg.asked++
	if len(c.reg.keys) < 4096 {
		c.reg.keys = append(c.reg.keys, key)
	}
	if c.reg.claims[key] > 0 {
		return cluster.ErrScheduleFireClaimed
	}
	c.reg.claims[key]++
	c.reg.wins++
	return nil
}

func c19SetCluster(sys *actorSystem, c cluster.Cluster) {
	sys.locker.Lock()
	sys.cluster = c
	sys.locker.Unlock()
}

type c19ClusterObs struct {
	Ticks      int
	Contended  int
	Delivered  int64
	Viol       []verifrt.Violation
	RealTicks  int
	RealDeliv  int64
	RegFailure int64
}

// c19ClusterPart drives the scheduler's cluster claim path of three systems that share
// one registry: synthetic ticks through the job function the scheduler builds, plus a
// real per-second cron on all three.
func c19ClusterPart(t *testing.T, seed int64, ticks int, realCron bool) (obs c19ClusterObs) {
	ctx := context.Background()
	rng := rand.New(rand.NewSource(seed))
	reg := &c19Registry{claims: map[string]int{}, calls: map[string]int{}}
	const nodes = 3
	var systems []*actorSystem
	var targets []*c19Target
	var pids []*PID
	base := time.Now()
	for i := 0; i < nodes; i++ {
		sys := vfNewSystem(t)
		tgt := &c19Target{base: base}
		pid, err := sys.Spawn(ctx, "c19-cron-target", tgt, WithLongLived())
		if err != nil {
			t.Fatalf("c19 spawn: %v", err)
		}
		c19SetCluster(sys, &c19Cluster{reg: reg, rng: rand.New(rand.NewSource(seed + int64(i)))})
		systems = append(systems, sys)
		targets = append(targets, tgt)
		pids = append(pids, pid)
	}
	defer func() {
		for _, sys := range systems {
			c19SetCluster(sys, nil)
			vfStop(sys)
		}
	}()
	total := func() int64 {
		var n int64
		for _, tg := range targets {
			n += tg.n.Load()
		}
		return n
	}
	idle := func() bool {
		for _, p := range pids {
			if !p.mailbox.IsEmpty() || vfSchedStateName(p) != "idle" {
				return false
			}
		}
		return true
	}

	// synthetic ticks: every node runs the scheduler-built job function for the same
	// (reference, run time)
	const ref = "c19-cron"
	msg := &c19Msg{Ref: ref, Gen: 1}
	jobs := make([]func(context.Context) (bool, error), nodes)
	for i, sys := range systems {
		claim := &scheduleFireClaim{reference: ref, ttl: time.Minute}
		jobs[i] = sys.scheduler.makeJobFn(pids[i], msg, newScheduleConfig(WithReference(ref)), claim)
	}
	reg.failN.Store(7)
	for k := 0; k < ticks; k++ {
		runTime := time.Now().UnixNano() - int64(rng.Intn(1000))*int64(time.Millisecond) + int64(k)
		stale := rng.Intn(10) == 0
		if stale {
			runTime = time.Now().Add(-2 * time.Minute).UnixNano() + int64(k)
		}
		before := total()
		key := fmt.Sprintf("%s@%d", ref, runTime)
		reg.mu.Lock()
		wins0, asked0, keys0 := reg.wins, reg.asked, len(reg.keys)
		reg.mu.Unlock()
		type ret struct {
			ok  bool
			err error
		}
		rets := make([]ret, nodes)
		start := make(chan struct{})
		var wg sync.WaitGroup
		for i := 0; i < nodes; i++ {
			wg.Add(1)
			go func(i int) {
				defer wg.Done()
				jctx := context.WithValue(ctx, quartz.JobMetadataContextKey, quartz.JobMetadata{RunTime: runTime})
				<-start
				ok, err := jobs[i](jctx)
				rets[i] = ret{ok, err}
			}(i)
		}
		close(start)
		wg.Wait()
		verifrt.WaitUntil(20*time.Second, idle)
		delivered := total() - before
		obs.Ticks++
		obs.Delivered += delivered
		// ticks are played one after the other: what the registry saw during this tick
		reg.mu.Lock()
		won, asked := reg.wins-wins0, reg.asked-asked0
		var keysUsed []string
		if keys0 < len(reg.keys) {
			keysUsed = append(keysUsed, reg.keys[keys0:]...)
		}
		reg.mu.Unlock()
		if asked > 1 {
			obs.Contended++
		}
		detail := func() map[string]any {
			var rs []string
			for _, x := range rets {
				rs = append(rs, fmt.Sprintf("(%v,%v)", x.ok, x.err))
			}
			return map[string]any{"key": key, "stale": stale, "delivered": delivered, "registry_nil_answers": won, "registry_calls": asked, "registry_keys_used": keysUsed, "job_returns": rs}
		}
		if delivered > 1 {
			obs.Viol = append(obs.Viol, verifrt.Violation{Sig: "cron-tick-delivered-more-than-once", Detail: detail()})
		}
		if stale && delivered > 0 {
			obs.Viol = append(obs.Viol, verifrt.Violation{Sig: "cron-stale-tick-delivered", Detail: detail()})
		}
		if won > 1 {
			obs.Viol = append(obs.Viol, verifrt.Violation{Sig: "cron-tick-claimed-under-several-keys", Detail: detail()})
		}
		if !stale && won == 1 && delivered == 0 {
			obs.Viol = append(obs.Viol, verifrt.Violation{Sig: "cron-tick-lost:claim-won-but-not-delivered", Detail: detail()})
		}
		if !stale && asked > 0 && won == 0 {
			// every node that reached the registry was told "claimed" although nobody had claimed
			// this tick: the key is not per tick
			obs.Viol = append(obs.Viol, verifrt.Violation{Sig: "cron-tick-lost:key-not-per-tick", Detail: detail()})
		}
	}
	obs.RegFailure = reg.ncalls.Load() / 7
	reg.failN.Store(0)

	if realCron {
		const ref2 = "c19-cron-real"
		m2 := &c19Msg{Ref: ref2, Gen: 1}
		before := total()
		for i, sys := range systems {
			if err := sys.ScheduleWithCron(ctx, m2, pids[i], "* * * * * *", WithReference(ref2)); err != nil {
				t.Fatalf("c19 ScheduleWithCron: %v", err)
			}
		}
		time.Sleep(2300 * time.Millisecond)
		for _, sys := range systems {
			_ = sys.CancelSchedule(ref2)
		}
		time.Sleep(300 * time.Millisecond)
		verifrt.WaitUntil(20*time.Second, idle)
		delivered := total() - before
		reg.mu.Lock()
		wonKeys, multi := 0, 0
		for k, n := range reg.claims {
			if len(k) > len(ref2) && k[:len(ref2)+1] == ref2+"@" {
				wonKeys += n
				if reg.calls[k] > 1 {
					multi++
				}
			}
		}
		reg.mu.Unlock()
		obs.RealTicks = wonKeys
		obs.RealDeliv = delivered
		obs.Contended += multi
		if delivered > int64(wonKeys) {
			obs.Viol = append(obs.Viol, verifrt.Violation{Sig: "cron-tick-delivered-more-than-once:real-cron", Detail: map[string]any{"ticks_claimed": wonKeys, "delivered": delivered}})
		}
	}
	return obs
}

func TestVerif_C19(t *testing.T) {
	r := verifrt.Start(t, "C19")
	defer r.Finish()
	r.Rule("case = one reference with a script of ScheduleOnce / Schedule (delay, interval 20-100ms) / PauseSchedule / ResumeSchedule / CancelSchedule calls (shapes: once, cancel before/after the delay, pause+resume of a once and of an interval schedule, re-schedule over an active and over a cancelled reference, a rejected second registration of a live recurring / not-yet-fired one-shot reference followed by pause / resume / cancel of the first one, operations on a never-used reference, random sequences), 1-5 references per target actor and 12 target actors concurrently on one system; every successful schedule call is a generation with its own message identity. Oracle = windows built from the harness stamps of call start / return: the k-th delivery of a generation is not earlier than the earliest instant a k-th tick can exist and there are no more deliveries than ticks that can exist (covers not-before-delay, stops after cancel, stops while paused, restarts one interval after resume, at most one for once); a ScheduleOnce that is never cancelled is delivered (structural: job left the scheduler's list, nothing handled); Pause/Resume/Cancel on a never-scheduled or cancelled reference must return an error; on a reference that is certainly still queued (recurring and not cancelled, one-shot paused or whose delay cannot have elapsed) pause of a running one, resume of a paused recurring one and cancel must succeed, and ListSchedules lists it. Cluster part = 3 local systems whose cluster handle is an in-memory claim registry (NX semantics, schedule noise, injected registry failures): for each synthetic tick all nodes run the scheduler-built job function for the same (reference, run time) concurrently, plus a real per-second cron on all three; per tick at most one delivery across nodes, stale ticks are not delivered, a won claim is delivered. non-trivial = a delivery was observed for a generation that was then cancelled / paused or is a once; cluster ticks count when more than one node reached the registry; distinct by (shape, seed)")
	r.Assume("quartz ticks are not earlier than their NextRunTime computed inside the call; wall and monotonic clocks differ by less than 2ms over a script; the in-memory registry is a correct NX table (the real olric registry is not exercised)")
	rng := r.Rand(19)
	nRefs := r.N(240, 6000)

	// cluster part runs concurrently with the single-system part
	var cobs c19ClusterObs
	var cwg sync.WaitGroup
	cwg.Add(1)
	cseed, cticks := rng.Int63(), r.N(240, 8000)
	go func() {
		defer cwg.Done()
		cobs = c19ClusterPart(t, cseed, cticks, true)
	}()

	sys := vfNewSystem(t)
	ctx := context.Background()
	done := 0
	round := 0
	for done < nRefs {
		round++
		const actors = 12
		var wg sync.WaitGroup
		var mu sync.Mutex
		var results []c19RefResult
		for a := 0; a < actors && done < nRefs; a++ {
			tgt := &c19Target{base: time.Now()}
			pid, err := sys.Spawn(ctx, fmt.Sprintf("c19-target-%d-%d", round, a), tgt, WithLongLived())
			if err != nil {
				t.Fatalf("c19 spawn: %v", err)
			}
			refs := 1 + rng.Intn(5)
			for k := 0; k < refs && done < nRefs; k++ {
				sc := c19Script{Ref: fmt.Sprintf("c19-r%d-a%d-k%d", round, a, k), Seed: rng.Int63(), Shape: c19Shapes[rng.Intn(len(c19Shapes))]}
				done++
				wg.Add(1)
				go func(sc c19Script) {
					defer wg.Done()
					res := c19RunRef(sys, pid, tgt, sc)
					mu.Lock()
					results = append(results, res)
					mu.Unlock()
				}(sc)
			}
		}
		wg.Wait()
		for _, res := range results {
			key := ""
			for _, o := range res.Ops {
				key += o.Op + o.Period + ","
			}
			r.Case(key+"/"+res.Ref, res.NonTrivial)
			r.Count("deliveries_observed", int64(res.Delivered))
			r.Count("api_calls", int64(len(res.Ops)))
			r.Count("generations", int64(len(res.Gens)))
			for _, v := range res.Viol {
				r.Violation(v.Sig, v.Detail)
			}
			if res.Inconc != "" {
				r.Inconclusive("%s", res.Inconc)
			}
			r.Sample(map[string]any{"ref": res.Ref, "ops": res.Ops, "delivered": res.Delivered})
		}
	}
	vfStop(sys)

	cwg.Wait()
	for i := 0; i < cobs.Contended; i++ {
		r.Case(fmt.Sprintf("cluster-tick-%d-%d", r.Batch, i), true)
	}
	r.Count("cluster_ticks", int64(cobs.Ticks))
	r.Count("cluster_ticks_contended", int64(cobs.Contended))
	r.Count("cluster_deliveries", cobs.Delivered)
	r.Count("cluster_registry_failures_injected", cobs.RegFailure)
	r.Count("cluster_real_cron_ticks_claimed", int64(cobs.RealTicks))
	r.Count("cluster_real_cron_deliveries", cobs.RealDeliv)
	for _, v := range cobs.Viol {
		r.Violation(v.Sig, v.Detail)
	}
}
