//go:build verif

package actor

import (
	"context"
	"errors"
	"fmt"
	"math/rand"
	"strings"
	"sync"
	"sync/atomic"
	"testing"
	"time"

	gerrors "github.com/tochemey/goakt/v4/errors"
	"github.com/tochemey/goakt/v4/internal/verifrt"
	"github.com/tochemey/goakt/v4/supervisor"
)

// C13 — stashed messages are neither lost, duplicated nor reordered.
//
// The harness actor decides for every *delivery* (first delivery or re-delivery
// after an unstash) what to do from a seeded script: handle, stash, and/or
// Unstash / UnstashAll. It appends one record per delivery to a log (message id,
// operations in the order executed, StashSize seen afterwards). The oracle
// replays that log against a reference FIFO stash:
//
//	Stash       appends the current message
//	Unstash     moves the oldest stashed message to the "must be delivered again" queue
//	UnstashAll  moves all of them, oldest first
//
// and demands: a delivery of an id is either its first one or the head of the
// must-be-delivered-again queue (anything else is a duplicate or a reordering);
// StashSize equals the model's after every delivery; at quiescence the queue is
// empty (nothing lost), and after the final drain every accepted id was handled
// exactly once. Re-delivered messages go behind whatever arrived meanwhile -- the
// model says nothing about their position relative to fresh messages.

const (
	c13OpHandle = iota
	c13OpStash
	c13OpUnstash
	c13OpUnstashAll
)

var c13OpNames = []string{"H", "S", "U", "A"}

// c13Action is what the actor does on one delivery: stash or handle, then
// optionally Unstash or UnstashAll.
type c13Action struct {
	Stash bool
	After int // 0 nothing, c13OpUnstash, c13OpUnstashAll
}

func (a c13Action) String() string {
	s := "H"
	if a.Stash {
		s = "S"
	}
	if a.After != 0 {
		s += c13OpNames[a.After]
	}
	return s
}

type c13Msg struct {
	ID     int
	Sender int
}

// c13Flush makes the actor enter drain mode: UnstashAll now, handle everything
// from now on.
type c13Flush struct{}

type c13Rec struct {
	ID        int   // -1 for the flush message
	Ops       []int // operations in execution order
	StashSize int64 // pid.StashSize() after the operations
	StashErr  string
	UnErr     string
}

type c13Shared struct {
	mu      sync.Mutex
	recs    []c13Rec
	handled atomic.Int64
	script  []c13Action
	noBuf   bool
}

type c13Actor struct {
	sh    *c13Shared
	k     int // deliveries so far (only touched in Receive)
	drain bool
}

func (a *c13Actor) PreStart(*Context) error { return nil }
func (a *c13Actor) PostStop(*Context) error { return nil }

func (a *c13Actor) Receive(ctx *ReceiveContext) {
	sh := a.sh
	switch m := ctx.Message().(type) {
	case *c13Flush:
		a.drain = true
		rec := c13Rec{ID: -1, Ops: []int{c13OpUnstashAll}}
		ctx.UnstashAll()
		if e := ctx.getError(); e != nil {
			rec.UnErr = e.Error()
			ctx.Err(nil)
		}
		rec.StashSize = int64(ctx.Self().StashSize())
		sh.mu.Lock()
		sh.recs = append(sh.recs, rec)
		sh.mu.Unlock()
	case *c13Msg:
		act := c13Action{}
		if !a.drain && a.k < len(sh.script) {
			act = sh.script[a.k]
		}
		a.k++
		rec := c13Rec{ID: m.ID}
		if act.Stash {
			ctx.Stash()
			if e := ctx.getError(); e != nil {
				// the runtime told us the message was not stashed: handle it
				// instead so that it is not lost by the harness itself
				rec.StashErr = e.Error()
				if !errors.Is(e, gerrors.ErrStashBufferNotSet) {
					rec.StashErr = "other: " + rec.StashErr
				}
				ctx.Err(nil)
				rec.Ops = append(rec.Ops, c13OpHandle)
				sh.handled.Add(1)
			} else {
				rec.Ops = append(rec.Ops, c13OpStash)
			}
		} else {
			rec.Ops = append(rec.Ops, c13OpHandle)
			sh.handled.Add(1)
		}
		switch act.After {
		case c13OpUnstash:
			ctx.Unstash()
			rec.Ops = append(rec.Ops, c13OpUnstash)
		case c13OpUnstashAll:
			ctx.UnstashAll()
			rec.Ops = append(rec.Ops, c13OpUnstashAll)
		}
		if e := ctx.getError(); e != nil {
			rec.UnErr = e.Error()
			ctx.Err(nil)
		}
		rec.StashSize = int64(ctx.Self().StashSize())
		sh.mu.Lock()
		sh.recs = append(sh.recs, rec)
		sh.mu.Unlock()
	}
}

type c13Case struct {
	Mailbox   string
	Senders   int
	Total     int
	Pattern   string
	NoBuffer  bool
	Noise     int
	Script    []c13Action
	PaceEvery int // senders pause briefly every n messages (0 = never): lets re-deliveries interleave
}

func (c c13Case) Key() string {
	var sb strings.Builder
	for _, a := range c.Script {
		sb.WriteString(a.String())
		sb.WriteByte(' ')
	}
	return fmt.Sprintf("mb=%s s=%d n=%d pat=%s nobuf=%v noise=%d pace=%d script=%s", c.Mailbox, c.Senders, c.Total, c.Pattern, c.NoBuffer, c.Noise, c.PaceEvery, sb.String())
}

func c13GenCase(rng *rand.Rand) c13Case {
	c := c13Case{
		Mailbox:   []string{"unbounded", "unbounded", "segmented"}[rng.Intn(3)],
		Senders:   1 + rng.Intn(3),
		Total:     5 + rng.Intn(196),
		Noise:     rng.Intn(3),
		PaceEvery: []int{0, 0, 7, 20}[rng.Intn(4)],
	}
	if rng.Intn(8) == 0 {
		c.NoBuffer = true
		c.Total = 5 + rng.Intn(30)
	}
	n := c.Total * 3
	pat := []string{"runs", "alternate", "empty-unstash", "random", "random", "runs"}[rng.Intn(6)]
	c.Pattern = pat
	s := make([]c13Action, 0, n)
	switch pat {
	case "runs":
		// long stash runs, then UnstashAll (sometimes a few single Unstash first)
		for len(s) < n {
			run := 1 + rng.Intn(40)
			for i := 0; i < run; i++ {
				s = append(s, c13Action{Stash: true})
			}
			for i := rng.Intn(4); i > 0; i-- {
				s = append(s, c13Action{After: c13OpUnstash})
			}
			s = append(s, c13Action{Stash: rng.Intn(4) == 0, After: c13OpUnstashAll})
			for i := rng.Intn(60); i > 0; i-- {
				s = append(s, c13Action{})
			}
		}
	case "alternate":
		for len(s) < n {
			s = append(s, c13Action{Stash: true}, c13Action{After: c13OpUnstash})
			if rng.Intn(3) == 0 {
				s = append(s, c13Action{Stash: true, After: c13OpUnstash})
			}
			if rng.Intn(5) == 0 {
				s = append(s, c13Action{Stash: true}, c13Action{Stash: true}, c13Action{After: c13OpUnstash}, c13Action{})
			}
		}
	case "empty-unstash":
		for len(s) < n {
			switch rng.Intn(6) {
			case 0:
				s = append(s, c13Action{Stash: true})
			case 1, 2:
				s = append(s, c13Action{After: c13OpUnstash})
			case 3:
				s = append(s, c13Action{After: c13OpUnstashAll})
			default:
				s = append(s, c13Action{})
			}
		}
	default:
		pS, pU, pA := 10+rng.Intn(50), rng.Intn(30), rng.Intn(12)
		for len(s) < n {
			a := c13Action{Stash: rng.Intn(100) < pS}
			x := rng.Intn(100)
			if x < pU {
				a.After = c13OpUnstash
			} else if x < pU+pA {
				a.After = c13OpUnstashAll
			}
			s = append(s, a)
		}
	}
	c.Script = s[:n]
	return c
}

type c13Result struct {
	Sig        string // "" = no violation
	Detail     map[string]any
	Inconcl    string
	Stashes    int
	Unstashed  int // messages moved back by Unstash/UnstashAll
	Redeliv    int // re-deliveries observed
	MaxStash   int
	EmptyUn    int // Unstash on an empty stash
	Deliveries int
	NoBufErrs  int
	Suspended  bool
	Yields     int64
	Delays     int64
}

func c13LogText(recs []c13Rec, upto int) string {
	var sb strings.Builder
	start := 0
	if upto > 60 {
		start = upto - 60
		sb.WriteString("... ")
	}
	for i := start; i <= upto && i < len(recs); i++ {
		r := recs[i]
		if r.ID < 0 {
			sb.WriteString("flush:")
		} else {
			fmt.Fprintf(&sb, "%d:", r.ID)
		}
		for _, o := range r.Ops {
			sb.WriteString(c13OpNames[o])
		}
		fmt.Fprintf(&sb, "(%d) ", r.StashSize)
	}
	return sb.String()
}

// c13Judge replays the delivery log against the reference stash.
func c13Judge(recs []c13Rec, accepted []bool, finalDrained bool, res *c13Result) {
	const (
		stFresh = iota
		stInStash
		stInFlight
		stHandled
	)
	status := make([]int, len(accepted))
	handled := make([]int, len(accepted))
	delivered := make([]int, len(accepted))
	var stash, redeliver []int
	fail := func(sig string, i int, extra map[string]any) {
		if res.Sig != "" {
			return
		}
		res.Sig = sig
		d := map[string]any{"at_delivery": i, "log_tail": c13LogText(recs, i), "model_stash": fmt.Sprint(stash), "model_awaiting_redelivery": fmt.Sprint(redeliver)}
		for k, v := range extra {
			d[k] = v
		}
		res.Detail = d
	}
	for i, r := range recs {
		if r.ID >= 0 {
			res.Deliveries++
			id := r.ID
			if id >= len(status) {
				fail("delivery:unknown-message-id", i, map[string]any{"id": id})
				return
			}
			delivered[id]++
			switch status[id] {
			case stFresh:
				if delivered[id] > 1 {
					fail("duplicate:delivered-again-without-unstash", i, map[string]any{"id": id})
					return
				}
			case stInFlight:
				res.Redeliv++
				if len(redeliver) == 0 || redeliver[0] != id {
					fail("reordered:unstashed-message-overtook-older-one", i, map[string]any{"id": id})
					return
				}
				redeliver = redeliver[1:]
			case stInStash:
				fail("duplicate:delivered-while-still-stashed", i, map[string]any{"id": id})
				return
			case stHandled:
				fail("duplicate:delivered-after-handled", i, map[string]any{"id": id})
				return
			}
			status[id] = stFresh
		}
		for _, op := range r.Ops {
			switch op {
			case c13OpHandle:
				handled[r.ID]++
				status[r.ID] = stHandled
			case c13OpStash:
				res.Stashes++
				stash = append(stash, r.ID)
				status[r.ID] = stInStash
				if len(stash) > res.MaxStash {
					res.MaxStash = len(stash)
				}
			case c13OpUnstash:
				if len(stash) == 0 {
					res.EmptyUn++
					continue
				}
				id := stash[0]
				stash = stash[1:]
				redeliver = append(redeliver, id)
				status[id] = stInFlight
				res.Unstashed++
			case c13OpUnstashAll:
				for _, id := range stash {
					redeliver = append(redeliver, id)
					status[id] = stInFlight
					res.Unstashed++
				}
				stash = nil
			}
		}
		if r.StashSize != int64(len(stash)) {
			fail("stash-size:differs-from-model", i, map[string]any{"stash_size": r.StashSize, "model_size": len(stash)})
			return
		}
	}
	// quiescence reached: nothing may still be awaited
	if len(redeliver) > 0 {
		fail("lost:unstashed-message-never-delivered-again", len(recs)-1, map[string]any{"ids": fmt.Sprint(redeliver)})
		return
	}
	for id, acc := range accepted {
		if !acc {
			continue
		}
		if delivered[id] == 0 {
			// not a stash matter (plain delivery, C02) -- but it makes the case undecidable
			res.Inconcl = fmt.Sprintf("accepted message %d was never delivered at all", id)
			return
		}
		if handled[id] > 1 {
			fail("duplicate:handled-more-than-once", len(recs)-1, map[string]any{"id": id, "times": handled[id]})
			return
		}
		if finalDrained && handled[id] == 0 {
			fail("lost:stashed-message-not-delivered-by-final-unstashall", len(recs)-1, map[string]any{"id": id, "status": status[id]})
			return
		}
	}
}

func c13RunCase(t *testing.T, sys *actorSystem, name string, c c13Case, seed int64) c13Result {
	var res c13Result
	ctx := context.Background()
	sh := &c13Shared{script: c.Script, noBuf: c.NoBuffer}
	act := &c13Actor{sh: sh}
	opts := []SpawnOption{WithLongLived(), WithMailbox(vfNewMailbox(c.Mailbox, 0, nil))}
	if !c.NoBuffer {
		// any error -> Resume, so that a stray recorded error can never stop the actor
		opts = append(opts, WithStashing(), WithSupervisor(supervisor.NewSupervisor(supervisor.WithAnyErrorDirective(supervisor.ResumeDirective))))
	} else {
		opts = append(opts, WithSupervisor(supervisor.NewSupervisor(supervisor.WithAnyErrorDirective(supervisor.ResumeDirective))))
	}
	pid, err := sys.Spawn(ctx, name, act, opts...)
	if err != nil {
		t.Fatalf("c13 spawn: %v", err)
	}
	defer func() { _ = pid.Shutdown(ctx) }()

	if c.Noise > 0 {
		verifrt.StartNoise(verifrt.NoiseConfig{
			Seed: seed, GoschedPerMille: 30, HotSites: c.Noise,
			Candidates:  vfNoiseSites("stash.go", "unbounded_mailbox.go", "unbounded_segmented_mailbox.go", "pools.go", "dispatch_state.go"),
			HotPerMille: 400, MinDelay: 10 * time.Microsecond, MaxDelay: 500 * time.Microsecond, Budget: 60,
		})
	}

	accepted := make([]bool, c.Total)
	var accMu sync.Mutex
	var wg sync.WaitGroup
	per := make([][]int, c.Senders)
	for id := 0; id < c.Total; id++ {
		per[id%c.Senders] = append(per[id%c.Senders], id)
	}
	for s := 0; s < c.Senders; s++ {
		wg.Add(1)
		go func(s int) {
			defer wg.Done()
			for i, id := range per[s] {
				if err := Tell(ctx, pid, &c13Msg{ID: id, Sender: s}); err == nil {
					accMu.Lock()
					accepted[id] = true
					accMu.Unlock()
				}
				if c.PaceEvery > 0 && i%c.PaceEvery == c.PaceEvery-1 {
					time.Sleep(50 * time.Microsecond)
				}
			}
		}(s)
	}
	wg.Wait()
	nacc := 0
	for _, a := range accepted {
		if a {
			nacc++
		}
	}
	quiet := func() bool {
		return pid.mailbox.IsEmpty() && pid.schedState.v.Load() == dispatchIdle && pid.mailbox.IsEmpty()
	}
	// phase 1: the script has run over everything that was sent
	if !verifrt.WaitUntil(40*time.Second, quiet) {
		res.Inconcl = "actor did not become idle within 40s after the senders finished"
	}
	// phase 2: final drain
	drained := false
	if res.Inconcl == "" {
		if err := Tell(ctx, pid, &c13Flush{}); err != nil {
			res.Inconcl = "flush not accepted: " + err.Error()
		} else if !verifrt.WaitUntil(40*time.Second, func() bool {
			return sh.handled.Load() >= int64(nacc) || quiet()
		}) || !verifrt.WaitUntil(40*time.Second, quiet) {
			res.Inconcl = "actor did not become idle within 40s after the final UnstashAll"
		} else {
			drained = true
		}
	}
	if c.Noise > 0 {
		res.Yields, res.Delays = verifrt.StopNoise()
	}
	sh.mu.Lock()
	recs := append([]c13Rec(nil), sh.recs...)
	sh.mu.Unlock()

	if c.NoBuffer {
		// without a stash buffer every Stash must have reported ErrStashBufferNotSet
		for i, r := range recs {
			if r.ID < 0 {
				continue
			}
			want := false
			// a stash was attempted on this delivery iff the script said so; the
			// actor converted a failed stash into Handle and kept the error text
			if r.StashErr != "" {
				res.NoBufErrs++
				want = true
				if strings.HasPrefix(r.StashErr, "other: ") && res.Sig == "" {
					res.Sig = "stash-without-buffer:wrong-error"
					res.Detail = map[string]any{"at_delivery": i, "error": r.StashErr}
				}
			}
			for _, op := range r.Ops {
				if op == c13OpStash && res.Sig == "" {
					// Stash() returned without recording an error although there is no buffer
					res.Sig = "stash-without-buffer:no-error-reported"
					res.Detail = map[string]any{"at_delivery": i, "id": r.ID, "log_tail": c13LogText(recs, i)}
				}
			}
			_ = want
		}
		if res.Sig == "" {
			// everything must simply have been handled once
			cnt := make([]int, c.Total)
			for _, r := range recs {
				if r.ID >= 0 {
					cnt[r.ID]++
				}
			}
			for id, a := range accepted {
				if a && cnt[id] != 1 && drained {
					res.Sig = "stash-without-buffer:message-not-handled-once"
					res.Detail = map[string]any{"id": id, "deliveries": cnt[id]}
					break
				}
			}
		}
		res.Deliveries = len(recs)
		return res
	}

	for i, r := range recs {
		if r.StashErr != "" && res.Sig == "" {
			res.Sig = "stash-with-buffer:error-reported"
			res.Detail = map[string]any{"at_delivery": i, "error": r.StashErr}
		}
	}
	if res.Sig == "" && res.Inconcl == "" {
		c13Judge(recs, accepted, drained, &res)
		if res.Sig == "" && drained {
			if sz := pid.StashSize(); sz != 0 {
				res.Sig = "stash-size:not-empty-after-final-unstashall"
				res.Detail = map[string]any{"stash_size": sz}
			}
		}
	}
	if res.Detail != nil {
		res.Detail["case"] = fmt.Sprintf("mb=%s senders=%d total=%d pattern=%s noise=%d pace=%d", c.Mailbox, c.Senders, c.Total, c.Pattern, c.Noise, c.PaceEvery)
		res.Detail["seed"] = seed
		res.Detail["deliveries_logged"] = len(recs)
		res.Detail["accepted"] = nacc
		res.Detail["handled"] = sh.handled.Load()
	}
	return res
}

func TestVerif_C13(t *testing.T) {
	r := verifrt.Start(t, "C13")
	defer r.Finish()
	r.Rule("case = one actor (FIFO mailbox: unbounded or segmented, with WithStashing; 1 in 8 without) receiving 5-200 uniquely numbered messages from 1-3 concurrent senders and deciding per delivery, from a seeded script (patterns: long stash runs then UnstashAll, alternating stash/unstash, unstash on an empty stash, random mixes incl. stash+Unstash in one delivery), to handle/stash and to Unstash/UnstashAll; then a final UnstashAll drain; optional schedule noise on stash/mailbox/pool sync points; oracle = replay of the actor's delivery log against a reference FIFO stash (re-deliveries must arrive exactly once and in unstash order, StashSize equals the model after every delivery, nothing awaited at quiescence, every accepted id handled exactly once after the drain; without buffer every Stash must report ErrStashBufferNotSet); non-trivial = >= 5 messages re-delivered, max stash depth >= 3 (or, without buffer, >= 1 failed Stash observed); distinct by case parameters + script")
	r.Assume("the default and segmented mailboxes are FIFO for one producer (property C03), so the order of re-deliveries in the delivery log is the order in which the stash released them")
	r.Assume("an empty mailbox with an idle dispatch state after all Tell calls returned means every message was dispatched")

	sys := vfNewSystem(t)
	defer vfStop(sys)
	rng := r.Rand(1)
	n := r.N(400, 10000)
	for i := 0; i < n; i++ {
		c := c13GenCase(rng)
		seed := rng.Int63()
		res := c13RunCase(t, sys, fmt.Sprintf("c13-%d", i), c, seed)
		nontrivial := res.Redeliv >= 5 && res.MaxStash >= 3
		if c.NoBuffer {
			nontrivial = res.NoBufErrs >= 1
		}
		r.Case(c.Key(), nontrivial)
		r.Count("deliveries", int64(res.Deliveries))
		r.Count("stashes", int64(res.Stashes))
		r.Count("unstashed", int64(res.Unstashed))
		r.Count("redeliveries_observed", int64(res.Redeliv))
		r.Count("unstash_on_empty", int64(res.EmptyUn))
		r.Count("nobuffer_stash_errors", int64(res.NoBufErrs))
		r.Count("noise_delays_injected", res.Delays)
		r.Max("max_stash_depth", int64(res.MaxStash))
		if res.Inconcl != "" {
			r.Inconclusive("%s (case %d: mb=%s senders=%d total=%d pattern=%s)", res.Inconcl, i, c.Mailbox, c.Senders, c.Total, c.Pattern)
		}
		if res.Sig != "" {
			r.Violation(res.Sig, res.Detail)
		}
		if i < 3 {
			r.Sample(map[string]any{"mailbox": c.Mailbox, "senders": c.Senders, "total": c.Total, "pattern": c.Pattern, "no_buffer": c.NoBuffer, "stashes": res.Stashes, "redeliveries": res.Redeliv, "max_stash": res.MaxStash, "deliveries": res.Deliveries})
		}
	}
}
