//go:build verif

package actor

import (
	"context"
	"errors"
	"fmt"
	"math/rand"
	"reflect"
	"runtime"
	"sort"
	"strings"
	"sync"
	"sync/atomic"
	"testing"
	"time"
	"unsafe"

	gerrors "github.com/tochemey/goakt/v4/errors"
	"github.com/tochemey/goakt/v4/internal/verifrt"
)

// C15: every Ask returns the reply given to that very message or an error; a reply
// given (well) before the caller's deadline is not lost.
//
// Oracle 1 (token echo): every request carries a case-unique token, the responder
// echoes it, the caller compares.
// Oracle 2 (in-time ledger, lower bounds only): the responder stamps tR after
// Response returned; the caller stamps t0 before the call. An error result is a lost
// in-time reply iff tR < deadlineLB - margin with deadlineLB = t0 + timeout (or the
// stamp taken before cancel() for a cancelled context), margin = 50 ms. Everything
// inside the margin is counted as borderline and not judged.

const (
	c15Margin     = 50 * time.Millisecond
	c15MaxNoise   = 2 * time.Millisecond // < the smallest timeout used (5 ms)
	c15MinTimeout = 5 * time.Millisecond
)

type c15Req struct {
	Token   int64
	ReplyAt time.Time // reply not before this instant (zero: at once)
	Never   bool
	Stash   bool // the responder stashes the request once and answers it after unstashing
	Marker  bool // harness quiescence marker, not part of the ledger
}

// c15TellRep is what the receivers of background Tells pass to ctx.Response: legal and a
// no-op on a Tell; it belongs to no Ask, so no Ask may ever return it.
type c15TellRep struct {
	N int64
}

type c15Rep struct {
	Token int64
}

type c15Ledger struct {
	base    time.Time
	tokBase int64          // tokens of this case are tokBase .. tokBase+len(seen)-1 (process-wide unique)
	seen    []atomic.Int64 // per token: responder saw the request (ns since base, +1)
	tR      []atomic.Int64 // per token: stamp taken after Response returned (ns since base, +1)
	// diagnosis only: state of the reply path right before the responder called Response
	// (1 = open, 2 = responseClosed already true, +4 = channel already held a value)
	pre     []atomic.Int32
	stashed []atomic.Bool // per token: the responder stashed the request (once)
	stashes atomic.Int64
	// reuse observation (how often pooled objects came back)
	mu        sync.Mutex
	ctxSeen   map[*ReceiveContext]int
	chanSeen  map[chan any]int
	ctxReuse  int64
	chanReuse int64
}

func (l *c15Ledger) now() int64 { return int64(time.Since(l.base)) + 1 }

// c15TokenCtr hands out process-wide unique tokens: pooled response channels outlive
// a case, so a stale reply of an earlier case must stay recognisable.
var c15TokenCtr atomic.Int64

func c15NewLedger(n int) *c15Ledger {
	return &c15Ledger{base: time.Now(), tokBase: c15TokenCtr.Add(int64(n)) - int64(n), seen: make([]atomic.Int64, n), tR: make([]atomic.Int64, n), pre: make([]atomic.Int32, n), stashed: make([]atomic.Bool, n),
		ctxSeen: map[*ReceiveContext]int{}, chanSeen: map[chan any]int{}}
}

func (l *c15Ledger) idx(tok int64) int { return int(tok - l.tokBase) }
func (l *c15Ledger) mine(tok int64) bool {
	return tok >= l.tokBase && tok < l.tokBase+int64(len(l.seen))
}

type c15Responder struct {
	led    *c15Ledger
	nStash int // stashed and not yet released (only touched in Receive)
}

// release re-delivers what was stashed (after any other message was handled).
func (a *c15Responder) release(ctx *ReceiveContext) {
	if a.nStash > 0 {
		a.nStash = 0
		ctx.UnstashAll()
	}
}

func (a *c15Responder) PreStart(*Context) error { return nil }
func (a *c15Responder) PostStop(*Context) error { return nil }
func (a *c15Responder) Receive(ctx *ReceiveContext) {
	m, ok := ctx.Message().(*c15Req)
	if !ok {
		return
	}
	if m.Marker {
		ctx.Response(&c15Rep{Token: m.Token})
		a.release(ctx)
		return
	}
	led := a.led
	if !led.mine(m.Token) {
		return
	}
	ix := led.idx(m.Token)
	led.seen[ix].Store(led.now())
	if m.Stash && led.stashed[ix].CompareAndSwap(false, true) {
		// the turn ends without a reply; the Ask stays pending until the re-delivery
		led.stashes.Add(1)
		a.nStash++
		ctx.Stash()
		return
	}
	defer a.release(ctx)
	led.mu.Lock()
	led.ctxSeen[ctx]++
	if led.ctxSeen[ctx] > 1 {
		led.ctxReuse++
	}
	if ch := ctx.response; ch != nil {
		led.chanSeen[ch]++
		if led.chanSeen[ch] > 1 {
			led.chanReuse++
		}
	}
	led.mu.Unlock()
	if m.Never {
		return
	}
	if !m.ReplyAt.IsZero() {
		if d := time.Until(m.ReplyAt); d > 0 {
			time.Sleep(d)
		}
	}
	led.pre[ix].Store(c15ReplyPathState(ctx))
	ctx.Response(&c15Rep{Token: m.Token})
	led.tR[ix].Store(led.now())
}

// c15ReplyPathState reads (diagnosis only, never part of a verdict) the reply-path
// guard of a context: 1 = open, 2 = already closed, +4 = the reply channel already
// holds a value, 0 = unknown. Reflection keeps the harness independent of whether the
// guard is an atomic.Bool value or a pointer to one.
func c15ReplyPathState(ctx *ReceiveContext) (st int32) {
	defer func() {
		if recover() != nil {
			st = 0
		}
	}()
	rv := reflect.ValueOf(ctx).Elem()
	f := rv.FieldByName("responseClosed")
	if !f.IsValid() {
		return 0
	}
	var b *atomic.Bool
	switch {
	case f.Kind() == reflect.Struct && f.Type() == reflect.TypeOf(atomic.Bool{}):
		b = (*atomic.Bool)(unsafe.Pointer(f.UnsafeAddr()))
	case f.Kind() == reflect.Pointer && f.Type() == reflect.TypeOf((*atomic.Bool)(nil)):
		b = (*atomic.Bool)(f.UnsafePointer())
	}
	if b == nil {
		return 0
	}
	st = 1
	if b.Load() {
		st = 2
	}
	if ch := rv.FieldByName("response"); ch.IsValid() && ch.Kind() == reflect.Chan && !ch.IsNil() && ch.Len() > 0 {
		st += 4
	}
	return st
}

// c15Sink swallows background Tells; c15Park blocks on its first message so that the
// rest of its backlog keeps pooled contexts out of the pool.
type c15Sink struct {
	n    atomic.Int64
	gate chan struct{}
	park bool
	once bool
}

func (a *c15Sink) PreStart(*Context) error { return nil }
func (a *c15Sink) PostStop(*Context) error { return nil }
func (a *c15Sink) Receive(ctx *ReceiveContext) {
	if _, ok := ctx.Message().(*c15Bg); !ok {
		return
	}
	if a.park && !a.once {
		a.once = true
		<-a.gate
	}
	// a Tell receiver may call Response: nothing awaits it, it must go nowhere
	ctx.Response(&c15TellRep{N: a.n.Add(1)})
}

type c15Bg struct{}

// c15Job is one ask-family call executed inside a caller actor's Receive.
type c15Job struct {
	op   *c15Op
	to   *PID
	name string
	done chan struct{}
}

type c15Caller struct{}

func (a *c15Caller) PreStart(*Context) error { return nil }
func (a *c15Caller) PostStop(*Context) error { return nil }
func (a *c15Caller) Receive(ctx *ReceiveContext) {
	j, ok := ctx.Message().(*c15Job)
	if !ok {
		return
	}
	defer close(j.done)
	defer func() {
		if p := recover(); p != nil {
			j.op.panicked = fmt.Sprint(p)
		}
	}()
	op := j.op
	op.t0 = time.Now()
	switch op.API {
	case "rctx.Ask":
		op.reply = ctx.Ask(j.to, op.reqs[0], op.Timeout)
	case "rctx.SendSync":
		op.reply = ctx.SendSync(j.name, op.reqs[0], op.Timeout)
	case "rctx.BatchAsk":
		msgs := make([]any, len(op.reqs))
		for i := range op.reqs {
			msgs[i] = op.reqs[i]
		}
		op.batch = ctx.BatchAsk(j.to, msgs, op.Timeout)
	}
	op.tRet = time.Now()
	op.err = ctx.getError()
	// the harness reads the outcome itself; do not involve supervision
	ctx.err = nil
}

var c15APIs = []string{"pkg.Ask", "pid.Ask", "pid.SendSync", "pkg.BatchAsk", "pid.BatchAsk", "rctx.Ask", "rctx.SendSync", "rctx.BatchAsk"}

// c15Op is one Ask-family call with its outcome.
type c15Op struct {
	API      string
	Profile  string // prompt | jit | late | never | cancel-prompt | cancel-jit
	Timeout  time.Duration
	Tokens   []int64
	reqs     []*c15Req
	Resp     int // responder index
	t0, tRet time.Time
	cancelAt atomic.Int64 // ns since base+1, stamped before cancel()
	reply    any
	batch    chan any
	err      error
	panicked string
}

type c15Knobs struct {
	Callers    int
	Responders int
	PerCaller  int
	Pool       string // drained | cycling
	Noise      int
}

func (k c15Knobs) String() string {
	return fmt.Sprintf("callers=%d responders=%d per=%d pool=%s noise=%d", k.Callers, k.Responders, k.PerCaller, k.Pool, k.Noise)
}

type c15Obs struct {
	Asks, Success, Timeouts, Cancels, OtherErr int64
	LateReplies, Borderline, JudgedPopulation  int64
	CtxReuse, ChanReuse                        int64
	PoolLenStart                               int
	BgTells                                    int64
	Stashes                                    int64
	HotSites                                   []string
	Yields, Delays                             int64
	Viol                                       []c15Viol
	Inconclusive                               string
	Hang                                       string // stack of a caller blocked inside Ask for minutes
}

type c15Viol struct {
	Sig    string
	Detail map[string]any
}

// ---- site calibration (once per process) -------------------------------------

var (
	c15CalOnce     sync.Once
	c15AskSites    []int // sites passed by Ask traffic but not by Tell traffic
	c15AllAskSites []int // every site of the anchored files passed by Ask traffic
)

func c15SiteDelta(before []int64) []int64 {
	out := make([]int64, verifrt.SiteCount)
	for i := range out {
		out[i] = verifrt.SiteHit(i) - before[i]
	}
	return out
}

func c15Snapshot() []int64 {
	out := make([]int64, verifrt.SiteCount)
	for i := range out {
		out[i] = verifrt.SiteHit(i)
	}
	return out
}

func c15Calibrate(t *testing.T) {
	c15CalOnce.Do(func() {
		sys := vfNewSystem(t)
		defer vfStop(sys)
		ctx := context.Background()
		led := c15NewLedger(64)
		resp, err := sys.Spawn(ctx, "calresp", &c15Responder{led: led}, WithLongLived())
		if err != nil {
			t.Fatalf("spawn: %v", err)
		}
		sink := &c15Sink{}
		spid, err := sys.Spawn(ctx, "calsink", sink, WithLongLived())
		if err != nil {
			t.Fatalf("spawn: %v", err)
		}
		quiet := verifrt.NoiseConfig{Seed: 1, HotSites: 0}
		// phase 1: Tell traffic only
		verifrt.StartNoise(quiet)
		s0 := c15Snapshot()
		for i := 0; i < 300; i++ {
			_ = Tell(ctx, spid, &c15Bg{})
			_ = spid.Tell(ctx, resp, &c15Bg{})
		}
		verifrt.WaitUntil(10*time.Second, func() bool { return sink.n.Load() >= 300 })
		d1 := c15SiteDelta(s0)
		// phase 2: Ask traffic: successes, timeouts, late replies
		s1 := c15Snapshot()
		tok := led.tokBase
		for i := 0; i < 12; i++ {
			_, _ = Ask(ctx, resp, &c15Req{Token: tok}, time.Second)
			tok++
			_, _ = spid.Ask(ctx, resp, &c15Req{Token: tok}, time.Second)
			tok++
		}
		for i := 0; i < 3; i++ {
			_, _ = Ask(ctx, resp, &c15Req{Token: tok, ReplyAt: time.Now().Add(15 * time.Millisecond)}, 5*time.Millisecond)
			tok++
			_, _ = spid.Ask(ctx, resp, &c15Req{Token: tok, ReplyAt: time.Now().Add(15 * time.Millisecond)}, 5*time.Millisecond)
			tok++
			cctx, cancel := context.WithTimeout(ctx, 5*time.Millisecond)
			_, _ = Ask(cctx, resp, &c15Req{Token: tok, Never: true}, time.Second)
			cancel()
			tok++
			cctx, cancel = context.WithTimeout(ctx, 5*time.Millisecond)
			_, _ = spid.Ask(cctx, resp, &c15Req{Token: tok, Never: true}, time.Second)
			cancel()
			tok++
		}
		_, _ = Ask(ctx, resp, &c15Req{Token: tok}, 10*time.Second)
		d2 := c15SiteDelta(s1)
		verifrt.StopNoise()
		inFiles := map[int]bool{}
		for _, s := range verifrt.SitesIn("actor/receive_context.go", "actor/pid.go", "actor/api.go", "actor/pools.go", "actor/unbounded_mailbox.go") {
			inFiles[s] = true
		}
		for s := 0; s < verifrt.SiteCount; s++ {
			if !inFiles[s] || d2[s] == 0 {
				continue
			}
			c15AllAskSites = append(c15AllAskSites, s)
			if d1[s] == 0 {
				c15AskSites = append(c15AskSites, s)
			}
		}
	})
}

func c15SiteNames(ids []int) []string {
	var out []string
	for _, s := range ids {
		if s < len(verifrt.SiteNames) {
			out = append(out, verifrt.SiteNames[s])
		}
	}
	sort.Strings(out)
	return out
}

// c15StuckInAsk returns the stack of a goroutine that the runtime reports as blocked
// for minutes ("[select, 2 minutes]") with an Ask frame on its stack, or "".
func c15StuckInAsk() string {
	buf := make([]byte, 8<<20)
	n := runtime.Stack(buf, true)
	for _, g := range strings.Split(string(buf[:n]), "\n\n") {
		head, _, _ := strings.Cut(g, "\n")
		if !strings.Contains(head, "minutes]") {
			continue
		}
		if strings.Contains(g, "actor.(*PID).Ask(") || strings.Contains(g, "actor.Ask(") {
			if len(g) > 3000 {
				g = g[:3000]
			}
			return g
		}
	}
	return ""
}

// c15Impl names the implementation an API goes through (the signature's key fact):
// the package-level Ask/BatchAsk use api.go Ask, everything else PID.Ask.
func c15Impl(api string) string {
	if api == "pkg.Ask" || api == "pkg.BatchAsk" {
		return "api.Ask"
	}
	return "PID.Ask"
}

// c15DrainBatch reads what a BatchAsk result channel holds without blocking.
func c15DrainBatch(ch chan any, max int) []any {
	var got []any
	if ch == nil {
		return got
	}
	for len(got) <= max {
		select {
		case v, ok := <-ch:
			if !ok {
				return got
			}
			got = append(got, v)
		default:
			return got
		}
	}
	return got
}

// ---- one case -------------------------------------------------------------------

func c15GenKnobs(rng *rand.Rand) c15Knobs {
	k := c15Knobs{
		Callers:    []int{4, 8, 16, 32, 64}[rng.Intn(5)],
		Responders: 1 + rng.Intn(4),
		Pool:       []string{"drained", "drained", "cycling"}[rng.Intn(3)],
		Noise:      rng.Intn(4),
	}
	k.PerCaller = 480 / k.Callers
	if k.PerCaller > 30 {
		k.PerCaller = 30
	}
	return k
}

func c15RunCase(t *testing.T, k c15Knobs, seed int64) c15Obs {
	var obs c15Obs
	rng := rand.New(rand.NewSource(seed))
	sys := vfNewSystem(t)
	defer vfStop(sys)
	ctx := context.Background()

	maxTokens := k.Callers*k.PerCaller*4 + 16
	led := c15NewLedger(maxTokens)
	var responders []*PID
	var names []string
	for i := 0; i < k.Responders; i++ {
		name := fmt.Sprintf("resp%d", i)
		pid, err := sys.Spawn(ctx, name, &c15Responder{led: led}, WithLongLived(), WithStashing())
		if err != nil {
			t.Fatalf("spawn responder: %v", err)
		}
		responders = append(responders, pid)
		names = append(names, name)
	}
	callerPIDs := make([]*PID, k.Callers)
	for i := range callerPIDs {
		pid, err := sys.Spawn(ctx, fmt.Sprintf("caller%d", i), &c15Caller{}, WithLongLived())
		if err != nil {
			t.Fatalf("spawn caller: %v", err)
		}
		callerPIDs[i] = pid
	}
	sink := &c15Sink{}
	sinkPID, err := sys.Spawn(ctx, "sink", sink, WithLongLived())
	if err != nil {
		t.Fatalf("spawn sink: %v", err)
	}

	// pool pressure: a blocked actor with a backlog as large as the context pool keeps
	// the pool (nearly) empty, so a recycled context is handed out again at once
	var park *c15Sink
	if k.Pool == "drained" {
		park = &c15Sink{park: true, gate: make(chan struct{})}
		ppid, err := sys.Spawn(ctx, "park", park, WithLongLived())
		if err != nil {
			t.Fatalf("spawn park: %v", err)
		}
		n := len(contextCh) + 64
		for i := 0; i < n; i++ {
			_ = Tell(ctx, ppid, &c15Bg{})
		}
	}
	obs.PoolLenStart = len(contextCh)

	if k.Noise > 0 {
		cands := c15AskSites
		if rng.Intn(4) == 0 || len(cands) == 0 {
			cands = c15AllAskSites
		}
		obs.HotSites = verifrt.StartNoise(verifrt.NoiseConfig{
			Seed: seed, GoschedPerMille: 20, HotSites: k.Noise, Candidates: cands,
			HotPerMille: 300 + rng.Intn(500), MinDelay: 20 * time.Microsecond, MaxDelay: c15MaxNoise, Budget: 400,
		})
	}

	// background fire-and-forget traffic: cycles pooled contexts
	stopBg := make(chan struct{})
	var bgWG sync.WaitGroup
	var bgSent atomic.Int64
	bgWG.Add(1)
	go func() {
		defer bgWG.Done()
		burst, pause := 256, 2*time.Millisecond
		if k.Pool == "cycling" {
			burst, pause = 2048, 200*time.Microsecond
		}
		for {
			select {
			case <-stopBg:
				return
			default:
			}
			for i := 0; i < burst; i++ {
				if Tell(ctx, sinkPID, &c15Bg{}) == nil {
					bgSent.Add(1)
				}
			}
			// bounded backlog
			verifrt.WaitUntil(10*time.Second, func() bool { return bgSent.Load()-sink.n.Load() < 4096 })
			time.Sleep(pause)
		}
	}()

	var tokenCtr atomic.Int64
	tokenCtr.Store(led.tokBase)
	rctxSem := make(chan struct{}, 5) // bounds dispatcher workers blocked in rctx asks
	ops := make([][]*c15Op, k.Callers)
	var wg sync.WaitGroup
	var stuck atomic.Value
	for c := 0; c < k.Callers; c++ {
		wg.Add(1)
		crng := rand.New(rand.NewSource(seed ^ int64(c+1)*0x5851F42D4C957F2D))
		go func(c int, crng *rand.Rand) {
			defer wg.Done()
			self := callerPIDs[c]
			for i := 0; i < k.PerCaller; i++ {
				op := &c15Op{API: c15APIs[crng.Intn(len(c15APIs))], Resp: crng.Intn(len(responders))}
				to := responders[op.Resp]
				nmsg := 1
				isBatch := op.API == "pkg.BatchAsk" || op.API == "pid.BatchAsk" || op.API == "rctx.BatchAsk"
				isRctx := op.API == "rctx.Ask" || op.API == "rctx.SendSync" || op.API == "rctx.BatchAsk"
				if isBatch {
					nmsg = 2 + crng.Intn(3)
				}
				roll := crng.Intn(100)
				switch {
				case roll < 37:
					op.Profile = "prompt"
					op.Timeout = time.Duration(120+crng.Intn(130)) * time.Millisecond
				case roll < 45:
					op.Profile = "stash"
					op.Timeout = time.Duration(120+crng.Intn(130)) * time.Millisecond
				case roll < 68:
					op.Profile = "jit"
					op.Timeout = c15MinTimeout + time.Duration(crng.Intn(35000))*time.Microsecond
				case roll < 82:
					op.Profile = "late"
					op.Timeout = c15MinTimeout + time.Duration(crng.Intn(35000))*time.Microsecond
				case roll < 90:
					op.Profile = "never"
					op.Timeout = c15MinTimeout + time.Duration(crng.Intn(25000))*time.Microsecond
				case roll < 95:
					op.Profile = "cancel-prompt"
					op.Timeout = time.Second
				default:
					op.Profile = "cancel-jit"
					op.Timeout = time.Second
				}
				if isRctx && (op.Profile == "cancel-prompt" || op.Profile == "cancel-jit") {
					// ReceiveContext asks detach from the caller's context
					op.Profile = "prompt"
					op.Timeout = time.Duration(120+crng.Intn(130)) * time.Millisecond
				}
				var cancelAfter time.Duration
				switch op.Profile {
				case "cancel-prompt":
					cancelAfter = time.Duration(120+crng.Intn(80)) * time.Millisecond
				case "cancel-jit":
					cancelAfter = c15MinTimeout + time.Duration(crng.Intn(35000))*time.Microsecond
				}
				limit := op.Timeout
				if cancelAfter > 0 {
					limit = cancelAfter
				}
				special := crng.Intn(nmsg) // the batch element that carries the profile's delay
				start := time.Now()
				for m := 0; m < nmsg; m++ {
					tok := tokenCtr.Add(1) - 1
					rq := &c15Req{Token: tok}
					if m == special {
						switch op.Profile {
						case "prompt", "cancel-prompt":
							if crng.Intn(3) == 0 {
								rq.ReplyAt = start.Add(time.Duration(crng.Intn(5000)) * time.Microsecond)
							}
						case "jit", "cancel-jit":
							rq.ReplyAt = start.Add(limit + time.Duration(crng.Intn(6000)-3000)*time.Microsecond)
						case "late":
							rq.ReplyAt = start.Add(limit + time.Duration(5000+crng.Intn(15000))*time.Microsecond)
						case "never":
							rq.Never = true
						case "stash":
							rq.Stash = true
						}
					}
					op.Tokens = append(op.Tokens, tok)
					op.reqs = append(op.reqs, rq)
				}
				ops[c] = append(ops[c], op)

				if isRctx {
					rctxSem <- struct{}{}
					job := &c15Job{op: op, to: to, name: names[op.Resp], done: make(chan struct{})}
					if err := Tell(ctx, self, job); err != nil {
						<-rctxSem
						stuck.Store("tell caller actor: " + err.Error())
						return
					}
					select {
					case <-job.done:
					case <-time.After(60 * time.Second):
						<-rctxSem
						stuck.Store("caller actor did not finish an ask within 60s")
						return
					}
					<-rctxSem
					continue
				}

				cctx := ctx
				var cancel context.CancelFunc
				var tm *time.Timer
				if cancelAfter > 0 {
					cctx, cancel = context.WithCancel(ctx)
					tm = time.AfterFunc(cancelAfter, func() {
						op.cancelAt.Store(led.now())
						cancel()
					})
				}
				op.t0 = time.Now()
				switch op.API {
				case "pkg.Ask":
					op.reply, op.err = Ask(cctx, to, op.reqs[0], op.Timeout)
				case "pid.Ask":
					op.reply, op.err = self.Ask(cctx, to, op.reqs[0], op.Timeout)
				case "pid.SendSync":
					op.reply, op.err = self.SendSync(cctx, names[op.Resp], op.reqs[0], op.Timeout)
				case "pkg.BatchAsk":
					msgs := make([]any, len(op.reqs))
					for i := range op.reqs {
						msgs[i] = op.reqs[i]
					}
					op.batch, op.err = BatchAsk(cctx, to, op.Timeout, msgs...)
				case "pid.BatchAsk":
					msgs := make([]any, len(op.reqs))
					for i := range op.reqs {
						msgs[i] = op.reqs[i]
					}
					op.batch, op.err = self.BatchAsk(cctx, to, msgs, op.Timeout)
				}
				op.tRet = time.Now()
				if tm != nil {
					tm.Stop()
					cancel()
				}
			}
		}(c, crng)
	}
	callersDone := make(chan struct{})
	go func() { wg.Wait(); close(callersDone) }()
	select {
	case <-callersDone:
	case <-time.After(120 * time.Second):
		// every call has a timeout <= 1 s. A caller that is, by the runtime's own
		// account, blocked for minutes inside Ask has not returned a reply or an error:
		// structural (the goroutine is not runnable), not a matter of load
		if st := c15StuckInAsk(); st != "" {
			obs.Hang = st
		} else {
			obs.Inconclusive = "callers did not finish within 120s"
		}
	}
	close(stopBg)
	bgWG.Wait()
	if s, ok := stuck.Load().(string); ok && obs.Inconclusive == "" && obs.Hang == "" {
		obs.Inconclusive = s
	}

	// quiescence: the mailboxes are FIFO, so when a marker is answered every earlier
	// request of that responder has been handled (late replies included)
	// (two rounds: the first marker also releases what is still stashed, which is
	// re-enqueued behind it)
	for round := 0; round < 2 && obs.Inconclusive == "" && obs.Hang == ""; round++ {
		for i, rp := range responders {
			mtok := -1 - c15TokenCtr.Add(1)
			rep, err := Ask(ctx, rp, &c15Req{Token: mtok, Marker: true}, 60*time.Second)
			if err != nil {
				obs.Inconclusive = fmt.Sprintf("quiescence marker to responder %d failed: %v", i, err)
				break
			}
			if r, ok := rep.(*c15Rep); !ok || r.Token != mtok {
				// the marker is an Ask as well: the oracle applies to it
				obs.Viol = append(obs.Viol, c15Viol{Sig: "wrong-reply:api.Ask", Detail: map[string]any{"asked": "quiescence marker", "got": fmt.Sprintf("%#v", rep), "knobs": k.String(), "seed": seed, "hot_sites": obs.HotSites}})
			}
		}
	}
	if k.Noise > 0 {
		obs.Yields, obs.Delays = verifrt.StopNoise()
	}
	if park != nil {
		close(park.gate)
	}
	obs.BgTells = bgSent.Load()
	obs.Stashes = led.stashes.Load()
	if obs.Inconclusive != "" || obs.Hang != "" {
		return obs
	}

	// ---- judgement ----------------------------------------------------------------
	owner := map[int64]*c15Op{}
	for c := range ops {
		for _, op := range ops[c] {
			for _, tk := range op.Tokens {
				owner[tk] = op
			}
		}
	}
	describe := func(op *c15Op) map[string]any {
		d := map[string]any{"api": op.API, "profile": op.Profile, "timeout": op.Timeout.String(), "tokens": op.Tokens, "responder": op.Resp,
			"t0_us": op.t0.Sub(led.base).Microseconds(), "returned_us": op.tRet.Sub(led.base).Microseconds()}
		if op.err != nil {
			d["err"] = op.err.Error()
		}
		var st []string
		for _, tk := range op.Tokens {
			ix := led.idx(tk)
			pre := "not reached"
			switch p := led.pre[ix].Load(); {
			case p == 0:
			case p&2 != 0:
				pre = "responseClosed was already true"
			default:
				pre = "open"
			}
			if led.pre[ix].Load()&4 != 0 {
				pre += ", channel already held a value"
			}
			st = append(st, fmt.Sprintf("token %d: seen_us=%d response_done_us=%d reply_path_before_Response=%s", tk, (led.seen[ix].Load()-1)/1000, (led.tR[ix].Load()-1)/1000, pre))
		}
		d["responder_stamps"] = st
		return d
	}
	wrong := func(op *c15Op, idx int, got any) {
		d := describe(op)
		d["asked_token"] = op.Tokens[idx]
		d["knobs"] = k.String()
		d["seed"] = seed
		d["hot_sites"] = obs.HotSites
		if r, ok := got.(*c15Rep); ok && r != nil {
			d["got_token"] = r.Token
			if o := owner[r.Token]; o != nil {
				d["got_token_belongs_to"] = describe(o)
			} else if !led.mine(r.Token) {
				d["got_token_belongs_to"] = "an Ask of an earlier case in this process (stale reply left in a pooled response channel)"
			}
		} else {
			d["got"] = fmt.Sprintf("%#v", got)
		}
		if _, ok := got.(*c15TellRep); ok {
			d["got_belongs_to"] = "no Ask at all: it is what a receiver of a background Tell passed to ctx.Response"
			obs.Viol = append(obs.Viol, c15Viol{Sig: "wrong-reply:" + c15Impl(op.API) + ":reply-from-a-tell-receiver", Detail: d})
			return
		}
		obs.Viol = append(obs.Viol, c15Viol{Sig: "wrong-reply:" + c15Impl(op.API), Detail: d})
	}
	for c := range ops {
		for _, op := range ops[c] {
			obs.Asks++
			if op.panicked != "" {
				obs.Viol = append(obs.Viol, c15Viol{Sig: "ask-panicked:" + c15Impl(op.API), Detail: map[string]any{"panic": op.panicked, "op": describe(op)}})
				continue
			}
			isBatch := len(op.Tokens) > 1 || op.API == "pkg.BatchAsk" || op.API == "pid.BatchAsk" || op.API == "rctx.BatchAsk"
			if op.err == nil {
				obs.Success++
				if op.Timeout >= 2*c15Margin || op.Profile == "cancel-prompt" {
					obs.JudgedPopulation++
				}
				if !isBatch {
					r, ok := op.reply.(*c15Rep)
					if !ok || r == nil {
						if op.reply == nil {
							d := describe(op)
							d["knobs"], d["seed"], d["hot_sites"] = k.String(), seed, obs.HotSites
							obs.Viol = append(obs.Viol, c15Viol{Sig: "no-reply-no-error:" + c15Impl(op.API), Detail: d})
						} else {
							wrong(op, 0, op.reply)
						}
					} else if r.Token != op.Tokens[0] {
						wrong(op, 0, op.reply)
					}
					continue
				}
				// batch: as many replies as messages, in message order
				got := c15DrainBatch(op.batch, len(op.Tokens))
				if len(got) != len(op.Tokens) {
					d := describe(op)
					d["replies"] = len(got)
					d["knobs"], d["seed"], d["hot_sites"] = k.String(), seed, obs.HotSites
					obs.Viol = append(obs.Viol, c15Viol{Sig: "batch-shape:" + c15Impl(op.API), Detail: d})
					continue
				}
				for i, v := range got {
					if r, ok := v.(*c15Rep); !ok || r == nil || r.Token != op.Tokens[i] {
						wrong(op, i, v)
						break
					}
				}
				continue
			}
			// error result
			canceled := errors.Is(op.err, context.Canceled)
			timedOut := errors.Is(op.err, gerrors.ErrRequestTimeout)
			switch {
			case canceled:
				obs.Cancels++
			case timedOut:
				obs.Timeouts++
			default:
				obs.OtherErr++
				continue
			}
			// lower bound of the deadline of every element of this call
			deadlineLB := int64(op.t0.Sub(led.base)) + 1 + int64(op.Timeout)
			if canceled {
				ca := op.cancelAt.Load()
				if ca == 0 {
					// a cancellation error without the harness having cancelled: not expected
					obs.OtherErr++
					continue
				}
				if ca < deadlineLB {
					deadlineLB = ca
				}
			}
			// the element that failed: elements are asked one after the other, each
			// only after the previous one was answered
			fail := 0
			if isBatch {
				fail = len(op.Tokens) - 1
				for i, tk := range op.Tokens {
					if led.tR[led.idx(tk)].Load() == 0 {
						// first element without a completed Response: it failed if it was
						// ever sent (seen at quiescence) or never answered; otherwise the
						// one before it failed
						if led.seen[led.idx(tk)].Load() != 0 || i == 0 {
							fail = i
						} else {
							fail = i - 1
						}
						break
					}
				}
			}
			tk := op.Tokens[fail]
			tr := led.tR[led.idx(tk)].Load()
			if tr == 0 {
				continue
			}
			ret := int64(op.tRet.Sub(led.base)) + 1
			switch {
			case tr < deadlineLB-int64(c15Margin):
				d := describe(op)
				d["failed_token"] = tk
				d["response_done_before_deadline_lower_bound_by"] = time.Duration(deadlineLB - tr).String()
				d["knobs"], d["seed"], d["hot_sites"] = k.String(), seed, obs.HotSites
				d["gave_up_by"] = "timeout"
				if canceled {
					d["gave_up_by"] = "context cancellation"
				}
				// shape of the loss (from the responder-side diagnosis): the reply path was
				// already closed by someone else before Response, or the reply was sent
				// and the caller returned an error without taking it
				shape := "undiagnosed"
				switch p := led.pre[led.idx(tk)].Load(); {
				case p&2 != 0:
					shape = "reply-path-closed-by-other"
				case p != 0:
					shape = "reply-sent-not-taken"
				}
				obs.Viol = append(obs.Viol, c15Viol{Sig: "in-time-reply-lost:" + c15Impl(op.API) + ":" + shape, Detail: d})
			case tr < ret:
				obs.Borderline++
			default:
				obs.LateReplies++
			}
		}
	}
	led.mu.Lock()
	obs.CtxReuse, obs.ChanReuse = led.ctxReuse, led.chanReuse
	led.mu.Unlock()
	return obs
}

func TestVerif_C15(t *testing.T) {
	r := verifrt.Start(t, "C15")
	defer r.Finish()
	r.Rule("case = fresh actor system, 4-64 concurrent callers x 7-30 Ask-family calls (PID.Ask, package Ask, SendSync, ReceiveContext.Ask/SendSync/BatchAsk, BatchAsk) against 1-4 responders; per call a profile: prompt reply with a long timeout (120-250 ms: the in-time judged population), reply just around / after a 5-40 ms timeout, never, stashed by the responder and answered after unstash, context cancellation; every receiver of the background Tells calls ctx.Response with a token that belongs to no Ask; context pool kept empty by a parked backlog (or cycled by heavy Tell traffic), 0-3 hot noise sites drawn from the sites only Ask traffic passes (found by differential site-hit calibration); oracle = token echo + in-time ledger with 50 ms margin (lower bounds only); non-trivial = successes, timeouts, late replies and pooled channel reuse all observed in the case; distinct by knob tuple and seed")
	r.Assume("time.Now is monotone within the process; a goroutine blocked in select is completed by the sender at send time, so a reply sent >50 ms before the deadline cannot lose against the timer by scheduling jitter")
	c15Calibrate(t)
	r.Note("ask-only sites: %v", c15SiteNames(c15AskSites))
	r.Count("ask_only_sites", int64(len(c15AskSites)))
	r.Count("ask_path_sites", int64(len(c15AllAskSites)))
	if len(c15AskSites) == 0 {
		r.Inconclusive("site calibration found no Ask-specific yield sites")
		return
	}
	rng := r.Rand(15)
	n := r.N(40, 1500)
	for i := 0; i < n; i++ {
		k := c15GenKnobs(rng)
		seed := rng.Int63()
		obs := c15RunCase(t, k, seed)
		if obs.Hang != "" {
			impl := "PID.Ask"
			if !strings.Contains(obs.Hang, "actor.(*PID).Ask(") {
				impl = "api.Ask"
			}
			r.Violation("ask-never-returned:"+impl, map[string]any{"knobs": k.String(), "seed": seed, "hot_sites": obs.HotSites, "blocked_goroutine": obs.Hang})
			// callers are stuck for good: the remaining cases of this batch are not run
			break
		}
		if obs.Inconclusive != "" {
			r.Inconclusive("%s (%s seed %d)", obs.Inconclusive, k.String(), seed)
			continue
		}
		nontrivial := obs.Success > 0 && obs.Timeouts > 0 && obs.LateReplies > 0 && obs.ChanReuse > 0
		r.Case(k.String()+"/"+verifrt.Hash64s(seed), nontrivial)
		r.Count("asks", obs.Asks)
		r.Count("asks_replied", obs.Success)
		r.Count("asks_timed_out", obs.Timeouts)
		r.Count("asks_cancelled", obs.Cancels)
		r.Count("asks_other_error", obs.OtherErr)
		r.Count("late_replies_after_caller_gave_up", obs.LateReplies)
		r.Count("borderline_not_judged", obs.Borderline)
		r.Count("in_time_judged_population", obs.JudgedPopulation)
		r.Count("receive_context_reuses", obs.CtxReuse)
		r.Count("response_channel_reuses", obs.ChanReuse)
		r.Count("background_tells", obs.BgTells)
		r.Count("asks_stashed_by_responder", obs.Stashes)
		r.Count("noise_yields", obs.Yields)
		r.Count("noise_delays_injected", obs.Delays)
		for _, v := range obs.Viol {
			r.Violation(v.Sig, v.Detail)
		}
		if i < 3 {
			r.Sample(map[string]any{"knobs": k.String(), "asks": obs.Asks, "replied": obs.Success, "timeouts": obs.Timeouts, "cancels": obs.Cancels, "late_replies": obs.LateReplies, "ctx_reuse": obs.CtxReuse, "chan_reuse": obs.ChanReuse, "pool_len_start": obs.PoolLenStart, "hot_sites": obs.HotSites, "delays": obs.Delays})
		}
	}
}
