//go:build verif

package actor

import (
	"context"
	"errors"
	"fmt"
	"math/rand"
	"net"
	"sort"
	"strconv"
	"strings"
	"sync"
	"testing"
	"time"

	"github.com/tochemey/goakt/v4/discovery"
	"github.com/tochemey/goakt/v4/internal/address"
	"github.com/tochemey/goakt/v4/internal/cluster"
	"github.com/tochemey/goakt/v4/internal/internalpb"
	"github.com/tochemey/goakt/v4/internal/remoteclient"
	"github.com/tochemey/goakt/v4/internal/verifrt"
	"github.com/tochemey/goakt/v4/log"
	"google.golang.org/protobuf/types/known/durationpb"
)

// C32: the relocation plan places every actor and grain of a departed node exactly once.
//
// The harness never re-implements the allocation: it generates a registry content for a
// departed node plus a survivor set, obtains the relocation set from the real crash-path
// state builder (deriveRelocationSetFromRegistry over a fake registry), the loads from the
// real targetLoads, the plan from the real allocateActors / relocatableGrains /
// allocateGrains / buildRelocateBatchRequests composed as relocationWorker.relocate
// composes them, and evaluates predicates on that plan. Redistribution is judged on the
// real reassignByRole / survivingPeersExcept and, for some cases, on the real
// relocateShare driven through a fake remoting client.

const (
	c32System        = "c32sys"
	c32DepartedHost  = "10.9.9.9"
	c32DepartedRPort = 9900
	c32DepartedPPort = 7900
)

// c32Registry is the fake cluster registry: only the scans used by the state builder and
// by targetLoads are implemented, everything else panics through the nil embedded interface.
type c32Registry struct {
	cluster.Cluster
	mu       sync.Mutex
	actors   []*internalpb.Actor
	grains   []*internalpb.Grain
	counts   map[string]int
	countErr error
}

func (c *c32Registry) set(actors []*internalpb.Actor, grains []*internalpb.Grain, counts map[string]int, countErr error) {
	c.mu.Lock()
	c.actors, c.grains, c.counts, c.countErr = actors, grains, counts, countErr
	c.mu.Unlock()
}

func (c *c32Registry) ActorsByHost(_ context.Context, host string, port int, _ time.Duration) ([]*internalpb.Actor, error) {
	c.mu.Lock()
	defer c.mu.Unlock()
	want := address.FormatHostPort(host, port)
	var out []*internalpb.Actor
	for _, a := range c.actors {
		if hp, ok := address.HostPortOf(a.GetAddress()); ok && hp == want {
			out = append(out, a)
		}
	}
	return out, nil
}

func (c *c32Registry) GrainsByHost(_ context.Context, host string, port int, _ time.Duration) ([]*internalpb.Grain, error) {
	c.mu.Lock()
	defer c.mu.Unlock()
	var out []*internalpb.Grain
	for _, g := range c.grains {
		if g.GetHost() == host && int(g.GetPort()) == port {
			out = append(out, g)
		}
	}
	return out, nil
}

func (c *c32Registry) CountActorsByHost(context.Context, time.Duration) (map[string]int, error) {
	c.mu.Lock()
	defer c.mu.Unlock()
	if c.countErr != nil {
		return nil, c.countErr
	}
	out := make(map[string]int, len(c.counts))
	for k, v := range c.counts {
		out[k] = v
	}
	return out, nil
}

// c32ActorSpec / c32GrainSpec describe one generated registry record.
type c32ActorSpec struct {
	Name        string
	Role        string
	Singleton   bool
	Relocatable bool
	System      bool
}

type c32GrainSpec struct {
	ID     string
	Mode   string // eager | lazy | disabled
	System bool
}

type c32TargetSpec struct {
	Roles []string
	Load  int
}

type c32CaseSpec struct {
	Leader    c32TargetSpec
	Peers     []c32TargetSpec
	LoadsMode string // scan | scanfail
	Actors    []c32ActorSpec
	Grains    []c32GrainSpec
}

func (c *c32CaseSpec) key() string {
	var b strings.Builder
	tgt := func(t c32TargetSpec) string { return strings.Join(t.Roles, "") + "@" + strconv.Itoa(t.Load) }
	b.WriteString("L" + tgt(c.Leader))
	for _, p := range c.Peers {
		b.WriteString(",P" + tgt(p))
	}
	b.WriteString(";" + c.LoadsMode + ";")
	as := make([]string, 0, len(c.Actors))
	for _, a := range c.Actors {
		s := "r" + a.Role
		if a.Singleton {
			s += "S"
		}
		if !a.Relocatable {
			s += "N"
		}
		if a.System {
			s += "Y"
		}
		as = append(as, s)
	}
	sort.Strings(as)
	b.WriteString(strings.Join(as, ","))
	b.WriteString(";")
	gs := make([]string, 0, len(c.Grains))
	for _, g := range c.Grains {
		s := g.Mode[:1]
		if g.System {
			s += "Y"
		}
		gs = append(gs, s)
	}
	sort.Strings(gs)
	b.WriteString(strings.Join(gs, ","))
	return b.String()
}

func c32PeerHost(i int) string { return fmt.Sprintf("10.0.0.%d", i+1) }

func c32BuildPeers(specs []c32TargetSpec) []*cluster.Peer {
	peers := make([]*cluster.Peer, len(specs))
	for i, s := range specs {
		peers[i] = &cluster.Peer{Host: c32PeerHost(i), PeersPort: 7000 + i, RemotingPort: 9000 + i, Roles: s.Roles}
	}
	return peers
}

func c32WireActor(s c32ActorSpec) *internalpb.Actor {
	a := &internalpb.Actor{
		Address:     address.New(s.Name, c32System, c32DepartedHost, c32DepartedRPort).String(),
		Type:        "actor.c32Whatever",
		Relocatable: s.Relocatable,
	}
	if s.Role != "" {
		role := s.Role
		a.Role = &role
	}
	if s.Singleton {
		a.Singleton = &internalpb.SingletonSpec{SpawnTimeout: durationpb.New(time.Second), WaitInterval: durationpb.New(time.Millisecond), MaxRetries: 3}
	}
	return a
}

func c32WireGrain(s c32GrainSpec) *internalpb.Grain {
	name := s.ID
	return &internalpb.Grain{
		GrainId:           &internalpb.GrainId{Kind: "actor.c32Grain", Name: name, Value: "actor.c32Grain/" + name},
		Host:              c32DepartedHost,
		Port:              c32DepartedRPort,
		DisableRelocation: s.Mode == "disabled",
		EagerRelocation:   s.Mode == "eager",
	}
}

var c32RoleSets = [][]string{nil, {"a"}, {"b"}, {"a", "b"}}

func c32GenTarget(rng *rand.Rand, roleSets [][]string, loads []int) c32TargetSpec {
	return c32TargetSpec{Roles: c32Shuffled(rng, roleSets[rng.Intn(len(roleSets))]), Load: loads[rng.Intn(len(loads))]}
}

// c32GenSmall draws one point of the bounded small space of the design: <=4 actors x
// role in {none,a,b} x singleton x relocatable, <=3 grains x {eager,lazy,disabled},
// leader + <=3 peers x role sets within {a,b} x loads in {0,1,5}. System-named records
// are an extra dimension (rare).
func c32GenSmall(rng *rand.Rand) *c32CaseSpec {
	c := &c32CaseSpec{LoadsMode: "scan"}
	if rng.Intn(8) == 0 {
		c.LoadsMode = "scanfail"
	}
	loads := []int{0, 1, 5}
	c.Leader = c32GenTarget(rng, c32RoleSets, loads)
	for i, n := 0, rng.Intn(4); i < n; i++ {
		c.Peers = append(c.Peers, c32GenTarget(rng, c32RoleSets, loads))
	}
	roles := []string{"", "a", "b"}
	for i, n := 0, rng.Intn(5); i < n; i++ {
		s := c32ActorSpec{Role: roles[rng.Intn(3)], Singleton: rng.Intn(4) == 0, Relocatable: rng.Intn(4) != 0, System: rng.Intn(12) == 0}
		s.Name = fmt.Sprintf("act%d", i)
		if s.System {
			s.Name = reservedNamesPrefix + s.Name
		}
		c.Actors = append(c.Actors, s)
	}
	modes := []string{"eager", "lazy", "disabled"}
	for i, n := 0, rng.Intn(4); i < n; i++ {
		s := c32GrainSpec{Mode: modes[rng.Intn(3)], System: rng.Intn(12) == 0}
		s.ID = fmt.Sprintf("gr%d", i)
		if s.System {
			s.ID = reservedNamesPrefix + s.ID
		}
		c.Grains = append(c.Grains, s)
	}
	return c
}

// c32GenLarge draws a large random case: hundreds to thousands of actors and grains,
// up to 8 peers, roles within {a,b,c}, arbitrary loads, shares above the batch size.
func c32GenLarge(rng *rand.Rand) *c32CaseSpec {
	c := &c32CaseSpec{LoadsMode: "scan"}
	if rng.Intn(10) == 0 {
		c.LoadsMode = "scanfail"
	}
	roleSets := [][]string{nil, {"a"}, {"b"}, {"c"}, {"a", "b"}, {"b", "c"}, {"a", "b", "c"}}
	maxLoad := []int{1, 10, 300, 3000}[rng.Intn(4)]
	ld := func() []int { return []int{rng.Intn(maxLoad + 1)} }
	c.Leader = c32GenTarget(rng, roleSets, ld())
	np := []int{0, 1, 2, 8, 8, 8, 5, 3}[rng.Intn(8)]
	for i := 0; i < np; i++ {
		c.Peers = append(c.Peers, c32GenTarget(rng, roleSets, ld()))
	}
	na := []int{0, 1, 7, 300, 1000, 1000, 2500}[rng.Intn(7)]
	rolelessPct := []int{100, 80, 50, 10}[rng.Intn(4)]
	roles := []string{"a", "b", "c", "d"}
	for i := 0; i < na; i++ {
		s := c32ActorSpec{Name: fmt.Sprintf("act%d", i), Relocatable: rng.Intn(10) != 0, Singleton: rng.Intn(40) == 0, System: rng.Intn(60) == 0}
		if rng.Intn(100) >= rolelessPct {
			s.Role = roles[rng.Intn(len(roles))]
		}
		if s.System {
			s.Name = reservedNamesPrefix + s.Name
		}
		c.Actors = append(c.Actors, s)
	}
	ng := []int{0, 1, np, np + 1, 2*np + 3, 700, 3000}[rng.Intn(7)]
	modes := []string{"eager", "lazy", "lazy", "disabled"}
	for i := 0; i < ng; i++ {
		s := c32GrainSpec{ID: fmt.Sprintf("gr%d", i), Mode: modes[rng.Intn(4)], System: rng.Intn(60) == 0}
		if s.System {
			s.ID = reservedNamesPrefix + s.ID
		}
		c.Grains = append(c.Grains, s)
	}
	return c
}

// c32Env is the unstarted actor system the real builders are invoked on.
type c32Env struct {
	sys *actorSystem
	reg *c32Registry
	w   *relocationWorker
}

func c32NewEnv(t *testing.T) *c32Env {
	s, err := NewActorSystem(c32System, WithLogger(log.DiscardLogger))
	if err != nil {
		t.Fatalf("NewActorSystem: %v", err)
	}
	sys := s.(*actorSystem)
	reg := &c32Registry{}
	sys.cluster = reg
	return &c32Env{sys: sys, reg: reg, w: &relocationWorker{logger: log.DiscardLogger}}
}

type c32Obs struct {
	Nontrivial     bool
	ActorsPlaced   int
	GrainsPlaced   int
	Unplaceable    int
	Singletons     int
	Batches        int
	SearchNodes    int
	SearchExceeded bool
}

// c32Eval runs one case through the real functions and evaluates the plan predicates.
func c32Eval(r *verifrt.Run, env *c32Env, c *c32CaseSpec) c32Obs {
	var obs c32Obs
	ctx := context.Background()
	viol := func(sig string, extra map[string]any) {
		d := map[string]any{"case_key": c.key()}
		if len(c.Actors) <= 12 && len(c.Grains) <= 12 {
			d["case"] = c
		} else {
			d["case_sizes"] = map[string]int{"actors": len(c.Actors), "grains": len(c.Grains), "peers": len(c.Peers)}
			d["leader"] = c.Leader
			d["peers"] = c.Peers
			d["loads_mode"] = c.LoadsMode
		}
		for k, v := range extra {
			d[k] = v
		}
		r.Violation(sig, d)
	}

	// ---- registry content and survivor set -------------------------------------------
	peers := c32BuildPeers(c.Peers)
	env.sys.clusterNode = &discovery.Node{Host: env.sys.Host(), Roles: c.Leader.Roles}
	regActors := make([]*internalpb.Actor, len(c.Actors))
	aspec := make(map[string]*c32ActorSpec, len(c.Actors)) // by wire address
	for i := range c.Actors {
		regActors[i] = c32WireActor(c.Actors[i])
		aspec[regActors[i].GetAddress()] = &c.Actors[i]
	}
	regGrains := make([]*internalpb.Grain, len(c.Grains))
	gspec := make(map[string]*c32GrainSpec, len(c.Grains)) // by identity value
	for i := range c.Grains {
		regGrains[i] = c32WireGrain(c.Grains[i])
		gspec[regGrains[i].GetGrainId().GetValue()] = &c.Grains[i]
	}
	counts := map[string]int{
		address.FormatHostPort(env.sys.Host(), env.sys.Port()):    c.Leader.Load,
		address.FormatHostPort(c32DepartedHost, c32DepartedRPort): len(c.Actors), // the dead node's own records
	}
	for i, p := range peers {
		counts[address.FormatHostPort(p.Host, p.RemotingPort)] = c.Peers[i].Load
	}
	var countErr error
	if c.LoadsMode == "scanfail" {
		countErr = errors.New("c32: registry scan failed")
	}
	env.reg.set(regActors, regGrains, counts, countErr)
	departedPeersAddr := net.JoinHostPort(c32DepartedHost, strconv.Itoa(c32DepartedPPort))
	env.sys.peerRemotingPorts.Set(departedPeersAddr, c32DepartedRPort)

	// ---- real state builder (crash path) ----------------------------------------------
	state, ok := env.sys.deriveRelocationSetFromRegistry(ctx, departedPeersAddr)
	if !ok {
		viol("state-builder-refused-complete-registry", nil)
		return obs
	}
	inState := make(map[string]bool, len(state.GetActors()))
	for _, a := range state.GetActors() {
		sp := aspec[a.GetAddress()]
		switch {
		case sp == nil:
			viol("state-builder-foreign-actor", map[string]any{"actor": a.GetAddress()})
		case sp.System:
			viol("state-builder-system-actor-included", map[string]any{"actor": sp})
		case !sp.Relocatable:
			viol("state-builder-nonrelocatable-actor-included", map[string]any{"actor": sp})
		}
		inState[a.GetAddress()] = true
	}
	for addr, sp := range aspec {
		if sp.Relocatable && !sp.System && !inState[addr] {
			viol("state-builder-relocatable-actor-dropped", map[string]any{"actor": sp})
		}
	}
	grainInState := make(map[string]bool, len(state.GetGrains()))
	for _, g := range state.GetGrains() {
		sp := gspec[g.GetGrainId().GetValue()]
		if sp != nil && sp.System {
			viol("state-builder-system-grain-included", map[string]any{"grain": sp})
		}
		grainInState[g.GetGrainId().GetValue()] = true
	}
	for id, sp := range gspec {
		if !sp.System && !grainInState[id] {
			viol("state-builder-grain-dropped", map[string]any{"grain": sp})
		}
	}

	// ---- real plan, composed as relocationWorker.relocate composes it -----------------
	grains := relocatableGrains(state.GetGrains())
	var loads []int
	if len(state.GetActors()) > 0 {
		loads = env.w.targetLoads(ctx, env.sys, peers)
	}
	leaderRoles := env.sys.getNodeRoles()
	leaderActors, peerActors, unplaceable := allocateActors(leaderRoles, peers, state, loads)
	leaderGrains, peerGrains := allocateGrains(len(peers)+1, grains)
	departedNode := address.FormatHostPort(state.GetHost(), int(state.GetRemotingPort()))

	nTargets := len(peers) + 1
	planActors := make([][]*internalpb.Actor, nTargets) // index 0 leader, i -> peers[i-1]
	planGrains := make([][]*internalpb.Grain, nTargets)
	planActors[0] = leaderActors
	planGrains[0] = leaderGrains
	shares := max(len(peerActors), len(peerGrains))
	for i := 1; i < shares; i++ {
		var sa []*internalpb.Actor
		var sg []*internalpb.Grain
		if i < len(peerActors) {
			sa = peerActors[i]
		}
		if i < len(peerGrains) {
			sg = peerGrains[i]
		}
		if i-1 >= len(peers) {
			if len(sa) > 0 || len(sg) > 0 {
				viol("share-without-target", map[string]any{"share_index": i, "targets": nTargets, "actors": len(sa), "grains": len(sg)})
			}
			continue
		}
		reqs := buildRelocateBatchRequests(departedNode, sa, sg)
		obs.Batches += len(reqs)
		na, ng := 0, 0
		for _, q := range reqs {
			if n := len(q.GetActors()) + len(q.GetGrains()); n > defaultRelocationBatchSize || n == 0 {
				viol("batch-size-out-of-bounds", map[string]any{"items": n, "limit": defaultRelocationBatchSize})
			}
			if q.GetDepartedNode() != departedNode {
				viol("batch-departed-node-wrong", map[string]any{"got": q.GetDepartedNode(), "want": departedNode})
			}
			planActors[i] = append(planActors[i], q.GetActors()...)
			planGrains[i] = append(planGrains[i], q.GetGrains()...)
			na += len(q.GetActors())
			ng += len(q.GetGrains())
		}
		if na != len(sa) || ng != len(sg) {
			viol("batching-changed-share-size", map[string]any{"share_actors": len(sa), "batched_actors": na, "share_grains": len(sg), "batched_grains": ng})
		}
	}

	targetRoles := make([][]string, nTargets)
	targetRoles[0] = c.Leader.Roles
	for i := range c.Peers {
		targetRoles[i+1] = c.Peers[i].Roles
	}
	anyEligible := func(role string) bool {
		for _, tr := range targetRoles {
			if role == "" || c32Has(tr, role) {
				return true
			}
		}
		return false
	}

	// ---- actors: exactly once, role, singleton, unplaceable ---------------------------
	placedOn := make(map[string][]int, len(aspec)) // address -> targets (-1 = unplaceable)
	for t, share := range planActors {
		for _, a := range share {
			placedOn[a.GetAddress()] = append(placedOn[a.GetAddress()], t)
		}
	}
	for _, a := range unplaceable {
		placedOn[a.GetAddress()] = append(placedOn[a.GetAddress()], -1)
	}
	kindOf := func(sp *c32ActorSpec) string {
		switch {
		case sp.Singleton:
			return "singleton"
		case sp.Role != "":
			return "role"
		}
		return "roleless"
	}
	for addr, sp := range aspec {
		where := placedOn[addr]
		should := sp.Relocatable && !sp.System
		if !should {
			if len(where) > 0 {
				what := "nonrelocatable"
				if sp.System {
					what = "system"
				}
				viol(what+"-actor-assigned", map[string]any{"actor": sp, "targets": where})
			}
			continue
		}
		if len(where) != 1 {
			n := "0"
			if len(where) > 1 {
				n = "many"
			}
			viol("actor-not-placed-exactly-once:"+kindOf(sp)+":count="+n, map[string]any{"actor": sp, "targets": where})
			continue
		}
		t := where[0]
		switch {
		case sp.Singleton:
			obs.Singletons++
			if t != 0 {
				viol("singleton-not-on-leader", map[string]any{"actor": sp, "target": t})
			}
		case t == -1:
			obs.Unplaceable++
			if anyEligible(sp.Role) {
				viol("actor-unplaceable-although-role-advertised", map[string]any{"actor": sp, "target_roles": targetRoles})
			}
		default:
			obs.ActorsPlaced++
			if sp.Role != "" && !c32Has(targetRoles[t], sp.Role) {
				viol("actor-on-target-without-role", map[string]any{"actor": sp, "target": t, "target_roles": targetRoles[t]})
			}
		}
	}
	for addr := range placedOn {
		if aspec[addr] == nil {
			viol("plan-contains-foreign-actor", map[string]any{"address": addr})
		}
	}

	// ---- least-load clause: some processing order consistent with the per-target
	// share order must exist under which every role-less actor went to a target whose
	// load (base + already assigned) was minimal at that moment -------------------------
	base := make([]int, nTargets)
	if len(loads) == nTargets {
		copy(base, loads)
	}
	if c.LoadsMode == "scan" && len(state.GetActors()) > 0 {
		want := append([]int{c.Leader.Load}, func() []int {
			o := make([]int, len(c.Peers))
			for i := range c.Peers {
				o[i] = c.Peers[i].Load
			}
			return o
		}()...)
		if fmt.Sprint(loads) != fmt.Sprint(want) {
			viol("target-loads-misaligned", map[string]any{"got": loads, "want": want})
		}
	}
	queues := make([][]bool, nTargets) // per target, in share order: true = role-less
	for t, share := range planActors {
		for _, a := range share {
			if a.GetSingleton() != nil {
				continue
			}
			queues[t] = append(queues[t], a.GetRole() == "")
		}
	}
	okOrder, nodes, exceeded := c32OrderExists(base, queues, 300000)
	obs.SearchNodes = nodes
	obs.SearchExceeded = exceeded
	if exceeded {
		// fall back to the necessary condition: when the last role-less actor of target t
		// was placed, t held base+k-1 actors, which no other target's final load may undercut
		for t := range queues {
			k := -1
			for i, rl := range queues[t] {
				if rl {
					k = i
				}
			}
			if k < 0 {
				continue
			}
			for u := range queues {
				if u != t && base[u]+len(queues[u]) < base[t]+k {
					okOrder = false
				}
			}
		}
	}
	if !okOrder {
		final := make([]int, nTargets)
		rl := make([]int, nTargets)
		for t := range queues {
			final[t] = len(queues[t])
			for _, b := range queues[t] {
				if b {
					rl[t]++
				}
			}
		}
		viol("roleless-actor-not-on-least-loaded-target", map[string]any{"base_loads": base, "assigned_per_target": final, "roleless_per_target": rl, "search_nodes": nodes, "search_exceeded": exceeded})
	}

	// ---- grains: exactly once ----------------------------------------------------------
	gPlaced := make(map[string][]int, len(gspec))
	for t, share := range planGrains {
		for _, g := range share {
			gPlaced[g.GetGrainId().GetValue()] = append(gPlaced[g.GetGrainId().GetValue()], t)
		}
	}
	for id, sp := range gspec {
		where := gPlaced[id]
		should := sp.Mode != "disabled" && !sp.System
		if !should {
			if len(where) > 0 {
				what := "disabled"
				if sp.System {
					what = "system"
				}
				viol(what+"-grain-assigned", map[string]any{"grain": sp, "targets": where})
			}
			continue
		}
		if len(where) != 1 {
			n := "0"
			if len(where) > 1 {
				n = "many"
			}
			viol("grain-not-placed-exactly-once:"+sp.Mode+":count="+n, map[string]any{"grain": sp, "targets": where, "relocatable_grains": len(grains), "targets_total": nTargets})
			continue
		}
		obs.GrainsPlaced++
	}
	for id := range gPlaced {
		if gspec[id] == nil {
			viol("plan-contains-foreign-grain", map[string]any{"grain": id})
		}
	}

	obs.Nontrivial = nTargets >= 2 && obs.ActorsPlaced >= 1 && (obs.GrainsPlaced >= 1 || obs.Unplaceable >= 1 || obs.Singletons >= 1)
	return obs
}

// c32Shuffled returns the role set in a random order: a peer's role list is
// built from a set in production, so the planning code must not depend on it
// being sorted.
func c32Shuffled(rng *rand.Rand, roles []string) []string {
	if len(roles) < 2 {
		return roles
	}
	out := append([]string(nil), roles...)
	rng.Shuffle(len(out), func(i, j int) { out[i], out[j] = out[j], out[i] })
	return out
}

func c32Has(roles []string, role string) bool {
	for _, r := range roles {
		if r == role {
			return true
		}
	}
	return false
}

// c32OrderExists decides whether an interleaving of the per-target queues exists in
// which every role-less element is taken from a target whose load (base + taken so far)
// is minimal over all targets at that moment. Role-constrained elements may be taken at
// any time (their eligibility is judged separately). Memoised DFS, lowest-loaded target
// first; gives up (exceeded=true) after budget node expansions.
func c32OrderExists(base []int, queues [][]bool, budget int) (ok bool, nodes int, exceeded bool) {
	n := len(queues)
	pos := make([]int, n)
	dead := map[string]bool{}
	keyBuf := make([]byte, 0, n*3)
	key := func() string {
		keyBuf = keyBuf[:0]
		for _, p := range pos {
			keyBuf = strconv.AppendInt(keyBuf, int64(p), 36)
			keyBuf = append(keyBuf, ',')
		}
		return string(keyBuf)
	}
	// iterative DFS to survive thousands of levels
	type frame struct {
		order []int
		next  int
		took  int
	}
	mkOrder := func() []int {
		o := make([]int, 0, n)
		for t := 0; t < n; t++ {
			if pos[t] < len(queues[t]) {
				o = append(o, t)
			}
		}
		sort.SliceStable(o, func(i, j int) bool { return base[o[i]]+pos[o[i]] < base[o[j]]+pos[o[j]] })
		return o
	}
	minLoad := func() int {
		m := base[0] + pos[0]
		for t := 1; t < n; t++ {
			if l := base[t] + pos[t]; l < m {
				m = l
			}
		}
		return m
	}
	stack := []frame{{order: mkOrder(), took: -1}}
	for len(stack) > 0 {
		f := &stack[len(stack)-1]
		if len(f.order) == 0 {
			return true, nodes, false // everything consumed
		}
		advanced := false
		for f.next < len(f.order) {
			t := f.order[f.next]
			f.next++
			if queues[t][pos[t]] && base[t]+pos[t] != minLoad() {
				continue // role-less head on a target that is not least loaded now
			}
			pos[t]++
			if dead[key()] {
				pos[t]--
				continue
			}
			nodes++
			if nodes > budget {
				return true, nodes, true
			}
			stack = append(stack, frame{order: mkOrder(), took: t})
			advanced = true
			break
		}
		if advanced {
			continue
		}
		// dead end: remember and backtrack
		dead[key()] = true
		if f.took >= 0 {
			pos[f.took]--
		}
		stack = stack[:len(stack)-1]
	}
	return false, nodes, false
}

// ---- redistribution -------------------------------------------------------------------

type c32RedistSpec struct {
	Leader      []string
	Peers       []c32TargetSpec
	Failed      int // index into Peers of the unreachable target
	Actors      []c32ActorSpec
	Grains      []c32GrainSpec
	BatchSplits bool
}

func (c *c32RedistSpec) key() string {
	var b strings.Builder
	b.WriteString("R:L" + strings.Join(c.Leader, ""))
	for _, p := range c.Peers {
		b.WriteString(",P" + strings.Join(p.Roles, ""))
	}
	fmt.Fprintf(&b, ";f=%d;", c.Failed)
	for _, a := range c.Actors {
		b.WriteString("r" + a.Role + ",")
	}
	b.WriteString(";")
	for _, g := range c.Grains {
		b.WriteString(g.Mode[:1])
	}
	return b.String()
}

func c32GenRedist(rng *rand.Rand, large bool) *c32RedistSpec {
	c := &c32RedistSpec{}
	roleSets := c32RoleSets
	roles := []string{"", "a", "b"}
	maxA, maxG, maxP := 5, 4, 4
	if large {
		roleSets = [][]string{nil, {"a"}, {"b"}, {"c"}, {"a", "b"}, {"a", "b", "c"}}
		roles = []string{"", "", "a", "b", "c", "d"}
		maxA, maxG, maxP = 1500, 1500, 8
	}
	c.Leader = roleSets[rng.Intn(len(roleSets))]
	np := 1 + rng.Intn(maxP)
	for i := 0; i < np; i++ {
		c.Peers = append(c.Peers, c32TargetSpec{Roles: c32Shuffled(rng, roleSets[rng.Intn(len(roleSets))])})
	}
	c.Failed = rng.Intn(np)
	na := rng.Intn(maxA + 1)
	for i := 0; i < na; i++ {
		c.Actors = append(c.Actors, c32ActorSpec{Name: fmt.Sprintf("act%d", i), Role: roles[rng.Intn(len(roles))], Relocatable: true})
	}
	ng := rng.Intn(maxG + 1)
	for i := 0; i < ng; i++ {
		c.Grains = append(c.Grains, c32GrainSpec{ID: fmt.Sprintf("gr%d", i), Mode: []string{"eager", "lazy"}[rng.Intn(2)]})
	}
	return c
}

// c32EvalRedist judges reassignByRole + survivingPeersExcept on the unsent share of an
// unreachable target. The processing order is the request order, so the least-load
// clause is replayed exactly.
func c32EvalRedist(r *verifrt.Run, c *c32RedistSpec) (nontrivial bool) {
	viol := func(sig string, extra map[string]any) {
		d := map[string]any{"case_key": c.key()}
		if len(c.Actors) <= 12 && len(c.Grains) <= 12 {
			d["case"] = c
		}
		for k, v := range extra {
			d[k] = v
		}
		r.Violation(sig, d)
	}
	peers := c32BuildPeers(c.Peers)
	target := peers[c.Failed]
	wa := make([]*internalpb.Actor, len(c.Actors))
	for i := range c.Actors {
		wa[i] = c32WireActor(c.Actors[i])
	}
	wg := make([]*internalpb.Grain, len(c.Grains))
	for i := range c.Grains {
		wg[i] = c32WireGrain(c.Grains[i])
	}
	departedNode := address.FormatHostPort(c32DepartedHost, c32DepartedRPort)
	requests := buildRelocateBatchRequests(departedNode, wa, wg)

	survivors := survivingPeersExcept(peers, target)
	// survivors = peers minus the target, order preserved
	var wantSurv []*cluster.Peer
	var survRoles [][]string
	for i, p := range peers {
		if i != c.Failed {
			wantSurv = append(wantSurv, p)
			survRoles = append(survRoles, c.Peers[i].Roles)
		}
	}
	if len(survivors) != len(wantSurv) {
		viol("survivors-wrong-size", map[string]any{"got": len(survivors), "want": len(wantSurv)})
		return false
	}
	for i := range survivors {
		if survivors[i] != wantSurv[i] {
			viol("survivors-wrong-member-or-order", map[string]any{"index": i})
			return false
		}
	}

	failures := &relocationFailures{}
	actorShares, leaderActors, grains := reassignByRole(requests, survivors, c.Leader, failures)
	if len(actorShares) != len(survivors) {
		viol("redistribution-shares-misaligned", map[string]any{"shares": len(actorShares), "survivors": len(survivors)})
		return false
	}

	where := map[string][]int{} // address -> survivor index, -1 leader, -2 failed
	for i, sh := range actorShares {
		for _, a := range sh {
			where[a.GetAddress()] = append(where[a.GetAddress()], i)
		}
	}
	for _, a := range leaderActors {
		where[a.GetAddress()] = append(where[a.GetAddress()], -1)
	}
	for _, f := range failures.items() {
		if f.GetGrain() {
			viol("redistribution-grain-recorded-failed-by-role-pass", map[string]any{"id": f.GetId()})
			continue
		}
		where[f.GetId()] = append(where[f.GetId()], -2)
	}
	// replay in request order
	lens := make([]int, len(survivors))
	cursor := make([]int, len(survivors))
	moved, failed, toLeader := 0, 0, 0
	for i, a := range wa {
		sp := &c.Actors[i]
		w := where[a.GetAddress()]
		if len(w) != 1 {
			n := "0"
			if len(w) > 1 {
				n = "many"
			}
			viol("redistributed-actor-not-placed-exactly-once:count="+n, map[string]any{"actor": sp, "targets": w})
			continue
		}
		peerEligible := false
		for _, sr := range survRoles {
			if sp.Role == "" || c32Has(sr, sp.Role) {
				peerEligible = true
			}
		}
		leaderEligible := sp.Role == "" || c32Has(c.Leader, sp.Role)
		switch t := w[0]; {
		case t == -2:
			failed++
			if peerEligible || leaderEligible {
				viol("redistributed-actor-failed-although-role-advertised", map[string]any{"actor": sp, "survivor_roles": survRoles, "leader_roles": c.Leader})
			}
		case t == -1:
			toLeader++
			if !leaderEligible {
				viol("redistributed-actor-on-leader-without-role", map[string]any{"actor": sp, "leader_roles": c.Leader})
			}
		default:
			moved++
			if sp.Role != "" && !c32Has(survRoles[t], sp.Role) {
				viol("redistributed-actor-on-survivor-without-role", map[string]any{"actor": sp, "survivor": t, "roles": survRoles[t]})
			}
			// order inside the share must follow request order for the replay to be sound
			if cursor[t] >= len(actorShares[t]) || actorShares[t][cursor[t]] != a {
				viol("redistribution-share-order-not-request-order", map[string]any{"survivor": t, "position": cursor[t]})
			}
			if sp.Role == "" {
				for u, l := range lens {
					if l < lens[t] {
						viol("redistributed-roleless-actor-not-on-least-loaded-survivor", map[string]any{"actor_index": i, "chosen": t, "chosen_load": lens[t], "other": u, "other_load": l, "loads": append([]int(nil), lens...)})
						break
					}
				}
			}
			lens[t]++
			cursor[t]++
		}
	}
	for addr := range where {
		found := false
		for _, a := range wa {
			if a.GetAddress() == addr {
				found = true
				break
			}
		}
		if !found {
			viol("redistribution-contains-foreign-actor", map[string]any{"address": addr})
		}
	}
	// grains: flattened exactly once
	seen := map[string]int{}
	for _, g := range grains {
		seen[g.GetGrainId().GetValue()]++
	}
	for _, g := range wg {
		if n := seen[g.GetGrainId().GetValue()]; n != 1 {
			cnt := "0"
			if n > 1 {
				cnt = "many"
			}
			viol("redistributed-grain-not-exactly-once:count="+cnt, map[string]any{"grain": g.GetGrainId().GetValue(), "count": n})
		}
	}
	if len(grains) != len(wg) {
		viol("redistributed-grain-count-mismatch", map[string]any{"got": len(grains), "want": len(wg)})
	}
	r.Count("redistributed_actors_moved", int64(moved))
	r.Count("redistributed_actors_to_leader", int64(toLeader))
	r.Count("redistributed_actors_unplaceable", int64(failed))
	return len(survivors) >= 2 && moved >= 2
}

// c32Remoting is the fake remoting client of the end-to-end redistribution cases: peers
// in down are unreachable (after downAfter accepted batches), every accepted batch is recorded.
type c32Remoting struct {
	remoteclient.Client
	mu        sync.Mutex
	down      map[string]int // host:port -> batches accepted before the peer dies
	accepted  map[string][]*internalpb.RelocateBatchRequest
	attempted map[string]int
}

func (c *c32Remoting) RelocateBatch(_ context.Context, host string, port int, request *internalpb.RelocateBatchRequest) (*internalpb.RelocateBatchResponse, error) {
	c.mu.Lock()
	defer c.mu.Unlock()
	k := address.FormatHostPort(host, port)
	c.attempted[k]++
	if left, isDown := c.down[k]; isDown {
		if left <= 0 {
			return nil, errors.New("c32: peer unreachable")
		}
		c.down[k] = left - 1
	}
	c.accepted[k] = append(c.accepted[k], request)
	return &internalpb.RelocateBatchResponse{}, nil
}

// c32EvalShare runs the real relocateShare (no leader fallback: worker without a pid)
// against the fake remoting client and checks that every item of the share is accounted
// for exactly once: accepted by exactly one reachable peer, or recorded as failed.
func c32EvalShare(r *verifrt.Run, rng *rand.Rand, idx int) (nontrivial bool) {
	roleSets := c32RoleSets
	np := 2 + rng.Intn(4)
	specs := make([]c32TargetSpec, np)
	for i := range specs {
		specs[i] = c32TargetSpec{Roles: c32Shuffled(rng, roleSets[rng.Intn(len(roleSets))])}
	}
	peers := c32BuildPeers(specs)
	failedIdx := rng.Intn(np)
	target := peers[failedIdx]
	acceptFirst := rng.Intn(3) // the target dies after this many batches
	secondDown := -1
	if rng.Intn(3) == 0 {
		secondDown = (failedIdx + 1 + rng.Intn(np-1)) % np
	}
	na := []int{0, 3, 40, 1200}[rng.Intn(4)]
	ng := []int{0, 2, 30, 1100}[rng.Intn(4)]
	roles := []string{"", "", "a", "b"}
	var wa []*internalpb.Actor
	aRole := map[string]string{}
	for i := 0; i < na; i++ {
		// the share of the target only ever holds actors the target could host
		role := roles[rng.Intn(len(roles))]
		if role != "" && !c32Has(specs[failedIdx].Roles, role) {
			role = ""
		}
		a := c32WireActor(c32ActorSpec{Name: fmt.Sprintf("s%dact%d", idx, i), Role: role, Relocatable: true})
		wa = append(wa, a)
		aRole[a.GetAddress()] = role
	}
	var wg []*internalpb.Grain
	gEager := map[string]bool{}
	for i := 0; i < ng; i++ {
		mode := []string{"eager", "lazy"}[rng.Intn(2)]
		g := c32WireGrain(c32GrainSpec{ID: fmt.Sprintf("s%dgr%d", idx, i), Mode: mode})
		wg = append(wg, g)
		gEager[g.GetGrainId().GetValue()] = mode == "eager"
	}
	departedNode := address.FormatHostPort(c32DepartedHost, c32DepartedRPort)
	requests := buildRelocateBatchRequests(departedNode, wa, wg)

	fake := &c32Remoting{down: map[string]int{address.FormatHostPort(target.Host, target.RemotingPort): acceptFirst}, accepted: map[string][]*internalpb.RelocateBatchRequest{}, attempted: map[string]int{}}
	if secondDown >= 0 {
		fake.down[address.FormatHostPort(peers[secondDown].Host, peers[secondDown].RemotingPort)] = 0
	}
	w := &relocationWorker{remoting: fake, logger: log.DiscardLogger}
	failures := &relocationFailures{}
	w.relocateShare(context.Background(), requests, target, peers, failures)

	desc := map[string]any{"peers": specs, "failed": failedIdx, "target_accepts_first": acceptFirst, "second_down": secondDown, "actors": na, "grains": ng, "batches": len(requests)}
	viol := func(sig string, extra map[string]any) {
		d := map[string]any{"scenario": desc}
		for k, v := range extra {
			d[k] = v
		}
		r.Violation(sig, d)
	}
	aCount := map[string]int{}
	gCount := map[string]int{}
	for hp, reqs := range fake.accepted {
		pi := -1
		for i, p := range peers {
			if address.FormatHostPort(p.Host, p.RemotingPort) == hp {
				pi = i
			}
		}
		for _, q := range reqs {
			if q.GetDepartedNode() != departedNode {
				viol("redistribution-batch-departed-node-wrong", map[string]any{"got": q.GetDepartedNode()})
			}
			if n := len(q.GetActors()) + len(q.GetGrains()); n > defaultRelocationBatchSize {
				viol("redistribution-batch-oversize", map[string]any{"items": n})
			}
			for _, a := range q.GetActors() {
				aCount[a.GetAddress()]++
				if role := aRole[a.GetAddress()]; role != "" && (pi < 0 || !c32Has(specs[pi].Roles, role)) {
					viol("share-actor-delivered-to-peer-without-role", map[string]any{"role": role, "peer": pi})
				}
			}
			for _, g := range q.GetGrains() {
				gCount[g.GetGrainId().GetValue()]++
			}
		}
	}
	aFail := map[string]int{}
	gFail := map[string]int{}
	for _, f := range failures.items() {
		if f.GetGrain() {
			gFail[f.GetId()]++
		} else {
			aFail[f.GetId()]++
		}
	}
	for _, a := range wa {
		d, f := aCount[a.GetAddress()], aFail[a.GetAddress()]
		if d+f != 1 {
			viol(fmt.Sprintf("share-actor-not-accounted-exactly-once:delivered=%s:failed=%s", c32Cnt(d), c32Cnt(f)), map[string]any{"actor": a.GetAddress(), "role": aRole[a.GetAddress()]})
		}
	}
	for _, g := range wg {
		id := g.GetGrainId().GetValue()
		d, f := gCount[id], gFail[id]
		if gEager[id] {
			if d+f != 1 {
				viol(fmt.Sprintf("share-eager-grain-not-accounted-exactly-once:delivered=%s:failed=%s", c32Cnt(d), c32Cnt(f)), map[string]any{"grain": id})
			}
			continue
		}
		// lazy: an undeliverable one is released leader-side (needs a system, absent here),
		// so it may legitimately be absent when its second target was unreachable too
		if d > 1 || f > 0 || (d == 0 && secondDown < 0) {
			viol(fmt.Sprintf("share-lazy-grain-misplaced:delivered=%s:failed=%s", c32Cnt(d), c32Cnt(f)), map[string]any{"grain": id})
		}
	}
	r.Count("share_cases_with_second_failure", int64(map[bool]int{true: 1, false: 0}[secondDown >= 0]))
	return na+ng > 0
}

func c32Cnt(n int) string {
	switch {
	case n == 0:
		return "0"
	case n == 1:
		return "1"
	}
	return "many"
}

func TestVerif_C32(t *testing.T) {
	r := verifrt.Start(t, "C32")
	defer r.Finish()
	r.Rule("case = (registry content of a departed node: actors with role/singleton/relocatable/system-name, grains eager/lazy/disabled/system-name; leader + 0..8 peers with role sets and current loads; load scan ok or failed) -> real deriveRelocationSetFromRegistry + targetLoads + allocateActors + relocatableGrains + allocateGrains + buildRelocateBatchRequests composed as relocate() does -> predicates on the plan (exactly once, role, leader for singletons, unplaceable iff no role, an order consistent with per-share order in which every role-less actor hit a least-loaded target exists, nothing non-relocatable/system assigned); plus redistribution cases judged on real reassignByRole/survivingPeersExcept (exact replay) and real relocateShare with a fake remoting client. non-trivial = >=2 targets, >=1 actor placed and (>=1 grain placed or an unplaceable or a singleton); redistribution: >=2 survivors and >=2 actors moved. distinct by canonical case text")
	r.Assume("the fake registry returns exactly the departed host's records for ActorsByHost/GrainsByHost (the registry scan itself is not under test); reliable-delivery endpoints (documented exception: non-relocatable endpoints join the set) are outside the generated domain")

	env := c32NewEnv(t)
	rng := r.Rand(1)

	nSmall := r.N(50000, 4000000)
	for i := 0; i < nSmall; i++ {
		c := c32GenSmall(rng)
		obs := c32Eval(r, env, c)
		r.Case(c.key(), obs.Nontrivial)
		r.Count("small_actors_placed", int64(obs.ActorsPlaced))
		r.Count("small_grains_placed", int64(obs.GrainsPlaced))
		r.Count("small_unplaceable", int64(obs.Unplaceable))
		r.Count("small_singletons", int64(obs.Singletons))
		r.Max("order_search_nodes_max", int64(obs.SearchNodes))
		if obs.SearchExceeded {
			r.Count("order_search_budget_exceeded", 1)
		}
		if i < 2 {
			r.Sample(c)
		}
	}

	nLarge := r.N(500, 50000)
	for i := 0; i < nLarge; i++ {
		c := c32GenLarge(rng)
		obs := c32Eval(r, env, c)
		r.Case(fmt.Sprintf("large/%x", verifrt.Hash64(c.key())), obs.Nontrivial)
		r.Count("large_actors_placed", int64(obs.ActorsPlaced))
		r.Count("large_grains_placed", int64(obs.GrainsPlaced))
		r.Count("large_unplaceable", int64(obs.Unplaceable))
		r.Count("large_batches", int64(obs.Batches))
		r.Max("order_search_nodes_max", int64(obs.SearchNodes))
		if obs.SearchExceeded {
			r.Count("order_search_budget_exceeded", 1)
		}
		if i < 1 {
			r.Sample(map[string]any{"large_case": map[string]any{"actors": len(c.Actors), "grains": len(c.Grains), "peers": c.Peers, "leader": c.Leader}})
		}
	}

	nRed := r.N(20000, 1500000)
	for i := 0; i < nRed; i++ {
		c := c32GenRedist(rng, false)
		nt := c32EvalRedist(r, c)
		r.Case(c.key(), nt)
		if i < 1 {
			r.Sample(c)
		}
	}
	nRedL := r.N(200, 20000)
	for i := 0; i < nRedL; i++ {
		c := c32GenRedist(rng, true)
		nt := c32EvalRedist(r, c)
		r.Case(fmt.Sprintf("redist-large/%x", verifrt.Hash64(c.key())), nt)
	}

	// end-to-end share redistribution; each case pays the real 100 ms retry backoff at
	// least once, so the count is small
	nShare := r.N(48, 1600)
	for i := 0; i < nShare; i++ {
		nt := c32EvalShare(r, rng, i)
		r.Case(fmt.Sprintf("share/%d/%d", r.BatchSeed(), i), nt)
	}
}
