//go:build verif

package actor

import (
	"context"
	"errors"
	"fmt"
	"math/rand"
	"sort"
	"strings"
	"sync"
	"sync/atomic"
	"time"
)

// C36 workload: 3 real actor systems on the shared fake registry (common_cluster_verif_test.go).
// One round = one fresh singleton name + one scenario: concurrent SpawnSingleton calls from
// several nodes, leader flips through the harness-controlled leader view while the calls are
// in flight, stop and re-spawn, registry failures at the name check / publication.
// Oracle: process-wide live-instance gauge per name kept by the harness actor
// (PreStart success .. PostStop entry) must never exceed 1.

const (
	c36GateWD = 15 * time.Second
	c36CallWD = 120 * time.Second
	c36HoldWD = 60 * time.Second
)

// ---- monitor ---------------------------------------------------------------------

type c36NameState struct {
	mu        sync.Mutex
	sameNode  bool
	crossNode bool
	perNode  map[int]int
	live     int
	maxLive  int
	starts   int
	stops    int
	events   []string
	overlaps []string
	dwell    time.Duration
}

func (s *c36NameState) ev(node int, what string) {
	s.events = append(s.events, fmt.Sprintf("[%d] n%d %s", vfcTick(), node, what))
}

func (s *c36NameState) holders() []int {
	s.mu.Lock()
	defer s.mu.Unlock()
	var out []int
	for n, c := range s.perNode {
		if c > 0 {
			out = append(out, n)
		}
	}
	sort.Ints(out)
	return out
}

func (s *c36NameState) liveNow() int {
	s.mu.Lock()
	defer s.mu.Unlock()
	return s.live
}

func (s *c36NameState) eventStrings() []string {
	s.mu.Lock()
	defer s.mu.Unlock()
	return append([]string(nil), s.events...)
}

type c36Mon struct {
	c     *vfcCluster
	mu    sync.Mutex
	names map[string]*c36NameState
}

var c36Current atomic.Pointer[c36Mon]

func (m *c36Mon) state(name string) *c36NameState {
	m.mu.Lock()
	defer m.mu.Unlock()
	st, ok := m.names[name]
	if !ok {
		st = &c36NameState{perNode: map[int]int{}}
		m.names[name] = st
	}
	return st
}

func (m *c36Mon) drop(name string) {
	m.mu.Lock()
	delete(m.names, name)
	m.mu.Unlock()
}

// ---- the harness singleton actor (zero-value constructible: RemoteSpawn builds it by kind) ----

type C36Singleton struct {
	st      *c36NameState
	node    int
	counted bool
}

func (a *C36Singleton) PreStart(ctx *Context) error {
	mon := c36Current.Load()
	if mon == nil {
		return nil
	}
	a.node = mon.c.NodeOf(ctx.ActorSystem())
	a.st = mon.state(ctx.ActorName())
	st := a.st
	st.mu.Lock()
	dwell := st.dwell
	st.ev(a.node, "PreStart enter")
	st.mu.Unlock()
	if dwell > 0 {
		time.Sleep(dwell)
	}
	st.mu.Lock()
	st.perNode[a.node]++
	st.live++
	st.starts++
	if st.live > st.maxLive {
		st.maxLive = st.live
	}
	if st.live > 1 {
		var hs []string
		for n, c := range st.perNode {
			if c > 0 {
				hs = append(hs, fmt.Sprintf("n%d x%d", n, c))
			}
		}
		sort.Strings(hs)
		if len(hs) > 1 {
			st.crossNode = true
		} else {
			st.sameNode = true
		}
		st.overlaps = append(st.overlaps, fmt.Sprintf("at clock %d: instance started on n%d while live instances = {%s}", vfcNow(), a.node, strings.Join(hs, ", ")))
	}
	st.ev(a.node, fmt.Sprintf("PreStart exit OK live=%d", st.live))
	st.mu.Unlock()
	a.counted = true
	return nil
}

func (a *C36Singleton) Receive(*ReceiveContext) {}

func (a *C36Singleton) PostStop(*Context) error {
	st := a.st
	if st == nil {
		return nil
	}
	st.mu.Lock()
	if a.counted {
		a.counted = false
		st.perNode[a.node]--
		st.live--
	}
	st.stops++
	st.ev(a.node, fmt.Sprintf("PostStop enter live=%d", st.live))
	st.mu.Unlock()
	return nil
}

// C36Filler is an ordinary actor used to keep a node's death watch busy.
type C36Filler struct{}

func (*C36Filler) PreStart(*Context) error { return nil }
func (*C36Filler) Receive(*ReceiveContext) {}
func (*C36Filler) PostStop(*Context) error { return nil }

// ---- rules ----------------------------------------------------------------------------

type c36Rule struct {
	Node  int
	Op    string
	After bool
	Nth   int
	Gate  *vfcGate
	Err   error
	Do    func() // runs when the rule fires (e.g. flip the leader)
	Cond  func() bool // when set, only operations for which it holds are counted / matched
	hits  atomic.Int32
	fired atomic.Int32
}

func (r *c36Rule) Fired() bool { return r.fired.Load() > 0 }

type c36Call struct {
	Node  int
	Role  string
	Err   error
	Addr  string
	done  chan struct{}
	Start int64
	End   int64
}

func (c *c36Call) Done() bool {
	select {
	case <-c.done:
		return true
	default:
		return false
	}
}

func (c *c36Call) String() string {
	e := "ok"
	if c.Err != nil {
		e = c.Err.Error()
		if len(e) > 140 {
			e = e[:140]
		}
	}
	what := "SpawnSingleton"
	if c.Role == "kill" {
		what = "Kill"
	} else if c.Role != "" {
		what = "SpawnSingleton(role=" + c.Role + ")"
	}
	return fmt.Sprintf("n%d %s [%d..%d] pid=%s -> %s", c.Node, what, c.Start, c.End, c.Addr, e)
}

type c36RT struct {
	cl    *vfcCluster
	scen  string
	name  string
	st    *c36NameState
	rng   *rand.Rand
	perm  []int
	rmu   sync.Mutex
	rules []*c36Rule

	noisePM  int
	noiseMax time.Duration
	nmu      sync.Mutex
	nrng     *rand.Rand

	cmu     sync.Mutex
	calls   []*c36Call
	notes   []string
	barrier chan struct{}

	fillerPrefix string        // names of the round's filler actors
	fillerDelay  time.Duration // delay of every RemoveActor on a filler (keeps the death watch busy)

	achieved  bool
	stalled   string
	flips     atomic.Int64
	injected  atomic.Int64
	gatesHit  atomic.Int64
	delaysHit atomic.Int64
	opsBy     [8]atomic.Int64
	existsOps atomic.Int64
	membersBy [8]atomic.Int64 // Members reads per node during the round
	heldLate  atomic.Int64    // callers held after a second "absent" name check
}

var c36CurRound atomic.Pointer[c36RT]

func (rt *c36RT) A() int { return rt.perm[0] }
func (rt *c36RT) B() int { return rt.perm[1] }
func (rt *c36RT) C() int { return rt.perm[2] }

func (rt *c36RT) note(format string, args ...any) {
	rt.cmu.Lock()
	rt.notes = append(rt.notes, fmt.Sprintf(format, args...))
	rt.cmu.Unlock()
}

func (rt *c36RT) rule(node int, op string, after bool, nth int) *c36Rule {
	r := &c36Rule{Node: node, Op: op, After: after, Nth: nth}
	rt.rmu.Lock()
	rt.rules = append(rt.rules, r)
	rt.rmu.Unlock()
	return r
}

func (rt *c36RT) gateRule(node int, op string, after bool, nth int) (*c36Rule, *vfcGate) {
	r := rt.rule(node, op, after, nth)
	r.Gate = vfcNewGate()
	return r, r.Gate
}

func (rt *c36RT) apply(node int, op string, after bool) error {
	rt.rmu.Lock()
	rules := rt.rules
	rt.rmu.Unlock()
	var out error
	for _, r := range rules {
		if r.After != after || r.Op != op || (r.Node >= 0 && r.Node != node) {
			continue
		}
		if r.Cond != nil && !r.Cond() {
			continue
		}
		n := int(r.hits.Add(1))
		if r.Nth != 0 && n != r.Nth {
			continue
		}
		r.fired.Add(1)
		if r.Do != nil {
			r.Do()
		}
		if r.Gate != nil {
			rt.gatesHit.Add(1)
			r.Gate.Hold(c36HoldWD)
		}
		if r.Err != nil && !after {
			rt.injected.Add(1)
			out = r.Err
		}
	}
	return out
}

// the hooks see the operations on the round's name and the membership reads ("" key) made
// while the round runs
func c36Before(node int, op, key string) error {
	rt := c36CurRound.Load()
	if rt != nil && rt.fillerPrefix != "" && op == "RemoveActor" && strings.HasPrefix(key, rt.fillerPrefix) {
		rt.delaysHit.Add(1)
		time.Sleep(rt.fillerDelay)
		return nil
	}
	if rt == nil || (key != rt.name && !(key == "" && op == "Members")) {
		return nil
	}
	if node >= 0 && node < len(rt.opsBy) {
		rt.opsBy[node].Add(1)
	}
	if op == "ActorExists" {
		rt.existsOps.Add(1)
	}
	if op == "Members" && node >= 0 && node < len(rt.membersBy) {
		rt.membersBy[node].Add(1)
	}
	if rt.noisePM > 0 {
		rt.nmu.Lock()
		hit := rt.nrng.Intn(1000) < rt.noisePM
		d := time.Duration(rt.nrng.Int63n(int64(rt.noiseMax) + 1))
		rt.nmu.Unlock()
		if hit {
			rt.delaysHit.Add(1)
			time.Sleep(d)
		}
	}
	return rt.apply(node, op, false)
}

func c36After(node int, op, key string, _ error) {
	rt := c36CurRound.Load()
	if rt == nil || (key != rt.name && !(key == "" && op == "Members")) {
		return
	}
	_ = rt.apply(node, op, true)
}

func (rt *c36RT) releaseAll() {
	rt.rmu.Lock()
	for _, r := range rt.rules {
		if r.Gate != nil {
			r.Gate.Release()
		}
	}
	rt.rmu.Unlock()
}

func (rt *c36RT) setLeader(n int) {
	rt.cl.SetLeader(n)
	rt.flips.Add(1)
	rt.st.mu.Lock()
	rt.st.ev(n, "LEADER := this node (all views)")
	rt.st.mu.Unlock()
}

func (rt *c36RT) dwell(d time.Duration) {
	rt.st.mu.Lock()
	rt.st.dwell = d
	rt.st.mu.Unlock()
}

func (rt *c36RT) spawn(node int, role string) *c36Call {
	call := &c36Call{Node: node, Role: role, done: make(chan struct{})}
	rt.cmu.Lock()
	rt.calls = append(rt.calls, call)
	rt.cmu.Unlock()
	sys := rt.cl.Nodes[node].Sys
	barrier := rt.barrier
	go func() {
		defer close(call.done)
		if barrier != nil {
			<-barrier
		}
		defer func() {
			if p := recover(); p != nil {
				call.Err = fmt.Errorf("caller panic: %v", p)
			}
			call.End = vfcTick()
		}()
		ctx, cancel := context.WithTimeout(context.Background(), 100*time.Second)
		defer cancel()
		opts := []ClusterSingletonOption{
			WithSingletonSpawnTimeout(60 * time.Second),
			WithSingletonSpawnWaitInterval(20 * time.Millisecond),
			WithSingletonSpawnRetries(3),
		}
		if role != "" {
			opts = append(opts, WithSingletonRole(role))
		}
		call.Start = vfcTick()
		pid, err := sys.SpawnSingleton(ctx, rt.name, &C36Singleton{}, opts...)
		call.Err = err
		if pid != nil {
			call.Addr = pid.ID()
		}
	}()
	return call
}

// kill stops the singleton from the given node (local stop, or through the registry + remoting).
func (rt *c36RT) kill(node int) *c36Call {
	call := &c36Call{Node: node, Role: "kill", done: make(chan struct{})}
	rt.cmu.Lock()
	rt.calls = append(rt.calls, call)
	rt.cmu.Unlock()
	sys := rt.cl.Nodes[node].Sys
	barrier := rt.barrier
	go func() {
		defer close(call.done)
		if barrier != nil {
			<-barrier
		}
		ctx, cancel := context.WithTimeout(context.Background(), 60*time.Second)
		defer cancel()
		call.Start = vfcTick()
		call.Err = sys.Kill(ctx, rt.name)
		call.Addr = "(kill)"
		call.End = vfcTick()
	}()
	return call
}

func (rt *c36RT) wait(calls ...*c36Call) bool {
	t := time.NewTimer(c36CallWD)
	defer t.Stop()
	for _, c := range calls {
		select {
		case <-c.done:
		case <-t.C:
			rt.stalled = fmt.Sprintf("call n%d %s did not return within %s", c.Node, c.Role, c36CallWD)
			return false
		}
	}
	return true
}

func (rt *c36RT) arrived(g *vfcGate, calls ...*c36Call) bool {
	deadline := time.Now().Add(c36GateWD)
	for {
		if g.Arrived() {
			return true
		}
		all := len(calls) > 0
		for _, c := range calls {
			if !c.Done() {
				all = false
			}
		}
		if all {
			return g.Arrived()
		}
		if time.Now().After(deadline) {
			return false
		}
		time.Sleep(200 * time.Microsecond)
	}
}

func (rt *c36RT) until(cond func() bool) bool {
	deadline := time.Now().Add(c36GateWD)
	for !cond() {
		if time.Now().After(deadline) {
			return false
		}
		time.Sleep(200 * time.Microsecond)
	}
	return true
}

// treeCleanNow: no stopped instance of the round's name lingers in the node's actor tree.
func (rt *c36RT) treeCleanNow(node int) bool {
	n, ok := rt.cl.Nodes[node].Sys.actors.nodeByName(rt.name)
	if !ok {
		return true
	}
	p := n.value()
	return p != nil && p.IsRunning()
}

// treeClean waits (watchdog) for treeCleanNow.
func (rt *c36RT) treeClean(node int) bool {
	return rt.until(func() bool { return rt.treeCleanNow(node) })
}

func (rt *c36RT) successes(calls ...*c36Call) int {
	n := 0
	for _, c := range calls {
		if c.Done() && c.Err == nil {
			n++
		}
	}
	return n
}

// burst starts k SpawnSingleton calls at once, the first ones on distinct nodes.
func (rt *c36RT) burst(k int, role string) []*c36Call {
	var cs []*c36Call
	rt.barrier = make(chan struct{})
	for i := 0; i < k; i++ {
		node := rt.perm[rt.rng.Intn(3)]
		if i < 3 {
			node = rt.perm[i]
		}
		cs = append(cs, rt.spawn(node, role))
	}
	close(rt.barrier)
	rt.barrier = nil
	return cs
}

// ---- scenarios -----------------------------------------------------------------------------

var c36ErrRegistry = errors.New("c36: injected registry failure")

type c36Scenario struct {
	Name   string
	Weight int
	Run    func(rt *c36RT)
}

var c36Scenarios = []c36Scenario{
	{"stable-burst", 4, func(rt *c36RT) {
		// one leader for the whole round; 2-8 simultaneous calls from all nodes
		rt.setLeader(rt.perm[rt.rng.Intn(3)])
		rt.flips.Store(0)
		rt.noisePM, rt.noiseMax = 400, 2*time.Millisecond
		rt.dwell(time.Duration(rt.rng.Intn(6)) * time.Millisecond)
		cs := rt.burst(2+rt.rng.Intn(7), "")
		rt.wait(cs...)
		rt.achieved = rt.successes(cs...) >= 1 && rt.st.liveNow() >= 1
	}},
	{"stable-burst-role", 2, func(rt *c36RT) {
		// role-pinned singleton: host = oldest member advertising the role (nodes 1 and 2 do)
		rt.noisePM, rt.noiseMax = 400, 2*time.Millisecond
		rt.dwell(time.Duration(rt.rng.Intn(6)) * time.Millisecond)
		cs := rt.burst(2+rt.rng.Intn(6), "c36role")
		rt.wait(cs...)
		rt.achieved = rt.successes(cs...) >= 1 && rt.st.liveNow() >= 1
	}},
	{"sequential-flip", 3, func(rt *c36RT) {
		// spawn under leader A to completion, then the leader changes to B and the nodes spawn again
		rt.setLeader(rt.A())
		a := rt.spawn(rt.perm[rt.rng.Intn(3)], "")
		if !rt.wait(a) || a.Err != nil {
			rt.note("first spawn failed: %v", a.Err)
			return
		}
		rt.setLeader(rt.B())
		cs := rt.burst(2+rt.rng.Intn(3), "")
		rt.wait(cs...)
		rt.achieved = rt.existsOps.Load() >= 2
	}},
	{"respawn", 3, func(rt *c36RT) {
		// spawn, stop it, and re-spawn from several nodes while the stop is still in progress
		rt.setLeader(rt.A())
		rt.flips.Store(0)
		a := rt.spawn(rt.B(), "")
		if !rt.wait(a) || a.Err != nil {
			rt.note("first spawn failed: %v", a.Err)
			return
		}
		var k *c36Call
		var cs []*c36Call
		if rt.rng.Intn(2) == 0 {
			// stop first, re-spawn a moment later
			k = rt.kill(rt.perm[rt.rng.Intn(3)])
			time.Sleep(time.Duration(rt.rng.Intn(1500)) * time.Microsecond)
			cs = rt.burst(2+rt.rng.Intn(3), "")
		} else {
			// stop and re-spawn released at the same instant
			rt.barrier = make(chan struct{})
			k = rt.kill(rt.perm[rt.rng.Intn(3)])
			for i := 0; i < 2+rt.rng.Intn(3); i++ {
				cs = append(cs, rt.spawn(rt.perm[i%3], ""))
			}
			close(rt.barrier)
			rt.barrier = nil
		}
		rt.wait(k)
		rt.wait(cs...)
		// a call that lost against the dying instance may have failed; spawn once more when settled
		rt.until(func() bool { return rt.cl.Store.InFlight() == 0 })
		d := rt.spawn(rt.C(), "")
		rt.wait(d)
		rt.st.mu.Lock()
		starts, stops := rt.st.starts, rt.st.stops
		rt.st.mu.Unlock()
		rt.achieved = stops >= 1 && starts >= 2
	}},
	{"held-after-absent-check", 3, func(rt *c36RT) {
		// stable leader L. The first caller (on L) is held right after its registry name check
		// answered "absent"; further callers arrive (on L and, through RemoteSpawn, from the other
		// nodes); any caller whose own name check also answers "absent" is held there too. The
		// first caller then runs to completion and returns; only then are the held ones released.
		L := rt.A()
		rt.setLeader(L)
		rt.flips.Store(0)
		absent := func() bool { return rt.cl.Store.Actor(rt.name) == nil }
		r1, g1 := rt.gateRule(L, "ActorExists", true, 1)
		r1.Cond = absent
		r2, g2 := rt.gateRule(L, "ActorExists", true, 2)
		r2.Cond = absent
		r2.Do = func() { rt.heldLate.Add(1) }
		a := rt.spawn(L, "")
		if !rt.arrived(g1, a) {
			rt.note("gate after the first absent name check on the leader not reached")
			return
		}
		others := []*c36Call{rt.spawn(rt.B(), ""), rt.spawn(rt.C(), "")}
		for i := 0; i < rt.rng.Intn(3); i++ {
			others = append(others, rt.spawn(rt.perm[rt.rng.Intn(3)], ""))
		}
		// the forwarded calls have reached the leader once it has read its member list for them
		// (1 read for the first caller + 1 per other caller)
		want := int64(1 + len(others))
		reached := rt.until(func() bool { return rt.membersBy[L].Load() >= want || g2.Arrived() })
		// from there a caller is at most a few statements away from its name check / the single flight
		grace := time.Now().Add(150 * time.Millisecond)
		for !g2.Arrived() && time.Now().Before(grace) {
			time.Sleep(200 * time.Microsecond)
		}
		g1.Release()
		if !rt.wait(a) {
			return
		}
		aOK := a.Err == nil
		time.Sleep(time.Duration(rt.rng.Intn(3)) * time.Millisecond)
		g2.Release()
		rt.wait(others...)
		rt.achieved = r1.Fired() && reached && aOK && rt.successes(others...) >= 1
	}},
	{"publish-fail", 2, func(rt *c36RT) {
		// the leader's publication of the singleton record fails once (the spawn is rolled back);
		// once the rolled-back instance is gone from the leader's tree, all nodes spawn again
		rt.setLeader(rt.A())
		rt.flips.Store(0)
		r := rt.rule(rt.A(), "PutActor", false, 1)
		r.Err = c36ErrRegistry
		a := rt.spawn(rt.perm[rt.rng.Intn(3)], "")
		rt.wait(a)
		if !rt.treeClean(rt.A()) {
			rt.note("rolled-back instance still in the leader's tree")
			return
		}
		cs := rt.burst(2+rt.rng.Intn(4), "")
		rt.wait(cs...)
		rt.achieved = r.Fired() && a.Err != nil
	}},
	{"publish-fail-racing-respawn", 2, func(rt *c36RT) {
		// as publish-fail, but the next spawn arrives while the leader's death watch (busy with
		// other terminations) has not yet cleaned up the rolled-back instance; a third spawn
		// follows once it has
		rt.setLeader(rt.A())
		rt.flips.Store(0)
		lead := rt.cl.Nodes[rt.A()].Sys
		rt.fillerPrefix = "c36f-" + rt.name + "-"
		rt.fillerDelay = 3 * time.Millisecond
		var fillers []*PID
		for i := 0; i < 60; i++ {
			ctx, cancel := context.WithTimeout(context.Background(), 30*time.Second)
			p, err := lead.Spawn(ctx, fmt.Sprintf("%s%d", rt.fillerPrefix, i), &C36Filler{}, WithLongLived())
			cancel()
			if err == nil {
				fillers = append(fillers, p)
			}
		}
		r := rt.rule(rt.A(), "PutActor", false, 1)
		r.Err = c36ErrRegistry
		r.Do = func() {
			// other actors of the node terminate just before the rollback
			for _, p := range fillers {
				ctx, cancel := context.WithTimeout(context.Background(), 30*time.Second)
				_ = p.Shutdown(ctx)
				cancel()
			}
		}
		a := rt.spawn(rt.A(), "")
		rt.wait(a)
		stillThere := !rt.treeCleanNow(rt.A())
		b := rt.spawn(rt.A(), "")
		rt.wait(b)
		if !rt.treeClean(rt.A()) {
			rt.note("rolled-back instance still in the leader's tree after the watchdog")
		}
		c := rt.spawn(rt.perm[1+rt.rng.Intn(2)], "")
		rt.wait(c)
		rt.achieved = r.Fired() && a.Err != nil && stillThere
	}},
	{"precheck-fail", 2, func(rt *c36RT) {
		// the leader's name check fails once
		rt.setLeader(rt.A())
		rt.flips.Store(0)
		r := rt.rule(rt.A(), "ActorExists", false, 1)
		r.Err = c36ErrRegistry
		cs := rt.burst(2+rt.rng.Intn(4), "")
		rt.wait(cs...)
		d := rt.spawn(rt.C(), "")
		rt.wait(d)
		rt.achieved = r.Fired()
	}},
	{"flip-between-check-and-publish", 3, func(rt *c36RT) {
		// leader A passes its name check and is held; the leader changes to B; a call placed
		// after the change is served by B; A then continues
		rt.setLeader(rt.A())
		rt.flips.Store(0)
		r, g := rt.gateRule(rt.A(), "ActorExists", true, 1)
		a := rt.spawn(rt.perm[rt.rng.Intn(3)], "")
		if !rt.arrived(g, a) {
			rt.note("gate after ActorExists on A not reached")
			return
		}
		rt.setLeader(rt.B())
		b := rt.spawn(rt.perm[1+rt.rng.Intn(2)], "")
		if !rt.wait(b) {
			return
		}
		bOK := b.Err == nil
		g.Release()
		rt.wait(a)
		rt.achieved = r.Fired() && bOK
	}},
	{"flip-after-members", 2, func(rt *c36RT) {
		// the leader changes right after a caller resolved the (old) leader from the member list
		rt.setLeader(rt.A())
		rt.flips.Store(0)
		caller := rt.C()
		var once sync.Once
		r := rt.rule(caller, "Members", true, 1)
		r.Do = func() { once.Do(func() { rt.setLeader(rt.B()) }) }
		cs := []*c36Call{rt.spawn(caller, "")}
		rt.until(func() bool { return r.Fired() })
		cs = append(cs, rt.burst(2+rt.rng.Intn(3), "")...)
		rt.wait(cs...)
		rt.achieved = r.Fired()
	}},
	{"flip-random", 3, func(rt *c36RT) {
		// leader flips at natural timing while calls from all nodes are in flight
		rt.setLeader(rt.A())
		rt.noisePM, rt.noiseMax = 500, 2*time.Millisecond
		rt.dwell(time.Duration(rt.rng.Intn(4)) * time.Millisecond)
		cs := rt.burst(3+rt.rng.Intn(5), "")
		nflips := 1 + rt.rng.Intn(3)
		for i := 0; i < nflips; i++ {
			time.Sleep(time.Duration(rt.rng.Intn(2500)) * time.Microsecond)
			rt.setLeader(rt.perm[rt.rng.Intn(3)])
		}
		cs = append(cs, rt.burst(1+rt.rng.Intn(3), "")...)
		rt.wait(cs...)
		rt.achieved = rt.successes(cs...) >= 1
	}},
	{"split-view", 2, func(rt *c36RT) {
		// membership views diverge: A still sees itself as leader while B already sees B
		rt.setLeader(rt.A())
		rt.cl.SetLeaderView(rt.B(), rt.B())
		rt.flips.Add(1)
		r, g := rt.gateRule(rt.A(), "ActorExists", true, 1)
		a := rt.spawn(rt.A(), "")
		if !rt.arrived(g, a) {
			rt.note("gate after ActorExists on A not reached")
			return
		}
		b := rt.spawn(rt.B(), "")
		if !rt.wait(b) {
			return
		}
		bOK := b.Err == nil
		g.Release()
		rt.wait(a)
		rt.cl.SetLeader(rt.A())
		rt.achieved = r.Fired() && bOK
	}},
}

// ---- running and judging a round ------------------------------------------------------------

type c36Finding struct {
	Sig    string
	Detail map[string]any
}

type c36Outcome struct {
	Scen      string
	Achieved  bool
	Stalled   string
	MaxLive   int
	Starts    int
	Stops     int
	Flips     int64
	Injected  int64
	GatesHit  int64
	Delays    int64
	Calls     []string
	CallOK    int
	CallErr   int
	RegOps    int
	RegNames  string // settled registry vs host: "", "agrees", "names-non-host", "no-record-for-host", "stale-record"
	Findings  []c36Finding
	Notes     []string
	Millis    int64
	LeakedDup bool
	HeldLate  int64
}

func c36Quiesce(cl *vfcCluster) bool {
	deadline := time.Now().Add(c36GateWD)
	stable := 0
	last := int64(-1)
	for {
		now := vfcNow()
		if cl.Store.InFlight() == 0 && now == last {
			stable++
			if stable >= 4 {
				return true
			}
		} else {
			stable = 0
		}
		last = now
		if time.Now().After(deadline) {
			return false
		}
		time.Sleep(2 * time.Millisecond)
	}
}

var c36RoundCounter atomic.Int64

func c36RunRound(cl *vfcCluster, mon *c36Mon, scen c36Scenario, seed int64) c36Outcome {
	began := time.Now()
	rng := rand.New(rand.NewSource(seed))
	name := fmt.Sprintf("c36s-%d-%d", time.Now().UnixNano()%1000000, c36RoundCounter.Add(1))
	rt := &c36RT{cl: cl, scen: scen.Name, name: name, rng: rng, perm: rng.Perm(3), nrng: rand.New(rand.NewSource(seed ^ 0x2545f491))}
	rt.st = mon.state(name)
	cl.Store.ResetLog()
	c36CurRound.Store(rt)

	scen.Run(rt)
	rt.releaseAll()
	rt.cmu.Lock()
	calls := append([]*c36Call(nil), rt.calls...)
	rt.cmu.Unlock()
	rt.wait(calls...)

	out := c36Outcome{Scen: scen.Name, Achieved: rt.achieved, Stalled: rt.stalled}
	settled := rt.stalled == "" && c36Quiesce(cl)

	st := rt.st
	st.mu.Lock()
	out.MaxLive, out.Starts, out.Stops = st.maxLive, st.starts, st.stops
	overlaps := append([]string(nil), st.overlaps...)
	sameOnly := st.sameNode && !st.crossNode
	st.mu.Unlock()
	out.Flips, out.Injected, out.GatesHit, out.Delays = rt.flips.Load(), rt.injected.Load(), rt.gatesHit.Load(), rt.delaysHit.Load()
	out.HeldLate = rt.heldLate.Load()
	ops := cl.Store.OpStrings(name)
	out.RegOps = len(ops)
	for _, c := range calls {
		if !c.Done() {
			out.Calls = append(out.Calls, fmt.Sprintf("n%d %s (still running)", c.Node, c.Role))
			continue
		}
		out.Calls = append(out.Calls, c.String())
		if c.Err != nil {
			out.CallErr++
		} else {
			out.CallOK++
		}
	}
	out.Notes = rt.notes

	// settled registry vs hosting node: evidence only (the statement is about the instance count)
	if settled {
		hs := st.holders()
		rec := cl.Store.Actor(name)
		owner := -1
		if rec != nil {
			for _, n := range cl.Nodes {
				if strings.Contains(rec.GetAddress(), fmt.Sprintf("@%s:%d/", n.Host, n.Port)) {
					owner = n.Idx
				}
			}
		}
		switch {
		case len(hs) == 1 && rec != nil && owner == hs[0]:
			out.RegNames = "agrees"
		case len(hs) == 1 && rec == nil:
			out.RegNames = "no-record-for-host"
		case len(hs) == 1:
			out.RegNames = "names-non-host"
		case len(hs) == 0 && rec != nil:
			out.RegNames = "stale-record"
		}
	}

	if len(overlaps) > 0 {
		sig := "singleton-overlap:" + scen.Name
		if sameOnly {
			sig = "singleton-overlap-same-node:" + scen.Name
		}
		out.Findings = append(out.Findings, c36Finding{Sig: sig, Detail: map[string]any{
			"overlaps": overlaps, "max_live": out.MaxLive, "events": st.eventStrings(), "registry_ops": ops,
			"calls": out.Calls, "logical_nodes_ABC": rt.perm, "seed": seed, "notes": rt.notes,
			"membership_reads": c36MemberOps(cl),
		}})
	}

	// clean up (not judged)
	c36CurRound.Store(nil)
	liveBefore, kills := st.liveNow(), 0
	for _, h := range st.holders() {
		ctx, cancel := context.WithTimeout(context.Background(), 30*time.Second)
		if err := cl.Nodes[h].Sys.Kill(ctx, name); err == nil {
			kills++
		}
		cancel()
	}
	want := liveBefore - kills
	if want < 0 {
		want = 0
	}
	deadline := time.Now().Add(10 * time.Second)
	for st.liveNow() > want && time.Now().Before(deadline) {
		time.Sleep(time.Millisecond)
	}
	if st.liveNow() > 0 {
		out.LeakedDup = true // an instance the system no longer knows by name (duplicate left unmanaged)
	}
	c36Quiesce(cl)
	cl.Store.mu.Lock()
	delete(cl.Store.actors, name)
	cl.Store.mu.Unlock()
	cl.SetLeader(0)
	mon.drop(name)
	out.Millis = time.Since(began).Milliseconds()
	return out
}

// c36MemberOps lists the Members reads of the round (who saw which leader when).
func c36MemberOps(cl *vfcCluster) []string {
	var out []string
	for _, o := range cl.Store.Ops() {
		if o.Op == "Members" {
			out = append(out, o.String())
		}
	}
	if len(out) > 60 {
		out = out[:60]
	}
	return out
}
