//go:build verif

package actor

import (
	"context"
	"errors"
	"fmt"
	"math/rand"
	"sort"
	"strings"
	"sync"
	"sync/atomic"
	"testing"
	"time"

	gerrors "github.com/tochemey/goakt/v4/errors"
	"github.com/tochemey/goakt/v4/internal/verifrt"
	"github.com/tochemey/goakt/v4/reentrancy"
	"github.com/tochemey/goakt/v4/supervisor"
)

// C16: every Request/RequestName/RequestGrain completes exactly once (reply, error,
// timeout or cancellation) and its continuation runs on the requester's turn; in
// StashNonReentrant mode no ordinary message is handled while a blocking request is
// outstanding and the held messages are handled afterwards in arrival order; the
// in-flight limit is never exceeded; the in-flight counters return to zero.
//
// All requests are issued from inside the requester's Receive (or a grain's
// OnReceive), so issue / completion / handling events are totally ordered on the
// requester's turn and the requester's own mirror counters are exact.

// ---- messages --------------------------------------------------------------------

type c16Ask struct {
	Rid    int64
	Behave string // prompt | late | never | twice | panic | gate
	Delay  time.Duration
	Gate   chan struct{}
}

type c16Ans struct {
	Rid int64
}

type c16Ord struct {
	Seq   int64
	Group int  // 0 = free traffic, >0 = hold episode number
	Late  bool // sent after the episode's release (may or may not be held)
}

type c16Spec struct {
	Rid         int64
	API         string // Request | RequestName | RequestGrain | RequestActor (grain requesters)
	Target      int
	Behave      string
	Delay       time.Duration
	Timeout     time.Duration // 0 = none
	Mode        string        // "" | allowall | stash (per-call override)
	CancelAfter time.Duration // <0 none, 0 = Cancel() inside the handler, >0 = from a foreign goroutine
	Gate        chan struct{}
	rec         *c16Rec
}

type c16Issue struct {
	Specs []*c16Spec
	// Toggle is executed in the same handler after the requests were issued (so
	// possibly while blocking requests are outstanding): "" | disable |
	// enable-allowall | enable-stash. In-flight requests keep their admitted mode.
	Toggle string
	done   chan struct{}
	once   sync.Once
}

func (c *c16Issue) finish() { c.once.Do(func() { close(c.done) }) }

// c16GrainOrd / c16GrainIssue wrap the same payloads for grain requesters (a grain
// receives plain messages through TellGrain).

// ---- ledger ----------------------------------------------------------------------

type c16Rec struct {
	spec        *c16Spec
	incarnation atomic.Int32
	issued      atomic.Bool // the Request call was made
	accepted    atomic.Bool // a RequestCall was returned
	rejected    atomic.Value
	blocking    atomic.Bool
	thens       atomic.Int32
	outcome     atomic.Value // string: reply | timeout | canceled | error:<text>
	call        RequestCall  // written on-turn before accepted.Store(true)
}

type c16Viol struct {
	Sig    string
	Detail map[string]any
}

type c16OrdEv struct {
	Seq   int64
	Group int
	Late  bool
}

type c16Ledger struct {
	recs         []*c16Rec
	mu           sync.Mutex
	viol         []c16Viol
	ordLog       []c16OrdEv
	ordHandled   []atomic.Int32
	incarnations atomic.Int32
	disturbing   atomic.Bool
	mon          *c16TurnMon
	maxInFlight  int
	knobs        string
	seed         int64
	// evidence
	outcomes      sync.Map // kind -> *atomic.Int64
	rejections    sync.Map
	maxOutstand   atomic.Int64
	contOnTurn    atomic.Int64
	heldWhileBlk  atomic.Int64 // ordinary/command messages observed to be deferred (handled after a blocking request completed)
	limitRejected atomic.Int64
}

func (l *c16Ledger) violation(sig string, d map[string]any) {
	d["knobs"] = l.knobs
	d["seed"] = l.seed
	l.mu.Lock()
	if len(l.viol) < 50 {
		l.viol = append(l.viol, c16Viol{Sig: sig, Detail: d})
	}
	l.mu.Unlock()
}

func c16Bump(m *sync.Map, k string) {
	v, ok := m.Load(k)
	if !ok {
		v, _ = m.LoadOrStore(k, &atomic.Int64{})
	}
	v.(*atomic.Int64).Add(1)
}

// ---- turn monitor (H1 hook) with goroutine identity ----------------------------------

type c16TurnMon struct {
	owners sync.Map // schedulable -> *atomic.Int64 (goroutine id of the turn in progress, 0 = none)
	turns  atomic.Int64
}

// hook tracks every schedulable from its first turn on: a requester's first turn can
// start (PostStart) before the harness learns its PID.
func (m *c16TurnMon) hook(s any, enter bool) {
	v, ok := m.owners.Load(s)
	if !ok {
		if !enter {
			return
		}
		v, _ = m.owners.LoadOrStore(s, &atomic.Int64{})
	}
	w := v.(*atomic.Int64)
	if enter {
		m.turns.Add(1)
		w.Store(verifrt.GoID())
		return
	}
	w.Store(0)
}

func (m *c16TurnMon) owner(s any) int64 {
	v, ok := m.owners.Load(s)
	if !ok {
		return -1
	}
	return v.(*atomic.Int64).Load()
}

// ---- responders ------------------------------------------------------------------

type c16Responder struct{}

func (a *c16Responder) PreStart(*Context) error { return nil }
func (a *c16Responder) PostStop(*Context) error { return nil }
func (a *c16Responder) Receive(ctx *ReceiveContext) {
	m, ok := ctx.Message().(*c16Ask)
	if !ok {
		return
	}
	if c16Behave(m) {
		ctx.Response(&c16Ans{Rid: m.Rid})
		if m.Behave == "twice" {
			ctx.Response(&c16Ans{Rid: m.Rid})
		}
	}
}

// c16Behave performs the responder-side behaviour and says whether to reply.
func c16Behave(m *c16Ask) bool {
	switch m.Behave {
	case "late":
		time.Sleep(m.Delay)
	case "never":
		return false
	case "panic":
		panic(errors.New("c16 injected responder panic"))
	case "gate":
		select {
		case <-m.Gate:
		case <-time.After(60 * time.Second):
		}
	}
	return true
}

type c16Grain struct{}

func (g *c16Grain) OnActivate(context.Context, *GrainProps) error   { return nil }
func (g *c16Grain) OnDeactivate(context.Context, *GrainProps) error { return nil }
func (g *c16Grain) OnReceive(ctx *GrainContext) {
	m, ok := ctx.Message().(*c16Ask)
	if !ok {
		ctx.Unhandled()
		return
	}
	if m.Behave == "panic" {
		m = &c16Ask{Rid: m.Rid, Behave: "never"}
	}
	if c16Behave(m) {
		ctx.Response(&c16Ans{Rid: m.Rid})
		if m.Behave == "twice" {
			ctx.Response(&c16Ans{Rid: m.Rid})
		}
	}
}

// ---- requester core (shared by the actor and the grain requester) -------------------

type c16Core struct {
	led *c16Ledger
	sch atomic.Value // the schedulable whose turn the continuations must run on
	// mirrors: logically on-turn state; atomics only so that a lifecycle disturbance
	// (restart re-running PreStart) cannot show up as a race of this harness
	inc         atomic.Int32
	outstanding atomic.Int64
	blocking    atomic.Int64
	deferred    atomic.Int64 // blocking requests completed since the last handled message
	mode        atomic.Value // current default request mode (string): off | allowall | stash
	toggles     atomic.Int64 // runtime Disable/EnableReentrancy calls made
	togglesBlk  atomic.Int64 // ... of which while a blocking request was outstanding
	// plain state: only touched from handlers and continuations; the race detector
	// reports a continuation that runs off the requester's turn
	plain int
}

func (a *c16Core) start() {
	a.inc.Store(a.led.incarnations.Add(1))
	a.outstanding.Store(0)
	a.blocking.Store(0)
}

// onMessage is called at the start of every ordinary (user) message.
func (a *c16Core) onMessage(kind string, detail string) {
	a.plain++
	if b := a.blocking.Load(); b > 0 && !a.led.disturbing.Load() {
		a.led.violation("ordinary-handled-while-blocking:"+kind, map[string]any{"message": detail, "blocking_requests_outstanding": b, "goroutine": verifrt.GoID()})
	}
}

type c16Requests interface {
	issue(spec *c16Spec, msg *c16Ask, opts []RequestOption) (RequestCall, error)
	toggle(enable bool, cfg *reentrancy.Reentrancy) error
}

func (a *c16Core) defaultMode() string {
	m, _ := a.mode.Load().(string)
	return m
}

// applyToggle retunes the default request policy from inside the handler.
func (a *c16Core) applyToggle(what string, rq c16Requests) {
	if what == "" {
		return
	}
	var err error
	newMode := "off"
	switch what {
	case "disable":
		err = rq.toggle(false, nil)
	case "enable-allowall":
		newMode = "allowall"
		err = rq.toggle(true, reentrancy.New(reentrancy.WithMode(reentrancy.AllowAll), reentrancy.WithMaxInFlight(a.led.maxInFlight)))
	case "enable-stash":
		newMode = "stash"
		err = rq.toggle(true, reentrancy.New(reentrancy.WithMode(reentrancy.StashNonReentrant), reentrancy.WithMaxInFlight(a.led.maxInFlight)))
	}
	if err != nil {
		a.led.violation("harness:toggle-failed", map[string]any{"toggle": what, "err": err.Error()})
		return
	}
	a.mode.Store(newMode)
	a.toggles.Add(1)
	if a.blocking.Load() > 0 {
		a.togglesBlk.Add(1)
	}
}

func (a *c16Core) handleIssue(cmd *c16Issue, rq c16Requests) {
	defer cmd.finish()
	defer a.applyToggle(cmd.Toggle, rq)
	led := a.led
	for _, sp := range cmd.Specs {
		rec := sp.rec
		// effective mode of this request: the per-call override, else the default
		// policy in force right now (it can be retuned at runtime)
		eff := sp.Mode
		if eff == "" {
			eff = a.defaultMode()
		}
		rec.blocking.Store(eff == "stash")
		var opts []RequestOption
		if sp.Timeout > 0 {
			opts = append(opts, WithRequestTimeout(sp.Timeout))
		}
		switch sp.Mode {
		case "allowall":
			opts = append(opts, WithReentrancyMode(reentrancy.AllowAll))
		case "stash":
			opts = append(opts, WithReentrancyMode(reentrancy.StashNonReentrant))
		}
		rec.incarnation.Store(a.inc.Load())
		rec.issued.Store(true)
		call, err := rq.issue(sp, &c16Ask{Rid: sp.Rid, Behave: sp.Behave, Delay: sp.Delay, Gate: sp.Gate}, opts)
		if call == nil {
			txt := "nil call without error"
			if err != nil {
				txt = err.Error()
			}
			rec.rejected.Store(txt)
			c16Bump(&led.rejections, txt)
			if errors.Is(err, gerrors.ErrReentrancyInFlightLimit) {
				led.limitRejected.Add(1)
			}
			continue
		}
		rec.call = call
		rec.accepted.Store(true)
		n := a.outstanding.Add(1)
		if n > led.maxOutstand.Load() {
			led.maxOutstand.Store(n)
		}
		if led.maxInFlight > 0 && n > int64(led.maxInFlight) && !led.disturbing.Load() {
			led.violation(fmt.Sprintf("in-flight-limit-exceeded:max=%d", led.maxInFlight), map[string]any{"outstanding_after_accept": n, "rid": sp.Rid, "api": sp.API})
		}
		if rec.blocking.Load() {
			a.blocking.Add(1)
		}
		call.Then(func(res any, err error) { a.onComplete(rec, res, err) })
		switch {
		case sp.CancelAfter == 0:
			_ = call.Cancel()
		case sp.CancelAfter > 0:
			time.AfterFunc(sp.CancelAfter, func() { _ = call.Cancel() })
		}
	}
}

func (a *c16Core) onComplete(rec *c16Rec, res any, err error) {
	led := a.led
	sp := rec.spec
	n := rec.thens.Add(1)
	kind := "reply"
	switch {
	case err == nil:
	case errors.Is(err, gerrors.ErrRequestTimeout):
		kind = "timeout"
	case errors.Is(err, gerrors.ErrRequestCanceled):
		kind = "canceled"
	default:
		kind = "error:" + err.Error()
	}
	prev, _ := rec.outcome.Load().(string)
	rec.outcome.Store(kind)
	c16Bump(&led.outcomes, strings.SplitN(kind, ":", 2)[0])
	if n > 1 {
		led.violation("continuation-ran-twice:"+sp.API, map[string]any{"rid": sp.Rid, "spec": c16SpecString(sp), "first_outcome": prev, "second_outcome": kind, "times": n, "stack": verifrt.Stack()})
	}
	// on the requester's turn: the goroutine running the continuation must be the one
	// that entered the requester's current turn
	me := verifrt.GoID()
	sch := a.sch.Load()
	if owner := led.mon.owner(sch); owner != me {
		led.violation("continuation-off-turn:"+strings.SplitN(kind, ":", 2)[0], map[string]any{"rid": sp.Rid, "spec": c16SpecString(sp), "outcome": kind, "continuation_goroutine": me, "turn_owner_goroutine": owner, "stack": verifrt.Stack()})
	} else {
		led.contOnTurn.Add(1)
	}
	a.plain++
	if rec.incarnation.Load() == a.inc.Load() {
		a.outstanding.Add(-1)
		if rec.blocking.Load() {
			a.blocking.Add(-1)
		}
	}
	if err == nil {
		if r, ok := res.(*c16Ans); !ok || r == nil || r.Rid != sp.Rid {
			led.violation("reply-mismatch:"+sp.API, map[string]any{"rid": sp.Rid, "spec": c16SpecString(sp), "got": fmt.Sprintf("%#v", res)})
		}
	}
}

func c16SpecString(sp *c16Spec) string {
	return fmt.Sprintf("rid=%d api=%s target=%d behave=%s delay=%s timeout=%s mode=%q cancelAfter=%s", sp.Rid, sp.API, sp.Target, sp.Behave, sp.Delay, sp.Timeout, sp.Mode, sp.CancelAfter)
}

func (a *c16Core) handleOrd(m *c16Ord) {
	a.onMessage("ordinary", fmt.Sprintf("seq=%d group=%d late=%v", m.Seq, m.Group, m.Late))
	led := a.led
	led.ordHandled[m.Seq].Add(1)
	led.mu.Lock()
	led.ordLog = append(led.ordLog, c16OrdEv{Seq: m.Seq, Group: m.Group, Late: m.Late})
	led.mu.Unlock()
}

// ---- actor requester ---------------------------------------------------------------

type c16Requester struct {
	core    c16Core
	targets []*PID
	names   []string
	grains  []*GrainIdentity
}

func (a *c16Requester) PreStart(*Context) error { a.core.start(); return nil }
func (a *c16Requester) PostStop(*Context) error { return nil }

type c16ActorIssuer struct {
	a   *c16Requester
	ctx *ReceiveContext
}

func (i c16ActorIssuer) issue(sp *c16Spec, msg *c16Ask, opts []RequestOption) (RequestCall, error) {
	a, ctx := i.a, i.ctx
	var call RequestCall
	switch sp.API {
	case "Request":
		call = ctx.Request(a.targets[sp.Target%len(a.targets)], msg, opts...)
	case "RequestName":
		call = ctx.RequestName(a.names[sp.Target%len(a.names)], msg, opts...)
	case "RequestGrain":
		call = ctx.RequestGrain(a.grains[sp.Target%len(a.grains)], msg, opts...)
	}
	err := ctx.getError()
	// the harness reads the rejection itself; keep supervision out of the picture
	ctx.err = nil
	return call, err
}

func (i c16ActorIssuer) toggle(enable bool, cfg *reentrancy.Reentrancy) error {
	if !enable {
		i.ctx.DisableReentrancy()
		return nil
	}
	return i.ctx.EnableReentrancy(cfg)
}

func (a *c16Requester) Receive(ctx *ReceiveContext) {
	switch m := ctx.Message().(type) {
	case *c16Ord:
		a.core.handleOrd(m)
	case *c16Issue:
		a.core.onMessage("command", fmt.Sprintf("issue of %d requests", len(m.Specs)))
		a.core.handleIssue(m, c16ActorIssuer{a: a, ctx: ctx})
	}
}

// ---- grain requester ----------------------------------------------------------------

type c16GrainRequester struct {
	core   *c16Core
	names  []string
	grains []*GrainIdentity
}

func (g *c16GrainRequester) OnActivate(context.Context, *GrainProps) error {
	g.core.start()
	return nil
}
func (g *c16GrainRequester) OnDeactivate(context.Context, *GrainProps) error { return nil }

type c16GrainIssuer struct {
	g   *c16GrainRequester
	ctx *GrainContext
}

func (i c16GrainIssuer) issue(sp *c16Spec, msg *c16Ask, opts []RequestOption) (RequestCall, error) {
	g, ctx := i.g, i.ctx
	var call RequestCall
	switch sp.API {
	case "RequestGrain":
		call = ctx.RequestGrain(g.grains[sp.Target%len(g.grains)], msg, opts...)
	default:
		call = ctx.RequestActor(g.names[sp.Target%len(g.names)], msg, opts...)
	}
	// grain requests never return nil: a failure known at call time is an already
	// completed call (completedRequestCall: no correlation id, no requester)
	if h, ok := call.(*requestHandle); ok && h != nil && h.state != nil && h.state.id == "" && h.state.requester == nil {
		h.state.mu.Lock()
		err := h.state.err
		h.state.mu.Unlock()
		if err == nil {
			err = errors.New("completed call without error")
		}
		return nil, err
	}
	return call, nil
}

func (i c16GrainIssuer) toggle(enable bool, cfg *reentrancy.Reentrancy) error {
	if !enable {
		i.ctx.DisableReentrancy()
		return nil
	}
	return i.ctx.EnableReentrancy(cfg)
}

func (g *c16GrainRequester) OnReceive(ctx *GrainContext) {
	switch m := ctx.Message().(type) {
	case *c16Ord:
		g.core.handleOrd(m)
		ctx.NoErr()
	case *c16Issue:
		g.core.onMessage("command", fmt.Sprintf("issue of %d requests", len(m.Specs)))
		g.core.handleIssue(m, c16GrainIssuer{g: g, ctx: ctx})
		ctx.NoErr()
	default:
		ctx.Unhandled()
	}
}

// ---- case -------------------------------------------------------------------------

type c16Knobs struct {
	Requester   string // actor | grain
	Mode        string // allowall | stash
	MaxInFlight int
	Rounds      int
	Disturb     string // none | restart | shutdown
	Noise       int
}

func (k c16Knobs) String() string {
	return fmt.Sprintf("requester=%s mode=%s max=%d rounds=%d disturb=%s noise=%d", k.Requester, k.Mode, k.MaxInFlight, k.Rounds, k.Disturb, k.Noise)
}

func c16GenKnobs(rng *rand.Rand) c16Knobs {
	k := c16Knobs{
		Requester:   []string{"actor", "actor", "actor", "grain"}[rng.Intn(4)],
		Mode:        []string{"allowall", "stash", "allowall", "stash", "off"}[rng.Intn(5)],
		MaxInFlight: []int{0, 1, 4, 4}[rng.Intn(4)],
		Rounds:      6 + rng.Intn(6),
		Disturb:     []string{"none", "none", "none", "toggle", "toggle", "restart", "restart", "shutdown"}[rng.Intn(8)],
		Noise:       rng.Intn(4),
	}
	if k.Requester == "grain" {
		// a grain configured Off has no request state at all (requests are rejected even
		// with a per-call override); its policy can still be retuned at runtime
		if k.Disturb != "toggle" {
			k.Disturb = "none"
		}
		if k.Mode == "off" {
			k.Mode = "allowall"
		}
	}
	if k.Disturb == "restart" && k.Noise == 0 {
		k.Noise = 1 + rng.Intn(3)
	}
	return k
}

type c16Obs struct {
	Issued, Accepted, Rejected, LimitRejected int64
	Outcomes                                  map[string]int64
	Rejections                                map[string]int64
	ContinuationsOnTurn                       int64
	Turns                                     int64
	Toggles, TogglesWhileBlocking             int64
	MaxOutstanding                            int64
	Episodes, EpisodesJudged                  int64
	HeldMessages                              int64
	UnheldOvertookHeld                        int64
	OrdSent, OrdHandled                       int64
	HotSites                                  []string
	Yields, Delays                            int64
	Viol                                      []c16Viol
	Inconclusive                              string
}

func c16RunCase(t *testing.T, k c16Knobs, seed int64) c16Obs {
	obs := c16Obs{Outcomes: map[string]int64{}, Rejections: map[string]int64{}}
	rng := rand.New(rand.NewSource(seed))
	mon := &c16TurnMon{}
	SetVerifTurnHook(mon.hook)
	defer SetVerifTurnHook(nil)

	sys := vfNewSystem(t)
	defer vfStop(sys)
	ctx := context.Background()

	const maxRecs, maxOrd = 4096, 4096
	led := &c16Ledger{recs: make([]*c16Rec, 0, maxRecs), ordHandled: make([]atomic.Int32, maxOrd), mon: mon, maxInFlight: k.MaxInFlight, knobs: k.String(), seed: seed}

	// responders
	var targets []*PID
	var names []string
	for i := 0; i < 4; i++ {
		name := fmt.Sprintf("resp%d", i)
		pid, err := sys.Spawn(ctx, name, &c16Responder{}, WithLongLived(),
			WithSupervisor(supervisor.NewSupervisor(supervisor.WithAnyErrorDirective(supervisor.ResumeDirective))))
		if err != nil {
			t.Fatalf("spawn responder: %v", err)
		}
		targets = append(targets, pid)
		names = append(names, name)
	}
	var grains []*GrainIdentity
	for i := 0; i < 2; i++ {
		id, err := sys.GrainIdentity(ctx, fmt.Sprintf("c16resp%d", i), func(context.Context) (Grain, error) { return &c16Grain{}, nil }, WithLongLivedGrain())
		if err != nil {
			t.Fatalf("grain identity: %v", err)
		}
		grains = append(grains, id)
	}

	mode := reentrancy.AllowAll
	switch k.Mode {
	case "stash":
		mode = reentrancy.StashNonReentrant
	case "off":
		// default policy Off: requests are admitted only with a per-call override
		mode = reentrancy.Off
	}
	rcfg := reentrancy.New(reentrancy.WithMode(mode), reentrancy.WithMaxInFlight(k.MaxInFlight))

	var core *c16Core
	var reqPID *PID
	var reqGrain *GrainIdentity
	var reqGrainPID *grainPID
	if k.Requester == "actor" {
		ra := &c16Requester{targets: targets, names: names, grains: grains}
		ra.core.led = led
		ra.core.mode.Store(k.Mode)
		core = &ra.core
		pid, err := sys.Spawn(ctx, "requester", ra, WithLongLived(), WithReentrancy(rcfg))
		if err != nil {
			t.Fatalf("spawn requester: %v", err)
		}
		reqPID = pid
		core.sch.Store(any(pid))
	} else {
		core = &c16Core{led: led}
		core.mode.Store(k.Mode)
		gr := &c16GrainRequester{core: core, names: names, grains: grains}
		id, err := sys.GrainIdentity(ctx, "c16requester", func(context.Context) (Grain, error) { return gr, nil }, WithLongLivedGrain(), WithGrainReentrancy(rcfg))
		if err != nil {
			t.Fatalf("grain requester: %v", err)
		}
		reqGrain = id
		gp, ok := sys.getGrains().Get(id.String())
		if !ok || gp == nil {
			t.Fatalf("grain requester process not found")
		}
		reqGrainPID = gp
		core.sch.Store(any(gp))
	}

	tell := func(m any) error {
		if reqPID != nil {
			return Tell(ctx, reqPID, m)
		}
		// TellGrain waits until the grain has handled the message; the driver must not
		// (a paused grain handles nothing). Enqueue exactly like TellGrain /
		// deliverTimerTick do and do not wait for the acknowledgement.
		if !reqGrainPID.isActive() {
			return gerrors.ErrDead
		}
		gc := getGrainContext()
		gc.build(ctx, reqGrainPID, sys, reqGrain, m, grainTell)
		reqGrainPID.receive(gc)
		return nil
	}

	if k.Noise > 0 {
		cands := c16ReqSites
		if k.Disturb == "restart" && len(c16DoneSites) > 0 && rng.Intn(4) != 0 {
			// a restart wipes the bookkeeping off-turn: stretch the completion path
			cands = c16DoneSites
		}
		if k.Requester == "grain" || len(cands) == 0 || rng.Intn(4) == 0 {
			cands = vfNoiseSites("actor/reentrancy.go", "actor/async_reply.go", "internal/pendingasks", "actor/pid.go", "actor/grain_pid.go", "actor/stash.go")
		}
		obs.HotSites = verifrt.StartNoise(verifrt.NoiseConfig{
			Seed: seed, GoschedPerMille: 20, HotSites: k.Noise,
			Candidates:  cands,
			HotPerMille: 400, MinDelay: 20 * time.Microsecond, MaxDelay: 2 * time.Millisecond, Budget: 200,
		})
	}

	newSpec := func() *c16Spec {
		sp := &c16Spec{Rid: int64(len(led.recs)), Target: rng.Intn(8), CancelAfter: -1}
		if k.Requester == "actor" {
			sp.API = []string{"Request", "Request", "RequestName", "RequestGrain"}[rng.Intn(4)]
		} else {
			sp.API = []string{"RequestGrain", "RequestActor"}[rng.Intn(2)]
		}
		sp.Behave = []string{"prompt", "prompt", "prompt", "late", "late", "never", "twice", "panic"}[rng.Intn(8)]
		if sp.Behave == "late" {
			sp.Delay = time.Duration(2+rng.Intn(50)) * time.Millisecond
		}
		if rng.Intn(10) < 7 {
			sp.Timeout = time.Duration(5+rng.Intn(46)) * time.Millisecond
		}
		switch rng.Intn(6) {
		case 0:
			sp.Mode = "allowall"
		case 1:
			sp.Mode = "stash"
		}
		if (k.Mode == "off" || k.Disturb == "toggle") && rng.Intn(4) != 0 {
			// the default policy is (or may currently be) Off: mostly per-call overrides
			sp.Mode = []string{"allowall", "stash"}[rng.Intn(2)]
		}
		switch r := rng.Intn(10); {
		case r == 0:
			sp.CancelAfter = 0
		case r < 4:
			sp.CancelAfter = time.Duration(1+rng.Intn(50)) * time.Millisecond
		}
		rec := &c16Rec{spec: sp}
		sp.rec = rec
		led.recs = append(led.recs, rec)
		return sp
	}
	var ordSeq int64
	var ordAccepted []int64
	sendOrd := func(group int, late bool) {
		if ordSeq >= maxOrd-1 {
			return
		}
		m := &c16Ord{Seq: ordSeq, Group: group, Late: late}
		ordSeq++
		if tell(m) == nil {
			ordAccepted = append(ordAccepted, m.Seq)
		}
	}
	drained := func() bool {
		for _, rec := range led.recs {
			if rec.accepted.Load() && rec.thens.Load() == 0 && rec.incarnation.Load() == core.inc.Load() {
				return false
			}
		}
		return true
	}
	// cancel whatever has neither a timeout nor completed: completion by cancellation
	cancelLeftExcept := func(keep *c16Rec) {
		for _, rec := range led.recs {
			// regardless of the incarnation: a request admitted while a restart was in
			// progress can survive the restart's reset and is still legitimately in flight
			if rec != keep && rec.accepted.Load() && rec.thens.Load() == 0 && rec.spec.Timeout == 0 {
				_ = rec.call.Cancel()
			}
		}
	}
	cancelLeft := func() { cancelLeftExcept(nil) }
	type episode struct {
		group    int
		rec      *c16Rec
		nHeld    int
		released bool
	}
	var episodes []*episode
	// restart cases: two or three restarts, each in the middle of a burst whose replies
	// are arriving (completions on the turn race the restart's off-turn bookkeeping)
	disturbRounds := map[int]bool{}
	if k.Disturb == "restart" {
		for n := 2 + rng.Intn(2); n > 0; n-- {
			disturbRounds[1+rng.Intn(k.Rounds-1)] = true
		}
	}
	restarted := false

	for round := 0; round < k.Rounds && len(led.recs) < maxRecs-64; round++ {
		episodeOdds := 5
		if k.Mode != "allowall" || k.Disturb == "toggle" {
			episodeOdds = 3
		}
		if rng.Intn(episodeOdds) == 0 && !disturbRounds[round] {
			// hold episode: a blocking request to a gated responder; every message sent
			// before the release is enqueued before the reply, hence held
			// first let everything outstanding finish (cancelling what has no timeout), so
			// that the gated request is the only blocking one and is admitted
			episodeReady := verifrt.WaitUntil(5*time.Second, func() bool { cancelLeft(); return drained() })
			if !episodeReady {
				continue
			}
			sp := newSpec()
			sp.API, sp.Behave, sp.Timeout, sp.Mode, sp.CancelAfter, sp.Delay = "Request", "gate", 0, "stash", -1, 0
			if k.Mode == "stash" && k.Disturb != "toggle" && rng.Intn(2) == 0 {
				sp.Mode = "" // blocking by the default policy
			}
			if k.Requester == "grain" {
				sp.API = "RequestActor"
			}
			sp.Gate = make(chan struct{})
			rec := sp.rec
			cmd := &c16Issue{Specs: []*c16Spec{sp}, done: make(chan struct{})}
			if k.Disturb == "toggle" {
				// retune the default policy in the same handler, i.e. while the gated
				// blocking request is outstanding: it must stay blocking
				cmd.Toggle = []string{"disable", "disable", "enable-allowall", "enable-stash", ""}[rng.Intn(5)]
			}
			ep := &episode{group: len(episodes) + 1, rec: rec}
			episodes = append(episodes, ep)
			if tell(cmd) != nil {
				close(sp.Gate)
				continue
			}
			// the command itself may be held behind a blocking request issued by an
			// earlier, still queued command: keep cancelling what cannot end by itself
			issued := verifrt.WaitUntil(6*time.Second, func() bool {
				select {
				case <-cmd.done:
					return true
				default:
				}
				cancelLeftExcept(rec)
				return false
			})
			if !issued {
				// not admitted in time (pacing only): no held group by construction
				close(sp.Gate)
				ep.released = true
				continue
			}
			ep.nHeld = 2 + rng.Intn(7)
			for i := 0; i < ep.nHeld; i++ {
				sendOrd(ep.group, false)
			}
			close(sp.Gate)
			ep.released = true
			for i := 0; i < 2; i++ {
				sendOrd(ep.group, true)
			}
			verifrt.WaitUntil(5*time.Second, func() bool {
				cancelLeftExcept(rec)
				return rec.thens.Load() > 0 || !rec.accepted.Load()
			})
			continue
		}
		// burst round
		ncmd := 1 + rng.Intn(2)
		if disturbRounds[round] {
			ncmd = 4
		}
		for c := 0; c < ncmd; c++ {
			cmd := &c16Issue{done: make(chan struct{})}
			for n := 1 + rng.Intn(8); n > 0; n-- {
				sp := newSpec()
				if disturbRounds[round] && rng.Intn(2) == 0 {
					sp.Behave, sp.Delay = "prompt", 0
				}
				cmd.Specs = append(cmd.Specs, sp)
			}
			if k.Disturb == "toggle" && rng.Intn(3) == 0 {
				cmd.Toggle = []string{"disable", "enable-allowall", "enable-stash"}[rng.Intn(3)]
			}
			for n := rng.Intn(3); n > 0; n-- {
				sendOrd(0, false)
			}
			_ = tell(cmd)
			for n := rng.Intn(3); n > 0; n-- {
				sendOrd(0, false)
			}
		}
		if disturbRounds[round] && reqPID != nil {
			time.Sleep(time.Duration(rng.Intn(3000)) * time.Microsecond)
			led.disturbing.Store(true)
			if err := reqPID.Restart(ctx); err != nil {
				obs.Inconclusive = "restart failed: " + err.Error()
				break
			}
			led.disturbing.Store(false)
			restarted = true
			continue
		}
		time.Sleep(time.Duration(rng.Intn(15000)) * time.Microsecond)
	}

	shutDown := false
	if k.Disturb == "shutdown" && reqPID != nil && obs.Inconclusive == "" {
		cmd := &c16Issue{done: make(chan struct{})}
		for n := 3 + rng.Intn(6); n > 0; n-- {
			cmd.Specs = append(cmd.Specs, newSpec())
		}
		_ = tell(cmd)
		time.Sleep(time.Duration(rng.Intn(8000)) * time.Microsecond)
		led.disturbing.Store(true)
		if err := reqPID.Shutdown(ctx); err != nil {
			obs.Inconclusive = "shutdown failed: " + err.Error()
		}
		shutDown = true
	}

	// ---- quiescence ------------------------------------------------------------------
	notQuiescent := false
	if !shutDown && obs.Inconclusive == "" {
		// commands may still be stashed / queued: wait for issue to settle, cancelling as we go
		deadline := time.Now().Add(40 * time.Second)
		for {
			cancelLeft()
			if drained() && c16MailboxQuiet(reqPID, reqGrainPID) {
				// one more look: a queued command may have issued new requests meanwhile
				cancelLeft()
				if drained() && c16MailboxQuiet(reqPID, reqGrainPID) {
					break
				}
			}
			if time.Now().After(deadline) {
				// not quiescent (commands still queued or stashed, e.g. on an overloaded
				// machine): judging counters now would charge requests that are only
				// being admitted; the never-completed predicate below still applies
				notQuiescent = true
				break
			}
			time.Sleep(500 * time.Microsecond)
		}
	}
	if k.Noise > 0 {
		obs.Yields, obs.Delays = verifrt.StopNoise()
	}
	for _, ep := range episodes {
		if !ep.released && ep.rec.spec.Gate != nil {
			close(ep.rec.spec.Gate)
		}
	}
	if obs.Inconclusive != "" {
		return obs
	}

	// ---- judgement --------------------------------------------------------------------
	finalInc := core.inc.Load()
	var never []*c16Rec
	for _, rec := range led.recs {
		if rec.issued.Load() {
			obs.Issued++
		}
		if rec.accepted.Load() {
			obs.Accepted++
			if rec.thens.Load() == 0 && !shutDown && rec.incarnation.Load() == finalInc {
				never = append(never, rec)
			}
		} else if rec.issued.Load() {
			obs.Rejected++
		}
	}
	if len(never) > 0 {
		quiet := c16MailboxQuiet(reqPID, reqGrainPID)
		running := reqPID == nil || reqPID.IsRunning()
		if quiet && running {
			// structural: the requester is idle with empty queues, every such request
			// has a timeout that elapsed long ago or was cancelled, yet no completion ran
			for i, rec := range never {
				if i >= 3 {
					break
				}
				why := "cancelled"
				if rec.spec.Timeout > 0 {
					why = "timeout"
				}
				led.violation("request-never-completed:"+rec.spec.API+":"+why, map[string]any{"rid": rec.spec.Rid, "spec": c16SpecString(rec.spec), "requester_restarted_before": restarted && rec.incarnation.Load() != 1, "never_completed_total": len(never)})
			}
		} else {
			obs.Inconclusive = fmt.Sprintf("%d requests not completed within 40s but the requester is not quiescent (quiet=%v running=%v)", len(never), quiet, running)
			return obs
		}
	}
	// counters return to zero
	var re *reentrancyState
	if reqPID != nil {
		re = reqPID.reentrancy.Load()
	} else {
		re = reqGrainPID.reentrancy.Load()
	}
	if re != nil && len(never) == 0 && notQuiescent {
		obs.Inconclusive = "requester not quiescent 40s after the last command: counters not judged"
		return obs
	}
	if re != nil && len(never) == 0 {
		// "return to zero": requests of an earlier incarnation that survived a restart
		// complete by their timeout (<= 50 ms) or by the cancellation above; give them
		// time (watchdog only: a counter that is still non-zero afterwards with the
		// requester idle and its queues empty is stuck, which is the violation)
		verifrt.WaitUntil(10*time.Second, func() bool {
			cancelLeft() // a command that was still queued may have issued requests without a timeout meanwhile
			return re.inFlightCount.Load() == 0 && re.blockingCount.Load() == 0 && re.requestStates.Len() == 0 && c16MailboxQuiet(reqPID, reqGrainPID)
		})
		inflight, blocking, states := re.inFlightCount.Load(), re.blockingCount.Load(), re.requestStates.Len()
		if inflight != 0 || blocking != 0 || states != 0 {
			var which []string
			if inflight != 0 {
				which = append(which, "inFlightCount")
			}
			if blocking != 0 {
				which = append(which, "blockingCount")
			}
			if states != 0 {
				which = append(which, "requestStates")
			}
			sig := "counters-not-zero:"
			if inflight < 0 || blocking < 0 {
				sig = "counters-negative:"
			}
			// which requests does the harness still know as accepted and not completed
			var open []string
			for _, rec := range led.recs {
				if rec.accepted.Load() && rec.thens.Load() == 0 {
					st := ""
					if h, ok := rec.call.(*requestHandle); ok && h != nil && h.state != nil {
						h.state.mu.Lock()
						st = fmt.Sprintf(" state{completed=%v cancelRequested=%v hasTimeout=%v}", h.state.completed, h.state.cancelRequested, h.state.stopTimeout != nil)
						h.state.mu.Unlock()
						if _, reg := re.requestStates.Get(h.state.id); reg {
							st += " STILL-REGISTERED"
						}
					}
					if len(open) < 8 {
						open = append(open, fmt.Sprintf("%s incarnation=%d (final=%d)%s", c16SpecString(rec.spec), rec.incarnation.Load(), finalInc, st))
					}
				}
			}
			led.violation(sig+strings.Join(which, "+"), map[string]any{"accepted_not_completed": open, "inFlightCount": inflight, "blockingCount": blocking, "requestStates": states, "after": k.Disturb, "accepted": obs.Accepted})
		}
	}
	// ordinary messages: handled exactly once when the requester was never disturbed
	for _, seq := range ordAccepted {
		obs.OrdSent++
		n := led.ordHandled[seq].Load()
		if n > 0 {
			obs.OrdHandled++
		}
		if n > 1 {
			led.violation("ordinary-handled-twice", map[string]any{"seq": seq, "times": n})
		}
		if n == 0 && k.Disturb == "none" && len(never) == 0 {
			stash := uint64(0)
			if reqPID != nil {
				stash = reqPID.StashSize()
			}
			led.violation("ordinary-message-not-handled", map[string]any{"seq": seq, "stash_size_at_quiescence": stash, "mode": k.Mode})
		}
	}
	// hold episodes: the held group is handled in arrival order
	led.mu.Lock()
	log := append([]c16OrdEv(nil), led.ordLog...)
	led.mu.Unlock()
	for _, ep := range episodes {
		obs.Episodes++
		if !ep.rec.accepted.Load() || (restarted && k.Disturb != "none") && ep.rec.incarnation.Load() != finalInc {
			continue
		}
		obs.EpisodesJudged++
		var held []int64
		lateFirst := int64(0)
		seenHeld := 0
		for _, ev := range log {
			if ev.Group != ep.group {
				continue
			}
			if ev.Late {
				if seenHeld < ep.nHeld {
					lateFirst++
				}
				continue
			}
			seenHeld++
			held = append(held, ev.Seq)
		}
		obs.HeldMessages += int64(len(held))
		obs.UnheldOvertookHeld += lateFirst
		if !sort.SliceIsSorted(held, func(i, j int) bool { return held[i] < held[j] }) {
			led.violation("held-messages-out-of-order", map[string]any{"episode": ep.group, "handled_order": held, "blocking_request": c16SpecString(ep.rec.spec)})
		}
	}
	led.outcomes.Range(func(key, v any) bool { obs.Outcomes[key.(string)] = v.(*atomic.Int64).Load(); return true })
	led.rejections.Range(func(key, v any) bool { obs.Rejections[key.(string)] = v.(*atomic.Int64).Load(); return true })
	obs.ContinuationsOnTurn = led.contOnTurn.Load()
	obs.Turns = mon.turns.Load()
	obs.Toggles, obs.TogglesWhileBlocking = core.toggles.Load(), core.togglesBlk.Load()
	obs.MaxOutstanding = led.maxOutstand.Load()
	obs.LimitRejected = led.limitRejected.Load()
	led.mu.Lock()
	obs.Viol = append(obs.Viol, led.viol...)
	led.mu.Unlock()
	return obs
}

// ---- site calibration: the yield sites only request traffic passes ---------------------

var (
	c16CalOnce   sync.Once
	c16ReqSites  []int // passed by request traffic, not by plain Tell traffic
	c16DoneSites []int // of those: passed when a request completes, not when it is admitted
)

func c16Hits() []int64 {
	out := make([]int64, verifrt.SiteCount)
	for i := range out {
		out[i] = verifrt.SiteHit(i)
	}
	return out
}

// c16Calibrate runs plain Tell traffic, then request traffic (replies, timeouts,
// cancellations, stash mode) through an actor requester and keeps the sites of the
// reentrancy code that only the second phase passed.
func c16Calibrate(t *testing.T) {
	c16CalOnce.Do(func() {
		sys := vfNewSystem(t)
		defer vfStop(sys)
		ctx := context.Background()
		mon := &c16TurnMon{}
		led := &c16Ledger{ordHandled: make([]atomic.Int32, 1024), mon: mon, knobs: "calibration"}
		resp, err := sys.Spawn(ctx, "resp0", &c16Responder{}, WithLongLived())
		if err != nil {
			t.Fatalf("spawn: %v", err)
		}
		ra := &c16Requester{targets: []*PID{resp}, names: []string{"resp0"}}
		ra.core.led = led
		ra.core.mode.Store("stash")
		pid, err := sys.Spawn(ctx, "requester", ra, WithLongLived(), WithReentrancy(reentrancy.New(reentrancy.WithMode(reentrancy.StashNonReentrant), reentrancy.WithMaxInFlight(4))))
		if err != nil {
			t.Fatalf("spawn: %v", err)
		}
		ra.core.sch.Store(any(pid))
		verifrt.StartNoise(verifrt.NoiseConfig{Seed: 1})
		h0 := c16Hits()
		for i := 0; i < 200; i++ {
			_ = Tell(ctx, pid, &c16Ord{Seq: int64(i)})
			_ = Tell(ctx, resp, &c16Ord{Seq: int64(i)})
		}
		verifrt.WaitUntil(10*time.Second, func() bool { return led.ordHandled[199].Load() > 0 })
		h1 := c16Hits()
		var recs []*c16Rec
		for i := 0; i < 12; i++ {
			cmd := &c16Issue{done: make(chan struct{})}
			for j := 0; j < 6; j++ {
				sp := &c16Spec{Rid: int64(i*6 + j), API: "Request", Behave: []string{"prompt", "prompt", "late", "never"}[j%4], Delay: 8 * time.Millisecond, Timeout: 5 * time.Millisecond, CancelAfter: -1}
				if j == 5 {
					sp.Mode, sp.CancelAfter = "allowall", 0
				}
				rec := &c16Rec{spec: sp}
				sp.rec = rec
				recs = append(recs, rec)
				cmd.Specs = append(cmd.Specs, sp)
			}
			_ = Tell(ctx, pid, cmd)
			_ = Tell(ctx, pid, &c16Ord{Seq: int64(300 + i)})
		}
		verifrt.WaitUntil(10*time.Second, func() bool {
			for _, rec := range recs {
				if rec.accepted.Load() && rec.thens.Load() == 0 {
					return false
				}
			}
			return led.ordHandled[311].Load() > 0
		})
		h2 := c16Hits()
		// phase 3: admit requests that cannot complete by themselves (registration
		// only), then phase 4: cancel them (completion / deregistration only)
		var pend []*c16Rec
		cmd := &c16Issue{done: make(chan struct{})}
		for j := 0; j < 4; j++ {
			sp := &c16Spec{Rid: int64(1000 + j), API: "Request", Behave: "never", Mode: "allowall", CancelAfter: -1}
			rec := &c16Rec{spec: sp}
			sp.rec = rec
			pend = append(pend, rec)
			cmd.Specs = append(cmd.Specs, sp)
		}
		_ = Tell(ctx, pid, cmd)
		select {
		case <-cmd.done:
		case <-time.After(10 * time.Second):
		}
		verifrt.WaitUntil(5*time.Second, func() bool { return c16MailboxQuiet(pid, nil) })
		h3 := c16Hits()
		for _, rec := range pend {
			if rec.accepted.Load() {
				_ = rec.call.Cancel()
			}
		}
		verifrt.WaitUntil(10*time.Second, func() bool {
			for _, rec := range pend {
				if rec.accepted.Load() && rec.thens.Load() == 0 {
					return false
				}
			}
			return true
		})
		h4 := c16Hits()
		verifrt.StopNoise()
		in := map[int]bool{}
		for _, s := range verifrt.SitesIn("actor/pid.go", "actor/reentrancy.go", "actor/async_reply.go", "actor/stash.go", "internal/pendingasks") {
			in[s] = true
		}
		for s := 0; s < verifrt.SiteCount; s++ {
			if in[s] && h2[s]-h1[s] > 0 && h1[s]-h0[s] == 0 {
				c16ReqSites = append(c16ReqSites, s)
				if h4[s]-h3[s] > 0 && h3[s]-h2[s] == 0 {
					c16DoneSites = append(c16DoneSites, s)
				}
			}
		}
	})
}

// c16MailboxQuiet: the requester is idle with nothing queued (structural part of the
// quiescence predicate).
func c16MailboxQuiet(pid *PID, gp *grainPID) bool {
	if pid != nil {
		if !pid.IsRunning() {
			return true
		}
		return pid.mailbox.IsEmpty() && pid.systemMailbox.IsEmpty() && pid.schedState.v.Load() == dispatchIdle
	}
	if gp != nil {
		return gp.mailbox.IsEmpty() && (gp.responses == nil || gp.responses.IsEmpty()) && gp.schedState.v.Load() == dispatchIdle
	}
	return true
}

func TestVerif_C16(t *testing.T) {
	r := verifrt.Start(t, "C16")
	defer r.Finish()
	r.Rule("case = one requester (actor, or grain) with default reentrancy mode in {AllowAll, StashNonReentrant, Off (actor only: requests admitted by per-call overrides)} and maxInFlight in {0,1,4} driven through 6-11 rounds: bursts of 1-8 Request/RequestName/RequestGrain(/RequestActor) issued from inside its handler to 4 actor + 2 grain responders that reply promptly / late (2-50 ms) / never / twice / panic, per-call timeouts 5-50 ms or none, per-call mode overrides, Cancel() inside the handler or from a foreign goroutine after 1-50 ms, ordinary messages interleaved; hold episodes (blocking request to a gated responder, 2-8 messages sent before the release = held by construction); 2-3 requester restarts mid-burst, shutdown mid-burst, or runtime DisableReentrancy/EnableReentrancy from the handler that just issued (possibly blocking) requests; 0-3 hot noise sites in reentrancy.go/pid.go/grain_pid.go/async_reply.go/stash.go; oracle = per-request continuation counter, goroutine identity of the continuation vs the goroutine that entered the requester's turn (runTurn hook), requester-side mirror of outstanding/blocking requests checked at every handled message and accept, order of held groups, audit of inFlightCount/blockingCount/requestStates at quiescence, race detector on plain requester state; non-trivial = >= 10 accepted requests and >= 2 kinds of outcome; distinct by knob tuple and seed")
	c16Calibrate(t)
	var names []string
	for _, s := range c16ReqSites {
		names = append(names, verifrt.SiteNames[s])
	}
	r.Note("request-only sites: %v", names)
	var dnames []string
	for _, s := range c16DoneSites {
		dnames = append(dnames, verifrt.SiteNames[s])
	}
	r.Note("completion-only sites: %v", dnames)
	r.Count("request_only_sites", int64(len(c16ReqSites)))
	rng := r.Rand(16)
	n := r.N(120, 4000)
	for i := 0; i < n; i++ {
		k := c16GenKnobs(rng)
		seed := rng.Int63()
		tc := time.Now()
		obs := c16RunCase(t, k, seed)
		if d := time.Since(tc); d > 2*time.Second {
			t.Logf("slow case %s: %s (episodes=%d accepted=%d)", k.String(), d, obs.Episodes, obs.Accepted)
		}
		r.Max("slowest_case_ms", time.Since(tc).Milliseconds())
		if obs.Inconclusive != "" {
			r.Inconclusive("%s (%s seed %d)", obs.Inconclusive, k.String(), seed)
			continue
		}
		r.Case(k.String()+"/"+verifrt.Hash64s(seed), obs.Accepted >= 10 && len(obs.Outcomes) >= 2)
		r.Count("requests_issued", obs.Issued)
		r.Count("requests_accepted", obs.Accepted)
		r.Count("requests_rejected", obs.Rejected)
		r.Count("rejected_by_in_flight_limit", obs.LimitRejected)
		for kind, c := range obs.Outcomes {
			r.Count("completed_"+kind, c)
		}
		r.Count("continuations_on_turn", obs.ContinuationsOnTurn)
		r.Count("requester_turns", obs.Turns)
		r.Count("runtime_policy_toggles", obs.Toggles)
		r.Count("runtime_policy_toggles_while_blocking", obs.TogglesWhileBlocking)
		r.Max("max_outstanding", obs.MaxOutstanding)
		r.Count("hold_episodes", obs.Episodes)
		r.Count("hold_episodes_judged", obs.EpisodesJudged)
		r.Count("held_messages_checked_for_order", obs.HeldMessages)
		r.Count("unheld_message_overtook_held_ones", obs.UnheldOvertookHeld)
		r.Count("ordinary_sent", obs.OrdSent)
		r.Count("ordinary_handled", obs.OrdHandled)
		r.Count("noise_delays_injected", obs.Delays)
		for _, v := range obs.Viol {
			r.Violation(v.Sig, v.Detail)
		}
		if i < 3 {
			r.Sample(map[string]any{"knobs": k.String(), "issued": obs.Issued, "accepted": obs.Accepted, "outcomes": obs.Outcomes, "rejections": obs.Rejections, "episodes": obs.Episodes, "held": obs.HeldMessages, "hot_sites": obs.HotSites})
		}
	}
}
