//go:build verif

package actor

import (
	"fmt"
	"math/rand"
	"runtime"
	"strings"
	"sync/atomic"
	"time"

	"github.com/tochemey/goakt/v4/internal/verifrt"
)

// C05 spill-wake scenario: every worker is parked, one externally pushed token
// fans out 256+x tokens through worker.reschedule from inside its turn. The
// hoarder's local ring takes 256, the rest spills into the global ring. The
// clause "no worker stays parked while work is queued and a worker is idle" then
// demands that a parked sibling is woken for the spilled items. Every token the
// hoarder runs afterwards waits until some token has been run by another worker
// (handlers may block); if that never happens the state is frozen: the hoarder is
// blocked in a turn, every sibling sits in cond.Wait, the global ring is non-empty
// and nobody is left who would signal.

type c05SpillCase struct {
	hoarder  atomic.Pointer[worker]
	otherRan atomic.Int64
	ran      atomic.Int64
	gaveUp   atomic.Bool
	release  atomic.Bool
}

type c05SpillToken struct {
	c      *c05SpillCase
	fanout []*c05SpillToken
	taken  atomic.Int32
}

func (k *c05SpillToken) runTurn(w *worker) {
	k.taken.Add(1)
	c := k.c
	if len(k.fanout) > 0 {
		c.hoarder.Store(w)
		for _, f := range k.fanout {
			w.reschedule(f)
		}
		return
	}
	if c.hoarder.Load() != w {
		c.otherRan.Add(1)
	} else if !c.release.Load() {
		// the hoarder waits for a sibling to show up (generous watchdog; the verdict
		// is taken by the driver from the frozen-state predicate, not from this wait)
		t0 := time.Now()
		for c.otherRan.Load() == 0 && !c.release.Load() {
			if time.Since(t0) > 60*time.Second {
				c.gaveUp.Store(true)
				break
			}
			time.Sleep(50 * time.Microsecond)
		}
	}
	c.ran.Add(1)
}

// c05CondWaiters counts goroutines that are blocked in cond.Wait inside
// parkAndTake at one stop-the-world snapshot (a signalled worker is runnable, not
// waiting, so it is not counted).
func c05CondWaiters() int {
	buf := make([]byte, 16<<20)
	n := runtime.Stack(buf, true)
	cnt := 0
	for _, g := range strings.Split(string(buf[:n]), "\n\n") {
		nl := strings.IndexByte(g, '\n')
		if nl < 0 {
			continue
		}
		if strings.Contains(g[:nl], "sync.Cond.Wait") && strings.Contains(g, ").parkAndTake(") {
			cnt++
		}
	}
	return cnt
}

func c05RunSpillWake(r *verifrt.Run, rng *rand.Rand, cases int) {
	for c := 0; c < cases; c++ {
		workers := []int{2, 3, 3, 8}[rng.Intn(4)]
		over := []int{1, 2, 17, 44, 300}[rng.Intn(5)]
		noise := rng.Intn(3)
		seed := rng.Int63()
		key := fmt.Sprintf("spill-wake workers=%d overflow=%d noise=%d", workers, over, noise)
		d := newDispatcher(workers, 8)
		rq := d.readyQueue
		var exited atomic.Int32
		for _, w := range d.workers {
			w := w
			go func() {
				w.run()
				exited.Add(1)
			}()
		}
		if !verifrt.WaitUntil(20*time.Second, func() bool { return rq.parkedCount() == workers }) {
			r.Inconclusive("C05 spill: workers did not park: %s", key)
			rq.close()
			continue
		}
		var hot []string
		if noise > 0 {
			hot = verifrt.StartNoise(verifrt.NoiseConfig{Seed: seed, GoschedPerMille: 30, HotSites: noise,
				Candidates: verifrt.SitesIn("ready_queue.go", "worker.go"), HotPerMille: 300,
				MinDelay: 10 * time.Microsecond, MaxDelay: 500 * time.Microsecond, Budget: 200})
		}
		sc := &c05SpillCase{}
		b := &c05SpillToken{c: sc}
		total := localQueueCap + over
		for i := 0; i < total; i++ {
			b.fanout = append(b.fanout, &c05SpillToken{c: sc})
		}
		d.schedule(b)
		frozen := ""
		t0 := time.Now()
		for sc.ran.Load() < int64(total) {
			if sc.otherRan.Load() == 0 && sc.hoarder.Load() != nil {
				// candidate frozen state, judged under the queue's own lock together with
				// a goroutine snapshot: all siblings really wait on the cond
				rq.parkMu.Lock()
				g, parked := rq.global.size, rq.parked
				waiters := 0
				if g > 0 && parked == workers-1 {
					waiters = c05CondWaiters()
				}
				rq.parkMu.Unlock()
				if g > 0 && parked == workers-1 && waiters == workers-1 && sc.otherRan.Load() == 0 {
					frozen = fmt.Sprintf("global ring holds %d spilled item(s) while all %d sibling workers are blocked in cond.Wait (parked=%d) and the only awake worker is inside a turn; nobody is left to signal", g, waiters, parked)
					break
				}
			}
			if time.Since(t0) > 90*time.Second || sc.gaveUp.Load() {
				r.Inconclusive("C05 spill watchdog: %s ran=%d of %d otherRan=%d global=%d parked=%d", key, sc.ran.Load(), total, sc.otherRan.Load(), rq.globalLen(), rq.parkedCount())
				break
			}
			time.Sleep(200 * time.Microsecond)
		}
		if noise > 0 {
			verifrt.StopNoise()
		}
		if frozen != "" {
			r.Violation("ready-queue-worker-parked-while-work-queued:spill", map[string]any{"case": key, "seed": seed, "frozen": frozen, "hot_sites": hot})
		}
		sc.release.Store(true)
		done := verifrt.WaitUntil(30*time.Second, func() bool { return sc.ran.Load() >= int64(total) })
		if done {
			for i, f := range b.fanout {
				if n := f.taken.Load(); n != 1 {
					r.Violation("ready-queue-spill-token-taken-not-once", map[string]any{"case": key, "seed": seed, "token": i, "taken": n})
					break
				}
			}
		} else if frozen == "" {
			r.Inconclusive("C05 spill: tokens not all run after release: %s ran=%d of %d", key, sc.ran.Load(), total)
		}
		rq.close()
		if !verifrt.WaitUntil(30*time.Second, func() bool { return int(exited.Load()) == workers }) {
			r.Violation("ready-queue-worker-not-exiting-after-close", map[string]any{"case": key, "exited": exited.Load(), "workers": workers})
		}
		r.Case(key+"/"+verifrt.Hash64s(seed), true)
		r.Count("spill_cases", 1)
		r.Count("spill_tokens_run_by_sibling_before_release", sc.otherRan.Load())
	}
}
