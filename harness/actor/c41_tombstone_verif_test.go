//go:build verif

package actor

import (
	"fmt"
	"math/rand"
	"strings"
	"testing"
	"time"

	"github.com/tochemey/goakt/v4/crdt"
	"github.com/tochemey/goakt/v4/internal/codec"
	"github.com/tochemey/goakt/v4/internal/ddata"
	"github.com/tochemey/goakt/v4/internal/internalpb"
	"github.com/tochemey/goakt/v4/internal/verifrt"
)

// C41: 2-3 real replicatorActors behind the harness network. A script mixes local updates,
// local deletes, delivery of the captured deltas and tombstones in arbitrary order (with
// duplicates, echoes, batches), digest -> full-state anti-entropy and prune ticks. Per
// replica the monitor keeps one bit: "holds a tombstone for the key" (set when the replica
// acknowledged a local Delete, or when a tombstone was delivered to it and a following round
// trip to the same actor returned). While the bit is set and the tombstone cannot have
// expired (harness-measured upper bound of the time since the first delete < TTL), the
// replica must expose nothing for the key (Get, own digest, full state sent to a peer,
// coordinated-read answer) and must not publish a delta for a later local update.

var c41Types = []string{"gcounter", "pncounter", "flag", "lww", "orset", "mvreg", "ormap"}

type c41Msg struct {
	ID     int
	Origin int
	OnKey  bool // about the deleted key (not the live side key)
	Delta  *internalpb.CRDTDelta
	Tomb   *internalpb.CRDTTombstone
	Sent   []int
}

type c41Spec struct {
	Typ   string
	N     int
	Steps int
	TTL   time.Duration
}

func (s c41Spec) String() string {
	return fmt.Sprintf("type=%s n=%d steps=%d ttl=%s", s.Typ, s.N, s.Steps, s.TTL)
}

type c41Case struct {
	spec c41Spec
	rng  *rand.Rand
	c    *c41Cluster
	key  crdt.Key // the key that gets deleted
	live crdt.Key // a key nobody deletes
	msgs []*c41Msg
	tomb []bool   // replica holds a tombstone (monitor bit)
	how  []string // how it got it
	log  []string
	opn  int

	firstDelete   time.Time // taken before the first Delete was sent
	lastDeleteAck time.Time // taken after the last Delete was acknowledged
	deletes       int

	judged      map[string]int // channel -> Gets judged under an active tombstone
	unjudged    int            // Gets not judged because the TTL may have elapsed
	rejected    int            // local updates at a tombstoned replica that published nothing
	fsWithKey   int            // full states carrying the deleted key delivered to a tombstoned replica
	tombsSent   int
	reaccepted  int
	notAccepted int
	violated    bool
}

func (k *c41Case) logf(format string, a ...any) { k.log = append(k.log, fmt.Sprintf(format, a...)) }

func c41KeyFor(typ, id string) crdt.Key {
	switch typ {
	case "gcounter":
		return crdt.GCounterKey(id)
	case "pncounter":
		return crdt.PNCounterKey(id)
	case "flag":
		return crdt.FlagKey(id)
	case "lww":
		return crdt.LWWRegisterKey(id)
	case "orset":
		return crdt.ORSetKey(id)
	case "mvreg":
		return crdt.MVRegisterKey(id)
	case "ormap":
		return crdt.ORMapKey(id)
	}
	panic("type " + typ)
}

// c41Update builds one mutation of the given type.
func c41Update(typ string, key crdt.Key, node string, n int) *crdt.Update {
	u := &crdt.Update{Key: key}
	switch typ {
	case "gcounter":
		u.Initial = crdt.NewGCounter()
		u.Modify = func(c crdt.ReplicatedData) crdt.ReplicatedData { return c.(*crdt.GCounter).Increment(node, 1) }
	case "pncounter":
		u.Initial = crdt.NewPNCounter()
		u.Modify = func(c crdt.ReplicatedData) crdt.ReplicatedData { return c.(*crdt.PNCounter).Increment(node, 2) }
	case "flag":
		u.Initial = crdt.NewFlag()
		u.Modify = func(c crdt.ReplicatedData) crdt.ReplicatedData { return c.(*crdt.Flag).Enable() }
	case "lww":
		u.Initial = crdt.NewLWWRegister()
		u.Modify = func(c crdt.ReplicatedData) crdt.ReplicatedData {
			return c.(*crdt.LWWRegister).Set(fmt.Sprintf("v%d", n), time.Unix(0, int64(1000+n)), node)
		}
	case "orset":
		u.Initial = crdt.NewORSet()
		u.Modify = func(c crdt.ReplicatedData) crdt.ReplicatedData {
			return c.(*crdt.ORSet).Add(node, fmt.Sprintf("e%d", n%4))
		}
	case "mvreg":
		u.Initial = crdt.NewMVRegister()
		u.Modify = func(c crdt.ReplicatedData) crdt.ReplicatedData {
			return c.(*crdt.MVRegister).Set(node, fmt.Sprintf("v%d", n))
		}
	case "ormap":
		u.Initial = crdt.NewORMap()
		u.Modify = func(c crdt.ReplicatedData) crdt.ReplicatedData {
			return c.(*crdt.ORMap).Set(node, fmt.Sprintf("f%d", n%3), crdt.NewGCounter().Increment(node, uint64(n+1)))
		}
	}
	return u
}

// mayHaveExpired: the only statement the harness can make about the tombstone clock is an
// upper bound of the elapsed time (every deletedAt is >= firstDelete). Evaluated after the
// observation it qualifies.
func (k *c41Case) mayHaveExpired() bool {
	return k.deletes > 0 && time.Since(k.firstDelete) >= k.spec.TTL
}

func (k *c41Case) violation(r *verifrt.Run, sig, what string, extra map[string]any) {
	k.violated = true
	d := map[string]any{"what": what, "spec": k.spec.String(), "script": strings.Join(k.log, " ; "), "tombstone_held": k.tomb, "tombstone_via": k.how}
	for a, b := range extra {
		d[a] = b
	}
	r.Violation(sig, d)
}

// judge reads the deleted key at replica i on every surface and applies the monitor.
// channel names what was last handed to the replica.
func (k *c41Case) judge(r *verifrt.Run, i int, channel string) {
	if k.violated || k.c.fail != "" {
		return
	}
	d, ok := k.c.get(i, k.key)
	if !ok || !k.tomb[i] {
		return
	}
	var dg *internalpb.CRDTDigest
	var rr *internalpb.CRDTReadResponse
	if k.rng.Intn(3) == 0 {
		dg = k.c.digest(i)
		if resp := k.c.ask(i, &internalpb.CRDTReadRequest{Key: codec.EncodeCRDTKey(k.key.ID(), k.key.Type()), FromNode: "c41-harness"}); resp != nil {
			rr, _ = resp.(*internalpb.CRDTReadResponse)
		}
		if k.c.fail != "" {
			return
		}
	}
	if k.mayHaveExpired() {
		k.unjudged++
		return
	}
	k.judged[channel]++
	if d != nil {
		k.violation(r, "value-exposed-after-tombstone:last="+channel, fmt.Sprintf("replica %d holds a tombstone (via %s) for key %q and Get returned %T after %s", i, k.how[i], k.key.ID(), d, channel), map[string]any{"replica": i})
		return
	}
	if dg != nil {
		for _, e := range dg.GetEntries() {
			if id, _, err := codec.DecodeCRDTKey(e.GetKey()); err == nil && id == k.key.ID() {
				k.violation(r, "key-in-digest-after-tombstone:last="+channel, fmt.Sprintf("replica %d lists the tombstoned key in its digest (version %d)", i, e.GetVersion()), map[string]any{"replica": i})
				return
			}
		}
	}
	if rr != nil && rr.GetData() != nil {
		k.violation(r, "value-in-read-response-after-tombstone:last="+channel, fmt.Sprintf("replica %d answered a coordinated read of the tombstoned key with data", i), map[string]any{"replica": i})
	}
}

func (k *c41Case) capture(i int, pubs []c41Captured) (deltasOnKey int) {
	for _, p := range pubs {
		m := &c41Msg{ID: len(k.msgs), Origin: i, Delta: p.Delta, Tomb: p.Tomb, Sent: make([]int, k.spec.N)}
		var pbKey *internalpb.CRDTKey
		if p.Delta != nil {
			pbKey = p.Delta.GetKey()
		} else if p.Tomb != nil {
			pbKey = p.Tomb.GetKey()
			k.tombsSent++
		} else {
			continue
		}
		id, _, _ := codec.DecodeCRDTKey(pbKey)
		m.OnKey = id == k.key.ID()
		if m.OnKey && p.Delta != nil {
			deltasOnKey++
		}
		k.msgs = append(k.msgs, m)
	}
	return deltasOnKey
}

func (k *c41Case) update(r *verifrt.Run, i int, onKey bool) {
	k.opn++
	key, typ := k.live, "gcounter"
	if onKey {
		key, typ = k.key, k.spec.Typ
	}
	held := k.tomb[i]
	pubs := k.c.command(i, c41Update(typ, key, fmt.Sprintf("n%d", i), k.opn))
	if k.c.fail != "" {
		return
	}
	n := k.capture(i, pubs)
	k.logf("upd@r%d(%s)", i, key.ID())
	if !onKey {
		return
	}
	if held && !k.mayHaveExpired() {
		if n > 0 {
			k.violation(r, "update-accepted-after-tombstone", fmt.Sprintf("replica %d holds a tombstone (via %s) and published a delta for a later local update of key %q", i, k.how[i], k.key.ID()), map[string]any{"replica": i})
			return
		}
		k.rejected++
	}
	k.judge(r, i, "update")
}

func (k *c41Case) delete(r *verifrt.Run, i int) {
	if k.deletes == 0 {
		k.firstDelete = time.Now()
	}
	k.deletes++
	pubs := k.c.command(i, &crdt.Delete{Key: k.key})
	if k.c.fail != "" {
		return
	}
	k.lastDeleteAck = time.Now()
	k.capture(i, pubs)
	if !k.tomb[i] {
		k.tomb[i], k.how[i] = true, "local delete"
	}
	k.logf("del@r%d", i)
	k.judge(r, i, "delete")
}

func (k *c41Case) deliver(r *verifrt.Run, idx, j int, what string) {
	m := k.msgs[idx]
	channel := ""
	switch {
	case m.Tomb != nil:
		if k.rng.Intn(5) == 0 {
			k.c.tell(j, &internalpb.CRDTDeltaBatch{Tombstones: []*internalpb.CRDTTombstone{c41Wire(m.Tomb)}, SentAtNanos: time.Now().UnixNano()})
			channel = "tombstone-batch"
		} else {
			k.c.tell(j, c41Wire(m.Tomb))
			channel = "tombstone"
		}
	default:
		switch x := k.rng.Intn(10); {
		case x == 0:
			data, err := ddata.DecodeCRDT(c41Wire(m.Delta).GetData(), ddata.NewCRDTValueSerializer())
			keyID, dt, kerr := codec.DecodeCRDTKey(m.Delta.GetKey())
			if err != nil || kerr != nil {
				k.c.fail = fmt.Sprintf("harness decode of a captured delta failed: %v %v", err, kerr)
				return
			}
			k.c.tell(j, &crdtDelta{KeyID: keyID, DataType: dt, Delta: data, Origin: m.Delta.GetOriginNode()})
			channel = "delta-direct"
		case x <= 2:
			k.c.tell(j, &internalpb.CRDTDeltaBatch{Deltas: []*internalpb.CRDTDelta{c41Wire(m.Delta)}, SentAtNanos: time.Now().UnixNano()})
			channel = "delta-batch"
		default:
			k.c.tell(j, c41Wire(m.Delta))
			channel = "delta"
		}
	}
	// the Get inside judge is the round trip that confirms handling
	m.Sent[j]++
	k.logf("%s m%d(%s from r%d)->r%d", what, m.ID, channel, m.Origin, j)
	if m.Tomb != nil && m.OnKey && !k.tomb[j] {
		if _, ok := k.c.get(j, k.key); !ok {
			return
		}
		if j != m.Origin {
			k.tomb[j], k.how[j] = true, "tombstone from r"+fmt.Sprint(m.Origin)
		}
	}
	if !m.OnKey {
		channel = "other-key"
	}
	k.judge(r, j, channel)
}

// pull: replica i's digest (own or empty) to j; j's full state back to i.
func (k *c41Case) pull(r *verifrt.Run, i, j int, empty bool) {
	dg := &internalpb.CRDTDigest{}
	if !empty {
		if dg = k.c.digest(i); dg == nil {
			return
		}
	}
	heldJ := k.tomb[j]
	fs := k.c.fullStateFor(j, dg, k.key)
	if k.c.fail != "" {
		return
	}
	has := false
	for _, e := range fs.GetEntries() {
		if id, _, err := codec.DecodeCRDTKey(e.GetKey()); err == nil && id == k.key.ID() {
			has = true
		}
	}
	k.logf("pull r%d<-r%d(%s)%s", i, j, map[bool]string{true: "empty digest", false: "own digest"}[empty], map[bool]string{true: "[carries key]", false: ""}[has])
	if has && heldJ && !k.mayHaveExpired() {
		k.violation(r, "tombstoned-key-in-full-state", fmt.Sprintf("replica %d holds a tombstone (via %s) and sent a full-state entry for key %q", j, k.how[j], k.key.ID()), map[string]any{"replica": j})
		return
	}
	if fs == nil {
		return
	}
	k.c.tell(i, c41Wire(fs))
	if has {
		if k.tomb[i] {
			k.fsWithKey++
		}
		k.judge(r, i, "fullstate")
	} else {
		k.judge(r, i, "other-key")
	}
}

func (k *c41Case) step(r *verifrt.Run) {
	n := k.spec.N
	switch x := k.rng.Intn(100); {
	case x < 22:
		k.update(r, k.rng.Intn(n), k.rng.Intn(5) != 0)
	case x < 30:
		k.delete(r, k.rng.Intn(n))
	case x < 65:
		// an undelivered message to a random target, any order
		var cand [][2]int
		for idx, m := range k.msgs {
			for j := 0; j < n; j++ {
				if j != m.Origin && m.Sent[j] == 0 {
					cand = append(cand, [2]int{idx, j})
				}
			}
		}
		if len(cand) > 0 {
			c := cand[k.rng.Intn(len(cand))]
			k.deliver(r, c[0], c[1], "dlv")
		}
	case x < 73:
		if len(k.msgs) > 0 {
			idx := k.rng.Intn(len(k.msgs))
			j := k.rng.Intn(n)
			what := "dup"
			if j == k.msgs[idx].Origin {
				what = "echo"
			}
			k.deliver(r, idx, j, what)
		}
	case x < 87:
		i := k.rng.Intn(n)
		j := (i + 1 + k.rng.Intn(n-1)) % n
		k.pull(r, i, j, k.rng.Intn(3) != 0)
	case x < 93:
		i := k.rng.Intn(n)
		k.c.tell(i, &pruneTick{})
		k.logf("prune@r%d", i)
		k.judge(r, i, "prune")
	default:
		k.judge(r, k.rng.Intn(n), "get")
	}
}

// expire: lower-bound wait until every tombstone of the case has certainly outlived the TTL,
// then prune; from here the monitor demands nothing. Counts whether updates are accepted again.
func (k *c41Case) expire() {
	if k.deletes == 0 || k.spec.TTL > 5*time.Second {
		return
	}
	for time.Since(k.lastDeleteAck) <= k.spec.TTL+20*time.Millisecond {
		time.Sleep(10 * time.Millisecond)
	}
	for i := 0; i < k.spec.N && k.c.fail == ""; i++ {
		k.c.tell(i, &pruneTick{})
		k.opn++
		k.capture(i, k.c.command(i, c41Update(k.spec.Typ, k.key, fmt.Sprintf("n%d", i), k.opn)))
		if d, ok := k.c.get(i, k.key); ok && d != nil {
			k.reaccepted++
		} else if ok {
			k.notAccepted++
		}
	}
	k.logf("expired+pruned")
}

func c41RunCase(t *testing.T, r *verifrt.Run, w *c41World, spec c41Spec, seed int64) *c41Case {
	k := &c41Case{spec: spec, rng: rand.New(rand.NewSource(seed)), judged: map[string]int{}}
	k.key, k.live = c41KeyFor(spec.Typ, "doomed"), crdt.GCounterKey("live")
	k.tomb, k.how = make([]bool, spec.N), make([]string, spec.N)
	cfg := crdt.NewConfig(crdt.WithAntiEntropyInterval(0), crdt.WithPruneInterval(0), crdt.WithTombstoneTTL(spec.TTL))
	k.c = c41NewCluster(t, w, spec.N, cfg)
	defer k.c.stop()
	// let the key exist on some replicas first, so that deletes publish tombstones
	for i := 0; i < spec.N && k.c.fail == ""; i++ {
		if k.rng.Intn(4) != 0 {
			k.update(r, i, true)
		}
	}
	for s := 0; s < spec.Steps && k.c.fail == "" && !k.violated; s++ {
		k.step(r)
	}
	for i := 0; i < spec.N && !k.violated; i++ {
		k.judge(r, i, "get")
	}
	if !k.violated && k.c.fail == "" {
		k.expire()
	}
	return k
}

func TestVerif_C41(t *testing.T) {
	r := verifrt.Start(t, "C41")
	defer r.Finish()
	r.Rule("case = (CRDT type of 7, 2-3 real replicatorActors, 10-40 generated steps: local update / local delete / delivery of a captured delta or tombstone to any replica in any order incl. duplicates, echoes, *crdtDelta and CRDTDeltaBatch paths / digest->full-state pull with own or empty digest / prune tick / read; tombstone TTL 1000h, or 400ms in ~4% of cases for the expiry path); monitor bit per replica set by an acknowledged local Delete or by a delivered tombstone confirmed by a round trip; while set and the harness-measured time since the first delete is < TTL: Get, digest, full state to peers and coordinated-read answers expose nothing for the key and a local update publishes no delta; non-trivial = some replica holding a tombstone was afterwards handed a local update, a delta or a full-state entry for the key and judged; distinct by script text. Plus re-delete cases (TTL 600ms): delete (T0), 270ms later delete again on the same/another replica (T1, T2), tombstones to the peers in any order with duplicates; when T0 certainly expired, prune + local update + old delta + full state on every replica; a replica's obligation lasts until (latest harness stamp taken BEFORE a delete it performed or whose tombstone it was handed) + TTL, a Get counts only if the stamp taken AFTER it is earlier than that minus 25ms; non-trivial = a replica knowing >=2 tombstones was challenged inside that window")
	r.Assume("mailbox FIFO between the harness's Tell and its following Ask to the same replicator (the round trip confirms that the tombstone was handled)")
	r.Assume("every tombstone's deletedAt is not earlier than the harness clock read before the first Delete was sent (same machine clock)")
	w := c41NewWorld(t)
	defer w.close()
	rng := r.Rand(1)
	n := r.N(1000, 100000)
	for i := 0; i < n; i++ {
		spec := c41Spec{Typ: c41Types[rng.Intn(len(c41Types))], N: 2 + rng.Intn(2), Steps: 10 + rng.Intn(31), TTL: 1000 * time.Hour}
		if rng.Intn(25) == 0 {
			spec.TTL = 400 * time.Millisecond
		}
		seed := rng.Int63()
		k := c41RunCase(t, r, w, spec, seed)
		if k.c.fail != "" {
			r.Inconclusive("case %d (%s seed %d): %s; script: %s", i, spec, seed, k.c.fail, strings.Join(k.log, " ; "))
			continue
		}
		challenged := k.judged["update"] + k.judged["delta"] + k.judged["delta-direct"] + k.judged["delta-batch"] + k.judged["fullstate"]
		r.Case(spec.String()+"|"+strings.Join(k.log, ";"), challenged > 0)
		for ch, c := range k.judged {
			r.Count("judged_after_"+ch, int64(c))
		}
		r.Count("gets_not_judged_ttl_may_have_elapsed", int64(k.unjudged))
		r.Count("local_updates_rejected_under_tombstone", int64(k.rejected))
		r.Count("full_states_with_key_to_tombstoned_replica", int64(k.fsWithKey))
		r.Count("deletes", int64(k.deletes))
		r.Count("tombstones_published", int64(k.tombsSent))
		r.Count("after_expiry_reaccepted", int64(k.reaccepted))
		r.Count("after_expiry_not_accepted", int64(k.notAccepted))
		held := 0
		for _, h := range k.tomb {
			if h {
				held++
			}
		}
		r.Count("replicas_that_held_a_tombstone", int64(held))
		if i < 4 {
			r.Sample(map[string]any{"spec": spec.String(), "script": strings.Join(k.log, " ; "), "judged": k.judged})
		}
	}
	c41RunRedeletes(t, r)
	w.net.mu.Lock()
	unknown := append([]string(nil), w.net.unknown...)
	w.net.mu.Unlock()
	if len(unknown) > 0 {
		r.Note("network actor saw unexpected messages: %v", unknown)
	}
}
