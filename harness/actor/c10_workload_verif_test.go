//go:build verif

package actor

import (
	"context"
	"errors"
	"fmt"
	"math/rand"
	"runtime"
	"sort"
	"sync"
	"sync/atomic"
	"testing"
	"time"

	"github.com/tochemey/goakt/v4/internal/verifrt"
	"github.com/tochemey/goakt/v4/passivation"
	"github.com/tochemey/goakt/v4/supervisor"
)

// C10 workload: one watchee, 1-8 watchers (parent, siblings, unrelated actors)
// that Watch / UnWatch / re-Watch it from their own turn or from outside, one
// termination path, and a per-(watcher, watchee path) Terminated counter. Every
// Watch/UnWatch execution and the termination are intervals on one global
// sequence, so each watcher's obligation is decided from the order of intervals.

type c10Cmd struct {
	Cmd    string // watch | unwatch | panic | shutdown-self
	Target *PID
	Done   chan struct{}
	op     *c10WatchOp
}

type c10WatchOp struct {
	Watcher string
	Kind    string // watch | unwatch | restart
	Mode    string // turn | external
	Start   int64
	End     int64
}

type c10Log struct {
	seq atomic.Int64
	mu  sync.Mutex
	ops []*c10WatchOp
}

func (l *c10Log) record(op *c10WatchOp) {
	l.mu.Lock()
	l.ops = append(l.ops, op)
	l.mu.Unlock()
}

type c10Actor struct {
	log       *c10Log
	name      string
	mu        sync.Mutex
	got       map[string][]int64 // Terminated received: actor path -> sequence numbers of receipt
	postStops atomic.Int64
	preStarts atomic.Int64
}

func (a *c10Actor) PreStart(*Context) error { a.preStarts.Add(1); return nil }
func (a *c10Actor) PostStop(*Context) error { a.postStops.Add(1); return nil }

func (a *c10Actor) Receive(ctx *ReceiveContext) {
	switch m := ctx.Message().(type) {
	case *Terminated:
		s := a.log.seq.Add(1)
		a.mu.Lock()
		if a.got == nil {
			a.got = map[string][]int64{}
		}
		p := m.ActorPath().String()
		a.got[p] = append(a.got[p], s)
		a.mu.Unlock()
	case *c10Cmd:
		switch m.Cmd {
		case "watch":
			m.op.Start = a.log.seq.Add(1)
			ctx.Watch(m.Target)
			m.op.End = a.log.seq.Add(1)
			a.log.record(m.op)
			close(m.Done)
		case "unwatch":
			m.op.Start = a.log.seq.Add(1)
			ctx.UnWatch(m.Target)
			m.op.End = a.log.seq.Add(1)
			a.log.record(m.op)
			close(m.Done)
		case "panic":
			panic(errors.New("c10 injected failure"))
		case "shutdown-self":
			ctx.Shutdown()
		}
	}
}

func (a *c10Actor) count(path string) (int, []int64) {
	a.mu.Lock()
	defer a.mu.Unlock()
	return len(a.got[path]), append([]int64{}, a.got[path]...)
}

type c10Knobs struct {
	Path     string // poisonpill | kill | stop-by-parent | parent-stop | supervisor-stop | passivation | self-shutdown | restart-then-kill
	TopLevel bool
	Watchers int
	OpsEach  int
	Racing   int  // watchers whose operations run concurrently with the termination
	WRestart bool // one settled watcher is restarted before the termination
	Procs    int
	Noise    int
}

func (k c10Knobs) String() string {
	return fmt.Sprintf("path=%s top=%v watchers=%d ops=%d racing=%d wrestart=%v procs=%d noise=%d", k.Path, k.TopLevel, k.Watchers, k.OpsEach, k.Racing, k.WRestart, k.Procs, k.Noise)
}

var c10Paths = []string{"poisonpill", "kill", "stop-by-parent", "parent-stop", "supervisor-stop", "passivation", "self-shutdown", "restart-then-kill"}

func c10GenKnobs(rng *rand.Rand, i int) c10Knobs {
	k := c10Knobs{
		Path:     c10Paths[i%len(c10Paths)],
		TopLevel: rng.Intn(3) == 0,
		Watchers: 1 + rng.Intn(8),
		OpsEach:  1 + rng.Intn(4),
		WRestart: rng.Intn(5) == 0,
		Procs:    []int{2, 4, 8, 16}[rng.Intn(4)],
		Noise:    rng.Intn(3),
	}
	k.Racing = rng.Intn(k.Watchers + 1)
	switch k.Path {
	case "stop-by-parent", "parent-stop", "supervisor-stop":
		k.TopLevel = false
	}
	return k
}

type c10Watcher struct {
	name      string
	relation  string // parent | sibling | unrelated
	act       *c10Actor
	pid       *PID
	racing    bool
	restarted bool
}

type c10Finding struct {
	Sig    string
	Detail string
}

type c10Obs struct {
	Knobs      c10Knobs
	Findings   []c10Finding
	Watchers   int
	Exact1     int
	Exact0     int
	Open       int
	OpsOverlap int // watch/unwatch executions that overlapped a termination window
	Terminated int
	Watchdog   string
	Skipped    string
	HotSites   []string
	Delays     int64
	Script     []string
}

type c10Window struct{ Begin, End int64 }

func c10RunCase(t *testing.T, k c10Knobs, seed int64) (obs c10Obs) {
	obs = c10Obs{Knobs: k}
	rng := rand.New(rand.NewSource(seed))
	prev := runtime.GOMAXPROCS(k.Procs)
	defer runtime.GOMAXPROCS(prev)
	sys := vfNewSystem(t)
	defer vfStop(sys)
	ctx := context.Background()
	lg := &c10Log{}

	parentAct := &c10Actor{log: lg, name: "parent"}
	parent, err := sys.Spawn(ctx, "parent", parentAct, WithLongLived())
	if err != nil {
		t.Fatalf("spawn parent: %v", err)
	}
	weeAct := &c10Actor{log: lg, name: "watchee"}
	var wopts []SpawnOption
	if k.Path == "passivation" {
		wopts = append(wopts, WithPassivationStrategy(passivation.NewTimeBasedStrategy(60*time.Millisecond)))
	} else {
		wopts = append(wopts, WithLongLived())
	}
	if k.Path == "supervisor-stop" {
		wopts = append(wopts, WithSupervisor(supervisor.NewSupervisor(supervisor.WithAnyErrorDirective(supervisor.StopDirective))))
	}
	var wee *PID
	if k.TopLevel {
		wee, err = sys.Spawn(ctx, "watchee", weeAct, wopts...)
	} else {
		wee, err = parent.SpawnChild(ctx, "watchee", weeAct, wopts...)
	}
	if err != nil {
		t.Fatalf("spawn watchee: %v", err)
	}
	weePath := wee.Path().String()

	var watchers []*c10Watcher
	for i := 0; i < k.Watchers; i++ {
		w := &c10Watcher{}
		switch {
		case i == 0 && !k.TopLevel && rng.Intn(2) == 0 && k.Path != "parent-stop":
			w.name, w.relation, w.act, w.pid = "parent", "parent", parentAct, parent
		case rng.Intn(2) == 0:
			w.name, w.relation = fmt.Sprintf("sib%d", i), "sibling"
			w.act = &c10Actor{log: lg, name: w.name}
			w.pid, err = parent.SpawnChild(ctx, w.name, w.act, WithLongLived())
		default:
			w.name, w.relation = fmt.Sprintf("unrel%d", i), "unrelated"
			w.act = &c10Actor{log: lg, name: w.name}
			w.pid, err = sys.Spawn(ctx, w.name, w.act, WithLongLived())
		}
		if err != nil {
			t.Fatalf("spawn watcher: %v", err)
		}
		w.racing = i >= k.Watchers-k.Racing
		watchers = append(watchers, w)
	}
	// with parent-stop the siblings die with the parent: only unrelated watchers are judged there

	// one Watch/UnWatch execution
	exec := func(w *c10Watcher, kind string, r *rand.Rand) {
		mode := "external"
		if r.Intn(2) == 0 {
			mode = "turn"
		}
		op := &c10WatchOp{Watcher: w.name, Kind: kind, Mode: mode}
		if mode == "turn" {
			done := make(chan struct{})
			if err := Tell(ctx, w.pid, &c10Cmd{Cmd: kind, Target: wee, Done: done, op: op}); err != nil {
				return // watcher gone (parent-stop): nothing executed
			}
			select {
			case <-done:
			case <-time.After(20 * time.Second):
				// not executed (the watcher was stopped with the message queued); never recorded
			}
			return
		}
		op.Start = lg.seq.Add(1)
		if kind == "watch" {
			w.pid.Watch(wee)
		} else {
			w.pid.UnWatch(wee)
		}
		op.End = lg.seq.Add(1)
		lg.record(op)
	}
	script := func(w *c10Watcher, n int, r *rand.Rand) {
		kind := "watch"
		for i := 0; i < n; i++ {
			if i > 0 && r.Intn(4) != 0 {
				if kind == "watch" {
					kind = "unwatch"
				} else {
					kind = "watch"
				}
			}
			exec(w, kind, r)
		}
	}

	if k.Noise > 0 {
		obs.HotSites = verifrt.StartNoise(verifrt.NoiseConfig{
			Seed: seed, GoschedPerMille: 20, HotSites: k.Noise,
			Candidates:  vfNoiseSites("actor/pid.go", "pid_tree.go", "death_watch.go"),
			HotPerMille: 500, MinDelay: 20 * time.Microsecond, MaxDelay: 1200 * time.Microsecond, Budget: 60,
		})
	}

	// registeredAfterRestart waits for the death watch to drain and reports whether pid is still in the
	// tree: the death watch may delete the node of an actor that was restarted meanwhile (C09's verdict)
	registeredAfterRestart := func(pid *PID) bool {
		dw := sys.getDeathWatch()
		streak := 0
		verifrt.WaitUntil(20*time.Second, func() bool {
			if dw.mailbox.IsEmpty() && dw.systemMailbox.IsEmpty() && dw.schedState.v.Load() == dispatchIdle {
				streak++
			} else {
				streak = 0
			}
			if streak < 4 {
				time.Sleep(200 * time.Microsecond)
			}
			return streak >= 4
		})
		n, reg := sys.tree().node(pid.ID())
		return reg && n.value() == pid
	}

	// phase A: settled watchers run their whole script; optionally one of them is restarted
	for wi, w := range watchers {
		if !w.racing {
			script(w, k.OpsEach, rand.New(rand.NewSource(seed+int64(wi)*31)))
		}
	}
	if k.WRestart {
		for _, w := range watchers {
			if !w.racing && w.relation != "parent" {
				op := &c10WatchOp{Watcher: w.name, Kind: "restart", Mode: "external", Start: lg.seq.Add(1)}
				if err := w.pid.Restart(ctx); err != nil {
					t.Fatalf("watcher restart: %v", err)
				}
				op.End = lg.seq.Add(1)
				lg.record(op)
				w.restarted = true
				if !registeredAfterRestart(w.pid) {
					obs.Skipped = "a restarted watcher is not registered in the tree after Restart returned (owned by C09)"
					if k.Noise > 0 {
						_, obs.Delays = verifrt.StopNoise()
					}
					return obs
				}
				if rng.Intn(2) == 0 {
					exec(w, "watch", rng)
				}
				break
			}
		}
	}

	// phase B: the termination, with the racing watchers' scripts running concurrently
	var windows []c10Window
	terminate := func(path string) bool {
		before := weeAct.postStops.Load()
		var win c10Window
		win.Begin = lg.seq.Add(1)
		if path == "passivation" {
			// the manager may already have stopped the idle watchee while the settled scripts
			// ran: then every execution counts as overlapping the termination
			if weeAct.postStops.Load() > 0 {
				win.Begin = 0
			}
			before = 0
		}
		var err error
		switch path {
		case "poisonpill":
			err = Tell(ctx, wee, &PoisonPill{})
		case "kill":
			err = sys.Kill(ctx, "watchee")
		case "stop-by-parent":
			err = parent.Stop(ctx, wee)
		case "parent-stop":
			err = sys.Kill(ctx, "parent")
		case "supervisor-stop":
			err = Tell(ctx, wee, &c10Cmd{Cmd: "panic"})
		case "self-shutdown":
			err = Tell(ctx, wee, &c10Cmd{Cmd: "shutdown-self"})
		case "passivation":
			// the passivation manager stops the idle watchee by itself
		case "restart":
			err = wee.Restart(ctx)
		}
		if err != nil {
			obs.Watchdog = fmt.Sprintf("termination path %s could not be issued: %v", path, err)
			return false
		}
		if !verifrt.WaitUntil(30*time.Second, func() bool { return weeAct.postStops.Load() > before }) {
			obs.Watchdog = fmt.Sprintf("no PostStop of the watchee within 30s after %s", path)
			return false
		}
		// Shutdown and passivation hold stopLocker until freeWatchers is done: taking it is a barrier
		wee.stopLocker.Lock()
		wee.stopLocker.Unlock() //nolint
		win.End = lg.seq.Add(1)
		windows = append(windows, win)
		return true
	}

	var wg sync.WaitGroup
	startRace := make(chan struct{})
	for wi, w := range watchers {
		if w.racing {
			wg.Add(1)
			go func(wi int, w *c10Watcher) {
				defer wg.Done()
				r := rand.New(rand.NewSource(seed + int64(wi)*131))
				<-startRace
				if k.Path == "passivation" {
					// aim at the idle deadline of the watchee
					time.Sleep(time.Duration(50+r.Intn(14)) * time.Millisecond)
				}
				for i := 0; i < r.Intn(4); i++ {
					runtime.Gosched()
				}
				script(w, k.OpsEach, r)
			}(wi, w)
		}
	}
	close(startRace)
	ok := true
	if k.Path == "restart-then-kill" {
		ok = terminate("restart")
		wg.Wait()
		if ok {
			// The death watch handles the old incarnation's Terminated asynchronously and may delete
			// the node of the already restarted watchee (C09 reports that as live-actor-not-registered).
			// Such a watchee cannot be watched or killed by name any more: the case is left to C09.
			if !registeredAfterRestart(wee) {
				obs.Skipped = "the restarted watchee is not registered in the tree after Restart returned (owned by C09)"
				if k.Noise > 0 {
					_, obs.Delays = verifrt.StopNoise()
				}
				return obs
			}
		}
		if ok {
			// some watchers watch the new incarnation
			for wi, w := range watchers {
				if rng.Intn(2) == 0 {
					exec(w, "watch", rand.New(rand.NewSource(seed+int64(wi))))
				}
			}
			ok = terminate("kill")
		}
	} else {
		ok = terminate(k.Path)
		wg.Wait()
	}

	// quiescence: every watcher has drained its mailbox
	verifrt.WaitUntil(20*time.Second, func() bool {
		for _, w := range watchers {
			if w.pid.IsRunning() && !(w.pid.mailbox.IsEmpty() && w.pid.systemMailbox.IsEmpty() && w.pid.schedState.v.Load() == dispatchIdle) {
				return false
			}
		}
		return true
	})
	time.Sleep(500 * time.Microsecond)
	verifrt.WaitUntil(20*time.Second, func() bool {
		for _, w := range watchers {
			if w.pid.IsRunning() && !(w.pid.mailbox.IsEmpty() && w.pid.systemMailbox.IsEmpty() && w.pid.schedState.v.Load() == dispatchIdle) {
				return false
			}
		}
		return true
	})
	if k.Noise > 0 {
		_, obs.Delays = verifrt.StopNoise()
	}
	if !ok {
		return obs
	}

	// judgement
	lg.mu.Lock()
	ops := append([]*c10WatchOp{}, lg.ops...)
	lg.mu.Unlock()
	sort.Slice(ops, func(i, j int) bool { return ops[i].Start < ops[j].Start })
	for _, op := range ops {
		obs.Script = append(obs.Script, fmt.Sprintf("%s %s(%s)[#%d..#%d]", op.Watcher, op.Kind, op.Mode, op.Start, op.End))
	}
	for i, w := range windows {
		obs.Script = append(obs.Script, fmt.Sprintf("termination %d window [#%d..#%d]", i+1, w.Begin, w.End))
	}
	obs.Watchers = len(watchers)
	for _, w := range watchers {
		got, at := w.act.count(weePath)
		obs.Terminated += got
		if !w.pid.IsRunning() {
			// "every watcher that is still running": a stopped watcher (parent-stop takes the siblings down) is only held to "never more than one per termination"
			if got > len(windows) {
				obs.Findings = append(obs.Findings, c10Finding{Sig: fmt.Sprintf("terminated-count:got=%d:max=%d:%s:%s:stopped-watcher", got, len(windows), k.Path, w.relation), Detail: fmt.Sprintf("watcher %s received %d Terminated(%s) at %v for %d termination(s)", w.name, got, weePath, at, len(windows))})
			}
			continue
		}
		lo, hi := 0, 0 // allowed range of the total
		desc := ""
		watching := false                  // state established by executions that ended before the current point
		implicit := w.relation == "parent" // the tree registers a parent as watcher of its child at spawn
		unknown := false
		idx := 0
		for wi, win := range windows {
			overlap := false
			for ; idx < len(ops); idx++ {
				op := ops[idx]
				if op.Start > win.End {
					break
				}
				if op.Watcher != w.name {
					continue
				}
				if op.End < win.Begin {
					switch op.Kind {
					case "watch":
						watching, unknown, implicit = true, false, false
					case "unwatch":
						watching, unknown, implicit = false, false, false
					case "restart":
						// the restart drops the watcher's watches; whether that counts as "did not unwatch" is left open
						unknown = true
					}
					continue
				}
				overlap = true
				obs.OpsOverlap++
			}
			switch {
			case overlap || unknown || implicit:
				hi++
				desc += fmt.Sprintf("t%d:0or1 ", wi+1)
			case watching:
				lo++
				hi++
				desc += fmt.Sprintf("t%d:1 ", wi+1)
			default:
				desc += fmt.Sprintf("t%d:0 ", wi+1)
			}
			// a termination consumes the watch (freeWatchers unwatches after telling); an overlapping execution leaves the state open
			if overlap {
				unknown = true
			} else {
				watching, implicit = false, false
				if wi == 0 && len(windows) > 1 && w.relation == "parent" {
					implicit = true // the restart re-attaches the child under its parent
				}
			}
		}
		switch {
		case lo == hi && lo >= 1:
			obs.Exact1++
		case lo == hi:
			obs.Exact0++
		default:
			obs.Open++
		}
		if got < lo || got > hi {
			want := fmt.Sprintf("%d", lo)
			if lo != hi {
				want = fmt.Sprintf("%d..%d", lo, hi)
			}
			obs.Findings = append(obs.Findings, c10Finding{
				Sig:    fmt.Sprintf("terminated-count:got=%d:want=%s:%s:%s", got, want, k.Path, w.relation),
				Detail: fmt.Sprintf("watcher %s (%s, restarted=%v) received %d Terminated(%s) at %v; obligation per termination: %s", w.name, w.relation, w.restarted, got, weePath, at, desc),
			})
		}
		// nothing else may arrive: a watcher here never watches anything but the watchee (a parent also hears of its other children)
		w.act.mu.Lock()
		for p, l := range w.act.got {
			if p != weePath && w.relation != "parent" {
				obs.Findings = append(obs.Findings, c10Finding{Sig: "terminated-unexpected:" + k.Path + ":" + w.relation, Detail: fmt.Sprintf("watcher %s received %d Terminated(%s) although it never watched that actor", w.name, len(l), p)})
			}
		}
		w.act.mu.Unlock()
	}
	return obs
}
