//go:build verif

package actor

import (
	"context"
	"fmt"
	"hash/fnv"
	"math/rand"
	nethttp "net/http"
	"sort"
	"strconv"
	"strings"
	"sync"
	"sync/atomic"
	"testing"
	"time"

	"github.com/tochemey/goakt/v4/internal/verifrt"
	"github.com/tochemey/goakt/v4/remote"
	"github.com/tochemey/goakt/v4/test/data/testpb"
)

// C29, actor-system layer. A harness ContextPropagator injects, from the caller's
// context, the header set that the message text names (token + 0-20 extra headers
// with boundary sizes, or nothing at all), and on the receiving node stores every
// header it is handed in the handler's context. The receiving actor recomputes the
// expected header set from the message text and compares it with what its context
// carries: tell (coalesced), ask, batch tell and batch ask, 2-16 concurrent callers.

type c29CallerKey struct{}
type c29RestoredKey struct{}

type c29Prop struct{ injects, extracts atomic.Int64 }

func (p *c29Prop) Inject(ctx context.Context, headers nethttp.Header) error {
	p.injects.Add(1)
	if h, ok := ctx.Value(c29CallerKey{}).(map[string]string); ok {
		for k, v := range h {
			headers.Set(k, v)
		}
	}
	return nil
}

func (p *c29Prop) Extract(ctx context.Context, headers nethttp.Header) (context.Context, error) {
	p.extracts.Add(1)
	got := make(map[string]string, len(headers))
	for k, v := range headers {
		if len(v) > 0 {
			got[k] = v[0]
		} else {
			got[k] = "<no value>"
		}
	}
	return context.WithValue(ctx, c29RestoredKey{}, got), nil
}

var c29Sizes = []int{0, 1, 7, 255, 256, 1024, 4096}

// c29Headers is the header set named by a message: spec = "none" or "<nExtra>.<sizeIndex>".
func c29Headers(tag string, caller, seq int, spec string) map[string]string {
	if spec == "none" {
		return nil
	}
	h := map[string]string{"X-Verif": "tok-" + tag + "-" + strconv.Itoa(caller) + "-" + strconv.Itoa(seq)}
	if spec == "big" { // the largest value the ask path's 16-bit length prefix can express
		h["X-E0"] = c29Value(caller, seq, 0, 65535)
		return h
	}
	if strings.HasPrefix(spec, "over.") { // one value of exactly the named size
		size, _ := strconv.Atoi(spec[5:])
		h["X-E0"] = c29Value(caller, seq, 0, size)
		return h
	}
	var nExtra, sizeIdx int
	fmt.Sscanf(spec, "%d.%d", &nExtra, &sizeIdx)
	for i := 0; i < nExtra; i++ {
		size := c29Sizes[(sizeIdx+i)%len(c29Sizes)]
		if size > 4096 && i > 0 {
			size = 4096 // at most one very large value per message
		}
		h["X-E"+strconv.Itoa(i)] = c29Value(caller, seq, i, size)
	}
	return h
}

func c29Value(caller, seq, i, size int) string {
	if size == 0 {
		return ""
	}
	var sb strings.Builder
	sb.Grow(size + 8)
	seed := fmt.Sprintf("%d.%d.%d:", caller, seq, i)
	for sb.Len() < size {
		sb.WriteString(seed)
		sb.WriteString("é~") // a two-byte rune and punctuation
	}
	// cut at a rune boundary not above size
	s := sb.String()
	for size > 0 && size < len(s) && (s[size]&0xC0) == 0x80 {
		size--
	}
	if size < len(s) {
		s = s[:size]
	}
	return s
}

func c29Own(k string) bool { return k == "X-Verif" || strings.HasPrefix(k, "X-E") }

func c29Digest(h map[string]string) string {
	keys := make([]string, 0, len(h))
	for k := range h {
		if c29Own(k) {
			keys = append(keys, k)
		}
	}
	sort.Strings(keys)
	var sb strings.Builder
	for _, k := range keys {
		f := fnv.New32a()
		f.Write([]byte(h[k]))
		v := h[k]
		if len(v) > 24 {
			v = v[:24] + "..."
		}
		fmt.Fprintf(&sb, "%s=(%dB,%08x,%q) ", k, len(h[k]), f.Sum32(), v)
	}
	return sb.String()
}

type c29Ledger struct {
	tag      string
	handled  atomic.Int64
	bad      atomic.Int64
	inherit  atomic.Int64 // a header-less message saw somebody's headers
	mu       sync.Mutex
	wit      []string
	garbage  atomic.Int64
	withHdrs atomic.Int64
}

type c29Sink struct{ led *c29Ledger }

func (c29Sink) PreStart(*Context) error { return nil }
func (c29Sink) PostStop(*Context) error { return nil }

func (s c29Sink) Receive(ctx *ReceiveContext) {
	m, ok := ctx.Message().(*testpb.TestLog)
	if !ok {
		return
	}
	led := s.led
	// text = tag|op|caller|seq|spec
	p := strings.Split(m.GetText(), "|")
	if len(p) != 5 || p[0] != led.tag {
		led.garbage.Add(1)
		return
	}
	caller, _ := strconv.Atoi(p[2])
	seq, _ := strconv.Atoi(p[3])
	want := c29Headers(led.tag, caller, seq, p[4])
	got, _ := ctx.Context().Value(c29RestoredKey{}).(map[string]string)
	same := true
	for k, v := range want {
		if gv, ok := got[k]; !ok || gv != v {
			same = false
		}
	}
	for k := range got {
		if c29Own(k) {
			if _, ok := want[k]; !ok {
				same = false
			}
		}
	}
	if len(want) > 0 {
		led.withHdrs.Add(1)
	}
	if !same {
		led.bad.Add(1)
		if len(want) == 0 {
			led.inherit.Add(1)
		}
		led.mu.Lock()
		if len(led.wit) < 6 {
			led.wit = append(led.wit, fmt.Sprintf("message %q: injected [%s] restored [%s]", m.GetText(), c29Digest(want), c29Digest(got)))
		}
		led.mu.Unlock()
	}
	led.handled.Add(1)
	if p[1] == "a" || p[1] == "B" {
		ctx.Response(&testpb.Reply{Content: m.GetText()})
	}
}

type c29Script struct {
	Callers  int
	PerCall  int
	Targets  int
	NonePct  int // share of header-less operations
	MaxExtra int
}

func (s c29Script) String() string {
	return fmt.Sprintf("callers=%d n=%d targets=%d none%%=%d maxExtra=%d", s.Callers, s.PerCall, s.Targets, s.NonePct, s.MaxExtra)
}

type c29Obs struct {
	Handled, Bad, Inherit, WithHeaders int64
	Tells, Asks, BatchTells, BatchAsks int64
	AskErrors, DeadLettered            int64
	Frames                             int64
	Wit                                []string
	DeadLetterReasons                  map[string]int
	Nontrivial                         bool
	Inconclusive                       string
}

func c29RunCase(e *c27Env, s c29Script, seed int64) (obs c29Obs) {
	t := e.t
	bg := context.Background()
	a, b := e.nodes()
	e.cases++
	tag := "h" + strconv.Itoa(e.cases)
	led := &c29Ledger{tag: tag}
	sinks := make([]*PID, s.Targets)
	remotes := make([]*PID, s.Targets)
	for i := range sinks {
		pid, err := b.Sys.Spawn(bg, fmt.Sprintf("c29sink-%s-%d", tag, i), c29Sink{led: led})
		if err != nil {
			t.Fatalf("c29: spawn: %v", err)
		}
		sinks[i] = pid
		remotes[i] = newRemotePID(pid.getAddress(), a.Sys.getRemoting())
	}
	defer func() {
		for _, p := range sinks {
			_ = p.Shutdown(bg)
		}
	}()
	b.Proxy.Arm(nil)
	frames0 := b.Proxy.ReqFwd.Load()
	from := a.Sys.NoSender()
	// a coalesced batch that fails as a whole (e.g. it exceeds the peer's frame limit) is
	// dead-lettered on A; those tells never reach a handler and are not expected there
	dls := c27CollectDeadLetters(t, a.Sys)
	defer dls.Close()
	var expected, tells, asks, btells, basks, askErrs atomic.Int64
	var wg sync.WaitGroup
	for c := 0; c < s.Callers; c++ {
		wg.Add(1)
		go func(c int) {
			defer wg.Done()
			rng := rand.New(rand.NewSource(seed ^ int64(c+1)*15485863))
			for seq := 0; seq < s.PerCall; seq++ {
				spec := "none"
				if rng.Intn(100) >= s.NonePct {
					spec = strconv.Itoa(rng.Intn(s.MaxExtra+1)) + "." + strconv.Itoa(rng.Intn(len(c29Sizes)))
					if rng.Intn(100) < 3 {
						spec = "big"
					}
				}
				ctx := bg
				if h := c29Headers(tag, c, seq, spec); h != nil {
					ctx = context.WithValue(bg, c29CallerKey{}, h)
				}
				target := remotes[rng.Intn(len(remotes))]
				text := func(op string) string { return tag + "|" + op + "|" + strconv.Itoa(c) + "|" + strconv.Itoa(seq) + "|" + spec }
				switch op := rng.Intn(10); {
				case op < 6: // coalesced tell
					if err := from.Tell(ctx, target, &testpb.TestLog{Text: text("t")}); err == nil {
						expected.Add(1)
						tells.Add(1)
					}
				case op < 8: // ask
					asks.Add(1)
					if _, err := from.Ask(ctx, target, &testpb.TestLog{Text: text("a")}, 20*time.Second); err != nil {
						askErrs.Add(1)
					} else {
						expected.Add(1)
					}
				case op < 9: // batch tell: one context for the whole call
					n := 1 + rng.Intn(5)
					msgs := make([]any, n)
					for i := range msgs {
						msgs[i] = &testpb.TestLog{Text: text("b")}
					}
					if err := from.BatchTell(ctx, target, msgs...); err == nil {
						expected.Add(int64(n))
						btells.Add(1)
					}
				default: // batch ask
					n := 1 + rng.Intn(5)
					msgs := make([]any, n)
					for i := range msgs {
						msgs[i] = &testpb.TestLog{Text: text("B")}
					}
					basks.Add(1)
					if ch, err := from.BatchAsk(ctx, target, msgs, 20*time.Second); err != nil {
						askErrs.Add(1)
					} else {
						for range ch {
						}
						expected.Add(int64(n))
					}
				}
			}
		}(c)
	}
	wg.Wait()
	if !verifrt.WaitUntil(90*time.Second, func() bool { return led.handled.Load()+dls.Total() >= expected.Load() }) {
		obs.Inconclusive = fmt.Sprintf("only %d handled + %d dead-lettered of %d accepted operations within 90s over a fault-free proxy", led.handled.Load(), dls.Total(), expected.Load())
	}
	obs.DeadLettered = dls.Total()
	obs.DeadLetterReasons = dls.Reasons()
	obs.Handled, obs.Bad, obs.Inherit, obs.WithHeaders = led.handled.Load(), led.bad.Load(), led.inherit.Load(), led.withHdrs.Load()
	obs.Tells, obs.Asks, obs.BatchTells, obs.BatchAsks, obs.AskErrors = tells.Load(), asks.Load(), btells.Load(), basks.Load(), askErrs.Load()
	obs.Frames = b.Proxy.ReqFwd.Load() - frames0
	led.mu.Lock()
	obs.Wit = append([]string(nil), led.wit...)
	led.mu.Unlock()
	// several callers, with and without headers, and tells that shared request frames
	tellFrames := obs.Frames - obs.Asks - obs.BatchTells - obs.BatchAsks
	obs.Nontrivial = s.Callers >= 2 && obs.WithHeaders > 0 && obs.Tells > 0 && tellFrames < obs.Tells
	return obs
}

// c29Oversize: one header value beyond the 64 KiB the ask path's length prefix can
// express. The property quantifies over all header maps; a propagator that hands over
// such a value must get either the same value back or an error, not another value.
func c29Oversize(e *c27Env) (bad int64, wit []string, errs int64, handled int64) {
	bg := context.Background()
	a, b := e.nodes()
	e.cases++
	tag := "h" + strconv.Itoa(e.cases)
	led := &c29Ledger{tag: tag}
	pid, err := b.Sys.Spawn(bg, "c29sink-"+tag, c29Sink{led: led})
	if err != nil {
		e.t.Fatalf("c29: spawn: %v", err)
	}
	defer pid.Shutdown(bg)
	rp := newRemotePID(pid.getAddress(), a.Sys.getRemoting())
	for i, size := range []int{65535, 65536, 65537, 70000, 131072 + 5} {
		spec := "over." + strconv.Itoa(size)
		ctx := context.WithValue(bg, c29CallerKey{}, c29Headers(tag, 0, i, spec))
		if _, err := a.Sys.NoSender().Ask(ctx, rp, &testpb.TestLog{Text: tag + "|a|0|" + strconv.Itoa(i) + "|" + spec}, 5*time.Second); err != nil {
			errs++
		}
	}
	led.mu.Lock()
	wit = append(wit, led.wit...)
	led.mu.Unlock()
	return led.bad.Load(), wit, errs, led.handled.Load()
}

// TestVerif_C29 (actor-system layer).
func TestVerif_C29(t *testing.T) {
	r := verifrt.Start(t, "C29")
	defer r.Finish()
	r.Rule("case = 2-16 concurrent callers x 20-60 operations (coalesced Tell 60%, Ask 20%, BatchTell 10%, BatchAsk 10%) to 1-3 actors on a second actor system; each operation's context names a header set (token + 0-20 extra headers with value sizes in {0,1,7,255,256,1024,4096}, 3% with one 65535-byte value) or none at all; a harness ContextPropagator injects it and stores every header it is handed on the receiver; oracle = the handler's restored headers equal the set the handled message names (a header-less message must not see anybody's headers); non-trivial = >=2 callers, some operations with headers, and coalesced tells that shared request frames; distinct by script and seed")
	rng := r.Rand(29)
	n := r.N(24, 600)
	prop := &c29Prop{}
	env := &c27Env{t: t, cfg: func() []remote.Option { return []remote.Option{remote.WithContextPropagator(prop)} }}
	defer env.Close()
	for i := 0; i < n; i++ {
		s := c29Script{Callers: 2 + rng.Intn(15), PerCall: 20 + rng.Intn(41), Targets: 1 + rng.Intn(3),
			NonePct: []int{0, 20, 50}[rng.Intn(3)], MaxExtra: []int{0, 3, 20}[rng.Intn(3)]}
		seed := rng.Int63()
		obs := c29RunCase(env, s, seed)
		key := s.String()
		if obs.Inconclusive != "" {
			r.Inconclusive("%s: %s", key, obs.Inconclusive)
			continue
		}
		r.Case(key+"/"+verifrt.Hash64s(seed), obs.Nontrivial)
		r.Count("handled", obs.Handled)
		r.Count("handled_with_headers", obs.WithHeaders)
		r.Count("tells", obs.Tells)
		r.Count("asks", obs.Asks)
		r.Count("batch_tells", obs.BatchTells)
		r.Count("batch_asks", obs.BatchAsks)
		r.Count("ask_errors", obs.AskErrors)
		r.Count("tells_dead_lettered_on_sender", obs.DeadLettered)
		r.Count("request_frames", obs.Frames)
		detail := map[string]any{"script": key, "seed": seed, "obs": obs}
		if obs.Bad > obs.Inherit {
			r.Violation("header-mismatch", detail)
		}
		if obs.Inherit > 0 {
			r.Violation("header-mismatch:headerless-message-saw-headers", detail)
		}
		if i < 3 {
			r.Sample(detail)
		}
	}
	if r.Batch == 0 {
		bad, wit, errs, handled := c29Oversize(env)
		r.Case("oversize-ask-header-values", handled > 0 || errs > 0)
		r.Count("oversize_asks_failed_with_error", errs)
		r.Count("oversize_asks_handled", handled)
		if bad > 0 {
			r.Violation("header-mismatch:ask:value-over-64KiB", map[string]any{"witness": wit, "asks_failed": errs, "handled": handled})
		}
	}
	r.Count("propagator_injects", prop.injects.Load())
	r.Count("propagator_extracts", prop.extracts.Load())
}
