//go:build verif

package actor

import (
	"context"
	"fmt"
	"math/rand"
	"strings"
	"sync"
	"sync/atomic"
	"testing"
	"time"

	"github.com/tochemey/goakt/v4/internal/verifrt"
	"github.com/tochemey/goakt/v4/passivation"
	"github.com/tochemey/goakt/v4/supervisor"
)

// C12: passivation only removes actors that are truly idle.
//
// One scenario = one actor with its own passivation strategy and a scripted
// arrival pattern. All scenarios of a batch run concurrently on one actor
// system. The monitor stamps (monotonic clock of the harness)
//   - every turn entry of the actor (H1 hook, taken before the runtime takes its
//     own activity stamp),
//   - every handler entry,
//   - every PostStop entry together with the calling stack (passivation is
//     recognised by tryPassivation being on the stack).
// Verdicts are lower bounds and counts only: load can make a passivation later,
// never earlier.

const c12Slack = 100 * time.Millisecond // documented activity-coalescing slack

// c12JudgeLongTurnLiterally: in the long-turn scenario the statement is judged on
// handler-entry stamps (an actor that is busy handling messages is not idle), not
// on the turn-start stamp the runtime uses.
const c12JudgeLongTurnLiterally = true

type c12Msg struct {
	ID    int
	Dwell time.Duration
	Fail  bool // handler reports an error no directive matches: the actor gets suspended
	Ping  chan struct{}
}

type c12Err struct{}

func (c12Err) Error() string { return "c12 injected failure" }

type c12Handled struct {
	ID     int
	Th     int64 // handler entry, ns since base
	ThW    int64 // handler entry, wall UnixNano
	Hturn  int64 // latest turn-entry stamp before the handler entry
	HturnW int64 // same, wall UnixNano
	Rt     int64 // the runtime's own activity stamp (wall UnixNano) sampled at handler entry
	Dwell  int64
}

// c12Decision is one call of the manager's passivate step for the actor (observed through
// the manager's passivateFn indirection): the deadline the entry carried when it was popped.
type c12Decision struct {
	At        int64 // ns since base
	DeadlineW int64 // entry.deadline, wall UnixNano (0 for message-count entries)
	Result    bool
}

type c12Stop struct {
	Tp            int64
	DeadlineW     int64 // deadline of the decision that ran this PostStop (passivation only)
	ByPassivation bool
	Paused        bool
	Suspended     bool
	Stopping      bool
	Stack         string
}

type c12State struct {
	name string
	base time.Time
	pid  atomic.Pointer[PID]

	turnEnter  atomic.Int64
	turnEnterW atomic.Int64

	mu        sync.Mutex
	handled   []c12Handled
	stops     []c12Stop
	decisions []c12Decision
}

func (s *c12State) now() int64 { return int64(time.Since(s.base)) }

func (s *c12State) snapshot() ([]c12Handled, []c12Stop) {
	s.mu.Lock()
	defer s.mu.Unlock()
	return append([]c12Handled(nil), s.handled...), append([]c12Stop(nil), s.stops...)
}

func (s *c12State) passivations() int {
	s.mu.Lock()
	defer s.mu.Unlock()
	n := 0
	for _, p := range s.stops {
		if p.ByPassivation {
			n++
		}
	}
	return n
}

func (s *c12State) stopCount() int {
	s.mu.Lock()
	defer s.mu.Unlock()
	return len(s.stops)
}

func (s *c12State) handledCount() int {
	s.mu.Lock()
	defer s.mu.Unlock()
	return len(s.handled)
}

func (s *c12State) lastHandled() (c12Handled, bool) {
	s.mu.Lock()
	defer s.mu.Unlock()
	if len(s.handled) == 0 {
		return c12Handled{}, false
	}
	return s.handled[len(s.handled)-1], true
}

type c12Actor struct{ st *c12State }

func (a *c12Actor) PreStart(*Context) error { return nil }

func (a *c12Actor) PostStop(*Context) error {
	st := a.st
	tp := st.now()
	stack := verifrt.Stack()
	rec := c12Stop{Tp: tp, ByPassivation: strings.Contains(stack, "tryPassivation"), Stack: stack}
	if rec.ByPassivation {
		st.mu.Lock()
		if n := len(st.decisions); n > 0 {
			rec.DeadlineW = st.decisions[n-1].DeadlineW
		}
		st.mu.Unlock()
	}
	if pid := st.pid.Load(); pid != nil {
		rec.Paused = pid.isStateSet(passivationPausedState)
		rec.Suspended = pid.isStateSet(suspendedState)
		rec.Stopping = pid.isStateSet(stoppingState)
	}
	st.mu.Lock()
	st.stops = append(st.stops, rec)
	st.mu.Unlock()
	return nil
}

func (a *c12Actor) Receive(ctx *ReceiveContext) {
	m, ok := ctx.Message().(*c12Msg)
	if !ok {
		return
	}
	st := a.st
	tnow := time.Now()
	rec := c12Handled{ID: m.ID, Th: int64(tnow.Sub(st.base)), ThW: tnow.UnixNano(), Hturn: st.turnEnter.Load(), HturnW: st.turnEnterW.Load(), Dwell: int64(m.Dwell)}
	if pid := st.pid.Load(); pid != nil {
		rec.Rt = pid.latestReceiveTimeNano.Load()
	}
	st.mu.Lock()
	st.handled = append(st.handled, rec)
	st.mu.Unlock()
	if m.Ping != nil {
		close(m.Ping)
	}
	if m.Dwell > 0 {
		time.Sleep(m.Dwell)
	}
	if m.Fail {
		ctx.Err(c12Err{})
	}
}

// c12Registry maps a PID to its scenario state for the turn hook.
var c12Registry sync.Map // *PID -> *c12State

func c12TurnHook(s any, enter bool) {
	if !enter {
		return
	}
	if v, ok := c12Registry.Load(s); ok {
		st := v.(*c12State)
		tnow := time.Now()
		st.turnEnter.Store(int64(tnow.Sub(st.base)))
		st.turnEnterW.Store(tnow.UnixNano())
	}
}

// c12InstallDecisionHook routes the manager's passivate step through the harness: it
// records the deadline the popped entry carries, then runs the real passivation attempt.
func c12InstallDecisionHook(sys *actorSystem) {
	pm := sys.passivator
	fn := func(entry *passivationEntry) bool {
		if entry == nil || entry.target == nil {
			return false
		}
		pm.mu.Lock()
		dl := entry.deadline
		target := entry.target
		reason := passivationReason(entry)
		pm.mu.Unlock()
		var st *c12State
		if v, ok := c12Registry.Load(target); ok {
			st = v.(*c12State)
			d := c12Decision{At: st.now()}
			if !dl.IsZero() {
				d.DeadlineW = dl.UnixNano()
			}
			st.mu.Lock()
			st.decisions = append(st.decisions, d)
			st.mu.Unlock()
		}
		res := target.passivationTry(reason)
		if st != nil {
			st.mu.Lock()
			st.decisions[len(st.decisions)-1].Result = res
			st.mu.Unlock()
		}
		return res
	}
	pm.mu.Lock()
	pm.passivateFn = fn
	pm.mu.Unlock()
}

type c12Scenario struct {
	Kind  string
	T     time.Duration
	N     int           // message-count threshold
	Off   time.Duration // scenario specific offset
	Seed  int64
	Index int
}

func (sc c12Scenario) key() string {
	return fmt.Sprintf("%s/T=%s/N=%d/off=%s/%s", sc.Kind, sc.T, sc.N, sc.Off, verifrt.Hash64s(sc.Seed))
}

var c12Kinds = []string{
	"idle", "burst", "trickle-far", "trickle-near", "coalesce", "deadline-race", "deadline-race",
	"pause", "pause-traffic", "suspend", "stop-race", "stop-race", "longlived",
	"count-exact", "count-short", "count-pause", "long-turn",
}

type c12Result struct {
	Scenario   c12Scenario
	NonTrivial bool
	Sent       int
	Accepted   int
	Handled    int
	Passivated int
	Stops      int
	MinMargin  time.Duration // min over judged pairs of (tp - hturn) - (T - slack)
	MaxGap     time.Duration // max (th - runtime stamp)
	Literal    int           // passivations with a handler entered less than T-100ms before
	Stale      int           // messages whose runtime activity stamp was older than their turn-entry stamp
	Notes      []string
	Viol       []verifrt.Violation
	Inconc     string
	State      *c12State
}

func c12SleepUntil(t time.Time) {
	for {
		d := time.Until(t)
		if d <= 0 {
			return
		}
		time.Sleep(d)
	}
}

// c12Run executes one scenario on sys.
func c12Run(t *testing.T, sys *actorSystem, sc c12Scenario) (res c12Result) {
	res.Scenario = sc
	res.MinMargin = time.Hour
	ctx := context.Background()
	rng := rand.New(rand.NewSource(sc.Seed))
	st := &c12State{name: fmt.Sprintf("c12-%d-%s", sc.Index, sc.Kind), base: time.Now()}
	act := &c12Actor{st: st}
	res.State = st

	var strat passivation.Strategy
	switch sc.Kind {
	case "longlived":
		strat = passivation.NewLongLivedStrategy()
	case "count-exact", "count-short", "count-pause":
		strat = passivation.NewMessageCountBasedStrategy(sc.N)
	default:
		strat = passivation.NewTimeBasedStrategy(sc.T)
	}
	// a supervisor with no rule for c12Err: the failure suspends the actor
	sup := supervisor.NewSupervisor()
	pid, err := sys.Spawn(ctx, st.name, act, WithPassivationStrategy(strat), WithSupervisor(sup))
	if err != nil {
		t.Fatalf("c12 spawn: %v", err)
	}
	st.pid.Store(pid)
	c12Registry.Store(pid, st)
	defer c12Registry.Delete(pid)

	nextID := 0
	tell := func(dwell time.Duration, fail bool, ping chan struct{}) bool {
		nextID++
		res.Sent++
		if err := Tell(ctx, pid, &c12Msg{ID: nextID, Dwell: dwell, Fail: fail, Ping: ping}); err != nil {
			return false
		}
		res.Accepted++
		return true
	}
	waitHandled := func(n int) bool {
		return verifrt.WaitUntil(20*time.Second, func() bool { return st.handledCount() >= n || st.stopCount() > 0 })
	}
	waitPassivated := func() bool {
		return verifrt.WaitUntil(30*time.Second, func() bool { return st.stopCount() > 0 })
	}
	viol := func(sig string, detail map[string]any) {
		h, s := st.snapshot()
		detail["scenario"] = sc.key()
		detail["handled"] = h
		detail["stops"] = s
		res.Viol = append(res.Viol, verifrt.Violation{Sig: sig, Detail: detail})
	}
	// noPassivationUpTo: no PostStop by passivation with entry stamp <= limit
	forbidden := func(sig string, from, to int64, what string) {
		_, stops := st.snapshot()
		for _, p := range stops {
			if p.ByPassivation && p.Tp >= from && p.Tp <= to {
				viol(sig, map[string]any{"what": what, "interval_ns": []int64{from, to}, "poststop_ns": p.Tp, "flags": fmt.Sprintf("paused=%v suspended=%v stopping=%v", p.Paused, p.Suspended, p.Stopping)})
			}
		}
	}
	expectPassivation := true
	T := sc.T

	switch sc.Kind {
	case "idle":
		tell(0, false, nil)
	case "burst":
		for i := 0; i < 5; i++ {
			tell(0, false, nil)
			time.Sleep(10 * time.Millisecond)
		}
	case "trickle-far", "trickle-near":
		gap := T - 150*time.Millisecond
		if sc.Kind == "trickle-near" {
			gap = T - 60*time.Millisecond
		}
		for i := 0; i < 5; i++ {
			if !tell(0, false, nil) {
				break
			}
			time.Sleep(gap)
		}
	case "coalesce":
		// messages inside the 100ms coalescing interval: the later ones do not refresh the heap
		n := 2 + rng.Intn(3)
		for i := 0; i < n; i++ {
			tell(0, false, nil)
			time.Sleep(sc.Off)
		}
	case "deadline-race":
		// aim the next message at the instant the deadline computed from the runtime's own
		// stamp expires
		tell(0, false, nil)
		for round := 0; round < 3; round++ {
			if !waitHandled(round + 1) {
				break
			}
			last, ok := st.lastHandled()
			if !ok || st.stopCount() > 0 {
				break
			}
			target := time.Unix(0, last.Rt).Add(T + sc.Off)
			c12SleepUntil(target)
			if !tell(0, false, nil) {
				break
			}
		}
	case "pause", "pause-traffic":
		tell(0, false, nil)
		time.Sleep(T / 3)
		if err := Tell(ctx, pid, new(PausePassivation)); err != nil {
			res.Notes = append(res.Notes, "pause rejected: "+err.Error())
			break
		}
		ping := make(chan struct{})
		if !tell(0, false, ping) {
			break
		}
		select {
		case <-ping:
		case <-time.After(20 * time.Second):
			res.Inconc = "pause confirmation ping not handled within 20s"
			return res
		}
		confirmed := st.now()
		hold := time.Now().Add(T + T/2)
		for time.Now().Before(hold) {
			if sc.Kind == "pause-traffic" {
				tell(0, false, nil)
			}
			time.Sleep(T / 5)
		}
		resumeAt := st.now()
		forbidden("passivated-while-paused:"+sc.Kind, confirmed, resumeAt, "pause confirmed by a later handled message; resume not yet sent")
		res.NonTrivial = st.stopCount() == 0
		if err := Tell(ctx, pid, new(ResumePassivation)); err != nil {
			res.Notes = append(res.Notes, "resume rejected: "+err.Error())
		}
	case "suspend":
		tell(0, false, nil)
		time.Sleep(T / 3)
		if !tell(0, true, nil) {
			break
		}
		if !verifrt.WaitUntil(20*time.Second, func() bool { return pid.IsSuspended() || st.stopCount() > 0 }) {
			res.Inconc = "actor not suspended within 20s after a failure without directive"
			return res
		}
		if st.stopCount() > 0 {
			break
		}
		suspendedAt := st.now()
		time.Sleep(T + T/2)
		reinstateAt := st.now()
		forbidden("passivated-while-suspended", suspendedAt, reinstateAt, "IsSuspended observed; Reinstate not yet called")
		res.NonTrivial = st.stopCount() == 0
		if err := sys.NoSender().Reinstate(pid); err != nil {
			res.Notes = append(res.Notes, "reinstate: "+err.Error())
		}
		if verifrt.WaitUntil(5*time.Second, func() bool { return pid.IsRunning() }) {
			tell(0, false, nil)
		}
	case "stop-race":
		tell(0, false, nil)
		if !waitHandled(1) {
			break
		}
		last, ok := st.lastHandled()
		if !ok {
			break
		}
		c12SleepUntil(time.Unix(0, last.Rt).Add(T + sc.Off))
		_ = pid.Shutdown(ctx)
	case "longlived":
		expectPassivation = false
		tell(0, false, nil)
		time.Sleep(900 * time.Millisecond)
		tell(0, false, nil)
		if n := st.passivations(); n > 0 {
			viol("passivated-longlived", map[string]any{"passivations": n})
		}
		if st.stopCount() == 0 && !pid.IsRunning() {
			viol("longlived-not-running", map[string]any{})
		}
		res.NonTrivial = true
	case "count-exact", "count-short", "count-pause":
		n := sc.N
		if sc.Kind == "count-pause" {
			if err := Tell(ctx, pid, new(PausePassivation)); err != nil {
				break
			}
			ping := make(chan struct{})
			tell(0, false, ping)
			select {
			case <-ping:
			case <-time.After(20 * time.Second):
				res.Inconc = "pause confirmation ping not handled within 20s"
				return res
			}
			confirmed := st.now()
			for i := 0; i < n+2; i++ {
				tell(0, false, nil)
			}
			waitHandled(n + 3)
			time.Sleep(250 * time.Millisecond)
			resumeAt := st.now()
			forbidden("passivated-while-paused:"+sc.Kind, confirmed, resumeAt, "message count crossed the threshold while paused")
			res.NonTrivial = st.stopCount() == 0
			_ = Tell(ctx, pid, new(ResumePassivation))
			break
		}
		first := n
		if sc.Kind == "count-short" {
			first = n - 1
		}
		for i := 0; i < first; i++ {
			tell(0, false, nil)
		}
		waitHandled(first)
		if sc.Kind == "count-short" {
			// N-1 messages: must stay; the lower bound below decides, this wait only gives a
			// wrong passivation the time to happen
			time.Sleep(250 * time.Millisecond)
			res.NonTrivial = st.stopCount() == 0
			tell(0, false, nil)
		}
	case "long-turn":
		// one turn made of k messages whose handlers sleep: the turn outlasts the timeout
		k := 12
		dwell := T / 5
		for i := 0; i < k; i++ {
			tell(dwell, false, nil)
		}
	}

	passivated := false
	if expectPassivation {
		if !waitPassivated() {
			if pid.IsRunning() && sc.Kind != "stop-race" {
				res.Inconc = fmt.Sprintf("scenario %s: no PostStop within 30s although the actor is idle", sc.key())
				return res
			}
		}
		passivated = st.passivations() > 0
	}
	if passivated {
		if !verifrt.WaitUntil(20*time.Second, func() bool { return !pid.IsRunning() }) {
			viol("running-after-passivation:"+sc.Kind, map[string]any{})
		}
	}
	// give a second PostStop the time to show up
	time.Sleep(60 * time.Millisecond)

	handled, stops := st.snapshot()
	res.Handled, res.Stops = len(handled), len(stops)
	for _, p := range stops {
		if p.ByPassivation {
			res.Passivated++
		}
	}
	if len(stops) > 1 {
		var by []string
		for _, p := range stops {
			by = append(by, fmt.Sprintf("passivation=%v@%dus", p.ByPassivation, p.Tp/1000))
		}
		viol(fmt.Sprintf("poststop-count:%d:%s", len(stops), sc.Kind), map[string]any{"poststops": by})
	}

	// lower bounds at every PostStop that was run by the passivation path
	for _, p := range stops {
		if !p.ByPassivation {
			continue
		}
		switch sc.Kind {
		case "longlived":
			// already reported
		case "count-exact", "count-short", "count-pause":
			// the runtime counts a message just before its handler is entered: besides the
			// handlers entered before this PostStop, the one message whose turn had begun
			// (turn entry <= PostStop) but whose handler entry was stamped later may have been
			// counted already
			before := 0
			inDispatch := 0
			for _, h := range handled {
				if h.Th <= p.Tp {
					before++
				} else if inDispatch == 0 && h.Hturn <= p.Tp {
					inDispatch = 1
				}
			}
			need := sc.N
			if before+inDispatch < need {
				viol(fmt.Sprintf("passivated-before-count:N=%d", sc.N), map[string]any{"handled_before_poststop": before, "in_dispatch": inDispatch, "required": need})
			}
			if before >= need {
				res.NonTrivial = res.NonTrivial || sc.Kind == "count-exact"
			}
		default:
			bound := int64(T - c12Slack)
			// (a) deadline arithmetic, immune to stalls: the entry was popped no earlier than
			// the deadline D it carried; every message whose handler was entered before D had
			// published its activity before the pop, so D must cover it.
			if p.DeadlineW != 0 {
				for _, h := range handled {
					if h.ThW > p.DeadlineW || h.HturnW == 0 {
						continue
					}
					// the runtime stamps activity with the time it read when the turn began; when a
					// turn is re-entered after a reclaim that time is not read again, so the stamp
					// the runtime itself recorded (sampled in the handler) can be older than the
					// turn-entry hook stamp. The deadline is owed to the older of the two.
					eff := h.HturnW
					if h.Rt != 0 && h.Rt < eff {
						eff = h.Rt
						if h.HturnW-h.Rt > int64(time.Millisecond) {
							res.Stale++
						}
					}
					m := (p.DeadlineW - eff) - bound
					if m < 0 {
						viol("passivated-within-timeout:deadline-arithmetic", map[string]any{
							"timeout": T.String(), "message_id": h.ID, "turn_entry_wall_ns": h.HturnW, "handler_entry_wall_ns": h.ThW, "deadline_wall_ns": p.DeadlineW,
							"deadline_minus_turn_entry": time.Duration(p.DeadlineW - h.HturnW).String(), "required_at_least": time.Duration(bound).String(),
						})
						break
					}
				}
			} else {
				res.Notes = append(res.Notes, "passivation PostStop without an observed decision")
			}
			// (b) the statement read literally on monitor stamps: a handler entered less than
			// T-100ms before the PostStop entry
			for i, h := range handled {
				if h.Th > p.Tp {
					continue
				}
				if h.Rt != 0 {
					if gap := time.Duration(h.ThW - h.Rt); gap > res.MaxGap {
						res.MaxGap = gap
					}
				}
				marginLiteral := (p.Tp - h.Th) - bound
				if marginLiteral >= 0 {
					continue
				}
				res.Literal++
				detail := map[string]any{
					"timeout": T.String(), "message_id": h.ID, "turn_entry_ns": h.Hturn, "handler_entry_ns": h.Th, "poststop_entry_ns": p.Tp,
					"elapsed_since_handler_entry": time.Duration(p.Tp - h.Th).String(), "required_at_least": time.Duration(bound).String(),
					"decision_deadline_minus_handler_entry": time.Duration(p.DeadlineW - h.ThW).String(),
				}
				var earlier int64
				for _, e := range handled[:i] {
					if e.Hturn == h.Hturn {
						earlier += e.Dwell
					}
				}
				staleBy := int64(0)
				if h.Rt != 0 {
					staleBy = h.ThW - h.Rt
				}
				detail["runtime_activity_stamp_older_than_handler_entry_by"] = time.Duration(staleBy).String()
				switch {
				case sc.Kind == "long-turn" && earlier >= -marginLiteral:
					if c12JudgeLongTurnLiterally {
						detail["handler_time_earlier_in_turn"] = time.Duration(earlier).String()
						viol("passivated-while-busy:long-turn", detail)
					}
				case staleBy >= -marginLiteral && p.DeadlineW != 0 && h.ThW <= p.DeadlineW:
					// the message was handled before the deadline expired, but the activity stamp
					// the runtime recorded for it was that much older than the handling
					viol("message-handled-then-passivated:stale-turn-stamp", detail)
				default:
					viol("message-handled-then-passivated:decision-not-atomic", detail)
				}
				break
			}
			switch sc.Kind {
			case "pause", "pause-traffic", "suspend":
			default:
				res.NonTrivial = res.NonTrivial || len(handled) > 0
			}
		}
	}
	if sc.Kind == "stop-race" {
		res.NonTrivial = len(stops) > 0
	}
	return res
}

func c12Gen(rng *rand.Rand, i int) c12Scenario {
	sc := c12Scenario{Kind: c12Kinds[rng.Intn(len(c12Kinds))], Seed: rng.Int63(), Index: i}
	sc.T = []time.Duration{300 * time.Millisecond, 600 * time.Millisecond}[rng.Intn(2)]
	switch sc.Kind {
	case "coalesce":
		sc.Off = time.Duration(40+rng.Intn(58)) * time.Millisecond
	case "deadline-race", "stop-race":
		sc.Off = time.Duration(rng.Intn(3000)-2500) * time.Microsecond
	case "count-exact", "count-short", "count-pause":
		sc.N = []int{1, 3, 10}[rng.Intn(3)]
		sc.T = 0
		if sc.Kind == "count-short" && sc.N == 1 {
			sc.N = 3
		}
	case "long-turn":
		sc.T = 300 * time.Millisecond
	case "longlived":
		sc.T = 0
	}
	return sc
}

func TestVerif_C12(t *testing.T) {
	r := verifrt.Start(t, "C12")
	defer r.Finish()
	r.Rule("case = one actor with its own passivation strategy (time-based T in {300,600}ms, message-count N in {1,3,10}, long-lived) and one arrival script: idle, burst, trickle with gaps T-150/T-60ms, messages inside the 100ms coalescing interval, a message aimed at the expiring deadline, PausePassivation (confirmed by a later handled message) held for 1.5T with and without traffic, suspension (failure without directive) held for 1.5T then Reinstate, Shutdown aimed at the deadline, N-1 / N / paused N+2 messages, one turn longer than T; 40 scenarios run concurrently on one system with schedule noise in passivation_manager.go and the stop path of pid.go. Monitors: turn-entry (H1 hook), handler-entry and PostStop-entry stamps, the stack of every PostStop (passivation = tryPassivation on it), and the deadline carried by the heap entry of every passivation decision (through the manager's passivateFn indirection). Oracle: (a) deadline arithmetic, immune to stalls: for every passivation and every message whose handler was entered before the decision's deadline D, D - turn_entry >= T-100ms; (b) the statement literally: no handler entered less than T-100ms before a passivation PostStop (reported as message-handled-then-passivated / passivated-while-busy); no passivation PostStop inside a confirmed paused or suspended interval; never for long-lived; at least N messages dispatched before it for message-count; PostStop count <= 1 per actor (also after the system stopped) and the actor not running once passivated. non-trivial = the scripted situation was reached and the passivation or the hold was observed; distinct by (kind, T, N, offset, seed)")
	r.Assume("the H1 turn-entry stamp is taken before the runtime reads its per-turn activity time; wall clock does not step backwards during a scenario")
	rng := r.Rand(12)
	n := r.N(120, 2400)
	SetVerifTurnHook(c12TurnHook)
	defer SetVerifTurnHook(nil)

	sys := vfNewSystem(t)
	c12InstallDecisionHook(sys)
	hot := verifrt.StartNoise(verifrt.NoiseConfig{
		Seed: rng.Int63(), GoschedPerMille: 10, HotSites: 3,
		Candidates:  verifrt.SitesIn("passivation_manager.go", "actor/pid.go:25", "actor/pid.go:26", "actor/pid.go:15"),
		HotPerMille: 300, MinDelay: 20 * time.Microsecond, MaxDelay: 1500 * time.Microsecond, Budget: 400,
	})
	r.Note("hot noise sites: %v", hot)

	const parallel = 40
	var states []*c12State
	for start := 0; start < n; start += parallel {
		end := start + parallel
		if end > n {
			end = n
		}
		results := make([]c12Result, end-start)
		var wg sync.WaitGroup
		for i := start; i < end; i++ {
			sc := c12Gen(rng, i)
			wg.Add(1)
			go func(slot int, sc c12Scenario) {
				defer wg.Done()
				results[slot] = c12Run(t, sys, sc)
			}(i-start, sc)
		}
		wg.Wait()
		for _, res := range results {
			if res.State != nil {
				states = append(states, res.State)
			}
			r.Case(res.Scenario.key(), res.NonTrivial)
			r.Count("scenarios_"+res.Scenario.Kind, 1)
			r.Count("messages_handled", int64(res.Handled))
			r.Count("passivations_observed", int64(res.Passivated))
			r.Count("poststops_observed", int64(res.Stops))
			r.Count("passivations_right_after_a_handled_message", int64(res.Literal))
			r.Count("stale_turn_stamps_seen", int64(res.Stale))
			if res.MinMargin < time.Hour {
				r.Max("max_runtime_stamp_to_handler_gap_us", int64(res.MaxGap/time.Microsecond))
				if res.MinMargin < 20*time.Millisecond {
					r.Count("decisions_within_20ms_of_the_bound", 1)
				}
			}
			for _, v := range res.Viol {
				r.Violation(v.Sig, v.Detail)
			}
			if res.Inconc != "" {
				r.Inconclusive("%s", res.Inconc)
			}
			r.Sample(map[string]any{"scenario": res.Scenario.key(), "sent": res.Sent, "accepted": res.Accepted, "handled": res.Handled, "passivated": res.Passivated, "poststops": res.Stops, "min_margin": res.MinMargin.String(), "notes": res.Notes})
		}
	}
	yields, delays := verifrt.StopNoise()
	r.Count("noise_yields", yields)
	r.Count("noise_delays_injected", delays)
	vfStop(sys)
	// the system's own teardown must not run PostStop again on an actor that was passivated
	for _, st := range states {
		_, stops := st.snapshot()
		if len(stops) > 1 {
			r.Violation(fmt.Sprintf("poststop-count:%d:after-system-stop", len(stops)), map[string]any{"actor": st.name, "stops": stops})
		}
	}
}

