//go:build verif

package actor

import (
	"context"
	"errors"
	"fmt"
	"math/rand"
	"sort"
	"strings"
	"sync"
	"sync/atomic"
	"time"

	"github.com/flowchartsman/retry"

	"github.com/tochemey/goakt/v4/test/data/testpb"
)

// C30 workload: 3 real actor systems on the shared fake registry (common_cluster_verif_test.go).
// One round = one fresh grain identity + one scenario (a choreography of callers on several
// nodes, holds at registry operations, injected registry / activation failures, deactivation).
// Oracle 1 (online): process-wide live-instance gauge per identity, maintained by the harness
// grain at OnActivate-exit(success) / OnDeactivate-enter. Oracle 2 (settled): after the round
// went quiet, the node holding the instance must be the one the registry names.

const (
	c30GateWD = 15 * time.Second // waiting for a hold point to be reached (else: scenario not achieved)
	c30CallWD = 90 * time.Second // a call that does not return after all holds were released: inconclusive
	c30HoldWD = 60 * time.Second // a held goroutine is released by this watchdog at the latest
)

// ---- monitor ---------------------------------------------------------------------

type c30Event struct {
	T    int64
	Node int
	What string
}

func (e c30Event) String() string { return fmt.Sprintf("[%d] n%d %s", e.T, e.Node, e.What) }

type c30IdState struct {
	key string

	mu        sync.Mutex
	active    map[int]int // node -> live instances
	live      int
	maxLive   int
	events    []c30Event
	overlaps  []string
	sameNode  bool
	crossNode bool
	attempts  map[int]int
	failPlan  map[int]map[int]string // node -> attempt -> "err" | "panic"
	deactErr  map[int]bool           // node -> OnDeactivate returns an error (once)
	actGate   map[int]*vfcGate       // node -> hold inside OnActivate (first time only)
	actDwell  time.Duration
	failed    int
	activated int
	deacts    int
	received  map[int]int
}

func (s *c30IdState) ev(node int, what string) {
	s.events = append(s.events, c30Event{T: vfcTick(), Node: node, What: what})
}

func (s *c30IdState) holders() []int {
	s.mu.Lock()
	defer s.mu.Unlock()
	var out []int
	for n, c := range s.active {
		if c > 0 {
			out = append(out, n)
		}
	}
	sort.Ints(out)
	return out
}

func (s *c30IdState) eventStrings() []string {
	s.mu.Lock()
	defer s.mu.Unlock()
	out := make([]string, len(s.events))
	for i, e := range s.events {
		out[i] = e.String()
	}
	return out
}

type c30Mon struct {
	c   *vfcCluster
	mu  sync.Mutex
	ids map[string]*c30IdState
}

var c30Current atomic.Pointer[c30Mon]

func (m *c30Mon) state(key string) *c30IdState {
	m.mu.Lock()
	defer m.mu.Unlock()
	st, ok := m.ids[key]
	if !ok {
		st = &c30IdState{key: key, active: map[int]int{}, attempts: map[int]int{}, failPlan: map[int]map[int]string{}, deactErr: map[int]bool{}, actGate: map[int]*vfcGate{}, received: map[int]int{}}
		m.ids[key] = st
	}
	return st
}

func (m *c30Mon) drop(key string) {
	m.mu.Lock()
	delete(m.ids, key)
	m.mu.Unlock()
}

// ---- the harness grain -----------------------------------------------------------

// C30Grain must be constructible as a zero value (remote activation instantiates it by kind),
// so everything it needs comes from the process-wide monitor.
type C30Grain struct {
	st      *c30IdState
	node    int
	counted bool
}

var c30ErrInjectedActivation = errors.New("c30: injected OnActivate failure")

func (g *C30Grain) OnActivate(_ context.Context, props *GrainProps) error {
	mon := c30Current.Load()
	if mon == nil {
		return nil
	}
	g.node = mon.c.NodeOf(props.ActorSystem())
	g.st = mon.state(props.Identity().String())
	st := g.st
	st.mu.Lock()
	st.attempts[g.node]++
	attempt := st.attempts[g.node]
	mode := st.failPlan[g.node][attempt]
	gate := st.actGate[g.node]
	delete(st.actGate, g.node)
	dwell := st.actDwell
	st.ev(g.node, fmt.Sprintf("OnActivate enter attempt=%d", attempt))
	st.mu.Unlock()
	if gate != nil {
		gate.Hold(c30HoldWD)
	}
	if dwell > 0 {
		time.Sleep(dwell)
	}
	switch mode {
	case "err":
		st.mu.Lock()
		st.failed++
		st.ev(g.node, "OnActivate exit FAIL(err)")
		st.mu.Unlock()
		return retry.Stop(c30ErrInjectedActivation) // terminal: no retry back-off
	case "panic":
		st.mu.Lock()
		st.failed++
		st.ev(g.node, "OnActivate exit FAIL(panic)")
		st.mu.Unlock()
		panic("c30: injected OnActivate panic")
	}
	st.mu.Lock()
	st.active[g.node]++
	st.live++
	st.activated++
	if st.live > st.maxLive {
		st.maxLive = st.live
	}
	if st.live > 1 {
		var hs []string
		nodes := 0
		for n, c := range st.active {
			if c > 0 {
				nodes++
				hs = append(hs, fmt.Sprintf("n%d x%d", n, c))
			}
		}
		sort.Strings(hs)
		if nodes > 1 {
			st.crossNode = true
		} else {
			st.sameNode = true
		}
		st.overlaps = append(st.overlaps, fmt.Sprintf("at clock %d: activation on n%d completed while live instances = {%s}", vfcNow(), g.node, strings.Join(hs, ", ")))
	}
	st.ev(g.node, fmt.Sprintf("OnActivate exit OK live=%d", st.live))
	st.mu.Unlock()
	g.counted = true
	return nil
}

func (g *C30Grain) OnDeactivate(context.Context, *GrainProps) error {
	st := g.st
	if st == nil {
		return nil
	}
	st.mu.Lock()
	if g.counted {
		g.counted = false
		st.active[g.node]--
		st.live--
	}
	st.deacts++
	fail := st.deactErr[g.node]
	delete(st.deactErr, g.node)
	st.ev(g.node, fmt.Sprintf("OnDeactivate enter live=%d fail=%v", st.live, fail))
	st.mu.Unlock()
	if fail {
		return errors.New("c30: injected OnDeactivate failure")
	}
	return nil
}

func (g *C30Grain) OnReceive(ctx *GrainContext) {
	switch ctx.Message().(type) {
	case *testpb.TestLog:
		if st := g.st; st != nil {
			st.mu.Lock()
			st.received[g.node]++
			st.mu.Unlock()
		}
		ctx.NoErr()
	case *testpb.TestPing:
		if st := g.st; st != nil {
			st.mu.Lock()
			st.received[g.node]++
			st.mu.Unlock()
		}
		ctx.Response(&testpb.Reply{Content: fmt.Sprintf("n%d", g.node)})
	default:
		ctx.Unhandled()
	}
}

// ---- rules: what the registry hook does for the round's key ------------------------------

type c30Rule struct {
	Node  int    // -1 = any node
	Op    string // interface method name
	After bool
	Nth   int // fire on the n-th match only (1-based); 0 = every match
	Gate  *vfcGate
	Err   error
	Delay time.Duration
	hits  atomic.Int32
	fired atomic.Int32
}

func (r *c30Rule) Fired() bool { return r.fired.Load() > 0 }

// ---- one round ------------------------------------------------------------------------

type c30Call struct {
	Node    int
	Kind    string
	Err     error
	Reply   string
	done    chan struct{}
	Started int64
	Ended   int64
}

func (c *c30Call) String() string {
	e := "ok"
	if c.Err != nil {
		e = c.Err.Error()
		if len(e) > 160 {
			e = e[:160]
		}
	}
	return fmt.Sprintf("n%d %s [%d..%d] reply=%q -> %s", c.Node, c.Kind, c.Started, c.Ended, c.Reply, e)
}

func (c *c30Call) Done() bool {
	select {
	case <-c.done:
		return true
	default:
		return false
	}
}

type c30RT struct {
	cl    *vfcCluster
	scen  string
	name  string
	key   string
	st    *c30IdState
	rng   *rand.Rand
	perm  []int // logical node A,B,C -> cluster node index
	rules []*c30Rule
	rmu   sync.Mutex

	actGates []*vfcGate
	cp       []c30Finding
	barrier  chan struct{} // when set, new callers wait for it before calling (simultaneous start)

	noisePM  int // per-mille chance of a small delay before a registry op on the key
	noiseMax time.Duration
	nmu      sync.Mutex
	nrng     *rand.Rand // the hook's own PRNG (guarded by nmu)

	cmu   sync.Mutex
	calls []*c30Call

	achieved   bool
	notes      []string
	stalled    string
	injected   atomic.Int64
	gatesHit   atomic.Int64
	delaysHit  atomic.Int64
	claimNodes sync.Map // node -> true (nodes that issued PutGrainIfAbsent on the key)
	opsBy      [8]atomic.Int64 // registry operations on the key, per node
	contended  atomic.Int64
}

var c30CurRound atomic.Pointer[c30RT]

func (rt *c30RT) A() int { return rt.perm[0] }
func (rt *c30RT) B() int { return rt.perm[1] }
func (rt *c30RT) C() int { return rt.perm[2] }

func (rt *c30RT) note(format string, args ...any) {
	rt.cmu.Lock()
	rt.notes = append(rt.notes, fmt.Sprintf(format, args...))
	rt.cmu.Unlock()
}

func (rt *c30RT) rule(node int, op string, after bool, nth int) *c30Rule {
	r := &c30Rule{Node: node, Op: op, After: after, Nth: nth}
	rt.rmu.Lock()
	rt.rules = append(rt.rules, r)
	rt.rmu.Unlock()
	return r
}

func (rt *c30RT) gateRule(node int, op string, after bool, nth int) (*c30Rule, *vfcGate) {
	r := rt.rule(node, op, after, nth)
	r.Gate = vfcNewGate()
	return r, r.Gate
}

func (rt *c30RT) apply(node int, op string, after bool) error {
	rt.rmu.Lock()
	rules := rt.rules
	rt.rmu.Unlock()
	var out error
	for _, r := range rules {
		if r.After != after || r.Op != op || (r.Node >= 0 && r.Node != node) {
			continue
		}
		n := int(r.hits.Add(1))
		if r.Nth != 0 && n != r.Nth {
			continue
		}
		r.fired.Add(1)
		if r.Delay > 0 {
			rt.delaysHit.Add(1)
			time.Sleep(r.Delay)
		}
		if r.Gate != nil {
			rt.gatesHit.Add(1)
			r.Gate.Hold(c30HoldWD)
		}
		if r.Err != nil && !after {
			rt.injected.Add(1)
			out = r.Err
		}
	}
	return out
}

func c30Before(node int, op, key string) error {
	rt := c30CurRound.Load()
	if rt == nil || key != rt.key {
		return nil
	}
	if op == "PutGrainIfAbsent" {
		rt.claimNodes.Store(node, true)
	}
	if node >= 0 && node < len(rt.opsBy) {
		rt.opsBy[node].Add(1)
	}
	if rt.noisePM > 0 {
		rt.nmu.Lock()
		hit := rt.nrng.Intn(1000) < rt.noisePM
		d := time.Duration(rt.nrng.Int63n(int64(rt.noiseMax) + 1))
		rt.nmu.Unlock()
		if hit {
			rt.delaysHit.Add(1)
			time.Sleep(d)
		}
	}
	return rt.apply(node, op, false)
}

func c30After(node int, op, key string, err error) {
	rt := c30CurRound.Load()
	if rt == nil || key != rt.key {
		return
	}
	if op == "PutGrainIfAbsent" && err != nil {
		rt.contended.Add(1)
	}
	_ = rt.apply(node, op, true)
}

func (rt *c30RT) releaseAll() {
	rt.rmu.Lock()
	for _, r := range rt.rules {
		if r.Gate != nil {
			r.Gate.Release()
		}
	}
	for _, g := range rt.actGates {
		g.Release()
	}
	rt.rmu.Unlock()
}

// actGate arranges a hold inside the next OnActivate on node.
func (rt *c30RT) actGate(node int) *vfcGate {
	g := vfcNewGate()
	rt.rmu.Lock()
	rt.actGates = append(rt.actGates, g)
	rt.rmu.Unlock()
	rt.st.mu.Lock()
	rt.st.actGate[node] = g
	rt.st.mu.Unlock()
	return g
}

func (rt *c30RT) failOn(node, attempt int, mode string) {
	rt.st.mu.Lock()
	if rt.st.failPlan[node] == nil {
		rt.st.failPlan[node] = map[int]string{}
	}
	rt.st.failPlan[node][attempt] = mode
	rt.st.mu.Unlock()
}

func (rt *c30RT) dwell(d time.Duration) {
	rt.st.mu.Lock()
	rt.st.actDwell = d
	rt.st.mu.Unlock()
}

func (rt *c30RT) deactFail(node int) {
	rt.st.mu.Lock()
	rt.st.deactErr[node] = true
	rt.st.mu.Unlock()
}

// stats: activated, failed, deactivated counts so far.
func (rt *c30RT) stats() (activated, failed, deacts int) {
	rt.st.mu.Lock()
	defer rt.st.mu.Unlock()
	return rt.st.activated, rt.st.failed, rt.st.deacts
}

func (rt *c30RT) identity() *GrainIdentity {
	id := newGrainIdentity(&C30Grain{}, rt.name)
	_ = id.String()
	return id
}

// send starts one caller on a node: kind = tell | ask | identity | identity-passivating.
func (rt *c30RT) send(node int, kind string) *c30Call {
	return rt.sendCtx(node, kind, 120*time.Second)
}

func (rt *c30RT) sendCtx(node int, kind string, deadline time.Duration) *c30Call {
	call := &c30Call{Node: node, Kind: kind, done: make(chan struct{})}
	rt.cmu.Lock()
	rt.calls = append(rt.calls, call)
	rt.cmu.Unlock()
	sys := rt.cl.Nodes[node].Sys
	id := rt.identity()
	barrier := rt.barrier
	go func() {
		defer close(call.done)
		if barrier != nil {
			<-barrier
		}
		defer func() {
			if p := recover(); p != nil {
				call.Err = fmt.Errorf("caller panic: %v", p)
			}
			call.Ended = vfcTick()
		}()
		ctx, cancel := context.WithTimeout(context.Background(), deadline)
		defer cancel()
		call.Started = vfcTick()
		switch kind {
		case "tell":
			call.Err = sys.TellGrain(ctx, id, &testpb.TestLog{Text: rt.name})
		case "ask":
			resp, err := sys.AskGrain(ctx, id, &testpb.TestPing{}, 20*time.Second)
			call.Err = err
			if rep, ok := resp.(*testpb.Reply); ok {
				call.Reply = rep.GetContent()
			}
		case "identity", "identity-passivating":
			opts := []GrainOption{WithGrainInitMaxRetries(1), WithGrainInitTimeout(30 * time.Second)}
			if kind == "identity-passivating" {
				opts = append(opts, WithGrainDeactivateAfter(time.Duration(20+len(rt.name)%7*10)*time.Millisecond))
			} else {
				opts = append(opts, WithLongLivedGrain())
			}
			_, call.Err = sys.GrainIdentity(ctx, rt.name, func(context.Context) (Grain, error) { return &C30Grain{}, nil }, opts...)
		case "poison":
			// explicit deactivation, issued on the node that holds the instance
			call.Err = sys.TellGrain(ctx, id, new(PoisonPill))
		}
	}()
	return call
}

// wait for a call; false = watchdog (the round is then marked stalled).
func (rt *c30RT) wait(calls ...*c30Call) bool {
	t := time.NewTimer(c30CallWD)
	defer t.Stop()
	for _, c := range calls {
		select {
		case <-c.done:
		case <-t.C:
			rt.stalled = fmt.Sprintf("call n%d %s did not return within %s", c.Node, c.Kind, c30CallWD)
			return false
		}
	}
	return true
}

// arrived waits until the gate is reached, or any of the given calls ended without reaching it.
func (rt *c30RT) arrived(g *vfcGate, calls ...*c30Call) bool {
	deadline := time.Now().Add(c30GateWD)
	for {
		if g.Arrived() {
			return true
		}
		for _, c := range calls {
			if c.Done() {
				// the call finished: one last look, then give up
				if g.Arrived() {
					return true
				}
				return false
			}
		}
		if time.Now().After(deadline) {
			return false
		}
		time.Sleep(200 * time.Microsecond)
	}
}

func (rt *c30RT) until(cond func() bool) bool {
	deadline := time.Now().Add(c30GateWD)
	for !cond() {
		if time.Now().After(deadline) {
			return false
		}
		time.Sleep(200 * time.Microsecond)
	}
	return true
}

func (rt *c30RT) activeOn(node int) bool {
	for _, h := range rt.st.holders() {
		if h == node {
			return true
		}
	}
	return false
}

func (rt *c30RT) recordOwner() int {
	g := rt.cl.Store.Grain(rt.key)
	if g == nil {
		return -1
	}
	n := rt.cl.NodeByHostPort(g.GetHost(), int(g.GetPort()))
	if n < 0 {
		return -2
	}
	return n
}

// ---- scenarios -------------------------------------------------------------------------------

type c30Scenario struct {
	Name   string
	Weight int
	Run    func(rt *c30RT)
}

var c30ErrRegistry = errors.New("c30: injected registry failure")

func c30Kinds(rng *rand.Rand) string {
	return []string{"tell", "ask", "identity", "tell", "ask"}[rng.Intn(5)]
}

func c30SendKind(rng *rand.Rand) string { return []string{"tell", "ask"}[rng.Intn(2)] }

var c30Scenarios = []c30Scenario{
	{"random-burst", 4, func(rt *c30RT) {
		// 2-6 concurrent callers over the nodes (possibly several on one node), small random delays
		// at the registry operations; no failures, no deactivation.
		rt.noisePM, rt.noiseMax = 700, 3*time.Millisecond
		if rt.rng.Intn(2) == 0 {
			rt.dwell(time.Duration(rt.rng.Intn(5)) * time.Millisecond)
		}
		n := 2 + rt.rng.Intn(5)
		var cs []*c30Call
		rt.barrier = make(chan struct{})
		for i := 0; i < n; i++ {
			node := rt.perm[rt.rng.Intn(3)]
			if i < 2 {
				node = rt.perm[i] // at least two different nodes
			}
			cs = append(cs, rt.send(node, c30Kinds(rt.rng)))
		}
		close(rt.barrier)
		rt.barrier = nil
		rt.wait(cs...)
		nodes := 0
		rt.claimNodes.Range(func(any, any) bool { nodes++; return true })
		rt.achieved = nodes >= 2 || rt.contended.Load() > 0
	}},
	{"same-node-burst", 2, func(rt *c30RT) {
		// several callers on ONE node at once (the per-identity single flight) plus one on another node
		rt.dwell(time.Duration(5+rt.rng.Intn(15)) * time.Millisecond)
		var cs []*c30Call
		k := 3 + rt.rng.Intn(3)
		rt.barrier = make(chan struct{})
		for i := 0; i < k; i++ {
			cs = append(cs, rt.send(rt.A(), c30Kinds(rt.rng)))
		}
		cs = append(cs, rt.send(rt.B(), c30SendKind(rt.rng)))
		close(rt.barrier)
		rt.barrier = nil
		rt.wait(cs...)
		act, _, _ := rt.stats()
		rt.achieved = act >= 1
	}},
	{"exists-then-claim", 3, func(rt *c30RT) {
		// hold A between its existence check (false) and its claim while B runs to completion
		_, g := rt.gateRule(rt.A(), "GrainExists", true, 1)
		a := rt.send(rt.A(), c30SendKind(rt.rng))
		if !rt.arrived(g, a) {
			rt.note("gate after GrainExists on A not reached")
			return
		}
		b := rt.send(rt.B(), c30Kinds(rt.rng))
		if !rt.wait(b) {
			return
		}
		bActive := rt.activeOn(rt.B())
		g.Release()
		rt.wait(a)
		rt.achieved = bActive && rt.contended.Load() > 0
	}},
	{"first-lookup-then-claim", 2, func(rt *c30RT) {
		// hold A after its first owner lookup (not found) while B claims and activates
		_, g := rt.gateRule(rt.A(), "GetGrain", true, 1)
		a := rt.send(rt.A(), c30SendKind(rt.rng))
		if !rt.arrived(g, a) {
			rt.note("gate after first GetGrain on A not reached")
			return
		}
		b := rt.send(rt.B(), c30Kinds(rt.rng))
		if !rt.wait(b) {
			return
		}
		bActive := rt.activeOn(rt.B())
		g.Release()
		rt.wait(a)
		rt.achieved = bActive
	}},
	{"claim-then-hold", 2, func(rt *c30RT) {
		// A wins the claim and is held inside OnActivate while B and C send; they must end up at A
		g := rt.actGate(rt.A())
		a := rt.send(rt.A(), c30SendKind(rt.rng))
		if !rt.arrived(g, a) {
			rt.note("OnActivate gate on A not reached")
			return
		}
		b := rt.send(rt.B(), c30Kinds(rt.rng))
		c := rt.send(rt.C(), c30SendKind(rt.rng))
		// let them run into A's claim, then let A finish
		reached := rt.until(func() bool {
			return (rt.opsBy[rt.B()].Load() > 0 || b.Done()) && (rt.opsBy[rt.C()].Load() > 0 || c.Done())
		})
		time.Sleep(time.Duration(1+rt.rng.Intn(3)) * time.Millisecond)
		g.Release()
		rt.wait(a, b, c)
		rt.achieved = reached
	}},
	{"activation-failure", 3, func(rt *c30RT) {
		// OnActivate fails (error or panic) on A's first attempt, A held inside it while B/C send
		mode := []string{"err", "panic"}[rt.rng.Intn(2)]
		rt.failOn(rt.A(), 1, mode)
		g := rt.actGate(rt.A())
		a := rt.send(rt.A(), c30Kinds(rt.rng))
		if !rt.arrived(g, a) {
			rt.note("OnActivate gate on A not reached")
			return
		}
		// (B and C use Tell/Ask: a GrainIdentity caller holding a stale owner is the separate
		// scenario stale-owner-remote-activate)
		b := rt.send(rt.B(), c30SendKind(rt.rng))
		c := rt.send(rt.C(), c30SendKind(rt.rng))
		time.Sleep(time.Duration(rt.rng.Intn(3)) * time.Millisecond)
		g.Release()
		rt.wait(a, b, c)
		d := rt.send(rt.perm[rt.rng.Intn(3)], "ask")
		rt.wait(d)
		_, failed, _ := rt.stats()
		rt.achieved = failed >= 1
	}},
	{"send-time-owner-then-rollback", 3, func(rt *c30RT) {
		// sender 1 on A claims the grain and is held inside an OnActivate that will fail; sender 2
		// on A does its send-time owner lookup (the record names A) and is held right after it;
		// sender 1's activation fails and its claim is rolled back; B claims and activates; only
		// then does sender 2 continue towards the activation path on A
		mode := []string{"err", "panic"}[rt.rng.Intn(2)]
		rt.failOn(rt.A(), 1, mode)
		g1 := rt.actGate(rt.A())
		s1 := rt.send(rt.A(), c30SendKind(rt.rng))
		if !rt.arrived(g1, s1) {
			rt.note("OnActivate gate on A not reached")
			return
		}
		// the next owner lookup on A (counted from the creation of this rule) is sender 2's
		r2, g2 := rt.gateRule(rt.A(), "GetGrain", true, 1)
		s2 := rt.send(rt.A(), c30SendKind(rt.rng))
		if !rt.arrived(g2, s2) {
			rt.note("gate after sender 2's send-time GetGrain on A not reached")
			return
		}
		sawA := rt.recordOwner() == rt.A()
		g1.Release()
		if !rt.wait(s1) {
			return
		}
		rolledBack := rt.until(func() bool { return rt.recordOwner() == -1 })
		b := rt.send(rt.B(), c30SendKind(rt.rng))
		if !rt.wait(b) {
			return
		}
		bActive := rt.activeOn(rt.B()) && rt.recordOwner() == rt.B()
		g2.Release()
		rt.wait(s2)
		_, failed, _ := rt.stats()
		rt.achieved = r2.Fired() && sawA && rolledBack && bActive && failed >= 1
	}},
	{"publish-fail-after-claim", 3, func(rt *c30RT) {
		// A claims and activates, then its registry publication (PutGrain) fails: rollback
		r, g := rt.gateRule(rt.A(), "PutGrain", false, 1)
		r.Err = c30ErrRegistry
		a := rt.send(rt.A(), c30SendKind(rt.rng))
		if !rt.arrived(g, a) {
			rt.note("gate before PutGrain on A not reached")
			return
		}
		// B's message is served by A's (already active, not yet published) instance
		b := rt.send(rt.B(), c30SendKind(rt.rng))
		if !rt.wait(b) {
			return
		}
		g.Release()
		rt.wait(a)
		c := rt.send(rt.C(), "ask")
		rt.wait(c)
		_, _, deacts := rt.stats()
		rt.achieved = r.Fired() && deacts >= 1
	}},
	{"rollback-remove-fail", 2, func(rt *c30RT) {
		// OnActivate fails on A and the rollback's RemoveGrain fails too: a stale record naming A stays
		rt.failOn(rt.A(), 1, "err")
		r := rt.rule(rt.A(), "RemoveGrain", false, 1)
		r.Err = c30ErrRegistry
		a := rt.send(rt.A(), c30SendKind(rt.rng))
		rt.wait(a)
		stale := rt.recordOwner() == rt.A()
		b := rt.send(rt.B(), "ask")
		c := rt.send(rt.C(), c30SendKind(rt.rng))
		rt.wait(b, c)
		rt.achieved = r.Fired() && stale
	}},
	{"republish-fail-on-active-owner", 2, func(rt *c30RT) {
		// the grain is active on A; a redundant activation request on A fails to re-publish
		a := rt.send(rt.A(), "tell")
		if !rt.wait(a) || !rt.activeOn(rt.A()) {
			return
		}
		r := rt.rule(rt.A(), "PutGrain", false, 1)
		r.Err = c30ErrRegistry
		a2 := rt.send(rt.A(), "identity")
		rt.wait(a2)
		b := rt.send(rt.B(), "ask")
		rt.wait(b)
		rt.achieved = r.Fired()
	}},
	{"deactivate-vs-send", 3, func(rt *c30RT) {
		// A deactivates (poison pill) and is held before its RemoveGrain; a send routed to A
		// arrives in that window; afterwards C sends
		a := rt.send(rt.A(), "tell")
		if !rt.wait(a) || !rt.activeOn(rt.A()) {
			return
		}
		r, g := rt.gateRule(rt.A(), "RemoveGrain", false, 1)
		p := rt.send(rt.A(), "poison")
		if !rt.arrived(g, p) {
			rt.note("gate before RemoveGrain on A not reached")
			return
		}
		b := rt.send(rt.B(), "ask")
		rt.until(func() bool { return b.Done() || rt.activeOn(rt.A()) })
		g.Release()
		rt.wait(p, b)
		rt.checkpoint("after-deactivation")
		c := rt.send(rt.C(), "ask")
		rt.wait(c)
		rt.achieved = r.Fired()
	}},
	{"stale-owner-remote-activate", 2, func(rt *c30RT) {
		// B resolves the owner (A) for an activation request and is held; A deactivates, C activates;
		// B then asks A to activate
		a := rt.send(rt.A(), "tell")
		if !rt.wait(a) || !rt.activeOn(rt.A()) {
			return
		}
		r, g := rt.gateRule(rt.B(), "GetGrain", true, 1)
		b := rt.send(rt.B(), "identity")
		if !rt.arrived(g, b) {
			rt.note("gate after GetGrain on B not reached")
			return
		}
		p := rt.send(rt.A(), "poison")
		if !rt.wait(p) {
			return
		}
		c := rt.send(rt.C(), "tell")
		if !rt.wait(c) {
			return
		}
		cActive := rt.activeOn(rt.C())
		g.Release()
		rt.wait(b)
		rt.achieved = r.Fired() && cActive
	}},
	{"lost-claim-owner-vanishes", 2, func(rt *c30RT) {
		// A loses the claim to B and is held before it reads the winner; B deactivates; A then finds
		// no owner, proceeds and is held in OnActivate while C claims and activates
		_, g1 := rt.gateRule(rt.A(), "GrainExists", true, 1)
		_, g2 := rt.gateRule(rt.A(), "GetGrain", false, 2)
		g3 := rt.actGate(rt.A())
		a := rt.send(rt.A(), "tell")
		if !rt.arrived(g1, a) {
			rt.note("gate after GrainExists on A not reached")
			return
		}
		b := rt.send(rt.B(), "tell")
		if !rt.wait(b) || !rt.activeOn(rt.B()) {
			return
		}
		g1.Release()
		if !rt.arrived(g2, a) {
			rt.note("gate before second GetGrain on A not reached")
			return
		}
		p := rt.send(rt.B(), "poison")
		if !rt.wait(p) {
			return
		}
		g2.Release()
		if !rt.arrived(g3, a) {
			rt.note("A did not start activating after losing the claim")
			g3.Release()
			rt.wait(a)
			return
		}
		c := rt.send(rt.C(), "tell")
		if !rt.wait(c) {
			return
		}
		cActive := rt.activeOn(rt.C())
		g3.Release()
		rt.wait(a)
		rt.achieved = cActive
	}},
	{"owner-republish-fails-remote-caller", 2, func(rt *c30RT) {
		// the grain is active on A; B requests activation (GrainIdentity) -> A re-publishes, which
		// fails (injected); B treats A as unreachable
		a := rt.send(rt.A(), "tell")
		if !rt.wait(a) || !rt.activeOn(rt.A()) {
			return
		}
		r := rt.rule(rt.A(), "PutGrain", false, 1)
		r.Err = c30ErrRegistry
		b := rt.send(rt.B(), "identity")
		rt.wait(b)
		rt.achieved = r.Fired()
	}},
	{"random-churn", 4, func(rt *c30RT) {
		// callers, activation failures, registry failures, explicit deactivation, passivation and a
		// cancelled caller, all at natural timing with random delays
		rt.noisePM, rt.noiseMax = 500, 3*time.Millisecond
		if rt.rng.Intn(3) == 0 {
			rt.failOn(rt.perm[rt.rng.Intn(3)], 1+rt.rng.Intn(2), []string{"err", "panic"}[rt.rng.Intn(2)])
		}
		if rt.rng.Intn(3) == 0 {
			r := rt.rule(-1, []string{"PutGrain", "RemoveGrain", "GetGrain", "GrainExists", "PutGrainIfAbsent"}[rt.rng.Intn(5)], false, 1+rt.rng.Intn(3))
			r.Err = c30ErrRegistry
		}
		if rt.rng.Intn(4) == 0 {
			rt.deactFail(rt.perm[rt.rng.Intn(3)])
		}
		var cs []*c30Call
		first := "tell"
		if rt.rng.Intn(3) == 0 {
			first = "identity-passivating"
		}
		cs = append(cs, rt.send(rt.perm[rt.rng.Intn(3)], first))
		waves := 2 + rt.rng.Intn(3)
		for w := 0; w < waves; w++ {
			time.Sleep(time.Duration(rt.rng.Intn(40)) * time.Millisecond)
			if hs := rt.st.holders(); len(hs) == 1 && rt.rng.Intn(2) == 0 {
				cs = append(cs, rt.send(hs[0], "poison"))
			}
			k := 1 + rt.rng.Intn(3)
			for i := 0; i < k; i++ {
				if rt.rng.Intn(8) == 0 {
					cs = append(cs, rt.sendCtx(rt.perm[rt.rng.Intn(3)], c30SendKind(rt.rng), time.Duration(1+rt.rng.Intn(20))*time.Millisecond))
				} else {
					cs = append(cs, rt.send(rt.perm[rt.rng.Intn(3)], c30Kinds(rt.rng)))
				}
			}
		}
		rt.wait(cs...)
		act, _, deacts := rt.stats()
		rt.achieved = deacts >= 1 && act >= 2
	}},
}

// c30ReplayRegistry replays the recorded operations on one key, in linearization order, against a
// key -> owner register with NX put, and returns the first recorded result the model disagrees
// with ("" when the history is a legal sequential history). This guards the oracle against the
// fake registry (or its log) misbehaving: a reported overlap must not be an artefact of the fake.
func c30ReplayRegistry(ops []vfcOp) (int, string) {
	owner := ""
	n := 0
	for _, o := range ops {
		if o.Injected || o.Out == "notrunning" {
			continue
		}
		n++
		want := ""
		switch o.Op {
		case "GrainExists":
			want = fmt.Sprint(owner != "")
		case "GetGrain":
			want = "notfound"
			if owner != "" {
				want = owner
			}
		case "PutGrainIfAbsent":
			if owner != "" {
				want = "exists " + owner
			} else {
				owner = strings.TrimPrefix(o.Out, "claimed ")
				want = "claimed " + owner
			}
		case "PutGrain":
			owner = strings.TrimPrefix(o.Out, "ok ")
			want = "ok " + owner
		case "RemoveGrain":
			want = "absent"
			if owner != "" {
				want = "removed " + owner
			}
			owner = ""
		default:
			continue
		}
		if want != o.Out {
			return n, fmt.Sprintf("operation %s: a sequential NX register would answer %q", o.String(), want)
		}
	}
	return n, ""
}

// ---- running a round and judging it -----------------------------------------------------------

type c30Finding struct {
	Sig    string
	Detail map[string]any
}

type c30Outcome struct {
	Scen       string
	Key        string
	Achieved   bool
	Stalled    string
	MaxLive    int
	Activated  int
	Failed     int
	Deacts     int
	Injected   int64
	GatesHit   int64
	Delays     int64
	Contended  int64
	RegOps     int
	Calls      []string
	CallErrs   int
	StaleRec   bool
	Findings   []c30Finding
	Notes      []string
	Unsettled  bool
	Millis     int64
	Replayed   int
	ReplayBad  string
}

// quiesce waits until no registry operation is in flight and the logical clock stands still.
func c30Quiesce(cl *vfcCluster) bool {
	deadline := time.Now().Add(c30GateWD)
	stable := 0
	last := int64(-1)
	for {
		now := vfcNow()
		if cl.Store.InFlight() == 0 && now == last {
			stable++
			if stable >= 4 {
				return true
			}
		} else {
			stable = 0
		}
		last = now
		if time.Now().After(deadline) {
			return false
		}
		time.Sleep(2 * time.Millisecond)
	}
}

// audit compares the holder of the live instance with the registry (settled state).
func (rt *c30RT) audit(when string) []c30Finding {
	if !c30Quiesce(rt.cl) {
		return nil
	}
	var out []c30Finding
	for try := 0; try < 3; try++ {
		out = nil
		t0 := vfcNow()
		hs := rt.st.holders()
		owner := rt.recordOwner()
		// the nodes' own tables, for the witness
		var tables []string
		for _, n := range rt.cl.Nodes {
			if p, ok := n.Sys.grains.Get(rt.key); ok {
				tables = append(tables, fmt.Sprintf("n%d: process present active=%v", n.Idx, p.isActive()))
			} else {
				tables = append(tables, fmt.Sprintf("n%d: no process", n.Idx))
			}
		}
		if len(hs) == 1 && owner != hs[0] {
			kind := "names-other-node"
			if owner == -1 {
				kind = "no-record"
			}
			out = append(out, c30Finding{
				Sig: fmt.Sprintf("settled-registry-mismatch:%s:%s", rt.scen, kind),
				Detail: map[string]any{"when": when, "holder": hs[0], "registry_owner_node": owner, "local_tables": tables,
					"events": rt.st.eventStrings(), "registry_ops": rt.cl.Store.OpStrings(rt.key), "logical_nodes_ABC": rt.perm},
			})
		}
		if len(out) == 0 {
			return nil
		}
		// report only a stable state: nothing moved while we looked, and it persists
		time.Sleep(20 * time.Millisecond)
		if !c30Quiesce(rt.cl) {
			return nil
		}
		if vfcNow() == t0 {
			return out
		}
	}
	return out
}

func (rt *c30RT) checkpoint(when string) {
	if f := rt.audit(when); len(f) > 0 {
		rt.note("checkpoint %s: %s", when, f[0].Sig)
		rt.cp = f
	}
}

var c30RoundCounter atomic.Int64

func c30RunRound(cl *vfcCluster, mon *c30Mon, scen c30Scenario, seed int64) c30Outcome {
	began := time.Now()
	rng := rand.New(rand.NewSource(seed))
	name := fmt.Sprintf("g%d-%d", time.Now().UnixNano()%1000000, c30RoundCounter.Add(1))
	rt := &c30RT{cl: cl, scen: scen.Name, name: name, rng: rng, perm: rng.Perm(3), nrng: rand.New(rand.NewSource(seed ^ 0x5bd1e995))}
	rt.key = rt.identity().String()
	rt.st = mon.state(rt.key)
	cl.Store.ResetLog()
	c30CurRound.Store(rt)

	scen.Run(rt)
	rt.releaseAll()
	// every caller must come back once nothing is held any more
	rt.cmu.Lock()
	calls := append([]*c30Call(nil), rt.calls...)
	rt.cmu.Unlock()
	rt.wait(calls...)

	out := c30Outcome{Scen: scen.Name, Key: rt.key, Achieved: rt.achieved, Stalled: rt.stalled}
	if rt.stalled == "" {
		if !c30Quiesce(cl) {
			out.Unsettled = true
		} else {
			out.Findings = append(out.Findings, rt.audit("end-of-round")...)
		}
	}
	if len(rt.cp) > 0 && len(out.Findings) == 0 {
		out.Findings = append(out.Findings, rt.cp...)
	}

	st := rt.st
	st.mu.Lock()
	out.MaxLive, out.Activated, out.Failed, out.Deacts = st.maxLive, st.activated, st.failed, st.deacts
	overlaps := append([]string(nil), st.overlaps...)
	same, cross := st.sameNode, st.crossNode
	st.mu.Unlock()
	out.Injected, out.GatesHit, out.Delays, out.Contended = rt.injected.Load(), rt.gatesHit.Load(), rt.delaysHit.Load(), rt.contended.Load()
	ops := cl.Store.OpStrings(rt.key)
	out.RegOps = len(ops)
	out.Replayed, out.ReplayBad = c30ReplayRegistry(cl.Store.OpsFor(rt.key))
	for _, c := range calls {
		if !c.Done() {
			out.Calls = append(out.Calls, fmt.Sprintf("n%d %s (still running)", c.Node, c.Kind))
			continue
		}
		out.Calls = append(out.Calls, c.String())
		if c.Err != nil {
			out.CallErrs++
		}
	}
	out.Notes = rt.notes
	if len(overlaps) > 0 {
		sig := "grain-overlap:" + scen.Name
		if same && !cross {
			sig = "grain-overlap-same-node:" + scen.Name
		}
		out.Findings = append([]c30Finding{{Sig: sig, Detail: map[string]any{
			"overlaps": overlaps, "max_live": out.MaxLive, "events": st.eventStrings(), "registry_ops": ops,
			"calls": out.Calls, "logical_nodes_ABC": rt.perm, "seed": seed, "notes": rt.notes,
		}}}, out.Findings...)
	}
	if hs := st.holders(); len(hs) == 0 && rt.recordOwner() != -1 {
		out.StaleRec = true
	}

	// clean up (not judged): deactivate what is still live, drop the record
	c30CurRound.Store(nil)
	for _, h := range st.holders() {
		ctx, cancel := context.WithTimeout(context.Background(), 20*time.Second)
		_ = cl.Nodes[h].Sys.TellGrain(ctx, rt.identity(), new(PoisonPill))
		cancel()
	}
	for _, n := range cl.Nodes {
		if p, ok := n.Sys.grains.Get(rt.key); ok && !p.isActive() {
			n.Sys.grains.Delete(rt.key)
		}
	}
	cl.Store.mu.Lock()
	delete(cl.Store.grains, rt.key)
	cl.Store.mu.Unlock()
	mon.drop(rt.key)
	out.Millis = time.Since(began).Milliseconds()
	return out
}
