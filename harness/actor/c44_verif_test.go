//go:build verif

package actor

import (
	"testing"
	"time"

	"github.com/tochemey/goakt/v4/internal/verifrt"
)

// TestVerif_C44: work-pulling hands every produced job to at least one worker,
// confirms it exactly once to the producer, and redelivers the jobs of a stopped
// worker, under worker churn and message faults.
func TestVerif_C44(t *testing.T) {
	r := verifrt.Start(t, "C44")
	defer r.Finish()
	r.Rule("case = one work-pulling producer endpoint with 40-150 uniquely identified jobs and a scripted worker set (0-3 initial workers, 2-9 join / graceful-stop / stop-while-holding-an-unconfirmed-job events keyed to confirmation progress, late join after an interval with no worker, at most 5 live), per-worker window in {1,2,3,4,8}, job dwell, and a seeded drop/duplicate/delay/late-duplicate fault script (budget 0-25) on all controller traffic of every per-worker sub-flow. Oracle = job ledger: a DeliveryConfirmed only for a job some worker confirmed, never twice for one job; a job's payload as produced; at the end every job handed to >= 1 worker and confirmed exactly once; bounded progress: with >= 1 live worker no window of 75 clean producer-controller ticks (and >= 37 ticks of every live worker) without progress, churn or fault activity - the stall is classified (never handed / job of a stopped worker not redelivered / confirmation lost / no credit). Half of the batches add schedule noise (delay at the yield point before tree.addNode's lock: start of a spawned actor vs its attachment to the tree). non-trivial = a worker was stopped while holding >= 1 job not yet confirmed to the producer, or faults were applied with >= 2 workers; distinct by knobs+seed. Handing a job to more than one worker is allowed and only counted")
	r.Assume("worker and producer endpoints follow the documented contract; a stopped worker is stopped through PID.Shutdown (graceful) - its controller is a child and stops with it")
	defer c42InstallHook()()
	// Odd batches run with one schedule-noise policy: a 0.3-3 ms delay at the
	// yield point in front of tree.addNode's lock, i.e. between the start of a
	// freshly spawned actor and its attachment to the actor tree. It is
	// process-wide, hence per batch; even batches run without noise.
	noisy := ""
	if r.Batch%2 == 1 {
		if sites, name := c44AttachSite(); len(sites) > 0 {
			verifrt.StartNoise(verifrt.NoiseConfig{Seed: r.BatchSeed(), HotSites: 1, Candidates: sites, HotPerMille: 1000,
				MinDelay: 300 * time.Microsecond, MaxDelay: 3 * time.Millisecond, Budget: 1 << 30})
			noisy = name
			defer func() {
				_, delays := verifrt.StopNoise()
				r.Count("spawn_attach_delays_injected", delays)
			}()
		} else {
			r.Note("spawn-attach yield site not found: this batch runs without schedule noise")
		}
	}
	rng := r.Rand(44)
	n := r.N(48, 1500)
	type cs struct {
		k    c44Knobs
		seed int64
	}
	cases := make([]cs, n)
	for i := range cases {
		cases[i] = cs{c44GenKnobs(rng), rng.Int63()}
	}
	samples := 3
	out := make(chan *c44Obs, n)
	sem := make(chan struct{}, 2)
	go func() {
		for i := range cases {
			sem <- struct{}{}
			go func(c cs) {
				sent := false
				defer func() {
					if !sent {
						out <- &c44Obs{Knobs: c.k.String(), Seed: c.seed, Inconclusive: "harness set-up failed (see test log)"}
					}
					<-sem
				}()
				o := c44RunCase(t, c.k, c.seed)
				sent = true
				out <- o
			}(cases[i])
		}
	}()
	for j := 0; j < n; j++ {
		o := <-out
		r.Case(o.Knobs+"/"+verifrt.Hash64s(o.Seed), o.HeldAtStop > 0 || (o.Faults > 0 && o.WorkersUsed >= 2))
		if o.Inconclusive != "" {
			r.Inconclusive("%s [%s seed=%d]", o.Inconclusive, o.Knobs, o.Seed)
		}
		for _, v := range o.Viols {
			r.Violation(v.Sig, v.Detail)
		}
		r.Count("protocol_messages_judged", o.ProtoMsgs)
		r.Count("faults_applied", o.Faults)
		for k, c := range o.FaultsByKind {
			r.Count("faults_"+k, c)
		}
		r.Count("jobs", int64(o.Jobs))
		r.Count("jobs_confirmed_to_producer", int64(o.Confirmed))
		r.Count("workers_joined", int64(o.WorkersUsed))
		r.Count("workers_stopped", int64(o.Stops))
		r.Count("workers_stopped_while_holding", int64(o.StopsHolding))
		r.Count("jobs_unconfirmed_at_their_workers_stop", int64(o.HeldAtStop))
		r.Count("jobs_redelivered_to_another_worker", int64(o.Redelivered))
		r.Count("jobs_handed_to_more_than_one_worker", int64(o.DupHanded))
		r.Count("producer_ticks", o.PCTicks)
		r.Count("producer_ticks_clean", o.CleanTicks)
		if o.Stalled {
			r.Count("cases_stalled", 1)
		}
		if noisy != "" {
			r.Count("cases_with_spawn_attach_noise", 1)
		}
		r.Count("registrations_before_controller_attached", int64(o.RegBeforeAttach))
		if samples > 0 {
			samples--
			r.Sample(map[string]any{"knobs": o.Knobs, "seed": o.Seed, "faults": o.FaultsByKind, "events": o.Events, "confirmed": o.Confirmed,
				"held_at_stop": o.HeldAtStop, "redelivered": o.Redelivered, "wall_ms": o.Wall.Milliseconds()})
		}
	}
	if c42HookPanics.Load() > 0 {
		r.Inconclusive("harness intercept hook panicked %d times: %v", c42HookPanics.Load(), c42HookPanic.Load())
	}
}
